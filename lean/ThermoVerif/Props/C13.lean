import ThermoVerif.Model.Links
import ThermoVerif.Lemmas.Links
/-
C13 — Copies are independent, links share what they advertise, pickles round-trip.

Statement (properties.jsonl): a copy of a stream has the same flows, phase(s), temperature and
pressure as the original and no later change to either is visible in the other; copying the
conditions of any stream onto any other makes all of those quantities equal.  A proxy shares all
flow and thermal data, a flow proxy shares flows only, linking shares exactly the selected parts,
and unlinking ends all sharing while preserving values.  Pickling and unpickling yields an object
with identical observable state, including price and characterization factors given at
construction.

The model is `ThermoVerif.Links` (Model/Links.lean): an explicit store of shareable objects;
Python `is` is equality of ids.  It is written to the behaviour with the patches of
fixes_proposed/C13-1 … C13-8 applied.  `World.observe` is what the property talks about
(phases, flows per phase as functions of the chemical, T, P, price, characterization factors,
ID, package); `World.fp` is the set of objects a stream refers to.
-/
namespace ThermoVerif.Props.C13
open ThermoVerif.Links

/-! ## Constructors keep their arguments -/

/-- The constructor stores the price, the characterization factors, the ID, the package, T, P,
the phase(s) and the flows it was given — the flows as `Args.row` says: kmol/hr as given, or converted
from `units=` (molar or mass units) and rescaled to `total_flow=` (see `ctor_units_total`). -/
theorem ctor_keeps_args (w : World) (a : Args) (w' : World) (i : Nat) (h : w.ctor a = .ok (w', i)) :
    (w'.observe i).price = a.price ∧ (w'.observe i).cf = a.cf ∧ (w'.observe i).sid = a.sid ∧
    (w'.observe i).pkg = a.pkg ∧ (w'.observe i).T = a.T ∧ (w'.observe i).P = a.P ∧
    (w'.observe i).phases = (if a.multi then normPh a.phases else [a.phases.headD .l]) ∧
    (w'.observe i).flows =
      (if a.multi then (List.range (normPh a.phases).length).map (fun k => a.row k)
       else [a.row 0]) := by
  have hf : a.flowsOk = true := by
    cases hf : a.flowsOk with
    | true => rfl
    | false => simp [World.ctor, hf] at h
  have hz : (a.rescales && a.given == 0) = false := by
    cases hz : (a.rescales && a.given == 0) with
    | false => rfl
    | true => simp [World.ctor, hf, hz] at h
  cases hm : a.multi with
  | true =>
    simp only [World.ctor, hf, hz, hm, Bool.not_true, Bool.false_eq_true, if_false, if_true, Except.ok.injEq,
      Prod.mk.injEq] at h
    obtain ⟨rfl, rfl⟩ := h
    simp [World.observe, World.pushStr, World.newImol, World.newArr, World.phasesOf, World.rowIdsOf,
      World.newTc, World.newCf]
  | false =>
    simp only [World.ctor, hf, hz, hm, Bool.not_true, Bool.false_eq_true, if_false, Except.ok.injEq,
      Prod.mk.injEq] at h
    obtain ⟨rfl, rfl⟩ := h
    simp [World.observe, World.pushStr, World.newImol, World.newRow, World.newPh, World.phasesOf,
      World.rowIdsOf, World.newTc, World.newCf]


/-- What `units=` and `total_flow=` do to a given value `v` of chemical `c` (with `Σ` the sum of all given
values): no units — `v`, rescaled by `total/Σ` when a non-zero total is given; molar units with factor `f`
— `v·(total/Σ)/f`; mass units — additionally divided by the molecular weight. -/
theorem ctor_units_total (a : Args) (k c : Nat) :
    (a.units = none → a.total = none → a.row k c = rowOf (a.flows.getD k []) c) ∧
    (∀ t, a.units = none → a.total = some t → t ≠ 0 →
      a.row k c = rowOf (a.flows.getD k []) c * (t / a.given)) ∧
    (a.units = none → a.total = some 0 → a.row k c = rowOf (a.flows.getD k []) c) ∧
    (∀ f, a.units = some (false, f) → a.total = none → a.row k c = rowOf (a.flows.getD k []) c / f) ∧
    (∀ f t, a.units = some (false, f) → a.total = some t → (t ≠ 0 ∨ a.multi = false) →
      a.row k c = rowOf (a.flows.getD k []) c * (t / a.given) / f) ∧
    (∀ f, a.units = some (false, f) → a.total = some 0 → a.multi = true →
      a.row k c = rowOf (a.flows.getD k []) c / f) ∧
    (∀ f t, a.units = some (true, f) → a.total = some t → (t ≠ 0 ∨ a.multi = false) →
      a.row k c = rowOf (a.flows.getD k []) c * (t / a.given) / f / a.mw c) := by
  refine ⟨?_, ?_, ?_, ?_, ?_, ?_, ?_⟩
  · intro h1 h2; simp [Args.row, h1, h2]
  · intro t h1 h2 h3; simp [Args.row, Args.rescales, h1, h2, h3]
  · intro h1 h2; simp [Args.row, Args.rescales, h1, h2]
  · intro f h1 h2; simp [Args.row, h1, h2]
  · intro f t h1 h2 h3
    rcases h3 with h3 | h3 <;> simp [Args.row, Args.rescales, h1, h2, h3]
  · intro f h1 h2 h3; simp [Args.row, Args.rescales, h1, h2, h3]
  · intro f t h1 h2 h3
    rcases h3 with h3 | h3 <;> simp [Args.row, Args.rescales, h1, h2, h3]

/-- The constructor is defined exactly when every given chemical is in the package and it does not have to
divide by a zero sum of the given values (`total_flow=` with all given flows zero raises
`ZeroDivisionError` in the code): then, and only then, the rescaling factor `t / a.given` of
`ctor_units_total` is a genuine quotient. -/
theorem ctor_defined_iff (w : World) (a : Args) :
    (∃ r, w.ctor a = .ok r) ↔ (a.flowsOk = true ∧ (a.rescales = true → a.given ≠ 0)) := by
  constructor
  · rintro ⟨r, h⟩
    have hf : a.flowsOk = true := by
      cases hf : a.flowsOk with
      | true => rfl
      | false => simp [World.ctor, hf] at h
    refine ⟨hf, fun hr hg => ?_⟩
    simp [World.ctor, hf, hr, hg] at h
  · rintro ⟨hf, hz⟩
    have hz' : (a.rescales && a.given == 0) = false := by
      cases hr : a.rescales with
      | false => simp
      | true => simpa using hz hr
    unfold World.ctor
    simp only [hf, hz', Bool.not_true, Bool.false_eq_true, if_false]
    split <;> exact ⟨_, rfl⟩

/-- `MultiStream.from_streams`: the new multi-phase stream has the sorted phases of the given single-phase
streams, its row objects are their row objects (so flows are equal and shared), its thermal-condition object
is the first stream's, and every given stream now holds that thermal-condition object too. -/
theorem from_streams_keeps (w : World) (base : Nat) (others : List Nat) (w' : World) (i : Nat)
    (h : w.fromStreams (base :: others) = .ok (w', i)) :
    i = w.nS ∧
    w'.phasesOf (w'.strs i).imol = normPh ((base :: others).map fun j => (w.phasesOf (w.strs j).imol).headD .l) ∧
    (w'.rowIdsOf (w'.strs i).imol =
      (normPh ((base :: others).map fun j => (w.phasesOf (w.strs j).imol).headD .l)).map fun p =>
        (w.rowIdsOf (w.strs ((base :: others).getD
          ((((base :: others).map fun j => (w.phasesOf (w.strs j).imol).headD .l).idxOf? p).getD 0) 0)).imol).headD 0) ∧
    (w'.strs i).tc = (w.strs base).tc ∧ w'.tcs = w.tcs ∧ w'.rows = w.rows ∧
    ((w'.observe i).T = (w.observe base).T ∧ (w'.observe i).P = (w.observe base).P) := by
  unfold World.fromStreams at h
  simp only at h
  split at h
  · cases h
  · split at h
    · cases h
    · have hfold : ∀ (l : List Nat) (w0 : World) (tc : Nat),
          (l.foldl (fun w i => w.setStr i { w.strs i with tc := tc }) w0).nS = w0.nS ∧
          (l.foldl (fun w i => w.setStr i { w.strs i with tc := tc }) w0).tcs = w0.tcs ∧
          (l.foldl (fun w i => w.setStr i { w.strs i with tc := tc }) w0).rows = w0.rows ∧
          (l.foldl (fun w i => w.setStr i { w.strs i with tc := tc }) w0).next = w0.next := by
        intro l
        induction l with
        | nil => intro w0 tc; simp
        | cons x xs ih => intro w0 tc; simpa using ih (w0.setStr x { w0.strs x with tc := tc }) tc
      obtain ⟨f1, f2, f3, f4⟩ := hfold others w (w.strs base).tc
      cases h
      refine ⟨by simp [f1], by simp [World.phasesOf, f1], ?_, by simp [f1], by simp [f2], by simp [f3], ?_⟩
      · simp [World.rowIdsOf, f1, f4]
      · simp [World.observe, f1, f2]

/-! ## Copies -/

/-- A copy has the same phase(s), flows, temperature and pressure as the original
(and the same kind, package; price 0, no characterization factors, no ID — as documented). -/
theorem copy_equal (w : World) (s : Nat) :
    ((w.copy s).1.observe (w.copy s).2).cond = (w.observe s).cond ∧
    (w.copy s).1.isMat ((w.copy s).1.strs (w.copy s).2).imol = w.isMat (w.strs s).imol ∧
    ((w.copy s).1.observe (w.copy s).2).pkg = (w.observe s).pkg := by
  have h := copyImol_spec (w.newCf []).1 (w.strs s).imol
  have hi : (w.copy s).2 = w.nS := (copy_fresh w s).1
  rw [hi]
  simp only [World.copy, World.observe, Obs.cond]
  have hp := h.phases
  have hf := h.flows
  have hm := h.isMat
  simp [World.phasesOf, World.rowIdsOf, World.isMat] at hp hf hm ⊢
  exact ⟨⟨hp, hf⟩, hm⟩

/-- `copy(thermo=package)`: when it succeeds the new stream has the phases, flows (as functions of
the chemical), T and P of the original and the package asked for; it fails exactly when the
original holds a chemical the package lacks (and is a plain copy for the stream's own package). -/
theorem copy_to_equal (w : World) (s pid : Nat) (pkg : List Nat) :
    (∀ w' i, w.copyTo s pid pkg = .ok (w', i) →
      (w'.observe i).cond = (w.observe s).cond ∧
      ((w.strs s).pkgId ≠ 2 * pid → (w'.observe i).pkg = pkg ∧ (w'.strs i).pkgId = 2 * pid)) ∧
    ((∃ e, w.copyTo s pid pkg = .error e) ↔
      ((w.strs s).pkgId ≠ 2 * pid ∧
        ¬ (w.rowIdsOf (w.strs s).imol).all (fun r => remapOk pkg (w.strs s).pkg (w.rows r)) = true)) := by
  have hce := (copy_equal w s).1
  constructor
  · intro w' i h
    unfold World.copyTo at h
    simp only at h
    split at h
    · next heq => cases h; exact ⟨hce, fun hne => absurd heq hne⟩
    · split at h
      · cases h
        refine ⟨?_, fun _ => ?_⟩
        · rw [← hce]
          simp [World.observe, Obs.cond, World.phasesOf, World.rowIdsOf]
        · simp [World.observe]
      · cases h
  · unfold World.copyTo
    simp only
    constructor
    · rintro ⟨e, h⟩
      split at h
      · cases h
      · next hne =>
        split at h
        · cases h
        · next hall => exact ⟨hne, hall⟩
    · rintro ⟨hne, hall⟩
      exact ⟨.undefinedChemical, by simp [hne, hall]⟩

/-- All objects of a copy are new: it shares nothing with any stream that existed, and the
originals are untouched. -/
theorem copy_fresh_and_frame (w : World) (s : Nat) (hsc : Scoped w) :
    (∀ x ∈ (w.copy s).1.fp (w.copy s).2, ∀ j, j < w.nS → x ∉ w.fp j) ∧
    (∀ j, j < w.nS → (w.copy s).1.fp j = w.fp j ∧ (w.copy s).1.observe j = w.observe j) := by
  obtain ⟨hi, _, hf⟩ := copy_fresh w s
  rw [hi]
  refine ⟨?_, ?_⟩
  · intro x hx j hj hxj
    have := hsc j hj x hxj
    have := (hf x hx).1
    omega
  · intro j hj
    exact frame_of_writes hsc (writes_copy w s) j hj (fun h => h) (fun _ _ h => h)

/-- Independence, for every later history: take any history of operations after the copy in which
every operation mentions either only the copy (and streams later derived from it) or only other
streams (label `true` = the copy's side).  Then the two sides never come to share an object, a
history acting only on the originals' side leaves the copy's observation unchanged, and a history
acting only on the copy's side leaves every original's observation unchanged. -/
theorem copy_independent (w : World) (s : Nat) (hsc : Scoped w) (hs : s < w.nS) (l : List (Op × Bool))
    (hone : OneSided (w.copy s).1 (fun i => i == w.nS) l) :
    Sep (runSided (w.copy s).1 (fun i => i == w.nS) l).1 (runSided (w.copy s).1 (fun i => i == w.nS) l).2 ∧
    ((∀ p ∈ l, p.2 = false) →
      (runSided (w.copy s).1 (fun i => i == w.nS) l).1.observe w.nS = (w.copy s).1.observe w.nS) ∧
    ((∀ p ∈ l, p.2 = true) → ∀ j, j < w.nS →
      (runSided (w.copy s).1 (fun i => i == w.nS) l).1.observe j = w.observe j) := by
  have hspec := spec_copy w s hsc hs
  have hsc' : Scoped (w.copy s).1 := fun j hj x hx => (hspec.closure j hj x hx).2
  obtain ⟨hi, hnS, hf⟩ := copy_fresh w s
  have hff := copy_fresh_and_frame w s hsc
  rw [hi] at hff
  have hsep : Sep (w.copy s).1 (fun i => i == w.nS) := by
    intro i j hi' hj' hne x hxi hxj
    rw [hnS] at hi' hj'
    by_cases hic : i = w.nS
    · subst hic
      have hjc : j < w.nS := by
        by_cases h : j = w.nS
        · subst h; simp at hne
        · omega
      rw [(hff.2 j hjc).1] at hxj
      exact hff.1 x hxi j hjc hxj
    · have hjc : j = w.nS := by
        by_cases h : j = w.nS
        · exact h
        · exact absurd ((beq_false_of_ne hic).trans (beq_false_of_ne h).symm) hne
      subst hjc
      have hio : i < w.nS := by omega
      rw [(hff.2 i hio).1] at hxi
      exact hff.1 x hxj i hio hxi
  obtain ⟨_, b, c⟩ := sep_run l (w.copy s).1 (fun i => i == w.nS) hsc' hsep hone
  refine ⟨b, ?_, ?_⟩
  · intro hall
    exact (c w.nS (by omega) (by intro p hp; simp [hall p hp])).2
  · intro hall j hj
    have hne : j ≠ w.nS := by omega
    rw [(c j (by omega) (by intro p hp; simp [hall p hp, hne])).2]
    exact (hff.2 j hj).2

/-! ## copy_like -/

/-- `target.copy_like(source)` over the whole kind × kind × package matrix (single ← single,
single ← one-phase multi, single ← multi, multi ← single incl. a phase the target lacks,
multi ← multi with equal / compatible / different phase tuples; same or other package — the
package only decides whether the call can raise `UndefinedChemical`): whenever the call
succeeds, for well-formed streams that share no flow data,

* T and P of the target are the source's,
* every phase of the source has arrived, with its flows (as functions of the chemical), in the
  target row that the phase lookup gives for it — the row with exactly that label if the target
  (after a possible extension of its phase tuple) has one, otherwise the label of the other case —
  and every other row of the target is empty,
* the target is well formed, and a single-phase target has exactly the phase tuple of the source. -/
theorem copy_like_equal (w : World) (t s : Nat) (w' : World) (hsc : Scoped w) (ht : t < w.nS) (hs : s < w.nS)
    (hwt : WFImol w (w.strs t).imol) (hws : WFImol w (w.strs s).imol) (hap : Apart w t s)
    (h : w.copyLike t s = .ok w') : CopyLikeResult w t s w' :=
  copyLike_result w t s w' hsc ht hs hwt hws hap h

/-- `copy_like` leaves its source as it was (same hypotheses; target and source different streams). -/
theorem copy_like_source_unchanged (w : World) (t s : Nat) (w' : World) (hsc : Scoped w) (ht : t < w.nS)
    (hs : s < w.nS) (hwt : WFImol w (w.strs t).imol) (hws : WFImol w (w.strs s).imol) (hap : Apart w t s)
    (hts : t ≠ s) (h : w.copyLike t s = .ok w') : w'.observe s = w.observe s :=
  copyLike_source w t s w' hsc ht hs hwt hws hap hts h

/-- `copy_like` copies values; it never makes the target refer to an object of the source: afterwards every
object of the target (indexer, phase container / array, rows, thermal condition, characterization factors) is
one the target referred to before or a new one.  So whatever target and source share afterwards they shared
before — for ANY two streams, linked or not (no `Apart` hypothesis). -/
theorem copy_like_no_new_sharing (w : World) (t s : Nat) (w' : World) (hsc : Scoped w) (ht : t < w.nS)
    (hs : s < w.nS) (h : w.copyLike t s = .ok w') :
    ∀ x ∈ w'.fp t, x ∈ w.fp t ∨ w.next ≤ x :=
  copyLike_target_fp w t s w' hsc ht hs h

/-- The exact label is used whenever the target has it. -/
theorem phase_lookup_exact (ps : List Ph) (p : Ph) (h : p ∈ ps) : phIdx ps p = ps.idxOf? p := by
  obtain ⟨i, hi⟩ := idxOf?_some_of_mem ps p h
  rw [phIdx_of_idxOf hi, hi]

/-- `copy_thermal_condition` copies T and P and nothing else. -/
theorem copy_tc (w : World) (t s : Nat) :
    ((w.copyTC t s).observe t).T = (w.observe s).T ∧ ((w.copyTC t s).observe t).P = (w.observe s).P ∧
    ((w.copyTC t s).observe t).phases = (w.observe t).phases ∧
    ((w.copyTC t s).observe t).flows = (w.observe t).flows := by
  simp [World.copyTC, World.tcCopyLike, World.observe, World.phasesOf, World.rowIdsOf]

/-! ## Proxies, links, unlink -/

/-- A proxy shares everything: the indexer object (so flows and phase), the thermal condition
and the characterization-factor dict are the very same objects; price and package are copied. -/
theorem proxy_shares_all (w : World) (s : Nat) :
    (w.proxy s).2 = w.nS ∧
    ((w.proxy s).1.strs w.nS).imol = (w.strs s).imol ∧ ((w.proxy s).1.strs w.nS).tc = (w.strs s).tc ∧
    ((w.proxy s).1.strs w.nS).cf = (w.strs s).cf ∧ (w.proxy s).1.fp w.nS = w.fp s ∧
    ((w.proxy s).1.observe w.nS).cond = (w.observe s).cond ∧
    ((w.proxy s).1.observe w.nS).price = (w.observe s).price := by
  simp [World.proxy, World.fp, World.fpImol, World.observe, Obs.cond, World.phasesOf, World.rowIdsOf]

/-- A flow proxy shares the flow data (the row objects — for a multi-phase stream the array
object) and nothing else: its indexer, phase container, thermal condition and
characterization-factor dict are new objects holding equal values. -/
theorem flow_proxy_shares_flows_only (w : World) (s : Nat) :
    (w.flowProxy s).1.rowIdsOf ((w.flowProxy s).1.strs w.nS).imol = w.rowIdsOf (w.strs s).imol ∧
    w.next ≤ ((w.flowProxy s).1.strs w.nS).imol ∧ w.next ≤ ((w.flowProxy s).1.strs w.nS).tc ∧
    w.next ≤ ((w.flowProxy s).1.strs w.nS).cf ∧
    (∀ ph r, (w.flowProxy s).1.imols ((w.flowProxy s).1.strs w.nS).imol = .chem ph r → w.next ≤ ph) ∧
    ((w.flowProxy s).1.observe w.nS).cond = (w.observe s).cond := by
  simp only [World.flowProxy]
  cases hm : w.imols (w.strs s).imol with
  | chem ph r =>
    simp [World.rowIdsOf, World.observe, Obs.cond, World.phasesOf, hm]
    omega
  | mat ps a =>
    simp [World.rowIdsOf, World.observe, Obs.cond, World.phasesOf, hm]
    omega

/-- `link_with(flow, phase, TP)` between two single-phase streams shares exactly the selected
parts: afterwards the target's row / phase container / thermal condition is the source's object
if the flag is set and is the target's previous object otherwise.  The source is not modified. -/
theorem link_shares_exactly_single (w : World) (t s : Nat) (f p tp : Bool) (w' : World)
    (tph trow sph srow : Nat) (hmt : w.imols (w.strs t).imol = .chem tph trow)
    (hms : w.imols (w.strs s).imol = .chem sph srow) (h : w.link t s f p tp = .ok w') :
    w'.imols (w'.strs t).imol = .chem (if p then sph else tph) (if f then srow else trow) ∧
    (w'.strs t).tc = (if tp then (w.strs s).tc else (w.strs t).tc) ∧
    (w'.strs t).imol = (w.strs t).imol ∧ (w'.strs t).cf = (w.strs t).cf ∧
    w'.rows = w.rows ∧ w'.phs = w.phs ∧ w'.tcs = w.tcs ∧ w'.cfs = w.cfs ∧
    (t ≠ s → w'.strs s = w.strs s) := by
  unfold World.link at h
  simp only [hmt, hms] at h
  split at h
  · cases h
  · cases h
    cases tp <;> simp [upd]
    intro hts; simp [Ne.symm hts] 

/-- The same for two multi-phase streams (the `phase` flag has no effect: a multi-phase stream has
no phase container): the array object is the source's if `flow` is set, else unchanged. -/
theorem link_shares_exactly_multi (w : World) (t s : Nat) (f p tp : Bool) (w' : World)
    (ps qs : List Ph) (ta sa : Nat) (hmt : w.imols (w.strs t).imol = .mat ps ta)
    (hms : w.imols (w.strs s).imol = .mat qs sa) (h : w.link t s f p tp = .ok w') :
    w'.imols (w'.strs t).imol = .mat ps (if f then sa else ta) ∧
    (w'.strs t).tc = (if tp then (w.strs s).tc else (w.strs t).tc) ∧
    (w'.strs t).imol = (w.strs t).imol ∧ (w'.strs t).cf = (w.strs t).cf ∧
    w'.rows = w.rows ∧ w'.arrs = w.arrs ∧ w'.tcs = w.tcs ∧ w'.cfs = w.cfs ∧
    (f = true → ps = qs) ∧ (t ≠ s → w'.strs s = w.strs s) := by
  unfold World.link at h
  simp only [hmt, hms] at h
  split at h
  · cases h
  · rename_i hdom
    cases h
    simp at hdom
    cases tp <;> simp [upd]
    · exact hdom.2
    · exact ⟨hdom.2, fun hts => by simp [Ne.symm hts]⟩

/-- Streams of different kinds cannot be linked (the call raises). -/
theorem link_kinds (w : World) (t s : Nat) (f p tp : Bool) (w' : World) (h : w.link t s f p tp = .ok w') :
    w.isMat (w.strs t).imol = w.isMat (w.strs s).imol := by
  unfold World.link at h
  cases hmt : w.imols (w.strs t).imol <;> cases hms : w.imols (w.strs s).imol <;>
    simp [hmt, hms, World.isMat] at h ⊢

/-- `unlink` preserves every observable value of the stream and ends all sharing: afterwards the
stream's indexer, phase container, rows (array), thermal condition and characterization-factor dict are
all new objects, so (with `Scoped`) no other stream refers to any object of the stream.
No other stream changes.  (Behaviour with fix C13-13: `unlink` also takes a private copy of the
characterization-factor dict, which a proxy shares with its original.) -/
theorem unlink_preserves_and_separates (w : World) (s : Nat) (hsc : Scoped w) (hs : s < w.nS) :
    (w.unlink s).observe s = w.observe s ∧
    (∀ x ∈ (w.unlink s).fp s, ∀ j, j < w.nS → j ≠ s → x ∉ (w.unlink s).fp j) ∧
    (∀ j, j < w.nS → j ≠ s → (w.unlink s).fp j = w.fp j ∧ (w.unlink s).observe j = w.observe j) := by
  have hframe : ∀ j, j < w.nS → j ≠ s → (w.unlink s).fp j = w.fp j ∧ (w.unlink s).observe j = w.observe j :=
    fun j hj hne => frame_of_writes hsc (writes_unlink w s) j hj hne (fun _ _ h => h)
  refine ⟨?_, ?_, hframe⟩
  · have h := copyImol_spec w (w.strs s).imol
    have hp := h.phases
    have hf := h.flows
    simp only [World.unlink, World.observe]
    simp [World.phasesOf, World.rowIdsOf] at hp hf ⊢
    exact ⟨hp, hf⟩
  · intro x hx j hj hne hxj
    have h := unlink_fresh w s x hx
    rw [(hframe j hj hne).1] at hxj
    have := hsc j hj x hxj
    omega

/-! ## Pickling -/

/-- well-formedness of a stream: a multi-phase indexer has a sorted duplicate-free phase tuple and
one row per phase -/
def WFStream (w : World) (i : Nat) : Prop :=
  match w.imols (w.strs i).imol with
  | .chem .. => True
  | .mat ps a => normPh ps = ps ∧ (w.arrs a).length = ps.length

/-- `pickle.loads(pickle.dumps(s))` (that is `rebuild (pickleArgs s)`) has the same observable
state as `s`: phases, flows, T, P, price, characterization factors, ID and package. -/
theorem pickle_roundtrip (w : World) (s : Nat) (hwf : WFStream w s) :
    (w.pickle s).2 = w.nS ∧ (w.pickle s).1.observe w.nS = w.observe s := by
  obtain ⟨_, h2, _, _, h5⟩ := rebuild_spec w (w.pickleArgs s)
  refine ⟨h2, ?_⟩
  have hp : (w.pickleArgs s).wf := by
    unfold WFStream at hwf
    simp only [PArgs.wf, World.pickleArgs, World.getData, World.phasesOf, World.rowIdsOf]
    cases hm : w.imols (w.strs s).imol with
    | chem ph r => simp
    | mat ps a =>
      rw [hm] at hwf
      simp [hwf.2, hwf.1]
  rw [World.pickle, h5 hp]
  simp [World.pickleArgs, World.getData, World.observe]

/-- The unpickled stream shares no object with any existing stream, and unpickling changes nothing. -/
theorem pickle_fresh_and_frame (w : World) (s : Nat) (hsc : Scoped w) :
    (∀ x ∈ (w.pickle s).1.fp w.nS, ∀ j, j < w.nS → x ∉ w.fp j) ∧
    (∀ j, j < w.nS → (w.pickle s).1.fp j = w.fp j ∧ (w.pickle s).1.observe j = w.observe j) := by
  obtain ⟨h1, _, _, h4, _⟩ := rebuild_spec w (w.pickleArgs s)
  refine ⟨?_, ?_⟩
  · intro x hx j hj hxj
    have := hsc j hj x hxj
    have := (h4 x hx).1
    omega
  · intro j hj
    exact frame_of_writes hsc h1 j hj (fun h => h) (fun _ _ h => h)

/-! Pickling of `Reaction`, `ParallelReaction`, `SeriesReaction`, `ReactionSystem`, `Chemical`, `Thermo` and
`CompiledChemicals` is decided by the oracle on real round trips (observable state before / after, also across
sessions with another default package), not by proof: the slot-wise facts about `getState` / `newFromState` /
`chemGetData` / `CChems.rebuild` are bookkeeping lemmas in `Lemmas/Links.lean` (they say nothing about which
slots the real `__reduce__` methods carry). -/

/-! ## Frame and histories -/

/-- Every stream of every reachable world refers to allocated objects only. -/
theorem reachable_scoped (ops : List Op) : Scoped (World.init.run ops) :=
  scoped_run ops World.init scoped_init

/-- Every stream of every reachable world is well formed (sorted duplicate-free phase tuple, one
distinct row object per phase): the well-formedness hypotheses of `copy_like_equal` and
`pickle_roundtrip` hold along every history. -/
theorem reachable_wf (ops : List Op) : WFAll (World.init.run ops) :=
  wfAll_run ops World.init scoped_init wfAll_init

/-- Pickling round-trips for every stream of every reachable world. -/
theorem pickle_roundtrip_reachable (ops : List Op) (s : Nat) (hs : s < (World.init.run ops).nS) :
    ((World.init.run ops).pickle s).1.observe (World.init.run ops).nS = (World.init.run ops).observe s := by
  apply (pickle_roundtrip _ s _).2
  have := reachable_wf ops s hs
  unfold WFImol at this
  unfold WFStream
  cases hm : (World.init.run ops).imols ((World.init.run ops).strs s).imol with
  | chem ph r => trivial
  | mat ps a => rw [hm] at this; exact ⟨this.1, this.2.1⟩

/-- `copy_like` makes the conditions equal for every pair of streams of every reachable world that
share no flow data (the remaining hypothesis is the absence of links between the two). -/
theorem copy_like_equal_reachable (ops : List Op) (t s : Nat) (w' : World)
    (ht : t < (World.init.run ops).nS) (hs : s < (World.init.run ops).nS)
    (hap : Apart (World.init.run ops) t s) (h : (World.init.run ops).copyLike t s = .ok w') :
    CopyLikeResult (World.init.run ops) t s w' :=
  copy_like_equal _ t s w' (reachable_scoped ops) ht hs (reachable_wf ops t ht) (reachable_wf ops s hs) hap h

/-- No operation changes a stream it does not mention and that shares no object with the
streams it mentions ("no later change is visible" at the level of one operation). -/
theorem frame (w : World) (op : Op) (w' : World) (hsc : Scoped w) (h : w.step op = .ok w')
    (j : Nat) (hj : j < w.nS) (hni : j ∉ op.ids) (hd : ∀ i ∈ op.ids, ∀ x ∈ w.fp j, x ∉ w.fp i) :
    w'.observe j = w.observe j :=
  (frame_step w op w' hsc h j hj hni hd).2

/-- Two groups of streams that share no object stay that way along every history whose operations
each mention one group only, and neither group sees the operations of the other. -/
theorem separation_history (l : List (Op × Bool)) (w : World) (σ : Nat → Bool) (hsc : Scoped w)
    (hsep : Sep w σ) (hone : OneSided w σ l) :
    Sep (runSided w σ l).1 (runSided w σ l).2 ∧
    ∀ j, j < w.nS → (∀ p ∈ l, p.2 ≠ σ j) → (runSided w σ l).1.observe j = w.observe j :=
  ⟨(sep_run l w σ hsc hsep hone).2.1, fun j hj hall => ((sep_run l w σ hsc hsep hone).2.2 j hj hall).2⟩


/-! ## Phase views -/

/-- Phase views follow their stream: after every operation of every history — constructors,
mutators, `copy`, `copy(thermo=)`, `copy_like` (including the growth of the phase tuple and the
change single-phase → multi-phase), `link_with`, `unlink`, `proxy`, `flow_proxy`, pickling, and
taking views `ms[p]` — each view a stream has handed out is bound to that stream's *current* row
object for its phase and to its *current* thermal-condition object (and streams created by an
operation have handed out none).  The one situation left out is an explicit hypothesis:
`NoAliasRelink` — no operation of the history flow-links a stream while a proxy partner of it
(another stream object holding the same indexer object) has handed out views. -/
theorem views_follow_parent (l : List VOp) (hno : NoAliasRelink VWorld.init l) :
    ∀ i, i < (VWorld.init.run l).w.nS → ∀ e ∈ (VWorld.init.run l).vdict i,
      (VWorld.init.run l).w.rowOfPhase i e.1 = some e.2.1 ∧ e.2.2 = ((VWorld.init.run l).w.strs i).tc :=
  (vinv_run l VWorld.init scoped_init wfAll_init vinv_init hno).1.1

/-- One operation keeps the views attached, from any state in which they are (so the clause also
holds from states that were not reached from the empty world). -/
theorem views_follow_parent_step (vw : VWorld) (op : VOp) (vw' : VWorld) (hsc : Scoped vw.w) (hwf : WFAll vw.w)
    (hinv : VInv vw) (hna : ¬ AliasRelink vw op) (h : vw.step op = .ok vw') : VInv vw' :=
  vinv_step vw op vw' hsc hwf hinv hna h

/-! ## Non-vacuity: the hypotheses above are met by concrete, non-trivial states -/

instance decWF (w : World) (im : Nat) : Decidable (WFImol w im) :=
  match h : w.imols im with
  | .chem .. => isTrue (by simp [WFImol, h])
  | .mat ps a =>
    decidable_of_iff (normPh ps = ps ∧ (w.arrs a).length = ps.length ∧ (w.arrs a).Nodup) (by simp [WFImol, h])

instance decWFStream (w : World) (i : Nat) : Decidable (WFStream w i) :=
  match h : w.imols (w.strs i).imol with
  | .chem .. => isTrue (by simp [WFStream, h])
  | .mat ps a => decidable_of_iff (normPh ps = ps ∧ (w.arrs a).length = ps.length) (by simp [WFStream, h])

instance decOneSided : ∀ (l : List (Op × Bool)) (w : World) (σ : Nat → Bool), Decidable (OneSided w σ l)
  | [], _, _ => isTrue trivial
  | (op, X) :: rest, w, σ =>
    match h : w.step op with
    | .ok w' =>
      have := decOneSided rest w' (sideStep w σ X)
      decidable_of_iff ((∀ i ∈ op.ids, σ i = X) ∧ OneSided w' (sideStep w σ X) rest) (by simp [OneSided, h])
    | .skip =>
      have := decOneSided rest w σ
      decidable_of_iff ((∀ i ∈ op.ids, σ i = X) ∧ OneSided w σ rest) (by simp [OneSided, h])
    | .err _ => decidable_of_iff (∀ i ∈ op.ids, σ i = X) (by simp [OneSided, h])

/-- two streams: a single-phase solid one with price and a characterization factor, a multi-phase one over (g, l)
of another package -/
def exOps : List Op :=
  [ .new { multi := false, sid := some 1, pkg := [1, 2, 3], pkgId := 0, phases := [.s], flows := [[(1, 1), (3, 1/2)]],
           T := 300, P := 101325, price := 1/2, cf := [(1, 2)] },
    .new { multi := true, sid := none, pkg := [3, 1], pkgId := 1, phases := [.g, .l], flows := [[(1, 2)], [(3, 5)]],
           T := 350, P := 200000, price := 0, cf := [] } ]

def exW : World := World.init.run exOps

theorem exW_apart (t s : Nat) (h : (t = 0 ∧ s = 1) ∨ (t = 1 ∧ s = 0)) : Apart exW t s := by
  rcases h with ⟨rfl, rfl⟩ | ⟨rfl, rfl⟩
  · refine ⟨by decide, by decide, ?_⟩
    intro ps a qs b h1 h2
    have : exW.imols (exW.strs 0).imol = .chem 2 3 := by decide
    rw [this] at h1; cases h1
  · refine ⟨by decide, by decide, ?_⟩
    intro ps a qs b h1 h2
    have : exW.imols (exW.strs 0).imol = .chem 2 3 := by decide
    rw [this] at h2; cases h2

/-- Non-vacuity of `copy_like_equal`: single ← multi (the target's phase 's' is not among the source's)
and multi ← single (the source's phase 's' is not among the target's), different packages. -/
example : ∃ w', exW.copyLike 0 1 = .ok w' ∧ Scoped exW ∧ WFImol exW (exW.strs 0).imol ∧
    WFImol exW (exW.strs 1).imol ∧ Apart exW 0 1 :=
  ⟨_, rfl, reachable_scoped exOps, by decide, by decide, exW_apart 0 1 (Or.inl ⟨rfl, rfl⟩)⟩

example : (match exW.copyLike 1 0 with
    | .ok w' => decide ((w'.observe 1).phases = [.g, .l, .s] ∧ (w'.observe 1).T = 300)
    | _ => false) = true ∧ WFImol exW (exW.strs 1).imol ∧ Apart exW 1 0 :=
  ⟨by decide +kernel, by decide, exW_apart 1 0 (Or.inr ⟨rfl, rfl⟩)⟩

/-- Non-vacuity of `copy_independent`: a history that edits the copy, links a proxy of the copy to it, and edits
and re-phases the originals, is one-sided. -/
example : OneSided (exW.copy 1).1 (fun i => i == 2)
    [(.setT 2 400, true), (.setFlow 0 .s 1 7, false), (.proxy 2, true), (.link 3 2 true false true, true),
     (.copyLike 0 1, false), (.setPhase 2 .l, true), (.unlink 1, false)] := by decide

/-- Non-vacuity of `pickle_roundtrip` -/
example : WFStream exW 0 ∧ WFStream exW 1 := by decide


instance decAliasRelink (vw : VWorld) (op : VOp) : Decidable (AliasRelink vw op) := by
  cases op with
  | view i p => exact isFalse (by simp [AliasRelink])
  | op o =>
    cases o with
    | link t s f p tp => simp only [AliasRelink]; exact inferInstance
    | _ => exact isFalse (by simp [AliasRelink])

instance decNoAliasRelink : ∀ (l : List VOp) (vw : VWorld), Decidable (NoAliasRelink vw l)
  | [], _ => isTrue trivial
  | op :: rest, vw =>
    match h : vw.step op with
    | .ok vw' =>
      have := decNoAliasRelink rest vw'
      decidable_of_iff (¬ AliasRelink vw op ∧ NoAliasRelink vw' rest) (by simp [NoAliasRelink, h])
    | .skip =>
      have := decNoAliasRelink rest vw
      decidable_of_iff (¬ AliasRelink vw op ∧ NoAliasRelink vw rest) (by simp [NoAliasRelink, h])
    | .err _ => decidable_of_iff (¬ AliasRelink vw op) (by simp [NoAliasRelink, h])

/-- Non-vacuity of `views_follow_parent`: views are taken, the stream is linked (flows and T/P), unlinked,
grown by `copy_like` from a solid stream, proxied, the proxy takes its own view and is unlinked. -/
example : NoAliasRelink VWorld.init
    ((exOps.map VOp.op) ++
     [ .op (.new { multi := true, sid := none, pkg := [3, 1], pkgId := 1, phases := [.g, .l], flows := [[], [(1, 9)]],
                   T := 400, P := 100000, price := 0, cf := [] }),
       .view 1 .l, .view 1 .g, .op (.link 1 2 true true true), .op (.setFlow 2 .l 1 4), .op (.unlink 1),
       .op (.copyLike 1 0), .view 1 .s, .op (.proxy 1), .view 3 .l, .op (.unlink 3), .op (.link 1 2 false false true) ]) ∧
    ((VWorld.init.run ((exOps.map VOp.op) ++
     [ .op (.new { multi := true, sid := none, pkg := [3, 1], pkgId := 1, phases := [.g, .l], flows := [[], [(1, 9)]],
                   T := 400, P := 100000, price := 0, cf := [] }),
       .view 1 .l, .view 1 .g, .op (.link 1 2 true true true), .op (.setFlow 2 .l 1 4), .op (.unlink 1),
       .op (.copyLike 1 0), .view 1 .s, .op (.proxy 1), .view 3 .l, .op (.unlink 3),
       .op (.link 1 2 false false true) ])).vdict 1).length = 3 := by
  constructor <;> decide +kernel

end ThermoVerif.Props.C13
