import ThermoVerif.Lemmas.C10Facts
/-
C10 — name-keyed flow access equals positional access, whatever the lookup history.

Model: `Model/Chemicals.lean` (name table, `set_alias`, `define_group`, `_compile`),
`Model/Indexer.lean` (key normalisation and resolution, phases, dense read/write for the four
index kinds), `Model/IndexCache.lean` (the two bounded memo dictionaries, the world of
chemicals objects / indexers sharing them, operation histories, and the memo-free
specification `PWorld`).  The model is written to the fixed behaviour of
fixes_proposed/C10-1 … C10-4.

Main results
* `cache_transparent`, `cache_transparent_from`, `step_sim`, `lookup_eq_resolve` — for every
  history of any length the memoising world answers exactly like the memo-free specification;
  invariant `Inv`: every memoised pair `(k, v)` satisfies `resolve chem k = ok v`, preserved by
  every operation including eviction (`evict1`), trimming (`trim`), `index_overlap` insertions
  and alias / group definitions.
* `get_positional_name/_tuple` — what a resolved key reads.  (The ellipsis / phase forms and "lists are tuples" hold by
  definition of the model — its flow data are dense rows — and are kept as facts in `Lemmas/C10Facts.lean`; the real
  sparse-dictionary read paths are tied to these definitions by correspondence and the oracle, not by proof.
  `getAt` is total (0 beyond the row); `set_frame` therefore also states that the row keeps its length.)
* The per-operation simulation lemmas `step_*` are in `Lemmas/C10Steps.lean`.  The theorems do not depend on eviction order
  or on the limits 100 / 500: those are unobservable by the property.
* `set_frame`, `set_get_one/_arr_vec/_arr_scalar/_all/_grp_vec/_nested_vec`, `set_group_scalar`,
  `setM_phase_row` — what a write changes and what reads back.
* `alias_unique` — the table after `compile`.
* `phase_lookup` (general) and `phase_lookup_table` (complete 32 × 5 table, by evaluation).
* `lookup_bounded`, `trim_bounded` — one-step bounds: a memo within its limit before a lookup / insertion is within it after.
* `group_scalar_after_define` derives the hypotheses of `set_group_scalar` from `Chem.defineGroup` (lemma `defineGroup_spec`:
  index = positions of the IDs in the given order, composition aligned with it and summing to 1 when the total is not 0);
  `setM_allphase_frame` is the frame statement for `(..., IDs)` writes of a scalar.
* `names_never_move` (+ `_spec`, `step_chems`) — for every history a name of a chemical keeps its position
  (needs the rejection rule of fixes_proposed/C10-5); `set_fail_frame`, `setSplit_frame`,
  `setSplit_grp_scalar`, `deep_key_rejected`, `expandRows_get`.
* The operations covered by `cache_transparent` include `chemicals.array/split`, `by_mass()` views,
  `SplitIndexer`s and cross-package transfers between multi-phase indexers with phase growth.
-/
namespace ThermoVerif.Props.C10
open ThermoVerif.Chemicals ThermoVerif.Indexer ThermoVerif.IndexCache

/-- One step of the memoising world is one step of the memo-free specification: same
answer, same tables and data afterwards, and every memoised pair is still correct. -/
theorem step_sim (w : World) (h : Inv w) (op : Op) :
    (w.step op).2 = (w.obs.step op).2 ∧ (w.step op).1.obs = (w.obs.step op).1 ∧ Inv (w.step op).1 := by
  cases op with
  | compile specs => exact step_compile w h specs
  | alias c id a => exact step_alias w h c id a
  | group c name ids comp wt => exact step_group w h c name ids comp wt
  | array c split key d => exact step_array w h c split key d
  | getMass i key => exact step_getMass w h i key
  | setMass i key d => exact step_setMass w h i key d
  | newChemIx c ph => exact step_newChemIx w h c ph
  | newMatIx c ps => exact step_newMatIx w h c ps
  | newSplitIx c => exact step_newSplitIx w h c
  | get i key => exact step_get w h i key
  | set i key d => exact step_set w h i key d
  | resetChem i c' => exact step_resetChem w h i c'
  | copyIx i => exact step_copyIx w h i
  | getIndex c key => exact step_getIndex w h c key
  | copyLike l r => exact step_transfer w h l r false
  | mixFrom l r => exact step_transfer w h l r true

/-- **cache_transparent.**  For every history (lookups and writes through any key form,
`index_overlap` insertions, alias and group definitions, new chemicals objects and
indexers) of any length, from any state whose memo dictionaries are correct, the
memoising implementation gives exactly the answers of the memo-free specification, in
which every lookup is `resolveC` / `resolveM` of the current tables. -/
theorem cache_transparent_from (ops : List Op) : ∀ (w : World), Inv w →
    (w.run ops).2 = (w.obs.run ops).2 ∧ (w.run ops).1.obs = (w.obs.run ops).1 ∧ Inv (w.run ops).1 := by
  induction ops with
  | nil => intro w h; exact ⟨rfl, rfl, h⟩
  | cons op t ih =>
    intro w h
    obtain ⟨s1, s2, s3⟩ := step_sim w h op
    obtain ⟨r1, r2, r3⟩ := ih (w.step op).1 s3
    simp only [World.run, PWorld.run]
    rw [s1, r1, r2, s2]
    exact ⟨rfl, rfl, r3⟩

theorem cache_transparent (ops : List Op) :
    ((World.run {} ops).2 = (PWorld.run {} ops).2) ∧ Inv (World.run {} ops).1 := by
  obtain ⟨h1, _, h3⟩ := cache_transparent_from ops {} inv_init
  exact ⟨h1, h3⟩

/-- **Every lookup returns exactly `resolve chem key`.**  After any history whatsoever, the
answer of `indexer[key]` is the un-memoised resolution of the key against the *current*
tables, applied to the *current* data. -/
theorem lookup_eq_resolve (ops : List Op) (i : Nat) (key : PyKey) :
    ((World.run {} ops).1.step (.get i key)).2 =
      match (World.run {} ops).1.ixs[i]? with
      | none => .err .indexError
      | some ix =>
        match (World.run {} ops).1.chems[ix.chem]? with
        | none => .err .indexError
        | some s =>
          match resolveIxP s.chem ix.phases key with
          | .error e => .err e
          | .ok (v, _) => .val (readIx ix v) := by
  generalize hw : (World.run {} ops).1 = w
  have hinv : Inv w := hw ▸ (cache_transparent ops).2
  rw [(step_sim w hinv (.get i key)).1]
  simp only [PWorld.step, obs_chems_get]
  have hix : w.obs.ixs = w.ixs := rfl
  rw [hix]
  cases w.ixs[i]? with
  | none => rfl
  | some ix =>
    simp only
    cases w.chems[ix.chem]? with
    | none => rfl
    | some s =>
      simp only [Option.map_some]
      cases resolveIxP s.chem ix.phases key with
      | error e => rfl
      | ok v => rfl

/-! ### Non-vacuity: a concrete history (memo hits included) and its answers -/

def exSpecs : List Spec :=
  [⟨"Water", "7732-18-5", ["H2O", "water"], 18⟩, ⟨"Ethanol", "64-17-5", ["C2H6O", "ethanol"], 46⟩,
   ⟨"DME", "115-10-6", ["C2H6O", "ether"], 46⟩]

def exHistory : List Op :=
  [.compile exSpecs, .group 0 "Alc" ["Ethanol", "DME"] (some [1, 3]) false, .newChemIx 0 'l', .newMatIx 0 ['l', 'g'],
   .set 0 (.leaf .ell) (.vec [1, 2, 4]), .get 0 (.leaf (.str "Alc")), .get 0 (.leaf (.str "Alc")),
   .set 0 (.leaf (.str "Alc")) (.scalar 8), .get 0 (.tup [.leaf (.str "H2O"), .leaf (.str "Alc")]),
   .set 1 (.tup [.leaf (.str "l"), .leaf .ell]) (.vec [1, 2, 4]),
   .get 1 (.lst [.leaf (.str "L"), .lst [.str "water", .str "Alc"]]),
   .get 1 (.leaf (.str "C2H6O"))]

/-- the answers of the example history (second `Alc` lookup is a memo hit; the group write
distributes 8 as 2 + 6; `C2H6O` is claimed by two chemicals and therefore undefined) -/
example : (World.run {} exHistory).2.drop 4 =
    [.data [[1, 2, 4]], .val (.scalar 6), .val (.scalar 6), .data [[1, 2, 6]], .val (.vec [1, 8]),
     .data [[0, 0, 0], [1, 2, 4]], .val (.vec [1, 6]), .err .undefinedAlias] := by decide +kernel

/-- the invariant of `cache_transparent` holds of a state with non-empty memo dictionaries -/
example : ((World.run {} exHistory).1.chems.map (·.cache.length),
    (World.run {} exHistory).1.mcaches.map (·.2.length)) = ([4], [2]) ∧ Inv (World.run {} exHistory).1 :=
  ⟨by decide +kernel, (cache_transparent exHistory).2⟩

/-! ## Reading: `get_positional` -/

/-- **get_positional** (single name).  A name that the table maps to entry `e` reads the
data at the position of `e`; a group name reads the sum over its members. -/
theorem get_positional_name (c : Chem) (row : Row) (n : String) (e : Ent)
    (h : alookup n c.index = some e) :
    (resolveC c (.leaf (.str n))).map (getIx row) = .ok (.scalar (getEnt row e)) := by
  simp only [resolveC, Chem.lookup, h, bind, Except.bind]
  cases e <;> rfl

/-- **get_positional** (tuple / list, possibly mixing chemicals and groups).  Element by
element the entries of the names, groups summed. -/
theorem get_positional_tuple (c : Chem) (row : Row) (items : List HItem) (es : List Ent)
    (h : lookupItems c items = .ok es) :
    (resolveC c (.tup items)).map (getIx row) = .ok (.vec (es.map (getEnt row))) := by
  simp only [resolveC, h, bind, Except.bind]
  split
  · rfl
  · rename_i hg
    simp only [pure, Except.pure, Except.map, getIx]
    rw [getEnt_entsPos es row (by simpa using hg)]

/-! ## Writing: `set_frame`, `set_get`, `set_group_scalar` -/

/-- **set_frame.**  A successful write through any resolved key changes no entry outside the
positions the key addresses, and keeps the length of the row. -/
theorem set_frame (c : Chem) (row row' : Row) (ix : Ix) (k : HKey) (d : Data)
    (h : setIx c row ix k d = .ok row') :
    (∀ j, j ∉ positions ix row.length → getAt row' j = getAt row j) ∧ row'.length = row.length := by
  cases ix with
  | all =>
    cases d with
    | scalar x =>
      simp only [setIx, resetRow] at h; cases h
      refine ⟨?_, by simp⟩
      intro j hj
      simp only [positions, List.mem_range, Nat.not_lt] at hj
      rw [getAt_ge _ _ (by simpa using hj), getAt_ge _ _ hj]
    | vec xs =>
      simp only [setIx, resetRow] at h; cases h
      refine ⟨?_, by simp⟩
      intro j hj
      simp only [positions, List.mem_range, Nat.not_lt] at hj
      rw [getAt_ge _ _ (by simpa using hj), getAt_ge _ _ hj]
    | mat _ => simp [setIx, resetRow] at h
  | one i =>
    cases d with
    | scalar x =>
      simp only [setIx] at h; cases h
      exact ⟨by intro j hj; simp only [positions, List.mem_singleton] at hj; exact getAt_setAt_ne _ _ hj,
        length_setAt _ _ _⟩
    | vec xs => simp [setIx] at h
    | mat _ => simp [setIx] at h
  | grp is =>
    cases d with
    | scalar x =>
      simp only [setIx, bind, Except.bind] at h
      split at h
      · cases h
      · simp only [pure, Except.pure] at h; cases h
        exact ⟨fun j hj => writeZip_frame _ _ _ _ hj, length_writeZip _ _ _⟩
    | vec xs =>
      simp only [setIx] at h; cases h
      exact ⟨fun j hj => writeZip_frame _ _ _ _ hj, length_writeZip _ _ _⟩
    | mat _ => simp [setIx] at h
  | nested es =>
    cases d with
    | scalar x =>
      simp only [setIx] at h
      split at h
      · cases h
        exact ⟨fun j hj => (writeZero_frame es row j hj).1, writeZero_length es row⟩
      · have := fun j => writeNestedScalar_frame c k x es row 0 row' j h
        exact ⟨fun j hj => (this j).1 hj, (this 0).2⟩
    | vec xs =>
      simp only [setIx] at h
      have := fun j => writeNestedVec_frame c k xs es row 0 row' j h
      exact ⟨fun j hj => (this j).1 hj, (this 0).2⟩
    | mat _ => simp [setIx] at h
  | arr is =>
    cases d with
    | scalar x =>
      simp only [setIx] at h; cases h
      exact ⟨fun j hj => writeAll_frame _ _ _ _ hj, length_writeAll _ _ _⟩
    | vec xs =>
      simp only [setIx] at h; cases h
      exact ⟨fun j hj => writeZip_frame _ _ _ _ hj, length_writeZip _ _ _⟩
    | mat _ => simp [setIx] at h

/-- **set_frame for rejected writes.**  A write that raises may already have written part of
what its key addresses (a nested key with too few data: the elements before the missing one; a
reset with 2-d data: the row is emptied first) — but never an entry the key does not address. -/
theorem set_fail_frame (c : Chem) (row : Row) (ix : Ix) (k : HKey) (d : Data) :
    (∀ j, j ∉ positions ix row.length → getAt (setIxFail c row ix k d) j = getAt row j) ∧
    (setIxFail c row ix k d).length = row.length := by
  unfold setIxFail
  split
  · refine ⟨?_, by simp⟩
    intro j hj
    simp only [positions, List.mem_range, Nat.not_lt] at hj
    rw [getAt_ge _ _ (by simpa using hj), getAt_ge _ _ hj]
  · rename_i es xs
    exact ⟨fun j hj => (nestedPrefix_frame c k xs es row 0 j).1 hj, (nestedPrefix_frame c k xs es row 0 0).2⟩
  · rename_i es x
    split
    · exact ⟨fun _ _ => rfl, rfl⟩
    · exact ⟨fun j hj => (nestedScalarPrefix_frame c k x es row 0 j).1 hj, (nestedScalarPrefix_frame c k x es row 0 0).2⟩
  · exact ⟨fun _ _ => rfl, rfl⟩

/-- non-vacuity: `('Water', 'Alc', 'Water') = [3]` writes Water, then fails on the missing datum -/
example :
    let c : Chem := { size := 3, index := [], comps := [("Alc", [1/4, 3/4])] }
    let k : HKey := .tup [.leaf (.str "Water"), .leaf (.str "Alc"), .leaf (.str "Water")]
    (setIx c [1, 2, 4] (.nested [.pos 0, .grp [1, 2], .pos 0]) k (.vec [3])).toOption = none ∧
    setIxFail c [1, 2, 4] (.nested [.pos 0, .grp [1, 2], .pos 0]) k (.vec [3]) = [3, 2, 4] := by
  decide +kernel

/-! ### `SplitIndexer` -/

/-- **set_frame (SplitIndexer).**  Whether the write succeeds or raises, entries the key does
not address are untouched. -/
theorem setSplit_frame (row : Row) (ix : Ix) (d : Data) :
    (∀ j, j ∉ positions ix row.length → getAt (setSplit row ix d).1 j = getAt row j) ∧
    (setSplit row ix d).1.length = row.length := by
  have allcase : ∀ (r : Row), r.length = row.length →
      (∀ j, j ∉ positions .all row.length → getAt r j = getAt row j) ∧ r.length = row.length := by
    intro r hr
    refine ⟨?_, hr⟩
    intro j hj
    simp only [positions, List.mem_range, Nat.not_lt] at hj
    rw [getAt_ge _ _ (by rw [hr]; exact hj), getAt_ge _ _ hj]
  cases ix with
  | all => cases d <;> simp only [setSplit] <;> exact allcase _ (by simp)
  | one i =>
    cases d <;> simp only [setSplit]
    · exact ⟨by intro j hj; simp only [positions, List.mem_singleton] at hj; exact getAt_setAt_ne _ _ hj,
        length_setAt _ _ _⟩
    · simp
    · simp
  | grp is =>
    cases d <;> simp only [setSplit]
    · exact ⟨fun j hj => writeAll_frame _ _ _ _ hj, length_writeAll _ _ _⟩
    · exact ⟨fun j hj => writeZip_frame _ _ _ _ hj, length_writeZip _ _ _⟩
    · simp
  | arr is =>
    cases d <;> simp only [setSplit]
    · exact ⟨fun j hj => writeAll_frame _ _ _ _ hj, length_writeAll _ _ _⟩
    · exact ⟨fun j hj => writeZip_frame _ _ _ _ hj, length_writeZip _ _ _⟩
    · simp
  | nested es =>
    cases d with
    | scalar x =>
      simp only [setSplit]
      exact ⟨fun j hj => (splitNestedScalar_frame x es row j).1 hj, (splitNestedScalar_frame x es row 0).2⟩
    | vec xs =>
      simp only [setSplit]
      have := fun j => splitNestedVec_frame xs es row 0 j
      generalize splitNestedVec xs row 0 es = R at this
      obtain ⟨r, b⟩ := R
      cases b <;> exact ⟨fun j hj => (this j).1 hj, (this 0).2⟩
    | mat _ => simp only [setSplit]; simp

/-- **set_get (SplitIndexer, group).**  A scalar written to a group name is the split of every
member (no composition is involved), and reads back as such. -/
theorem setSplit_grp_scalar (row : Row) (is : List Nat) (x : Rat) (hb : ∀ i, i ∈ is → i < row.length) :
    getSplit (setSplit row (.grp is) (.scalar x)).1 (.grp is) = .vec (is.map fun _ => x) := by
  simp only [setSplit, getSplit]
  congr 1
  apply List.map_congr_left
  intro j hj
  exact writeAll_read is row x j hj hb

/-- **set_get** (one chemical): reading back returns the scalar written. -/
theorem set_get_one (c : Chem) (row : Row) (i : Nat) (k : HKey) (x : Rat) (hi : i < row.length) :
    (setIx c row (.one i) k (.scalar x)).map (fun r => getIx r (.one i)) = .ok (.scalar x) := by
  simp [setIx, Except.map, getIx, getAt_setAt_eq _ _ hi]

/-- **set_get** (tuple of chemicals, 1-d data): distinct in-range positions, matching length. -/
theorem set_get_arr_vec (c : Chem) (row : Row) (is : List Nat) (k : HKey) (xs : List Rat)
    (hn : is.Nodup) (hl : xs.length = is.length) (hb : ∀ i, i ∈ is → i < row.length) :
    (setIx c row (.arr is) k (.vec xs)).map (fun r => getIx r (.arr is)) = .ok (.vec xs) := by
  simp [setIx, Except.map, getIx, writeZip_read is xs row hn hl hb]

/-- **set_get** (tuple of chemicals, scalar): every addressed entry becomes the scalar. -/
theorem set_get_arr_scalar (c : Chem) (row : Row) (is : List Nat) (k : HKey) (x : Rat)
    (hb : ∀ i, i ∈ is → i < row.length) :
    (setIx c row (.arr is) k (.scalar x)).map (fun r => getIx r (.arr is)) = .ok (.vec (is.map fun _ => x)) := by
  simp only [setIx, Except.map, getIx]
  congr 2
  apply List.map_congr_left
  intro j hj
  exact writeAll_read is row x j hj hb

/-- **set_get** (ellipsis): the row becomes the data. -/
theorem set_get_all (c : Chem) (row : Row) (k : HKey) (xs : List Rat) (hl : xs.length = row.length) :
    (setIx c row .all k (.vec xs)).map (fun r => getIx r .all) = .ok (.vec xs) := by
  simp only [setIx, resetRow, Except.map, getIx]
  congr 2
  apply List.ext_getElem
  · simp [hl]
  · intro i h1 h2
    simp [List.getD_eq_getElem?_getD, List.getElem?_eq_getElem h2]

/-- **set_get** (group, 1-d data): the members receive the data; the group reads their sum. -/
theorem set_get_grp_vec (c : Chem) (row : Row) (is : List Nat) (k : HKey) (xs : List Rat)
    (hn : is.Nodup) (hl : xs.length = is.length) (hb : ∀ i, i ∈ is → i < row.length) :
    (setIx c row (.grp is) k (.vec xs)).map (fun r => getIx r (.grp is)) = .ok (.scalar (sumRat xs)) := by
  simp [setIx, Except.map, getIx, writeZip_read is xs row hn hl hb]

/-- **set_get** (tuple mixing chemicals and groups, 1-d data).  With pairwise distinct
in-range positions and normalised group compositions, reading the key back returns the data
written (each group element reads the sum of what was distributed over its members). -/
theorem set_get_nested_vec (c : Chem) (row row' : Row) (es : List Ent) (k : HKey) (xs : List Rat)
    (h : setIx c row (.nested es) k (.vec xs) = .ok row')
    (hn : (es.flatMap Ent.positions).Nodup) (hb : ∀ i, i ∈ es.flatMap Ent.positions → i < row.length)
    (hok : NestedOK c k 0 es) (hl : xs.length = es.length) :
    getIx row' (.nested es) = .vec xs := by
  simp only [setIx] at h
  have := writeNestedVec_read c k xs es row 0 row' h hn hb hok
  simp only [getIx, this, List.drop_zero]
  rw [← hl, List.take_length]

/-- non-vacuity of `set_get_nested_vec`: `('Water', 'Alc') = [3, 4]` on the row (1, 2, 4) -/
example :
    let c : Chem := { size := 3, index := [], comps := [("Alc", [1/4, 3/4])] }
    let k : HKey := .tup [.leaf (.str "Water"), .leaf (.str "Alc")]
    (setIx c [1, 2, 4] (.nested [.pos 0, .grp [1, 2]]) k (.vec [3, 4])).toOption = some [3, 1, 3] ∧
    NestedOK c k 0 [.pos 0, .grp [1, 2]] := by
  refine ⟨by decide +kernel, ⟨[1/4, 3/4], rfl, rfl, by decide +kernel⟩, trivial⟩

/-- **set_frame / set_get across phases.**  Writing through `(phase, IDs)` is the
single-phase write on that phase's row; every other row is untouched. -/
theorem setM_phase_row (c : Chem) (data data' : List Row) (p : Nat) (ix : Ix) (k : HKey) (d : Data)
    (h : setM c data (.sub (some p) ix) k d = .ok data') :
    ∃ r r', data[p]? = some r ∧ setIx c r ix k d = .ok r' ∧ data' = data.set p r' ∧
      (∀ q, q ≠ p → data'[q]? = data[q]?) := by
  simp only [setM] at h
  split at h
  · cases h
  · rename_i r hr
    simp only [bind, Except.bind] at h
    split at h
    · cases h
    · rename_i r' hr'
      simp only [pure, Except.pure] at h
      cases h
      refine ⟨r, r', hr, hr', rfl, ?_⟩
      intro q hq
      simp [setRowAt, Ne.symm hq]

/-! ### The memo dictionaries stay bounded (what eviction is for) -/

theorem lookup_bounded (s : CState) (k : HKey) (h : s.cache.length ≤ chemCacheLimit) :
    (s.lookup k).2.cache.length ≤ chemCacheLimit := by
  unfold CState.lookup
  split
  · exact h
  · split
    · simp only [evict1, List.length_append, List.length_singleton]
      split
      · simp only [List.length_drop, List.length_append, List.length_singleton]; omega
      · simp only [List.length_append, List.length_singleton] at *; omega
    · exact h

theorem trim_bounded {κ β : Type} (l : List (κ × β)) (h : l.length ≤ matCacheLimit + 1) :
    (trim l).length ≤ matCacheLimit := by
  unfold trim
  split
  · simp only [List.length_drop, matCacheTrim, matCacheLimit] at *; omega
  · omega

/-- eviction really happens: the 101st entry pushes the oldest one out; the 501st pushes 100 out -/
example : (evict1 ((List.range 101).map fun i => (i, i))).map Prod.fst = (List.range 101).drop 1 ∧
    ((trim ((List.range 501).map fun i => (i, i))).map Prod.fst = (List.range 501).drop 100) := by
  decide +kernel

/-- non-vacuity of `set_group_scalar` / `set_frame`: 8 written to a group with composition
(1/4, 3/4) at positions 1, 2 of the row (1, 2, 4) -/
example : (setIx { size := 3, index := [], comps := [("Alc", [1/4, 3/4])] } [1, 2, 4] (.grp [1, 2]) (.leaf (.str "Alc")) (.scalar 8)).toOption
    = some [1, 2, 6] := by decide +kernel

/-- **set_group_scalar.**  A scalar written to a group is distributed over the members by
the group's composition (member `j` receives `x · comp_j`), and — the composition being
normalised — the group reads back exactly the scalar. -/
theorem set_group_scalar (c : Chem) (row : Row) (name : String) (is : List Nat) (comp : List Rat) (x : Rat)
    (hc : alookup name c.comps = some comp) (hn : is.Nodup) (hl : comp.length = is.length)
    (hb : ∀ i, i ∈ is → i < row.length) :
    ∃ row', setIx c row (.grp is) (.leaf (.str name)) (.scalar x) = .ok row' ∧
      is.map (getAt row') = comp.map (x * ·) ∧
      (sumRat comp = 1 → getIx row' (.grp is) = .scalar x) := by
  refine ⟨writeZip row is (comp.map (x * ·)), ?_, ?_, ?_⟩
  · simp [setIx, keyName, compOf, hc, bind, Except.bind, pure, Except.pure]
  · exact writeZip_read is _ row hn (by simp [hl]) hb
  · intro hs
    simp only [getIx]
    rw [writeZip_read is _ row hn (by simp [hl]) hb, sumRat_map_mul, hs, Rat.mul_one]

/-- **From the definition of a group to the scalar written to it.**  After
`define_group(name, IDs, composition)` the key `name` resolves to the positions of the IDs in the
order given; a scalar `x` written through it gives the `j`-th ID `x · composition_j / Σ composition`
and reads back as `x` — the hypotheses of `set_group_scalar` are what `define_group` establishes
(distinct in-range members and a non-zero total being the only assumptions left). -/
theorem group_scalar_after_define {c c' : Chem} {res : List String} {name : String} {ids : List String}
    {comp : List Rat} (h : c.defineGroup res name ids (some comp) false = .ok c')
    (hs : sumRat comp ≠ 0) (row : Row) (x : Rat) :
    ∃ index, c.indices ids = .ok (index.map Ent.pos) ∧
      resolveC c' (.leaf (.str name)) = .ok (.grp index) ∧
      (index.Nodup → (∀ i, i ∈ index → i < row.length) →
        ∃ row', setIx c' row (.grp index) (.leaf (.str name)) (.scalar x) = .ok row' ∧
          index.map (getAt row') = (normalise comp).map (x * ·) ∧
          getIx row' (.grp index) = .scalar x) := by
  obtain ⟨index, h1, h2, h3, _, h5, h6⟩ := defineGroup_spec h
  refine ⟨index, h1, by simp [resolveC, Chem.lookup, h2, bind, Except.bind, pure, Except.pure], ?_⟩
  intro hn hb
  obtain ⟨row', r1, r2, r3⟩ := set_group_scalar c' row name index (normalise comp) x h3 hn h5 hb
  exact ⟨row', r1, r2, r3 (h6 hs)⟩

/-- non-vacuity of `group_scalar_after_define` with a ZERO fraction (inside the theorem: only the total
must be non-zero): `Solvent = (Ethanol, Methanol)` with composition (1, 0); the scalar 8 gives Ethanol 8 and
leaves Methanol at 0 although it held 4. -/
example :
    let c : Chem := { size := 3, index := [("Water", .pos 0), ("Ethanol", .pos 1), ("Methanol", .pos 2)], comps := [] }
    ((c.defineGroup reservedAll "Solvent" ["Ethanol", "Methanol"] (some [1, 0]) false).toOption.bind fun c' =>
      (setIx c' [1, 2, 4] (.grp [1, 2]) (.leaf (.str "Solvent")) (.scalar 8)).toOption) = some [1, 8, 0] ∧
    sumRat [1, (0 : Rat)] ≠ 0 := by
  decide +kernel

/-- **set_frame across phases, `(..., IDs)`.**  A scalar, or 1-d data per chemical, written
through the ellipsis phase is the single-phase write applied to every row: in every phase the
entries outside the addressed positions are untouched, and no row is added or lost.  (Per-phase
columns and 2-d data — `writeColumn`, `writeRowsZip` — are tied to the code by correspondence and the
oracle only.) -/
theorem setM_allphase_frame (c : Chem) (data data' : List Row) (ix : Ix) (k : HKey) (x : Rat)
    (h : setM c data (.sub none ix) k (.scalar x) = .ok data') :
    data'.length = data.length ∧
    ∀ (p : Nat) (r : Row), data[p]? = some r → ∃ r', data'[p]? = some r' ∧ r'.length = r.length ∧
      ∀ j, j ∉ positions ix r.length → getAt r' j = getAt r j := by
  cases ix with
  | all => simp [setM] at h
  | nested es => simp [setM] at h
  | one i =>
    simp only [setM] at h; cases h
    refine ⟨by simp, ?_⟩
    intro p r hr
    refine ⟨setAt r i x, by simp [hr], length_setAt _ _ _, ?_⟩
    intro j hj; simp only [positions, List.mem_singleton] at hj; exact getAt_setAt_ne _ _ hj
  | arr is =>
    simp only [setM] at h; cases h
    refine ⟨by simp, ?_⟩
    intro p r hr
    exact ⟨writeAll r is x, by simp [hr], length_writeAll _ _ _, fun j hj => writeAll_frame _ _ _ _ hj⟩
  | grp is =>
    simp only [setM, bind, Except.bind] at h
    split at h
    · cases h
    · rename_i comp _
      split at h
      · cases h
      · simp only [pure, Except.pure] at h; cases h
        refine ⟨by simp, ?_⟩
        intro p r hr
        exact ⟨writeZip r is (comp.map (x * ·)), by simp [hr], length_writeZip _ _ _, fun j hj => writeZip_frame _ _ _ _ hj⟩

/-! ## Names: `alias_unique` -/

/-- **alias_unique.**  After a successful `compile`:
1. every accepted name occurs once in the table (it has exactly one position), and every
   entry is the position of one of the chemicals;
2. every name of a chemical that is accepted as an alias (non-empty, not claimed by a
   second chemical) has the same position as the chemical's ID;
3. with distinct IDs, the ID of the `i`-th chemical has position `i`;
4. a name claimed by two chemicals is never made an alias (it keeps whatever the table of
   IDs and CAS numbers says about it). -/
theorem alias_unique (specs : List Spec) (c : Chem) (h : compile specs = .ok c) :
    ((keys c.index).Nodup ∧ ∀ k e, (k, e) ∈ c.index → ∃ i, e = .pos i ∧ i < specs.length) ∧
    (∀ s, s ∈ specs → ∀ n, n ∈ s.names → n ≠ "" → n ∉ repeatedNames specs →
      ∃ i, alookup s.id c.index = some (.pos i) ∧ alookup n c.index = some (.pos i)) ∧
    ((specs.map (·.id)).Nodup → ∀ i s, specs[i]? = some s → alookup s.id c.index = some (.pos i)) ∧
    (∀ n, n ∈ repeatedNames specs → alookup n c.index = alookup n (baseIndex specs)) := by
  unfold compile at h
  obtain ⟨r1, _, r3, r4, r5, r6⟩ := aliasLoop_spec _ _ _ _ h
  obtain ⟨b1, b2⟩ := baseIndex_inv specs
  obtain ⟨n1, n2⟩ := r6 b1 b2
  refine ⟨⟨n1, ?_⟩, ?_, ?_, ?_⟩
  · intro k e he
    have := n2 k e he
    rw [r1] at this
    exact this
  · intro s hs n hn hne hrep
    have hm : (s.id, n) ∈ aliasTodo specs := by
      unfold aliasTodo
      simp only [List.mem_flatMap, List.mem_map, List.mem_filter]
      exact ⟨s, hs, n, ⟨(mem_dedup _ _).mpr hn, by simp [hne, hrep]⟩, rfl⟩
    exact r4 _ hm
  · intro hn i s hi
    exact r3 _ _ (baseIndex_id specs hn i s hi)
  · intro n hrep
    cases hl : alookup n c.index with
    | some e =>
      rcases r5 n e hl with hb | hb
      · exact hb.symm
      · exfalso
        unfold aliasTodo at hb
        simp only [List.map_flatMap, List.map_map, List.mem_flatMap, List.mem_map, List.mem_filter] at hb
        obtain ⟨s, _, n', ⟨_, hf⟩, hn'⟩ := hb
        simp only [Function.comp] at hn'
        subst hn'
        simp at hf
        exact hf.2 hrep
    | none =>
      cases hb : alookup n (baseIndex specs) with
      | none => rfl
      | some e => rw [r3 n e hb] at hl; cases hl

/-- non-vacuity of `alias_unique`: a chemicals set that compiles, with a name claimed twice -/
example : (compile exSpecs).toOption.map (·.index) = some [("7732-18-5", .pos 0), ("64-17-5", .pos 1),
    ("115-10-6", .pos 2), ("Water", .pos 0), ("Ethanol", .pos 1), ("DME", .pos 2), ("H2O", .pos 0),
    ("water", .pos 0), ("ethanol", .pos 1), ("ether", .pos 2)] ∧ repeatedNames exSpecs = ["C2H6O"] := by
  decide +kernel

/-- the collision rule: a name that is another chemical's ID aborts the construction -/
example : (compile [⟨"Ethanol", "64-17-5", ["ethanol"], 46⟩, ⟨"ethanol", "67-56-1", ["methanol"], 32⟩]).toOption = none := by
  decide +kernel

/-! ### Names of chemicals never move -/

/-- **names_never_move.**  Whatever happens afterwards — aliases (accepted, rejected or
half-entered), groups (defined, redefined, rejected), lookups, writes, transfers — a name that
resolves to the position of a chemical keeps resolving to that position (a group can never take
over the name of a chemical: fix C10-5), in the specification … -/
theorem names_never_move_spec (ops : List Op) : ∀ (p : PWorld) (c : Nat) (chem : Chem) (cas : List String),
    p.chems[c]? = some (chem, cas) →
    ∃ chem', (p.run ops).1.chems[c]? = some (chem', cas) ∧
      ∀ k i, alookup k chem.index = some (.pos i) → alookup k chem'.index = some (.pos i) := by
  induction ops with
  | nil => intro p c chem cas h; exact ⟨chem, h, fun _ _ hk => hk⟩
  | cons op t ih =>
    intro p c chem cas h
    obtain ⟨chem1, h1, k1⟩ := step_chems p op c chem cas h
    obtain ⟨chem2, h2, k2⟩ := ih (p.step op).1 c chem1 cas h1
    exact ⟨chem2, by simpa [PWorld.run] using h2, fun k i hk => k2 k i (k1 k i hk)⟩

/-- … and therefore in the memoising world, from any state with correct memos. -/
theorem names_never_move (ops : List Op) (w : World) (hw : Inv w) (c : Nat) (s : CState)
    (h : w.chems[c]? = some s) :
    ∃ s', (w.run ops).1.chems[c]? = some s' ∧
      ∀ k i, alookup k s.chem.index = some (.pos i) → alookup k s'.chem.index = some (.pos i) := by
  obtain ⟨_, ho, _⟩ := cache_transparent_from ops w hw
  obtain ⟨chem', h', k'⟩ := names_never_move_spec ops w.obs c s.chem s.cas (by simp [obs_chems_get, h])
  rw [← ho, obs_chems_get] at h'
  cases hs : (w.run ops).1.chems[c]? with
  | none => simp [hs] at h'
  | some s' =>
    simp only [hs, Option.map_some, Option.some.injEq, Prod.mk.injEq] at h'
    exact ⟨s', rfl, fun k i hk => h'.1 ▸ k' k i hk⟩

/-- non-vacuity: a group may not take the name of a chemical or of an attribute; a group name as
`ID` of `set_alias` fails but leaves a second name of the group behind -/
example :
    let c : Chem := { size := 2, index := [("Water", .pos 0), ("Ethanol", .pos 1), ("G", .grp [0, 1])],
                      comps := [("G", [1/2, 1/2])] }
    (c.defineGroup reservedAll "Water" ["Ethanol"] none).toOption = none ∧
    (c.defineGroup reservedAll "size" ["Ethanol"] none).toOption = none ∧
    ((c.defineGroup reservedAll "G" ["Ethanol"] none).toOption.map (·.index)) =
      some [("Water", .pos 0), ("Ethanol", .pos 1), ("G", .grp [1])] ∧
    (c.setAlias reservedAll "G" "gg").toOption = none ∧
    (c.setAliasFail reservedAll "G" "gg").index = c.index ++ [("gg", .grp [0, 1])] := by
  decide +kernel

/-! ### Keys nested too deeply -/

/-- A sequence where a name belongs is never a name: the key does not resolve
(`UndefinedChemicalAlias`), and when a list hides inside it cannot even be hashed (`TypeError`). -/
theorem deep_key_rejected (c : Chem) (l : List HItem) (h : Bool) (hm : HItem.leaf (.deep h) ∈ l) :
    resolveC c (.tup l) = .error .undefinedAlias := by
  simp [resolveC, lookupItems_deep c l h hm, bind, Except.bind]

example : normC (.tup [.leaf (.str "Water"), .tup [.deep false]]) = .error .typeError ∧
    normM (.tup [.leaf (.str "l"), .lst [.str "Water", .deep false]]) = .error .typeError ∧
    normM (.tup [.leaf (.str "l"), .lst [.str "Water", .deep true]]) =
      .ok (.tup [.leaf (.str "l"), .tup [.str "Water", .deep true]]) := ⟨rfl, rfl, rfl⟩

/-! ## Phases: `phase_lookup` -/

/-- **phase_lookup.**  For every set of phases and every label: if the exact label is a
phase, its own row is returned; only when it is absent is its case variant used; when both
are absent the label is undefined. -/
theorem phase_lookup (ps : List Char) (c : Char) :
    (c ∈ ps → ∃ i, phaseIndex ps c = some i ∧ ps[i]? = some c) ∧
    (c ∉ ps → swapCase c ∈ ps → ∃ i, phaseIndex ps c = some i ∧ ps[i]? = some (swapCase c)) ∧
    (c ∉ ps → swapCase c ∉ ps → phaseIndex ps c = none) := by
  unfold phaseIndex
  refine ⟨?_, ?_, ?_⟩
  · intro h
    cases hi : idxOf c ps with
    | none => exact absurd h ((idxOf_none ps c).mp hi)
    | some i => exact ⟨i, rfl, idxOf_some ps c i hi⟩
  · intro h hs
    rw [(idxOf_none ps c).mpr h]
    cases hi : idxOf (swapCase c) ps with
    | none => exact absurd hs ((idxOf_none ps _).mp hi)
    | some i => exact ⟨i, rfl, idxOf_some ps _ i hi⟩
  · intro h hs
    rw [(idxOf_none ps c).mpr h]
    exact (idxOf_none ps _).mpr hs

def sublistsOf : List Char → List (List Char)
  | [] => [[]]
  | x :: t => sublistsOf t ++ (sublistsOf t).map (x :: ·)

/-! ### Phases that grow in place -/

/-- `_expand_phases`: in the grown phase tuple every label finds, at its new row number, the row
it had before (an empty row if the label is new). -/
theorem expandRows_get (size : Nat) (ps ps' : List Char) (data : List Row) (p : Char) (i : Nat)
    (h : idxOf p ps' = some i) :
    (expandRows size ps ps' data)[i]? =
      some (match idxOf p ps with
            | some j => data.getD j (zeroRow size)
            | none => zeroRow size) := by
  simp only [expandRows, List.getElem?_map, idxOf_some ps' p i h, Option.map_some]
  cases idxOf p ps <;> rfl

/-- A liquid/solid indexer (with a sibling sharing its memo) grows a gas phase in place by
`mix_from`: `('l', Water)` was memoised as row 0 before; afterwards the receiver answers from
its new row 1 (memo of `('g','l','s')`), the sibling still from row 0 (memo of `('l','s')`). -/
def exGrow : List Op :=
  [.compile exSpecs, .newMatIx 0 ['l', 's'], .newMatIx 0 ['l', 's'], .newChemIx 0 'g',
   .set 0 (.leaf (.str "l")) (.vec [10, 2, 0]), .set 1 (.leaf (.str "l")) (.vec [7, 0, 0]),
   .set 2 (.leaf .ell) (.vec [1, 5, 0]),
   .get 0 (.tup [.leaf (.str "l"), .leaf (.str "Water")]), .mixFrom 0 2,
   .get 0 (.tup [.leaf (.str "l"), .leaf (.str "Water")]), .get 1 (.tup [.leaf (.str "l"), .leaf (.str "Water")]),
   .get 0 (.tup [.leaf (.str "g"), .leaf (.str "Ethanol")])]

example : (World.run {} exGrow).2.drop 7 =
    [.val (.scalar 10), .state ⟨0, some ['g', 'l', 's'], [[1, 5, 0], [10, 2, 0], [0, 0, 0]], 'l', false⟩,
     .val (.scalar 10), .val (.scalar 7), .val (.scalar 5)] ∧
    (World.run {} exGrow).1.mcaches.map (·.1) = [(0, ['l', 's']), (0, ['g', 'l', 's'])] := by
  decide +kernel

/-- The 32 possible phase tuples (subsets of `L S g l s` in sorted order). -/
def allPhaseTuples : List (List Char) := sublistsOf validPhases

/-- One cell of the table: `some i` only with `ps[i]` equal to the label or — the label
being absent — to its case variant; `none` only when both are absent. -/
def phaseCellOK (ps : List Char) (c : Char) : Bool :=
  match phaseIndex ps c with
  | some i => decide (ps[i]? = some c) || (decide (c ∉ ps) && decide (ps[i]? = some (swapCase c)))
  | none => decide (c ∉ ps) && decide (swapCase c ∉ ps)

/-- **phase_lookup_table**: the complete table, 32 phase sets × 5 labels, by evaluation
(a proof over the complete finite table; `phase_lookup` above is the general statement). -/
theorem phase_lookup_table :
    allPhaseTuples.length = 32 ∧
    (allPhaseTuples.all fun ps => validPhases.all fun c => phaseCellOK ps c) = true := by
  decide

end ThermoVerif.Props.C10
