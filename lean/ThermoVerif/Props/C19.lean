import ThermoVerif.Lemmas.NetSort
/-
C19 — The simulation order derived from a flowsheet is complete and follows material flow.

Model: ThermoVerif/Model/NetSort.lean (`Network.sort`, `get_downstream_units`, `fill_path`,
`sort_feeds_big_to_small`, and the executable checker `validNetwork` of the property's observable).
-/
namespace ThermoVerif.Props.C19
open ThermoVerif.NetSort

variable {g : Graph} {ends : List Nat}

/-! ## `Network.sort` -/

/-- **sort_perm** (one level).  `Network.sort` only reorders the path: the items after sorting are a
permutation of the items before ("contains exactly the given units" is preserved by sorting). -/
theorem sort_perm {path : List Item} {r : List Nat} {o : SortOut} (h : sortLevel g ends path r = .ok o) :
    o.path.Perm path := sortLevel_perm h

/-- **sort_perm** (whole nested network).  The units of the sorted network, flattened, are a
permutation of the units of the network handed to `sort`, at every nesting depth. -/
theorem sortItem_flat_perm (it : Item) {it' : Item} {w : Nat} (h : sortItem g ends it = .ok (it', w)) :
    it'.flat.Perm it.flat := sortItem_flat_perm_aux it h

/-- **sort_clean_topological** (general form, any mix of units and sub-networks).  If `sort` leaves
without the "network path could not be determined" warning, then whenever a path item is downstream
of a *later* item, some later item at or before that one is mutually reachable with it (a loop that
`ends` does not cut and for which `sort` found no recycle candidate). -/
theorem sort_clean_sorted {path : List Item} {r : List Nat} {o : SortOut}
    (h : sortLevel g ends path r = .ok o) (hs : o.stop = true)
    (i j : Nat) (a b : Item) (hij : i < j) (ha : o.path[i]? = some a) (hb : o.path[j]? = some b)
    (hd : ItemDown g ends a b) :
    ∃ (j' : Nat) (c : Item), i < j' ∧ j' ≤ j ∧ o.path[j']? = some c ∧ ItemDown g ends a c ∧ ItemDown g ends c a := by
  obtain ⟨ps, _, hgood, e1, _, e3⟩ := sortLevel_inv h
  rw [e3] at hs
  have hsorted := bubble_stop PS.downFrom (recyclesBetween g ends) ps r hs
  have hperm := bubble_perm PS.downFrom (recyclesBetween g ends) ps r
  have good : ∀ p, p ∈ (bubble PS.downFrom (recyclesBetween g ends) ps r).items → PSGood g ends p :=
    fun p hp => hgood p (hperm.mem_iff.mp hp)
  rw [e1] at ha hb
  obtain ⟨pa, hpa, rfl⟩ := getElem?_map_item ha
  obtain ⟨pb, hpb, rfl⟩ := getElem?_map_item hb
  have ga := good pa (List.mem_of_getElem? hpa)
  have gb := good pb (List.mem_of_getElem? hpb)
  obtain ⟨j', pc, h1, h2, hpc, d1, d2⟩ := hsorted i j pa pb hij hpa hpb ((downFrom_iff ga gb).mpr hd)
  have gc := good pc (List.mem_of_getElem? hpc)
  refine ⟨j', pc.item, h1, h2, ?_, (downFrom_iff ga gc).mp d1, (downFrom_iff gc ga).mp d2⟩
  rw [e1, List.getElem?_map, hpc]; rfl

/-- **sort_clean_topological**.  On a path of units whose streams outside `ends` form no cycle: if
`sort` leaves without the warning, no unit precedes a unit that (transitively) feeds it. -/
theorem sort_clean_topological {path : List Item} {r : List Nat} {o : SortOut}
    (h : sortLevel g ends path r = .ok o) (hs : o.stop = true)
    (hflat : ∀ it ∈ path, ∃ u, it = .unit u) (hac : ∀ u, ¬ Reach g ends u u)
    (i j a b : Nat) (hij : i < j) (ha : o.path[i]? = some (.unit a)) (hb : o.path[j]? = some (.unit b)) :
    ¬ Reach g ends b a := by
  intro hr
  have hd : ItemDown g ends (.unit a) (.unit b) := ⟨a, by simp [Item.flat], b, by simp [Item.flat], hr⟩
  obtain ⟨j', c, _, _, hc, ⟨m, hm, u, hu, r1⟩, ⟨m', hm', u', hu', r2⟩⟩ := sort_clean_sorted h hs i j _ _ hij ha hb hd
  obtain ⟨w, rfl⟩ := hflat c ((sort_perm h).mem_iff.mp (List.mem_of_getElem? hc))
  simp only [Item.flat, List.mem_singleton] at hm hu hm' hu'
  subst hm hu hm' hu'
  exact hac _ (Relation.TransGen.trans r1 r2)

/-- **dag_no_recycle**.  On an acyclic graph (no unit reaches itself) `sort` adds no recycle to a
path of units, whatever their order. -/
theorem dag_no_recycle {path : List Item} {r : List Nat} {o : SortOut}
    (h : sortLevel g ends path r = .ok o)
    (hflat : ∀ it ∈ path, ∃ u, it = .unit u) (hac : ∀ u, ¬ Reach g ends u u) :
    o.recycle = r := by
  apply dag_no_recycle_items h
  intro a b ha hb ⟨⟨m, hm, u, hu, r1⟩, ⟨m', hm', u', hu', r2⟩⟩
  obtain ⟨x, rfl⟩ := hflat a ha
  obtain ⟨y, rfl⟩ := hflat b hb
  simp only [Item.flat, List.mem_singleton] at hm hu hm' hu'
  subst hm hu hm' hu'
  exact hac _ (Relation.TransGen.trans r1 r2)

/-- **sort_dag_converges**.  On a path of units of an acyclic graph the `N·N` passes of
`Network.sort` always suffice: the loop leaves with `stop = true`, i.e. without the
"network path could not be determined" warning, whatever the order of the units. -/
theorem sort_dag_converges {path : List Item} {r : List Nat} {o : SortOut}
    (h : sortLevel g ends path r = .ok o)
    (hflat : ∀ it ∈ path, ∃ u, it = .unit u) (hac : ∀ u, ¬ Reach g ends u u) :
    o.stop = true := by
  obtain ⟨ps, e0, hgood, _, _, e3⟩ := sortLevel_inv h
  rw [e3]
  apply bubble_converges
  have unitOf : ∀ p, p ∈ ps → ∃ u, p.item = .unit u := by
    intro p hp
    exact hflat p.item (by rw [← e0]; exact List.mem_map_of_mem hp)
  have key : ∀ p q, p ∈ ps → q ∈ ps → ∀ a b, p.item = .unit a → q.item = .unit b →
      (p.downFrom q = true ↔ Reach g ends b a) := by
    intro p q hp hq a b ha hb
    rw [downFrom_iff (hgood p hp) (hgood q hq), ha, hb]
    constructor
    · rintro ⟨m, hm, u, hu, hr⟩
      simp only [Item.flat, List.mem_singleton] at hm hu
      subst hm hu; exact hr
    · intro hr
      exact ⟨a, by simp [Item.flat], b, by simp [Item.flat], hr⟩
  constructor
  · intro p hp
    obtain ⟨a, ha⟩ := unitOf p hp
    cases hd : p.downFrom p with
    | false => rfl
    | true => exact absurd ((key p p hp hp a a ha ha).mp hd) (hac a)
  · intro p q s hp hq hs h1 h2
    obtain ⟨a, ha⟩ := unitOf p hp
    obtain ⟨b, hb⟩ := unitOf q hq
    obtain ⟨c, hc⟩ := unitOf s hs
    exact (key p s hp hs a c ha hc).mpr
      (Relation.TransGen.trans ((key q s hq hs b c hb hc).mp h2) ((key p q hp hq a b ha hb).mp h1))

/-- **The acyclic half of the property, for the sorting stage.**  Whatever order of the units of an
acyclic flowsheet reaches `Network.sort`, it returns them (the same items, permuted) in an order in
which no unit precedes a unit that transitively feeds it, adds no recycle and does not warn. -/
theorem sort_dag_topological {path : List Item} {r : List Nat} {o : SortOut}
    (h : sortLevel g ends path r = .ok o)
    (hflat : ∀ it ∈ path, ∃ u, it = .unit u) (hac : ∀ u, ¬ Reach g ends u u) :
    o.stop = true ∧ o.recycle = r ∧ o.path.Perm path ∧
      ∀ (i j a b : Nat), i < j → o.path[i]? = some (.unit a) → o.path[j]? = some (.unit b) → ¬ Reach g ends b a :=
  ⟨sort_dag_converges h hflat hac, dag_no_recycle h hflat hac, sort_perm h,
    sort_clean_topological h (sort_dag_converges h hflat hac) hflat hac⟩

/-- The same for the whole call `Network.sort(ends)` on a network without sub-networks: the recycle
set is unchanged, the units are permuted into a topological order, and no warning is issued. -/
theorem sortItem_dag {p : List Item} {r : List Nat} {it' : Item} {w : Nat}
    (h : sortItem g ends (.net p r) = .ok (it', w))
    (hflat : ∀ it ∈ p, ∃ u, it = .unit u) (hac : ∀ u, ¬ Reach g ends u u) :
    ∃ p', it' = .net p' r ∧ p'.Perm p ∧ w = 0 ∧
      ∀ (i j a b : Nat), i < j → p'[i]? = some (.unit a) → p'[j]? = some (.unit b) → ¬ Reach g ends b a := by
  unfold sortItem at h
  rw [sortList_units hflat] at h
  simp only at h
  split at h
  · exact absurd h (by simp)
  · rename_i o ho
    injection h with h; injection h with h1 h2; subst h1
    obtain ⟨hs, hr, hp, ht⟩ := sort_dag_topological ho hflat hac
    refine ⟨o.path, by rw [hr], hp, ?_, ht⟩
    rw [hs] at h2; simpa using h2.symm

/-! ## The depth-first walk -/

/-- the units the walk can get to from `feed`: inside `units`, never crossing a stream of `ends` -/
inductive FeedReach (g : Graph) (units ends : List Nat) (feed : Nat) : Nat → Prop
  | start {v : Nat} : feed ∉ ends → g.sinkOf feed = some v → v ∈ units → FeedReach g units ends feed v
  | step {u v s : Nat} : FeedReach g units ends feed u → s ∈ g.outsOf u → s ∉ ends → g.sinkOf s = some v →
      v ∈ units → FeedReach g units ends feed v

/-- **fill_path_covers**.  (i) Every unit that `feed` reaches inside `units` without crossing `ends`
appears in some path returned by `find_paths_with_and_without_recycle`; (ii) a path is returned
"with recycle" only on a real cycle: the closing stream's sink lies on the path and reaches itself
without crossing `ends`.  (`fill_path` drops the path of a unit that has no outlet at all, hence the
hypothesis that every unit has one.) -/
theorem fill_path_covers {units : List Nat} {feed : Nat} {st : DfsSt}
    (hout : ∀ u, u ∈ units → g.outsOf u ≠ []) (h : findPaths g units feed ends = .ok st) :
    (∀ v, FeedReach g units ends feed v → st.cov v) ∧
    (∀ p r, (p, r) ∈ st.withR → RealCycle g ends p r) := by
  unfold findPaths at h
  obtain ⟨s, _, t⟩ := fillPath_spec hout _ feed [] _ st h
  obtain ⟨_, c⟩ := fillPath_cycles ends _ feed [] _ st (fun _ hs => hs) (fun a ha => by simp at ha) h
  have nocov : ∀ u, ¬ DfsSt.cov { withR := [], without := [], ends := ends } u := by
    intro u hu; rcases hu with ⟨_, h, _⟩ | ⟨_, _, h, _⟩ <;> simp at h
  have good : ∀ u, st.cov u → Good g units st u := by
    intro u hu
    rcases s.newCov u hu with h | h | h
    · exact absurd h (nocov u)
    · simp at h
    · exact h
  have tgt : ∀ x v, Target g units st x → x ∉ ends → g.sinkOf x = some v → v ∈ units → st.cov v := by
    intro x v T hx hk hv
    rcases T with T | T | ⟨v', hk', hc⟩
    · rcases s.newEnds x T with h | ⟨v', hk', hc⟩
      · exact absurd h hx
      · rw [hk] at hk'; injection hk' with e; subst e; exact hc
    · exact absurd hv (T v hk)
    · rw [hk] at hk'; injection hk' with e; subst e; exact hc
  refine ⟨fun v hv => ?_, fun p r hpr => ?_⟩
  · induction hv with
    | start hne hk hv => exact tgt feed _ t hne hk hv
    | step _ hs hne hk hv ih => exact tgt _ _ (good _ ih _ hs) hne hk hv
  · rcases c p r hpr with h | h
    · simp at h
    · exact h

/-- corollary: on a flowsheet without a cycle the walk reports no recycle. -/
theorem dfs_acyclic_no_recycle {units : List Nat} {feed : Nat} {st : DfsSt}
    (hout : ∀ u, u ∈ units → g.outsOf u ≠ []) (hac : ∀ u, ¬ Reach g ends u u)
    (h : findPaths g units feed ends = .ok st) : st.withR = [] := by
  cases hw : st.withR with
  | nil => rfl
  | cons pr rest =>
    obtain ⟨v, _, _, hr⟩ := (fill_path_covers hout h).2 pr.1 pr.2 (by rw [hw]; exact List.mem_cons_self ..)
    exact absurd hr (hac v)

/-- **dfs_cycle_found** (converse of part (ii)).  If, following streams from `feed` inside `units`
without crossing `ends`, one can come back to a unit already passed (`WalkHits`: the feed reaches a
cycle), then at least one path with a recycle is returned. -/
theorem dfs_cycle_found {units : List Nat} {feed : Nat} {st : DfsSt}
    (h : findPaths g units feed ends = .ok st) (w : WalkHits g units ends feed []) : st.withR ≠ [] := by
  unfold findPaths at h
  have := fillPath_found _ feed [] _ st h w
  intro e; rw [e] at this; simp at this

/-! ## No error branch is ever taken -/

/-- **dfs_total**.  The recursion bound of the model of `fill_path` (number of units + 2) is never hit. -/
theorem dfs_total (g : Graph) (units : List Nat) (feed : Nat) (ends : List Nat) :
    ∃ st, findPaths g units feed ends = .ok st := findPaths_total g units feed ends

/-- **sort_total**.  On a flowsheet whose streams end in given units, the `n` rounds the model gives
`get_downstream_units` always reach the fixpoint, so `Network.sort` never ends in `Err.fuel` —
at any nesting depth. -/
theorem sort_total (hg : g.SinksOK) (ends : List Nat) (it : Item) : ∃ r, sortItem g ends it = .ok r :=
  sortItem_total hg ends it

/-- All of the acyclic case at once, with no side condition on the run: for every order of the units
of an acyclic flowsheet `Network.sort` returns, without warning and without adding a recycle, a
permutation in which no unit precedes a unit that transitively feeds it. -/
theorem sort_dag (hg : g.SinksOK) (hac : ∀ u, ¬ Reach g ends u u) (path : List Item) (r : List Nat)
    (hflat : ∀ it ∈ path, ∃ u, it = .unit u) :
    ∃ o, sortLevel g ends path r = .ok o ∧ o.stop = true ∧ o.recycle = r ∧ o.path.Perm path ∧
      ∀ (i j a b : Nat), i < j → o.path[i]? = some (.unit a) → o.path[j]? = some (.unit b) → ¬ Reach g ends b a := by
  obtain ⟨o, ho⟩ := sortLevel_total hg ends path r
  exact ⟨o, ho, sort_dag_topological ho hflat hac⟩

/-! ## The property's observable and the checker -/

/-- The statement of C19 for a flowsheet `g` (units `0..n-1`), the nested path `p` of the network
built from it, and the reported recycle streams `R` (`Network.get_all_recycles()`). -/
structure Holds (g : Graph) (p : Item) (R : List Nat) : Prop where
  /-- the path contains exactly the given units … -/
  exact : ∀ u, u ∈ p.flat ↔ u < g.n
  /-- … each of them once (in both halves) -/
  once : p.flat.Nodup
  /-- the reported recycles are the recycles the (sub-)networks carry -/
  reported : ∀ s, s ∈ R ↔ s ∈ allRecycles p
  /-- no cycle: every unit after all units that feed it, no recycle reported -/
  acyclic : ¬ Cyclic g → (∀ a b, FlowEdge g a b → pos p a < pos p b) ∧ R = []
  /-- cycles: a recycle is reported, the reported recycles cut every cycle (no unit reaches itself once
  they are removed), every reported recycle is a recycle stream (it lies on a cycle), and every stream
  against the path order lies on a cycle (its sink reaches its
  source) whose two units are inside a common recycle loop -/
  cyclic : Cyclic g → R ≠ [] ∧ (∀ u, ¬ Reach g R u u) ∧ (∀ s, s ∈ R → OnCycle g s) ∧
    ∀ a b, FlowEdge g a b → ¬ pos p a < pos p b → Reach g [] b a ∧ InCommonLoop p a b

/-- **validNetwork_sound**.  Whenever the executable checker accepts `(g, p, R)`, the property's
statement holds for it.  (The Python twin of the checker is the oracle on the real `Network`; the
driver evaluates this very function on every case and the two verdicts are compared.) -/
theorem validNetwork_sound {p : Item} {R : List Nat} (hlen : g.outs.length ≤ g.n)
    (h : validNetwork g p R = true) : Holds g p R := by
  unfold validNetwork at h
  have hv : checkNetwork g p R = .valid := by simpa using h
  unfold checkNetwork at hv
  simp only at hv
  split at hv
  · exact absurd hv (by simp)
  rename_i hu
  simp only [Bool.not_eq_true, Bool.not_eq_false', Bool.and_eq_true, List.all_eq_true, decide_eq_true_eq] at hu
  have hexact : ∀ u, u ∈ p.flat ↔ u < g.n :=
    fun u => ⟨fun hm => hu.1 u hm, fun hl => List.contains_iff_mem.mp (hu.2 u (List.mem_range.mpr hl))⟩
  have hedge : ∀ a b, FlowEdge g a b → (a, b) ∈ edgesOf g :=
    fun a b e => mem_edgesOf (Nat.lt_of_lt_of_le e.lt_outs_length hlen) e
  split at hv
  · exact absurd hv (by simp)
  rename_i hnd
  have honce : p.flat.Nodup := by
    have : nodupB p.flat = true := by simpa using hnd
    exact (nodupB_iff _).mp this
  split at hv
  · exact absurd hv (by simp)
  rename_i hrs
  simp only [Bool.not_eq_true, Bool.not_eq_false', Bool.and_eq_true, List.all_eq_true] at hrs
  have hrep : ∀ s, s ∈ R ↔ s ∈ allRecycles p :=
    fun s => ⟨fun hm => List.contains_iff_mem.mp (hrs.1 s hm), fun hm => List.contains_iff_mem.mp (hrs.2 s hm)⟩
  split at hv
  · rename_i hc
    have hcyc : Cyclic g := hasCycle_sound hc
    split at hv
    · exact absurd hv (by simp)
    rename_i hR
    split at hv
    · exact absurd hv (by simp)
    rename_i hcut
    have hcut' : acyclicB g R = true := by simpa using hcut
    split at hv
    · exact absurd hv (by simp)
    rename_i hon
    have hon' : ∀ s, s ∈ R → OnCycle g s := by
      intro s hs
      have : R.all (onCycleB g) = true := by simpa using hon
      exact onCycleB_sound (List.all_eq_true.mp this s hs)
    split at hv
    · rename_i hall
      refine ⟨hexact, honce, hrep, fun hn => absurd hcyc hn, fun _ => ⟨?_, acyclic_of_acyclicB hcut', hon', ?_⟩⟩
      · intro e; exact hR (by simp [e])
      · intro a b e hnlt
        have := List.all_eq_true.mp hall (a, b) (hedge a b e)
        simp only [Bool.or_eq_true, decide_eq_true_eq, List.any_eq_true, Bool.and_eq_true] at this
        rcases this with h | ⟨hr, l, hl, ha, hb⟩
        · exact absurd h hnlt
        · obtain ⟨q, r, hs, hne, rfl⟩ := (mem_loops p l).mp hl
          exact ⟨reachesB_sound hr, q, r, hs, hne, List.contains_iff_mem.mp ha, List.contains_iff_mem.mp hb⟩
    · exact absurd hv (by simp)
  · split at hv
    · exact absurd hv (by simp)
    rename_i hfw
    split at hv
    · exact absurd hv (by simp)
    rename_i hR
    have hforward : ∀ a b, FlowEdge g a b → pos p a < pos p b := by
      intro a b e
      simp only [Bool.not_eq_true, Bool.not_eq_false'] at hfw
      have := List.all_eq_true.mp hfw (a, b) (hedge a b e)
      unfold pos
      simpa using this
    refine ⟨hexact, honce, hrep, fun _ => ⟨hforward, ?_⟩, fun hc => absurd hc (forward_acyclic hforward)⟩
    cases R with
    | nil => rfl
    | cons _ _ => simp at hR

/-- **The acyclic half of C19, end to end for the sorting stage.**  Let `g` be an acyclic flowsheet and
let the (unmodelled) joining machinery hand `Network.sort` a path that lists every given unit exactly
once, in any order, with no recycle, and `ends` consisting of product streams only.  Then the network
`sort` leaves behind satisfies the property's statement `Holds`, and no warning is issued.  So on
acyclic flowsheets the only thing the joining heuristics have to get right is "each unit once". -/
theorem sort_dag_holds (hg : g.SinksOK) (hlen : g.outs.length ≤ g.n)
    (hends : ∀ s, s ∈ ends → g.sinkOf s = none) (hac : ¬ Cyclic g)
    (path : List Item) (hflat : ∀ it ∈ path, ∃ u, it = .unit u)
    (hexact : ∀ u, u ∈ flatList path ↔ u < g.n) (hnd : (flatList path).Nodup) :
    ∃ o, sortLevel g ends path [] = .ok o ∧ o.stop = true ∧ Holds g (.net o.path o.recycle) o.recycle := by
  have hac' : ∀ u, ¬ Reach g ends u u := fun u hr => hac ⟨u, (reach_ends_iff hends u u).mp hr⟩
  obtain ⟨o, ho, hstop, hrec, hperm, htopo⟩ := sort_dag hg hac' path [] hflat
  have hfl := flatList_perm hperm
  have hflat' : ∀ it ∈ o.path, ∃ u, it = .unit u := fun it hit => hflat it (hperm.mem_iff.mp hit)
  have hnd' : (flatList o.path).Nodup := hfl.symm.nodup hnd
  refine ⟨o, ho, hstop, ?_, by simpa [Item.flat] using hnd', ?_, ?_, fun hc => absurd hc hac⟩
  · intro u
    simp only [Item.flat]
    rw [hfl.mem_iff]; exact hexact u
  · intro s
    simp [allRecycles, allRecyclesList_units hflat', hrec]
  · intro _
    refine ⟨?_, hrec⟩
    intro a b e
    have ha : a ∈ flatList o.path := hfl.mem_iff.mpr ((hexact a).mpr (Nat.lt_of_lt_of_le e.lt_outs_length hlen))
    have hb : b ∈ flatList o.path := by
      obtain ⟨s, _, _, hk⟩ := e
      exact hfl.mem_iff.mpr ((hexact b).mpr (hg s b hk))
    obtain ⟨i, hi⟩ := List.mem_iff_getElem?.mp ha
    obtain ⟨j, hj⟩ := List.mem_iff_getElem?.mp hb
    have hi' := (flatList_units_getElem? hflat' i a).mp hi
    have hj' := (flatList_units_getElem? hflat' j b).mp hj
    have hr : Reach g ends a b := (reach_ends_iff hends a b).mpr (Relation.TransGen.single e)
    have hpos : ∀ (k c : Nat), (flatList o.path)[k]? = some c → pos (.net o.path o.recycle) c = k := by
      intro k c hk
      obtain ⟨hlt, hc⟩ := List.getElem?_eq_some_iff.mp hk
      unfold pos
      simp only [Item.flat]
      rw [← hc]; exact hnd'.idxOf_getElem k hlt
    rw [hpos i a hi, hpos j b hj]
    rcases Nat.lt_trichotomy i j with h | h | h
    · exact h
    · subst h
      rw [hi] at hj; injection hj with hj; subst hj
      exact absurd hr (hac' a)
    · exact absurd hr (htopo j i b a h hj' hi')

/-! ## Feed ordering -/

/-- `sort_feeds_big_to_small` permutes the feeds … -/
theorem feedOrder_perm (fmass : List Nat) : (feedOrder fmass).Perm (List.range fmass.length) := by
  unfold feedOrder
  induction List.range fmass.length with
  | nil => exact List.Perm.refl _
  | cons x xs ih => exact (insertFeed_perm fmass x _).trans (ih.cons x)

/-- … and puts them in order of non-increasing `F_mass` (the first one becomes the feedstock). -/
theorem feedOrder_sorted (fmass : List Nat) :
    (feedOrder fmass).Pairwise (fun a b => fmass.getD b 0 ≤ fmass.getD a 0) := by
  unfold feedOrder
  induction List.range fmass.length with
  | nil => exact List.Pairwise.nil
  | cons x xs ih => exact insertFeed_sorted fmass x _ ih

/-! ## Non-vacuity: concrete flowsheets on which the hypotheses above hold -/

/-- feed → U0 → U1 → U2 → product, plus a bypass U0 → U2.
streams: 0: U0→U1, 1: U1→U2, 2: U0→U2, 3: feed→U0, 4: U2→product -/
def G1 : Graph := { n := 3, outs := [[0, 2], [1], [4]], ins := [[3], [0], [1, 2]],
                    snk := [some 1, some 2, some 2, some 0, none], src := [some 0, some 1, some 0, none, some 2] }

/-- a closed ring U0 → U2 → U1 → U0.  streams: 0: U0→U2, 1: U1→U0, 2: U2→U1 -/
def G2 : Graph := { n := 3, outs := [[0], [1], [2]], ins := [[1], [2], [0]],
                    snk := [some 2, some 0, some 1], src := [some 0, some 1, some 2] }

/-- one recycle loop with a feed and a product.
streams: 0: U0→U1, 1: U1→U0 (recycle), 2: feed→U0, 3: U1→product -/
def G3 : Graph := { n := 2, outs := [[0], [1, 3]], ins := [[2, 1], [0]],
                    snk := [some 1, some 0, some 0, none], src := [some 0, some 1, none, some 1] }

/-- all hypotheses of `sort_clean_topological` / `dag_no_recycle` hold together on `G1` with the
units handed over in reverse order; `sort` returns the topological order `U0 U1 U2`. -/
example : ∃ o, sortLevel G1 [4] [.unit 2, .unit 1, .unit 0] [] = .ok o ∧ o.stop = true ∧
    flatList o.path = [0, 1, 2] ∧ o.recycle = [] ∧
    (∀ it ∈ [Item.unit 2, .unit 1, .unit 0], ∃ u, it = .unit u) ∧ (∀ u, ¬ Reach G1 [4] u u) := by
  obtain ⟨o, ho, hP⟩ := ok_of_match (e := sortLevel G1 [4] [.unit 2, .unit 1, .unit 0] [])
    (P := fun o => o.stop && flatList o.path == [0, 1, 2] && o.recycle == []) (by decide)
  simp only [Bool.and_eq_true, beq_iff_eq] at hP
  refine ⟨o, ho, hP.1.1, hP.1.2, hP.2, ?_, acyclic_of_acyclicB (by decide)⟩
  intro it hit
  simp only [List.mem_cons, List.not_mem_nil, or_false] at hit
  rcases hit with rfl | rfl | rfl <;> exact ⟨_, rfl⟩

/-- all hypotheses of `sort_dag_holds` hold on `G1` with the units in reverse order. -/
example : G1.SinksOK ∧ G1.outs.length ≤ G1.n ∧ (∀ s, s ∈ [4] → G1.sinkOf s = none) ∧ ¬ Cyclic G1 ∧
    (∀ it ∈ [Item.unit 2, .unit 1, .unit 0], ∃ u, it = .unit u) ∧
    (∀ u, u ∈ flatList [.unit 2, .unit 1, .unit 0] ↔ u < G1.n) ∧ (flatList [.unit 2, .unit 1, .unit 0]).Nodup := by
  refine ⟨sinksOK_of_B (by decide), by decide, ?_, ?_, ?_, ?_, by decide⟩
  · intro s hs; simp only [List.mem_singleton] at hs; subst hs; decide
  · rintro ⟨u, hu⟩; exact acyclic_of_acyclicB (g := G1) (ends := []) (by decide) u hu
  · intro it hit
    simp only [List.mem_cons, List.not_mem_nil, or_false] at hit
    rcases hit with rfl | rfl | rfl <;> exact ⟨_, rfl⟩
  · intro u
    simp only [flatList, Item.flat, List.append_nil, List.cons_append, List.nil_append, List.mem_cons,
      List.not_mem_nil, or_false, G1]
    omega

/-- Why the general form `sort_clean_sorted` speaks of mutual reachability: on the closed ring `G2`
(no stream in `ends`) `sort` leaves *without* the warning and without a recycle although `U0`
precedes `U1`, which feeds it — every pair is mutually reachable and no adjacent pair in path
order is directly connected. -/
example : ∃ o, sortLevel G2 [] [.unit 0, .unit 1, .unit 2] [] = .ok o ∧ o.stop = true ∧ o.recycle = [] ∧
    flatList o.path = [0, 1, 2] ∧ Reach G2 [] 1 0 := by
  obtain ⟨o, ho, hP⟩ := ok_of_match (e := sortLevel G2 [] [.unit 0, .unit 1, .unit 2] [])
    (P := fun o => o.stop && o.recycle == [] && flatList o.path == [0, 1, 2]) (by decide)
  simp only [Bool.and_eq_true, beq_iff_eq] at hP
  exact ⟨o, ho, hP.1.1, hP.1.2, hP.2, Relation.TransGen.single ⟨1, by decide, by simp, by decide⟩⟩

/-- the recycle branch is live: on `G2` in the order `U0 U2 U1` `sort` adds recycles and warns. -/
example : ∃ o, sortLevel G2 [] [.unit 0, .unit 2, .unit 1] [] = .ok o ∧ o.stop = false ∧ o.recycle = [0, 2] := by
  obtain ⟨o, ho, hP⟩ := ok_of_match (e := sortLevel G2 [] [.unit 0, .unit 2, .unit 1] [])
    (P := fun o => !o.stop && o.recycle == [0, 2]) (by decide)
  simp only [Bool.and_eq_true, beq_iff_eq, Bool.not_eq_true'] at hP
  exact ⟨o, ho, hP.1, hP.2⟩

/-- nested call: the loop `(U0 r1)` placed after `U1` is moved in front of it. -/
example : (sortItem G3 [1, 3] (.net [.unit 1, .net [.unit 0] [1]] [])).toOption.map (fun x => (x.1.flat, x.2))
    = some ([0, 1], 0) := by decide

/-- `fill_path_covers` on `G1`: its hypotheses hold, both paths are returned, none with a recycle,
and `U2` is reachable from the feed. -/
example : ∃ st, findPaths G1 [0, 1, 2] 3 [4] = .ok st ∧ st.withR = [] ∧ st.without = [[0, 2], [0, 1, 2]] ∧
    (∀ u, u ∈ [0, 1, 2] → G1.outsOf u ≠ []) ∧ FeedReach G1 [0, 1, 2] [4] 3 2 := by
  obtain ⟨st, hst, hP⟩ := ok_of_match (e := findPaths G1 [0, 1, 2] 3 [4])
    (P := fun st => st.withR == [] && st.without == [[0, 2], [0, 1, 2]]) (by decide)
  simp only [Bool.and_eq_true, beq_iff_eq] at hP
  refine ⟨st, hst, hP.1, hP.2, by decide, ?_⟩
  exact .step (u := 0) (v := 2) (s := 2) (.start (v := 0) (by decide) (by decide) (by decide))
    (by decide) (by decide) (by decide) (by decide)

/-- … and on the loop `G3` the walk reports the recycle `U1 → U0` with the path `U0 U1`. -/
example : ∃ st, findPaths G3 [0, 1] 2 [3] = .ok st ∧ st.withR = [([0, 1], 1)] ∧ st.ends = [3, 1] := by
  obtain ⟨st, hst, hP⟩ := ok_of_match (e := findPaths G3 [0, 1] 2 [3])
    (P := fun st => st.withR == [([0, 1], 1)] && st.ends == [3, 1]) (by decide)
  simp only [Bool.and_eq_true, beq_iff_eq] at hP
  exact ⟨st, hst, hP.1, hP.2⟩

/-- `dfs_cycle_found` on `G3`: feed → U0 → U1 → back to U0. -/
example : WalkHits G3 [0, 1] [3] 2 [] :=
  .step (v := 0) (f' := 0) (by decide) (by decide) (by decide) (by decide) (by decide)
    (.step (v := 1) (f' := 1) (by decide) (by decide) (by decide) (by decide) (by decide)
      (.hit (v := 0) (by decide) (by decide) (by decide) (by decide) ⟨0, by decide, by decide⟩))

example : G1.SinksOK ∧ G2.SinksOK ∧ G3.SinksOK :=
  ⟨sinksOK_of_B (by decide), sinksOK_of_B (by decide), sinksOK_of_B (by decide)⟩

/-- the checker accepts the right answers (so `validNetwork_sound` is not vacuous) … -/
example : validNetwork G1 (.net [.unit 0, .unit 1, .unit 2] []) [] = true ∧ G1.outs.length ≤ G1.n := by decide
example : validNetwork G3 (.net [.unit 0, .unit 1] [1]) [1] = true ∧ G3.outs.length ≤ G3.n := by decide
example : validNetwork G3 (.net [.unit 1, .net [.unit 0] [1]] []) [1] = false := by decide
/-- … and rejects wrong ones: a unit before its feeder, a missing unit, a loop without a recycle. -/
example : checkNetwork G1 (.net [.unit 1, .unit 0, .unit 2] []) [] = .order := by decide
example : checkNetwork G1 (.net [.unit 0, .unit 2] []) [] = .units := by decide
example : checkNetwork G3 (.net [.unit 0, .unit 1] []) [] = .noRecycle := by decide
example : checkNetwork G1 (.net [.unit 0, .unit 1, .unit 2] [0]) [0] = .recycleOnDag := by decide

/-- the strengthened cyclic clauses are live: a unit listed twice (outside and inside the loop), a
reported "recycle" that is a product stream and cuts nothing, reported recycles that are not the ones the
networks carry, and a unit outside the loop network placed before the loop that feeds it. -/
example : checkNetwork G3 (.net [.unit 0, .net [.unit 0, .unit 1] [1]] []) [1] = .dup := by decide
example : checkNetwork G3 (.net [.unit 0, .unit 1] [3]) [3] = .notCut := by decide
example : checkNetwork G3 (.net [.unit 0, .unit 1] [1]) [0] = .recycleSet := by decide
example : checkNetwork G3 (.net [.unit 1, .net [.unit 0] [1]] []) [1] = .backward := by decide

example : feedOrder [1, 8, 0, 8, 3] = [1, 3, 4, 0, 2] := by decide

end ThermoVerif.Props.C19
