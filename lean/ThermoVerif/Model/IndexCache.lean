import ThermoVerif.Model.Indexer
/-
The two bounded memo dictionaries in front of key resolution, the world of
chemicals objects and indexers that share them, and the operation histories of C10.

* `CompiledChemicals._index_cache`: key ↦ (index, kind); after an insertion that makes
  it longer than 100 the oldest entry is popped (`_get_index_and_kind`, `index_overlap`).
* `MaterialIndexer._index_caches[(phases, chemicals)]`: key ↦ (index, kind, sum_across_phases);
  after an insertion `utils.trim_cache` removes the 100 oldest entries when there are
  more than 500.

Written to the *fixed* behaviour (fixes_proposed/C10-1 … C10-4): `trim_cache` trims,
`index_overlap` stores kind 3, defining an alias or a group empties the memos of that
chemicals object.  Core Lean only.
-/
namespace ThermoVerif.IndexCache
open ThermoVerif.Chemicals ThermoVerif.Indexer

def chemCacheLimit : Nat := 100
def matCacheLimit : Nat := 500
def matCacheTrim : Nat := 100

/-- `if len(cache) > 100: cache.pop(next(iter(cache)))`. -/
def evict1 {κ β : Type} (l : List (κ × β)) : List (κ × β) :=
  if l.length > chemCacheLimit then l.drop 1 else l

/-- `utils.trim_cache` (fixed): above 500 entries the 100 oldest go. -/
def trim {κ β : Type} (l : List (κ × β)) : List (κ × β) :=
  if l.length > matCacheLimit then l.drop matCacheTrim else l

/-- A `CompiledChemicals` object: its tables and its memo. -/
structure CState where
  chem : Chem
  /-- `chemicals.CASs` -/
  cas : List String
  cache : List (HKey × Ix)
  deriving Repr, Inhabited

/-- `CompiledChemicals._get_index_and_kind(key)` for a hashable key. -/
def CState.lookup (s : CState) (k : HKey) : Except Err Ix × CState :=
  match alookup k s.cache with
  | some v => (.ok v, s)
  | none =>
    match resolveC s.chem k with
    | .ok v => (.ok v, { s with cache := evict1 (s.cache ++ [(k, v)]) })
    | .error e => (.error e, s)

def casKey (cas : List String) : HKey := .tup (cas.map fun s => .leaf (.str s))

def overlapPositions (c : Chem) : List String → Except Err (List Nat)
  | [] => .ok []
  | cas :: t =>
    match alookup cas c.index with
    | none => .error .undefinedAlias
    | some (.grp _) => .error .runtimeError
    | some (.pos i) => do
      let r ← overlapPositions c t
      pure (i :: r)

/-- `index_overlap(left, right, right_index)`, the part that concerns the left
chemicals: positions of the given CAS numbers, memoised under the CAS tuple in the
*same* dictionary as `_get_index_and_kind`. -/
def CState.overlap (s : CState) (cas : List String) : Except Err (List Nat) × CState :=
  match alookup (casKey cas) s.cache with
  | some (.arr is) => (.ok is, s)
  | some (.one i) => (.ok [i], s)
  | some _ => (.error .runtimeError, s)
  | none =>
    match overlapPositions s.chem cas with
    | .ok is => (.ok is, { s with cache := evict1 (s.cache ++ [(casKey cas, .arr is)]) })
    | .error e => (.error e, s)

abbrev MCache := List (HKey × MIx)

/-- `MaterialIndexer._get_index_data(key)` on a miss: resolve (through the chemicals
memo), then insert and trim. -/
def lookupMiss (s : CState) (phases : List Char) (k : HKey) : Except Err MIx × CState :=
  match s.lookup k with
  | (.ok ix, s') => (.ok (.sum ix), s')
  | (.error .undefinedAlias, s') =>
    -- `_get_index_and_kind(key, error)`: phases first, then the chemicals memo for `IDs`
    match k with
    | .tup [first, ids] =>
      match phaseOfFirst phases first with
      | .error e => (.error e, s')
      | .ok p =>
        match s'.lookup ids.toKey with
        | (.ok ix, s'') => (.ok (pairIx p ix), s'')
        | (.error e, s'') => (.error e, s'')
    | k => (resolvePhase s'.chem phases k, s')
  | (.error e, s') => (.error e, s')

def lookupM (s : CState) (mc : MCache) (phases : List Char) (k : HKey) :
    Except Err MIx × CState × MCache :=
  match alookup k mc with
  | some v => (.ok v, s, mc)
  | none =>
    match lookupMiss s phases k with
    | (.ok v, s') => (.ok v, s', trim (mc ++ [(k, v)]))
    | (.error e, s') => (.error e, s', mc)

/-! ### World -/

structure Indexer where
  /-- which chemicals object -/
  chem : Nat
  /-- `none`: single-phase `ChemicalIndexer`; `some phases`: `MaterialIndexer` -/
  phases : Option (List Char)
  data : List Row
  /-- `indexer.phase` of a single-phase indexer (unused for a `MaterialIndexer`) -/
  phase : Char := 'l'
  /-- a `SplitIndexer` (single row, no phase, groups without composition) -/
  split : Bool := false
  deriving Repr, Inhabited, DecidableEq

/-- `IDs` part of the key (what `__setitem__` passes on as `key`). -/
def idsPart : HKey → HKey
  | .tup [_, ids] => ids.toKey
  | k => k

/-- Resolve the key of an indexer through the memo dictionaries.  A single-phase indexer
is treated as the one-row case `(row 0, IDs)`; the second component is the `IDs` part of
the key, which `__setitem__` hands on to look up group compositions. -/
def resolveIx (s : CState) (mc : MCache) (phases : Option (List Char)) (key : PyKey) :
    Except Err (MIx × HKey) × CState × MCache :=
  match phases with
  | none =>
    match normC key with
    | .error e => (.error e, s, mc)
    | .ok k =>
      match s.lookup k with
      | (.ok ix, s') => (.ok (.sub (some 0) ix, k), s', mc)
      | (.error e, s') => (.error e, s', mc)
  | some ps =>
    match normM key with
    | .error e => (.error e, s, mc)
    | .ok k =>
      match lookupM s mc ps k with
      | (.ok v, s', mc') => (.ok (v, idsPart k), s', mc')
      | (.error e, s', mc') => (.error e, s', mc')

/-- The same without any memo: the specification. -/
def resolveIxP (c : Chem) (phases : Option (List Char)) (key : PyKey) : Except Err (MIx × HKey) :=
  match phases with
  | none =>
    match normC key with
    | .error e => .error e
    | .ok k =>
      match resolveC c k with
      | .ok ix => .ok (.sub (some 0) ix, k)
      | .error e => .error e
  | some ps =>
    match normM key with
    | .error e => .error e
    | .ok k =>
      match resolveM c ps k with
      | .ok v => .ok (v, idsPart k)
      | .error e => .error e

def nonzeroPositions (row : Row) : List Nat :=
  (List.range row.length).filter fun i => getAt row i ≠ 0

/-- What a cross-package transfer writes, given the positions `index_overlap` returned. -/
def transferRow (rowL rowR : Row) (add : Bool) (rix : List Nat) (lix : Except Err (List Nat)) :
    Row × Option Err :=
  match lix with
  | .error e =>
    -- `copy_like` has already emptied the receiver (`self.empty()`); `mix_from` has not touched it
    (if add then rowL else rowL.map fun _ => 0, some e)
  | .ok lix =>
    let base := if add then rowL else rowL.map fun _ => 0
    let vals := rix.map (getAt rowR)
    -- `data[left_index] += idata[right_index]` / `data[left_index] = idata[right_index]`
    (if add then writeZip base lix ((lix.zip vals).map fun (i, v) => getAt base i + v)
     else writeZip base lix vals, none)

structure World where
  chems : List CState := []
  /-- `MaterialIndexer._index_caches`, keyed by (chemicals object, phases) -/
  mcaches : List ((Nat × List Char) × MCache) := []
  ixs : List Indexer := []
  deriving Repr, Inhabited

def World.mcacheOf (w : World) (ix : Indexer) : MCache :=
  match ix.phases with
  | none => []
  | some ps => (alookup (ix.chem, ps) w.mcaches).getD []

/-- Store the memo dictionaries back after a lookup through indexer `ix`. -/
def World.putCaches (w : World) (ix : Indexer) (s' : CState) (mc' : MCache) : World :=
  { w with chems := w.chems.set ix.chem s',
           mcaches := match ix.phases with
             | none => w.mcaches
             | some ps => ainsert (ix.chem, ps) mc' w.mcaches }

def World.putIx (w : World) (i : Nat) (ix' : Indexer) : World := { w with ixs := w.ixs.set i ix' }

def World.setData (w : World) (i : Nat) (ix : Indexer) (data : List Row) : World :=
  { w with ixs := w.ixs.set i { ix with data := data } }

/-- Install the changed tables `s'` of chemicals object `c`.  Fix C10-4: when a name was
added or a group (re)defined (`drop`), the memos of that chemicals object are emptied. -/
def World.redefine (w : World) (c : Nat) (s' : CState) (drop : Bool) : World :=
  { w with
    chems := w.chems.set c (if drop then { s' with cache := [] } else s'),
    mcaches := if drop then w.mcaches.map fun e => if e.1.1 = c then (e.1, []) else e
               else w.mcaches }

/-- The name-keyed constructors of `CompiledChemicals`: `array`/`kwarray`, `split`/`kwsplit`,
`iarray`/`ikwarray` (a blank `ChemicalIndexer` — it has no group compositions — written through the
key) and `isplit` with `order` or a dict (a blank `SplitIndexer` written through the key). -/
inductive BuildKind where
  | array | split | iarray | isplit
  deriving Repr, DecidableEq, Inhabited

inductive Op where
  | compile (specs : List Spec)
  | alias (c : Nat) (id alias : String)
  | group (c : Nat) (name : String) (ids : List String) (comp : Option (List Rat)) (wt : Bool)
  /-- `chemicals.array / split / iarray / isplit (IDs, data)` -/
  | array (c : Nat) (kind : BuildKind) (key : PyKey) (d : Data)
  /-- `indexer.by_mass()[key]` -/
  | getMass (ix : Nat) (key : PyKey)
  /-- `indexer.by_mass()[key] = data` -/
  | setMass (ix : Nat) (key : PyKey) (d : Data)
  | newChemIx (c : Nat) (phase : Char)
  | newMatIx (c : Nat) (phases : List Char)
  /-- `SplitIndexer.blank(chemicals)` -/
  | newSplitIx (c : Nat)
  | get (ix : Nat) (key : PyKey)
  | set (ix : Nat) (key : PyKey) (d : Data)
  /-- `indexer.reset_chemicals(chemicals)`: the data follow their CAS numbers into another chemicals object -/
  | resetChem (ix : Nat) (c : Nat)
  /-- `indexer.copy()` -/
  | copyIx (ix : Nat)
  /-- `chemicals.get_index(IDs)` (never memoised) -/
  | getIndex (c : Nat) (key : PyKey)
  /-- `left.copy_like(right)` -/
  | copyLike (left right : Nat)
  /-- `left.mix_from([left, right])` -/
  | mixFrom (left right : Nat)
  deriving Repr, Inhabited

inductive Out where
  | ok
  | table (c : Chem)
  | pos (e : Ent)
  | phases (ps : List Char)
  | val (v : Val)
  | data (rows : List Row)
  /-- phases (or phase) and data of the receiver after `copy_like` / `mix_from` -/
  | state (ix : Indexer)
  /-- positions returned by `get_index` for a sequence -/
  | index (es : List Ent)
  | err (e : Err)
  deriving Repr, Inhabited, DecidableEq

def newChemIndexer (c : Nat) (size : Nat) (ph : Char) : Indexer := ⟨c, none, [List.replicate size 0], ph, false⟩
def newMatIndexer (c : Nat) (size : Nat) (pt : List Char) : Indexer :=
  ⟨c, some pt, List.replicate pt.length (List.replicate size 0), 'l', false⟩

/-! ### Transfers between indexers of the same chemicals object: phases may grow in place -/

/-- `phase_tuple(set(phases) | set(new))` -/
def unionPhases (ps new : List Char) : List Char := validPhases.filter fun p => p ∈ ps ∨ p ∈ new

/-- `_expand_phases`: the rows follow the grown, re-sorted phase tuple; new phases get empty rows. -/
def expandRows (size : Nat) (ps ps' : List Char) (data : List Row) : List Row :=
  ps'.map fun p =>
    match idxOf p ps with
    | some i => data.getD i (zeroRow size)
    | none => zeroRow size

/-- `phase in self._phase_indexer` (exact label or case variant). -/
def containsPhase (ps : List Char) (c : Char) : Bool := (phaseIndex ps c).isSome

def lowerPhase : Char → Char
  | 'S' => 's' | 'L' => 'l' | 'G' => 'g'
  | c => c

/-- `scp_data[label].append(row)` … `sv.mix_from(scp_data[phase])`. -/
def addInto (ps : List Char) (data : List Row) (label : Char) (row : Row) : List Row :=
  match phaseIndex ps label with
  | some p => data.set p (addRows (data.getD p []) row)
  | none => data

/-- `rows[phase_indexer(label)].copy_like(row)`. -/
def setInto (ps : List Char) (data : List Row) (label : Char) (row : Row) : List Row :=
  match phaseIndex ps label with
  | some p => data.set p row
  | none => data

/-- The (phase, row) pairs an indexer contributes. -/
def sources (ir : Indexer) : List (Char × Row) :=
  match ir.phases with
  | none => [(ir.phase, ir.data.getD 0 [])]
  | some psR => psR.zip ir.data

/-- `left.copy_like(right)` (`add = false`) / `left.mix_from([left, right])` (`add = true`) between
indexers of the *same* chemicals object; `none`: outside the modelled domain.  A multi-phase
receiver grows in place when the source carries a phase it lacks (and, for `copy_like` from a
multi-phase source, is not "compatible" with it); afterwards it is bound to the memo of its
*new* phase tuple, because the memo is looked up by `(chemicals, phases)` of the indexer. -/
def transferSame (size : Nat) (il ir : Indexer) (add self : Bool) : Option Indexer :=
  match il.phases with
  | none =>
    match ir.phases, il.data, ir.data with
    | none, [rowL], [rowR] =>
      some { il with data := [if add then addRows rowL rowR else rowR],
                     phase := if add then il.phase else ir.phase }
    | _, _, _ => none
  | some ps =>
    if self then some (if add then { il with data := il.data.map fun r => addRows r r } else il) else
    let src := sources ir
    let labels := src.map (·.1)
    if add then
      let ps' := if labels.all (containsPhase ps) then ps else unionPhases ps labels
      let base := expandRows size ps ps' il.data
      some { il with phases := some ps',
                     data := src.foldl (fun d (x : Char × Row) => addInto ps' d x.1 x.2) base }
    else
      match ir.phases with
      | none =>
        let ps' := if containsPhase ps ir.phase then ps else unionPhases ps [ir.phase]
        some { il with phases := some ps',
                       data := setInto ps' (ps'.map fun _ => zeroRow size) ir.phase (ir.data.getD 0 []) }
      | some psR =>
        if ps = psR then some { il with data := ir.data } else
        let ps' := if ps.map lowerPhase = psR.map lowerPhase then ps else unionPhases ps psR
        some { il with phases := some ps',
                       data := src.foldl (fun d (x : Char × Row) => setInto ps' d x.1 x.2)
                                 (ps'.map fun _ => zeroRow size) }

/-- `idata.nonzero_keys()` of the source (ascending; `index_overlap` is order-insensitive). -/
def unionNonzero (rows : List Row) : List Nat :=
  (List.range (rows.headD []).length).filter fun i => rows.any fun r => getAt r i ≠ 0

/-- A source row carried over to the receiver's chemicals: `x[left_index] (+)= row[right_index]`. -/
def mapRow (size : Nat) (lix rix : List Nat) (row : Row) : Row :=
  writeZip (zeroRow size) lix (rix.map (getAt row))

def mapIndexer (size : Nat) (lix rix : List Nat) (ir : Indexer) : Indexer :=
  { ir with data := ir.data.map (mapRow size lix rix) }

/-- A single-phase receiver mixes a multi-phase source in as the sum of its rows
(`sc_data.extend(idata.rows)` / `idata.sum(0)`); it cannot `copy_like` one (outside the model). -/
def flatSource (il ir : Indexer) (add : Bool) : Option Indexer :=
  match il.phases, ir.phases with
  | none, some _ => if add then some { ir with phases := none, data := [colSums ir.data], phase := il.phase } else none
  | _, _ => some ir

/-- The receiver after a transfer whose `index_overlap` raised: phases already grown, `copy_like`
has already emptied it, nothing has been carried over. -/
def growOnly (size : Nat) (il ir : Indexer) (add : Bool) : Option Indexer :=
  transferSame size il { ir with data := ir.data.map fun _ => zeroRow size } add false

/-- `copy_like` / `mix_from` between two indexers: within one chemicals object through
`transferSame`, across two through `index_overlap` (whose memo entry lands in the receiver's
chemicals memo) and then the same phase logic on the carried-over rows. -/
def World.transfer (w : World) (l r : Nat) (add : Bool) : World × Out :=
  match w.ixs[l]?, w.ixs[r]? with
  | some il, some ir0 =>
    match w.chems[il.chem]?, w.chems[ir0.chem]? with
    | some sl, some sr =>
      match flatSource il ir0 add with
      | none => (w, .err .typeError)
      | some ir =>
        if il.chem = ir.chem then
          match transferSame sl.chem.size il ir add (l == r) with
          | some il' => (w.putIx l il', .state il')
          | none => (w, .err .typeError)
        else
          match il.phases with
          | none =>
            match ir.phases, il.data, ir.data with
            | none, [rowL], [rowR] =>
              let rix := nonzeroPositions rowR
              let (res, sl') := sl.overlap (rix.map fun i => sr.cas.getD i "")
              let w' := { w with chems := w.chems.set il.chem sl' }
              match transferRow rowL rowR add rix res with
              | (row', some e) => (w'.putIx l { il with data := [row'] }, .err e)
              | (row', none) =>
                (w'.putIx l { il with data := [row'], phase := if add then il.phase else ir.phase },
                 .state { il with data := [row'], phase := if add then il.phase else ir.phase })
            | _, _, _ => (w, .err .typeError)
          | some _ =>
            let rix := unionNonzero ir.data
            let (res, sl') := sl.overlap (rix.map fun i => sr.cas.getD i "")
            let w' := { w with chems := w.chems.set il.chem sl' }
            match res with
            | .error e =>
              match growOnly sl.chem.size il ir add with
              | some il' => (w'.putIx l il', .err e)
              | none => (w', .err e)
            | .ok lix =>
              match transferSame sl.chem.size il (mapIndexer sl.chem.size lix rix ir) add false with
              | some il' => (w'.putIx l il', .state il')
              | none => (w', .err .typeError)
    | _, _ => (w, .err .indexError)
  | _, _ => (w, .err .indexError)

/-- `indexer[key]` after key resolution. -/
def readIx (ix : Indexer) (v : MIx) : Val :=
  if ix.split then
    match v with
    | .sub _ i => getSplit (ix.data.getD 0 []) i
    | _ => .vec []
  else getM ix.data v

/-- `indexer[key] = data` after key resolution: the data afterwards, and the answer. -/
def writeIx (c : Chem) (ix : Indexer) (v : MIx) (ids : HKey) (d : Data) : List Row × Out :=
  if ix.split then
    match v with
    | .sub _ i =>
      match setSplit (ix.data.getD 0 []) i d with
      | (row', none) => ([row'], .data [row'])
      | (row', some e) => ([row'], .err e)
    | _ => (ix.data, .err .typeError)
  else
    match setM c ix.data v ids d with
    | .error e => (setMFail c ix.data v ids d, .err e)
    | .ok data' => (data', .data data')

/-- `reset_chemicals`: every non-zero entry goes to the position `chemicals.index(CAS)` of the new object. -/
def remapInto (c : Chem) : List (String × Rat) → Row → Except Err Row
  | [], acc => .ok acc
  | (cas, v) :: t, acc =>
    if v = 0 then remapInto c t acc else
    match alookup cas c.index with
    | some (.pos i) => remapInto c t (setAt acc i v)
    | some (.grp _) => .error .typeError
    | none => .error .undefinedAlias

def remapRows (c : Chem) (cas : List String) : List Row → Except Err (List Row)
  | [] => .ok []
  | r :: t =>
    match remapInto c (cas.zip r) (zeroRow c.size), remapRows c cas t with
    | .ok r', .ok t' => .ok (r' :: t')
    | .error e, _ => .error e
    | _, .error e => .error e

/-- `dct[i]` for one element of the sequence handed to `get_index` / `indices`. -/
def indexItem (c : Chem) : Item → Except Err Ent
  | .leaf (.str s) => c.lookup s
  | .leaf .ell => .error .undefinedAlias
  | .leaf (.deep h) => .error (if h then .undefinedAlias else .typeError)
  | .tup l => .error (if l.any Leaf.unhashable then .typeError else .undefinedAlias)
  | .lst _ => .error .typeError

def indexItems (c : Chem) : List Item → Except Err (List Ent)
  | [] => .ok []
  | it :: t =>
    match indexItem c it with
    | .error e => .error e
    | .ok e =>
      match indexItems c t with
      | .ok es => .ok (e :: es)
      | .error e' => .error e'

/-- `chemicals.get_index(IDs)`: a string, the ellipsis (a slice), or a sequence. -/
def getIndexOut (c : Chem) : PyKey → Out
  | .leaf (.str s) => match c.lookup s with | .ok e => .pos e | .error e => .err e
  | .leaf .ell => .ok
  | .leaf (.deep _) => .err .typeError
  | .tup l => match indexItems c l with | .ok es => .index es | .error e => .err e
  | .lst l => match indexItems c l with | .ok es => .index es | .error e => .err e

/-- Answer of `reset_chemicals` for an indexer and the target chemicals. -/
def resetOut (ix : Indexer) (cas : List String) (c' : Nat) (new : Chem) : Option Indexer × Out :=
  if ix.split then (none, .err .typeError) else
  match remapRows new cas ix.data with
  | .ok rows => (some { ix with chem := c', data := rows }, .state { ix with chem := c', data := rows })
  | .error e => (none, .err e)

/-- The chemicals as the mass indexers see them: `group_compositions` are the weight compositions. -/
def massChem (c : Chem) : Chem := { c with comps := c.wcomps }

/-- `tuple(IDs)` of `chemicals.array` / `split`. -/
def tupleKey : PyKey → PyKey
  | .lst l => .tup l
  | k => k

/-- Result of `chemicals.array` / `split` given the resolution of the key. -/
def arrayOut (c : Chem) (kind : BuildKind) (k : HKey) (r : Except Err Ix) (d : Data) : Out :=
  match r with
  | .error e => .err e
  | .ok ix =>
    match kind with
    | .array =>
      match arrayOf c.size ix d with
      | .ok row => .val (.vec row)
      | .error e => .err e
    | .split =>
      match splitOf c.size ix d with
      | .ok row => .val (.vec row)
      | .error e => .err e
    | .iarray =>
      -- `group_compositions` does not exist on the base class: `AttributeError`
      match setIx { c with comps := [] } (zeroRow c.size) ix k d with
      | .ok row => .val (.vec row)
      | .error .keyError => .err .typeError
      | .error e => .err e
    | .isplit =>
      match setSplit (zeroRow c.size) ix d with
      | (row, none) => .val (.vec row)
      | (_, some e) => .err e

/-- Answer and new data of `by_mass()[key] = data`, given the key resolution. -/
def massSet (c : Chem) (data : List Row) (v : MIx) (ids : HKey) (d : Data) : List Row × Out :=
  let scaled := data.map (scaleRow c.mw)
  match setM (massChem c) scaled v ids d with
  | .error e => ((setMFail (massChem c) scaled v ids d).map (unscaleRow c.mw), .err e)
  | .ok scaled' => (scaled'.map (unscaleRow c.mw), .data (scaled'.map (unscaleRow c.mw)))

/-- One operation of a history. -/
def World.step (w : World) : Op → World × Out
  | .compile specs =>
    match compile specs with
    | .ok c => ({ w with chems := w.chems ++ [{ chem := c, cas := specs.map (·.cas), cache := [] }] }, .table c)
    | .error e => (w, .err e)
  | .alias c id a =>
    match w.chems[c]? with
    | none => (w, .err .indexError)
    | some s =>
      match s.chem.setAlias reservedAll id a with
      | .error e =>
        (w.redefine c { s with chem := s.chem.setAliasFail reservedAll id a }
           (if s.chem.setAliasFail reservedAll id a = s.chem then false else true), .err e)
      | .ok chem' =>
        (w.redefine c { s with chem := chem' } (alookup a s.chem.index).isNone,
         .pos ((alookup a chem'.index).getD (.pos 0)))
  | .array c kind key d =>
    match w.chems[c]? with
    | none => (w, .err .indexError)
    | some s =>
      match normC (tupleKey key) with
      | .error e => (w, .err e)
      | .ok k =>
        match s.lookup k with
        | (r, s') => ({ w with chems := w.chems.set c s' }, arrayOut s.chem kind k r d)
  | .getMass i key =>
    match w.ixs[i]? with
    | none => (w, .err .indexError)
    | some ix =>
      match w.chems[ix.chem]? with
      | none => (w, .err .indexError)
      | some s =>
        match resolveIx s (w.mcacheOf ix) ix.phases key with
        | (.error e, s', mc') => (w.putCaches ix s' mc', .err e)
        | (.ok (v, _), s', mc') => (w.putCaches ix s' mc', .val (getM (ix.data.map (scaleRow s.chem.mw)) v))
  | .setMass i key d =>
    match w.ixs[i]? with
    | none => (w, .err .indexError)
    | some ix =>
      match w.chems[ix.chem]? with
      | none => (w, .err .indexError)
      | some s =>
        match resolveIx s (w.mcacheOf ix) ix.phases key with
        | (.error e, s', mc') => (w.putCaches ix s' mc', .err e)
        | (.ok (v, ids), s', mc') =>
          ((w.putCaches ix s' mc').setData i ix (massSet s.chem ix.data v ids d).1, (massSet s.chem ix.data v ids d).2)
  | .group c name ids comp wt =>
    match w.chems[c]? with
    | none => (w, .err .indexError)
    | some s =>
      match s.chem.defineGroup reservedAll name ids comp wt with
      | .error e => (w, .err e)
      | .ok chem' =>
        (w.redefine c { s with chem := chem' } true, .pos ((alookup name chem'.index).getD (.pos 0)))
  | .newChemIx c ph =>
    match w.chems[c]? with
    | none => (w, .err .indexError)
    | some s => ({ w with ixs := w.ixs ++ [newChemIndexer c s.chem.size ph] }, .ok)
  | .newSplitIx c =>
    match w.chems[c]? with
    | none => (w, .err .indexError)
    | some s => ({ w with ixs := w.ixs ++ [{ newChemIndexer c s.chem.size 'l' with split := true }] }, .ok)
  | .newMatIx c ps =>
    match w.chems[c]?, phaseTuple ps with
    | some s, some pt => ({ w with ixs := w.ixs ++ [newMatIndexer c s.chem.size pt] }, .phases pt)
    | none, _ => (w, .err .indexError)
    | _, none => (w, .err .runtimeError)
  | .get i key =>
    match w.ixs[i]? with
    | none => (w, .err .indexError)
    | some ix =>
      match w.chems[ix.chem]? with
      | none => (w, .err .indexError)
      | some s =>
        match resolveIx s (w.mcacheOf ix) ix.phases key with
        | (.error e, s', mc') => (w.putCaches ix s' mc', .err e)
        | (.ok (v, _), s', mc') => (w.putCaches ix s' mc', .val (readIx ix v))
  | .set i key d =>
    match w.ixs[i]? with
    | none => (w, .err .indexError)
    | some ix =>
      match w.chems[ix.chem]? with
      | none => (w, .err .indexError)
      | some s =>
        match resolveIx s (w.mcacheOf ix) ix.phases key with
        | (.error e, s', mc') => (w.putCaches ix s' mc', .err e)
        | (.ok (v, ids), s', mc') =>
          ((w.putCaches ix s' mc').setData i ix (writeIx s.chem ix v ids d).1, (writeIx s.chem ix v ids d).2)
  | .resetChem i c' =>
    match w.ixs[i]? with
    | none => (w, .err .indexError)
    | some ix =>
      match w.chems[ix.chem]?, w.chems[c']? with
      | some s, some s' =>
        match resetOut ix s.cas c' s'.chem with
        | (some ix', o) => (w.putIx i ix', o)
        | (none, o) => (w, o)
      | _, _ => (w, .err .indexError)
  | .copyIx i =>
    match w.ixs[i]? with
    | none => (w, .err .indexError)
    | some ix => ({ w with ixs := w.ixs ++ [ix] }, .state ix)
  | .getIndex c key =>
    match w.chems[c]? with
    | none => (w, .err .indexError)
    | some s => (w, getIndexOut s.chem key)
  | .copyLike l r => w.transfer l r false
  | .mixFrom l r => w.transfer l r true

def World.run (w : World) : List Op → World × List Out
  | [] => (w, [])
  | op :: t =>
    let (w', o) := w.step op
    let (w'', os) := w'.run t
    (w'', o :: os)

/-! ### The specification: the same operations without any memo -/

structure PWorld where
  /-- tables and CAS numbers of each chemicals object -/
  chems : List (Chem × List String) := []
  ixs : List Indexer := []
  deriving Repr, Inhabited

/-- What is left of a world when the memo dictionaries are forgotten. -/
def World.obs (w : World) : PWorld := { chems := w.chems.map fun s => (s.chem, s.cas), ixs := w.ixs }

def PWorld.putIx (p : PWorld) (i : Nat) (ix' : Indexer) : PWorld := { p with ixs := p.ixs.set i ix' }

def PWorld.setData (p : PWorld) (i : Nat) (ix : Indexer) (data : List Row) : PWorld :=
  { p with ixs := p.ixs.set i { ix with data := data } }

def PWorld.transfer (p : PWorld) (l r : Nat) (add : Bool) : PWorld × Out :=
  match p.ixs[l]?, p.ixs[r]? with
  | some il, some ir0 =>
    match p.chems[il.chem]?, p.chems[ir0.chem]? with
    | some cl, some cr =>
      match flatSource il ir0 add with
      | none => (p, .err .typeError)
      | some ir =>
        if il.chem = ir.chem then
          match transferSame cl.1.size il ir add (l == r) with
          | some il' => (p.putIx l il', .state il')
          | none => (p, .err .typeError)
        else
          match il.phases with
          | none =>
            match ir.phases, il.data, ir.data with
            | none, [rowL], [rowR] =>
              let rix := nonzeroPositions rowR
              match transferRow rowL rowR add rix (overlapPositions cl.1 (rix.map fun i => cr.2.getD i "")) with
              | (row', some e) => (p.putIx l { il with data := [row'] }, .err e)
              | (row', none) =>
                (p.putIx l { il with data := [row'], phase := if add then il.phase else ir.phase },
                 .state { il with data := [row'], phase := if add then il.phase else ir.phase })
            | _, _, _ => (p, .err .typeError)
          | some _ =>
            let rix := unionNonzero ir.data
            match overlapPositions cl.1 (rix.map fun i => cr.2.getD i "") with
            | .error e =>
              match growOnly cl.1.size il ir add with
              | some il' => (p.putIx l il', .err e)
              | none => (p, .err e)
            | .ok lix =>
              match transferSame cl.1.size il (mapIndexer cl.1.size lix rix ir) add false with
              | some il' => (p.putIx l il', .state il')
              | none => (p, .err .typeError)
    | _, _ => (p, .err .indexError)
  | _, _ => (p, .err .indexError)

/-- Every lookup is answered by `resolveC` / `resolveM` / `overlapPositions` directly. -/
def PWorld.step (p : PWorld) : Op → PWorld × Out
  | .compile specs =>
    match compile specs with
    | .ok c => ({ p with chems := p.chems ++ [(c, specs.map (·.cas))] }, .table c)
    | .error e => (p, .err e)
  | .alias c id a =>
    match p.chems[c]? with
    | none => (p, .err .indexError)
    | some (chem, cas) =>
      match chem.setAlias reservedAll id a with
      | .error e => ({ p with chems := p.chems.set c (chem.setAliasFail reservedAll id a, cas) }, .err e)
      | .ok chem' => ({ p with chems := p.chems.set c (chem', cas) }, .pos ((alookup a chem'.index).getD (.pos 0)))
  | .array c kind key d =>
    match p.chems[c]? with
    | none => (p, .err .indexError)
    | some (chem, _) =>
      match normC (tupleKey key) with
      | .error e => (p, .err e)
      | .ok k => (p, arrayOut chem kind k (resolveC chem k) d)
  | .getMass i key =>
    match p.ixs[i]? with
    | none => (p, .err .indexError)
    | some ix =>
      match p.chems[ix.chem]? with
      | none => (p, .err .indexError)
      | some (chem, _) =>
        match resolveIxP chem ix.phases key with
        | .error e => (p, .err e)
        | .ok (v, _) => (p, .val (getM (ix.data.map (scaleRow chem.mw)) v))
  | .setMass i key d =>
    match p.ixs[i]? with
    | none => (p, .err .indexError)
    | some ix =>
      match p.chems[ix.chem]? with
      | none => (p, .err .indexError)
      | some (chem, _) =>
        match resolveIxP chem ix.phases key with
        | .error e => (p, .err e)
        | .ok (v, ids) => (p.setData i ix (massSet chem ix.data v ids d).1, (massSet chem ix.data v ids d).2)
  | .group c name ids comp wt =>
    match p.chems[c]? with
    | none => (p, .err .indexError)
    | some (chem, cas) =>
      match chem.defineGroup reservedAll name ids comp wt with
      | .error e => (p, .err e)
      | .ok chem' => ({ p with chems := p.chems.set c (chem', cas) }, .pos ((alookup name chem'.index).getD (.pos 0)))
  | .newChemIx c ph =>
    match p.chems[c]? with
    | none => (p, .err .indexError)
    | some (chem, _) => ({ p with ixs := p.ixs ++ [newChemIndexer c chem.size ph] }, .ok)
  | .newSplitIx c =>
    match p.chems[c]? with
    | none => (p, .err .indexError)
    | some (chem, _) => ({ p with ixs := p.ixs ++ [{ newChemIndexer c chem.size 'l' with split := true }] }, .ok)
  | .newMatIx c ps =>
    match p.chems[c]?, phaseTuple ps with
    | some (chem, _), some pt => ({ p with ixs := p.ixs ++ [newMatIndexer c chem.size pt] }, .phases pt)
    | none, _ => (p, .err .indexError)
    | _, none => (p, .err .runtimeError)
  | .get i key =>
    match p.ixs[i]? with
    | none => (p, .err .indexError)
    | some ix =>
      match p.chems[ix.chem]? with
      | none => (p, .err .indexError)
      | some (chem, _) =>
        match resolveIxP chem ix.phases key with
        | .error e => (p, .err e)
        | .ok (v, _) => (p, .val (readIx ix v))
  | .set i key d =>
    match p.ixs[i]? with
    | none => (p, .err .indexError)
    | some ix =>
      match p.chems[ix.chem]? with
      | none => (p, .err .indexError)
      | some (chem, _) =>
        match resolveIxP chem ix.phases key with
        | .error e => (p, .err e)
        | .ok (v, ids) => (p.setData i ix (writeIx chem ix v ids d).1, (writeIx chem ix v ids d).2)
  | .resetChem i c' =>
    match p.ixs[i]? with
    | none => (p, .err .indexError)
    | some ix =>
      match p.chems[ix.chem]?, p.chems[c']? with
      | some s, some s' =>
        match resetOut ix s.2 c' s'.1 with
        | (some ix', o) => (p.putIx i ix', o)
        | (none, o) => (p, o)
      | _, _ => (p, .err .indexError)
  | .copyIx i =>
    match p.ixs[i]? with
    | none => (p, .err .indexError)
    | some ix => ({ p with ixs := p.ixs ++ [ix] }, .state ix)
  | .getIndex c key =>
    match p.chems[c]? with
    | none => (p, .err .indexError)
    | some s => (p, getIndexOut s.1 key)
  | .copyLike l r => p.transfer l r false
  | .mixFrom l r => p.transfer l r true

def PWorld.run (p : PWorld) : List Op → PWorld × List Out
  | [] => (p, [])
  | op :: t =>
    let (p', o) := p.step op
    let (p'', os) := p'.run t
    (p'', o :: os)

end ThermoVerif.IndexCache
