/-
C08 — bubble and dew points (thermosteam/equilibrium/bubble_point.py, dew_point.py).

Executable model, core Lean only, written once over an arbitrary scalar type `α`
(the driver instantiates `Float`; the theorems instantiate an ordered field).

What is modelled
  * the modified-Raoult vectors
        bubble:  y_i = z_i · γ_i · pcf_i · Psat_i / (φ_i · P)   = z_i · K_i
        dew:     x_i = z_i · φ_i · P / (γ_i · pcf_i · Psat_i)   = z_i / K_i
    the residual `1 − Σ`, and `fn.normalize` of the returned fractions (with its
    `sum < 1e-16 ⇒ uniform` guard);
  * WHICH composition enters the residual in each of the four solve methods
    (`entryZ`): thermosteam as found uses `z/Σz` only in `BubblePoint.solve_Py`
    and the raw `z` in `BubblePoint.solve_Ty`, `DewPoint.solve_Tx`, `DewPoint.solve_Px`
    (`Variant.asFound`); the repaired code normalises on entry everywhere
    (`Variant.fixed`, the variant the check compares against);
  * the `N = 0` error, the `N = 1` single-component shortcut through
    `Chemical.Tsat` / `Chemical.Psat` with its critical-point guard;
  * the closed forms `_Py_ideal` / `_Px_ideal`;
  * the instance cache of `BubblePoint.__new__` / `DewPoint.__new__`, keyed on the
    ORDERED chemical tuple and the three coefficient classes;
  * the hypothesis monitors the theorems need (positivity and monotonicity of the
    recorded K-values between two temperatures).

Parameters (recorded from the real run, §3.3 of DESIGN.md): `Psat_i(T)`, `γ_i`, `φ_i`,
`pcf_i` at the returned point, the value the root finder returned, and `Tsat/Psat`
of the only chemical present for the shortcut.  Solver convergence is monitored
(`residual`), not proved.
-/
namespace ThermoVerif.BubbleDew

inductive Err where
  | noComponents      -- `ValueError('no components present')`
  | shape             -- parameter vectors of different lengths (protocol error)
  deriving Repr, DecidableEq

/-- The four solve methods: `BubblePoint.solve_Ty`, `.solve_Py`, `DewPoint.solve_Tx`, `.solve_Px`. -/
inductive Method where
  | bubbleT | bubbleP | dewT | dewP
  deriving Repr, DecidableEq

def Method.isBubble : Method → Bool
  | .bubbleT | .bubbleP => true
  | _ => false

/-- `asFound`: the code in /repo before the proposed fix C08-1; `fixed`: after it. -/
inductive Variant where
  | asFound | fixed
  deriving Repr, DecidableEq

/-- One chemical: its amount `z` in the (unnormalised) composition and the recorded parameters. -/
structure Comp (α : Type) where
  z : α
  psat : α
  gamma : α
  phi : α
  pcf : α

section Scalar
variable {α : Type} [Zero α] [One α] [Add α] [Sub α] [Mul α] [Div α]

/-- Modified-Raoult K-value `γ·pcf·Psat / (φ·P)`. -/
def Comp.K (c : Comp α) (P : α) : α := c.gamma * c.pcf * c.psat / (c.phi * P)

/-- The P-independent part `κ = γ·pcf·Psat / φ` (so `K = κ / P`). -/
def Comp.kappa (c : Comp α) : α := c.gamma * c.pcf * c.psat / c.phi

/-- `z / z.sum()` -/
def normalizeZ (z : List α) : List α := z.map (· / z.sum)

/-- The composition that enters the residual of method `m` in variant `v`. -/
def entryZ (v : Variant) (m : Method) (z : List α) : List α :=
  match v, m with
  | .fixed, _ => normalizeZ z
  | .asFound, .bubbleP => normalizeZ z
  | .asFound, _ => z

/-- Bubble vector `z_i·K_i` over pairs `(z_i, K_i)`. -/
def bubbleVec (zk : List (α × α)) : List α := zk.map (fun p => p.1 * p.2)
/-- Dew vector `z_i/K_i`. -/
def dewVec (zk : List (α × α)) : List α := zk.map (fun p => p.1 / p.2)

def bubbleSum (zk : List (α × α)) : α := (bubbleVec zk).sum
def dewSum (zk : List (α × α)) : α := (dewVec zk).sum

def vec (m : Method) (zk : List (α × α)) : List α :=
  if m.isBubble then bubbleVec zk else dewVec zk

/-- `_T_error` / `_P_error`: `1 − Σ` of the Raoult vector. -/
def residual (m : Method) (zk : List (α × α)) : α := 1 - (vec m zk).sum

/-- `_Py_ideal`: `P = Σ z_i κ_i`, and `_Px_ideal`: `P = 1 / Σ z_i/κ_i`, over pairs `(z_i, κ_i)`. -/
def idealBubbleP (zk : List (α × α)) : α := bubbleSum zk
def idealDewP (zk : List (α × α)) : α := 1 / dewSum zk

variable [LT α] [DecidableLT α] [NatCast α]

/-- `functional.normalize(array, minimum=1e-16)`. -/
def fnNormalize (minimum : α) (l : List α) : List α :=
  if l.sum < minimum then List.replicate l.length (1 / (l.length : α))
  else l.map (· / l.sum)

/-- Number of components present: `(z > 0).sum()`. -/
def countPos (z : List α) : Nat := (z.filter (fun x => decide (0 < x))).length

structure Input (α : Type) where
  comps : List (Comp α)
  /-- pressure at the returned point (the specification for T-methods, the result for P-methods) -/
  P : α
  /-- the specified variable (P for `bubbleT`/`dewT`, T for `bubbleP`/`dewP`) -/
  spec : α
  /-- what the root finder returned (used when `N ≥ 2`) -/
  ret : α
  /-- `chemical.Tsat(P)` resp. `chemical.Psat(T)` of the only chemical present (used when `N = 1`) -/
  sat : α
  /-- critical value of the specified variable (`Pc` for T-methods, `Tc` for P-methods) -/
  critSpec : α
  /-- critical value of the returned variable (`Tc` resp. `Pc`) -/
  critRet : α
  minimum : α

structure Output (α : Type) where
  value : α
  fracs : List α
  residual : α
  single : Bool

/-- `(z_i entering the residual, K_i)` pairs of a multi-component call. -/
def pairs (v : Variant) (m : Method) (comps : List (Comp α)) (P : α) : List (α × α) :=
  (entryZ v m (comps.map (·.z))).zip (comps.map (·.K P))

/-- One call of `solve_Ty` / `solve_Py` / `solve_Tx` / `solve_Px`, given the recorded parameters. -/
def solve (v : Variant) (m : Method) (i : Input α) : Except Err (Output α) :=
  let z := i.comps.map (·.z)
  match countPos z with
  | 0 => .error .noComponents
  | 1 =>
    -- `T = chemical.Tsat(P) if P <= chemical.Pc else chemical.Tc`  (and the P counterpart).
    -- The reported residual is that of the GENERAL equation at the recorded parameters (`1 − K_c` resp.
    -- `1 − 1/K_c`, see `single_component_consistent`); beyond the critical point there is no equation to satisfy.
    .ok { value := if i.critSpec < i.spec then i.critRet else i.sat,
          fracs := fnNormalize i.minimum z,
          residual := if i.critSpec < i.spec then 0 else residual m (pairs .fixed m i.comps i.P),
          single := true }
  | _ =>
    let zk := pairs v m i.comps i.P
    .ok { value := i.ret, fracs := fnNormalize i.minimum (vec m zk),
          residual := residual m zk, single := false }

/-! ### hypothesis monitors (evaluated by the driver on recorded values) -/

def allPos (l : List α) : Bool := l.all (fun x => decide (0 < x))

/-- The recorded `κ_i` at two temperatures are ordered the way a strictly increasing
`κ_i(T)` orders them. -/
def monoBetween (T₁ T₂ : α) (k₁ k₂ : List α) : Bool :=
  k₁.length == k₂.length &&
  (k₁.zip k₂).all (fun p =>
    if T₁ < T₂ then decide (p.1 < p.2) else if T₂ < T₁ then decide (p.2 < p.1) else true)

/-! ### quantities the driver recomputes from recorded values (relations between two calls) -/

/-- Pressure implied by the recorded `κ_i` of one call: `Σ z_i κ_i` for a bubble call, `1/Σ z_i/κ_i` for a dew
call (with the fixed-point value of `κ` these are the bubble / dew equations solved for `P`). -/
def impliedP (bubble : Bool) (z kappa : List α) : α :=
  let zk := (normalizeZ z).zip kappa
  if bubble then idealBubbleP zk else idealDewP zk

/-- `|a − b| ≤ tol·|b|`-style closeness without `abs`: `a ≤ b·(1+tol)` and `b ≤ a·(1+tol)` (positive values). -/
def relClose (tol a b : α) : Bool := !(decide (b * (1 + tol) < a)) && !(decide (a * (1 + tol) < b))

def absClose (tol a b : α) : Bool := !(decide (b + tol < a)) && !(decide (a + tol < b))

def allRelClose (tol : α) (a b : List α) : Bool :=
  a.length == b.length && (a.zip b).all (fun p => relClose tol p.1 p.2)

def allAbsClose (tol : α) (a b : List α) : Bool :=
  a.length == b.length && (a.zip b).all (fun p => absClose tol p.1 p.2)

/-- Every component's vapour pressure at the first temperature is at most (1+tol)× that at the second:
with increasing `Psat_i` this is how `T₁ ≤ T₂` shows in the recorded values. -/
def allLe (tol : α) (a b : List α) : Bool :=
  a.length == b.length && (a.zip b).all (fun p => !(decide (p.2 * (1 + tol) < p.1)))

end Scalar

/-! ### the instance cache of `BubblePoint.__new__` / `DewPoint.__new__` -/

/-- `key = (chemicals, thermo.Gamma, thermo.Phi, thermo.PCF)`; chemicals and classes by identity. -/
structure Key where
  chems : List Nat
  gamma : Nat
  phi : Nat
  pcf : Nat
  deriving DecidableEq, Repr

/-- `cls._cached`: association list key ↦ instance id, ids in creation order. -/
structure Cache where
  entries : List (Key × Nat) := []

def Cache.find (c : Cache) (k : Key) : Option Nat :=
  (c.entries.find? (fun e => e.1 == k)).map (·.2)

/-- `cls(chemicals, thermo)`: the cached instance if the key is present, else a new one. -/
def Cache.get (c : Cache) (k : Key) : Cache × Nat :=
  match c.find k with
  | some id => (c, id)
  | none => ({ entries := c.entries ++ [(k, c.entries.length)] }, c.entries.length)

/-- A history of constructor calls; returns the ids handed out. -/
def Cache.run (c : Cache) : List Key → Cache × List Nat
  | [] => (c, [])
  | k :: ks =>
    let (c', id) := c.get k
    let (c'', ids) := c'.run ks
    (c'', id :: ids)

end ThermoVerif.BubbleDew
