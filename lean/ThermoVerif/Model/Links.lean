/-
Model of copying, linking and pickling of thermosteam streams
(`Stream.copy / copy_like / copy_thermal_condition / link_with / unlink /
proxy / flow_proxy / __init__ / from_data / __reduce__ / get_data / set_data`,
`MultiStream.copy_like / __init__`, `ChemicalIndexer.copy_like`,
`MaterialIndexer.copy_like / _expand_phases`).  Core Lean only (no Mathlib).
`copy_flow` is NOT modelled here (its conservation side is C01's; here it is probed by the oracle only).

Python objects that can be shared are explicit objects of a store, addressed by ids
(`Nat`); Python `is` is equality of ids, `.copy()` allocates, `a.data = b.data`
copies an id.  The kinds of objects:

* flow-data objects (`SparseVector`, one row of flows)      `rows : id ↦ Row`
* phase containers (`Phase`)                                  `phs  : id ↦ Ph`
* thermal conditions (`ThermalCondition`)                     `tcs  : id ↦ (T, P)`
* characterization-factor dicts                               `cfs  : id ↦ assoc list`
* `SparseArray` objects of multi-phase indexers (row lists)   `arrs : id ↦ List id`
* indexer objects (`ChemicalIndexer` / `MaterialIndexer`)     `imols: id ↦ Imol`

One allocation counter serves all kinds, so an id identifies one object.
A row is a function from chemical identity (CAS, a `Nat`) to the flow, so that
rows of different property packages are comparable; a property package is the
list of its CAS ids.

The model is written to the behaviour *with the fixes of fixes_proposed/C13-1 … C13-13*
(C13-13: `unlink` also takes a private copy of the characterization-factor dict).
A history ends at the first rejected call (`World.run` stops at `.err`): partial effects of a rejected
call are not modelled.  The cache of mass / volume views (`_data_cache`) and `equations` are not modelled
(oracle only).
-/
namespace ThermoVerif.Links

/-- The five phase labels, in ASCII order (`'L' < 'S' < 'g' < 'l' < 's'`), which is the
order `phase_tuple` sorts them in. -/
inductive Ph where
  | L | S | g | l | s
  deriving DecidableEq, Repr, Inhabited

def Ph.all : List Ph := [.L, .S, .g, .l, .s]

/-- `str.swapcase` restricted to labels that can be keys of a `PhaseIndexer`
(`'G'` is never a key). -/
def Ph.swap : Ph → Option Ph
  | .L => some .l | .l => some .L | .S => some .s | .s => some .S | .g => none

def Ph.lower : Ph → Ph
  | .L => .l | .S => .s | p => p

def Ph.toString : Ph → String
  | .L => "L" | .S => "S" | .g => "g" | .l => "l" | .s => "s"

/-- `phase_tuple`: sorted, duplicate-free. -/
def normPh (l : List Ph) : List Ph := Ph.all.filter (fun p => l.contains p)

/-- `PhaseIndexer.__call__`: the exact label, else the label of the other case. -/
def phIdx (ps : List Ph) (p : Ph) : Option Nat :=
  match ps.idxOf? p with
  | some i => some i
  | none => match p.swap with
    | some q => ps.idxOf? q
    | none => none

/-- `PhaseIndexer.compatible_with`. -/
def compatPh (ps qs : List Ph) : Bool := ps.map Ph.lower == qs.map Ph.lower

abbrev Row := Nat → Rat

def Row.zero : Row := fun _ => 0

inductive Err where
  | undefinedChemical | undefinedPhase | linkClass | badStream | valueError | zeroDivision
  deriving Repr, DecidableEq, Inhabited

def Err.toString : Err → String
  | .undefinedChemical => "UndefinedChemical"
  | .undefinedPhase => "UndefinedPhase"
  | .linkClass => "LinkClass"
  | .badStream => "BadStream"
  | .valueError => "ValueError"
  | .zeroDivision => "ZeroDivisionError"

/-- An indexer object. -/
inductive Imol where
  /-- `ChemicalIndexer`: `_phase` (container id), `data` (row id) -/
  | chem (ph row : Nat)
  /-- `MaterialIndexer`: `_phases`, `data` (`SparseArray` id) -/
  | mat (phases : List Ph) (arr : Nat)
  deriving Inhabited, DecidableEq, Repr

/-- The slots of a stream object. -/
structure Stream where
  imol : Nat
  tc : Nat
  cf : Nat
  price : Rat
  /-- CAS ids of the property package, in order -/
  pkg : List Nat
  /-- identity of the property-package object (`chemicals is other.chemicals`) -/
  pkgId : Nat
  /-- the ID given at construction (`none`: unnamed) -/
  sid : Option Nat
  deriving Inhabited

structure World where
  rows : Nat → Row
  phs : Nat → Ph
  tcs : Nat → Rat × Rat
  cfs : Nat → List (Nat × Rat)
  arrs : Nat → List Nat
  imols : Nat → Imol
  next : Nat
  strs : Nat → Stream
  nS : Nat

def upd {α : Type} (f : Nat → α) (i : Nat) (v : α) : Nat → α := fun x => if x = i then v else f x

def World.init : World :=
  { rows := fun _ => Row.zero, phs := fun _ => .l, tcs := fun _ => (0, 0), cfs := fun _ => [],
    arrs := fun _ => [], imols := fun _ => .chem 0 0, next := 0,
    strs := fun _ => ⟨0, 0, 0, 0, [], 0, none⟩, nS := 0 }

/-! ## Primitive writes and allocation -/

def World.setRow (w : World) (i : Nat) (r : Row) : World := { w with rows := upd w.rows i r }
def World.setPh (w : World) (i : Nat) (p : Ph) : World := { w with phs := upd w.phs i p }
def World.setTc (w : World) (i : Nat) (v : Rat × Rat) : World := { w with tcs := upd w.tcs i v }
def World.setCf (w : World) (i : Nat) (d : List (Nat × Rat)) : World := { w with cfs := upd w.cfs i d }
def World.setArr (w : World) (i : Nat) (l : List Nat) : World := { w with arrs := upd w.arrs i l }
def World.setImol (w : World) (i : Nat) (m : Imol) : World := { w with imols := upd w.imols i m }
def World.setStr (w : World) (i : Nat) (s : Stream) : World := { w with strs := upd w.strs i s }

def World.newRow (w : World) (r : Row) : World × Nat :=
  ({ w with rows := upd w.rows w.next r, next := w.next + 1 }, w.next)
def World.newPh (w : World) (p : Ph) : World × Nat :=
  ({ w with phs := upd w.phs w.next p, next := w.next + 1 }, w.next)
def World.newTc (w : World) (v : Rat × Rat) : World × Nat :=
  ({ w with tcs := upd w.tcs w.next v, next := w.next + 1 }, w.next)
def World.newCf (w : World) (d : List (Nat × Rat)) : World × Nat :=
  ({ w with cfs := upd w.cfs w.next d, next := w.next + 1 }, w.next)
def World.newArr (w : World) (l : List Nat) : World × Nat :=
  ({ w with arrs := upd w.arrs w.next l, next := w.next + 1 }, w.next)
def World.newImol (w : World) (m : Imol) : World × Nat :=
  ({ w with imols := upd w.imols w.next m, next := w.next + 1 }, w.next)

/-- One new row object per given content. -/
def World.newRows (w : World) : List Row → World × List Nat
  | [] => (w, [])
  | r :: rs =>
    let (w1, i) := w.newRow r
    let (w2, is) := w1.newRows rs
    (w2, i :: is)

/-- A new stream object (appended to the list of streams). -/
def World.pushStr (w : World) (s : Stream) : World × Nat :=
  ({ w with strs := upd w.strs w.nS s, nS := w.nS + 1 }, w.nS)

/-- `data.clear()` on every listed row. -/
def World.clearRows (w : World) : List Nat → World
  | [] => w
  | i :: is => (w.setRow i Row.zero).clearRows is

/-! ## Reading -/

/-- `stream.phases` -/
def World.phasesOf (w : World) (im : Nat) : List Ph :=
  match w.imols im with
  | .chem ph _ => [w.phs ph]
  | .mat ps _ => ps

/-- the row objects of an indexer, in phase order -/
def World.rowIdsOf (w : World) (im : Nat) : List Nat :=
  match w.imols im with
  | .chem _ r => [r]
  | .mat _ a => w.arrs a

def World.isMat (w : World) (im : Nat) : Bool :=
  match w.imols im with
  | .mat .. => true
  | .chem .. => false

/-- What the property talks about. -/
structure Obs where
  phases : List Ph
  flows : List Row
  T : Rat
  P : Rat
  price : Rat
  cf : List (Nat × Rat)
  sid : Option Nat
  pkg : List Nat

def World.observe (w : World) (i : Nat) : Obs :=
  let s := w.strs i
  { phases := w.phasesOf s.imol, flows := (w.rowIdsOf s.imol).map w.rows,
    T := (w.tcs s.tc).1, P := (w.tcs s.tc).2, price := s.price, cf := w.cfs s.cf,
    sid := s.sid, pkg := s.pkg }

/-- Flows, phase(s), temperature and pressure only (what `copy` and `copy_like` promise). -/
structure Cond where
  phases : List Ph
  flows : List Row
  T : Rat
  P : Rat

def Obs.cond (o : Obs) : Cond := ⟨o.phases, o.flows, o.T, o.P⟩

/-- flow of chemical `c` in (exactly) phase `p` -/
def Cond.flow (o : Cond) (p : Ph) (c : Nat) : Rat :=
  match o.phases.idxOf? p with
  | some i => (o.flows.getD i Row.zero) c
  | none => 0

/-! ## Indexer level -/

/-- `index_overlap` succeeds: every chemical with a nonzero flow is in the receiving package. -/
def remapOk (tgt src : List Nat) (r : Row) : Bool := src.all fun c => r c == 0 || tgt.contains c

/-- `Indexer.copy()`: a new indexer object with its own phase container / row objects. -/
def World.copyImol (w : World) (im : Nat) : World × Nat :=
  match w.imols im with
  | .chem ph r =>
    let (w1, ph') := w.newPh (w.phs ph)
    let (w2, r') := w1.newRow (w1.rows r)
    w2.newImol (.chem ph' r')
  | .mat ps a =>
    let (w1, rs') := w.newRows ((w.arrs a).map w.rows)
    let (w2, a') := w1.newArr rs'
    w2.newImol (.mat ps a')

/-- `MaterialIndexer._expand_phases(other_phases)` on the indexer object `im`
(new row objects for the new phases; the `SparseArray` object is kept and its row list replaced).
Out-of-range list accesses (impossible while row lists and phase lists have equal lengths)
default to an id of the indexer itself, so that even then nothing foreign is touched. -/
def World.expand (w : World) (im : Nat) (other : List Ph) : World :=
  match w.imols im with
  | .chem .. => w
  | .mat ps a =>
    let newp := (normPh other).filter fun p => !ps.contains p
    if newp.isEmpty then w else
    let all := normPh (ps ++ other)
    let old := w.arrs a
    let (w1, fresh) := w.newRows (newp.map fun _ => Row.zero)
    let rows' := all.map fun p =>
      match ps.idxOf? p with
      | some i => old.getD i a
      | none => fresh.getD ((newp.idxOf? p).getD 0) a
    (w1.setArr a rows').setImol im (.mat all a)

/-- `ChemicalIndexer.copy_like(other)` where `other` is (or, for one phase of a
`MaterialIndexer`, stands for) a chemical indexer with row `sr` and phase `sp`. -/
def World.chemCopyLike (w : World) (same : Bool) (tph trow : Nat) (tpkg : List Nat) (sr : Nat) (sp : Ph)
    (spkg : List Nat) : Except Err World :=
  if same then
    .ok ((w.setRow trow (w.rows sr)).setPh tph sp)
  else
    let w1 := w.setRow trow Row.zero
    if remapOk tpkg spkg (w1.rows sr) then .ok ((w1.setRow trow (w1.rows sr)).setPh tph sp)
    else .error .undefinedChemical

/-- row `t` := content of row `s`, for each pair, in sequence (`SparseArray.copy_like`) -/
def World.copyRowsSeq (w : World) : List (Nat × Nat) → World
  | [] => w
  | (t, s) :: r => (w.setRow t (w.rows s)).copyRowsSeq r

/-- row `r` := content `f`, for each pair, in sequence -/
def World.setRowsSeq (w : World) : List (Nat × Row) → World
  | [] => w
  | (r, f) :: rest => (w.setRow r f).setRowsSeq rest

/-- `MaterialIndexer.copy_like(other)` with `other` a chemical indexer (row `sr`, phase `sp`). -/
def World.matCopyFromChem (w : World) (same : Bool) (tim : Nat) (tpkg : List Nat) (sr : Nat) (sp : Ph)
    (spkg : List Nat) : Except Err World :=
  let w1 := w.clearRows (w.rowIdsOf tim)
  let w2 := if (phIdx (w1.phasesOf tim) sp).isNone then w1.expand tim [sp] else w1
  match phIdx (w2.phasesOf tim) sp with
  | none => .error .undefinedPhase
  | some k =>
    let tr := (w2.rowIdsOf tim).getD k tim
    if same || remapOk tpkg spkg (w2.rows sr) then .ok (w2.setRow tr (w2.rows sr))
    else .error .undefinedChemical

/-- the loop `for phase, row in other: rows[phase_indexer(phase)] := row` -/
def World.assignByPhase (w : World) (tps : List Ph) (trows : List Nat) (d : Nat) :
    List (Ph × Nat) → Except Err World
  | [] => .ok w
  | (q, sr) :: r =>
    match phIdx tps q with
    | none => .error .undefinedPhase
    | some k => (w.setRow (trows.getD k d) (w.rows sr)).assignByPhase tps trows d r

/-- `MaterialIndexer.copy_like(other)` with `other` a material indexer. -/
def World.matCopyFromMat (w : World) (same : Bool) (tim : Nat) (tpkg : List Nat) (sim : Nat)
    (spkg : List Nat) : Except Err World :=
  if tim = sim then .ok w else
  let ps := w.phasesOf tim
  let qs := w.phasesOf sim
  if ps = qs then
    if same then .ok (w.copyRowsSeq ((w.rowIdsOf tim).zip (w.rowIdsOf sim)))
    else
      let w1 := w.clearRows (w.rowIdsOf tim)
      if (w1.rowIdsOf sim).all fun r => remapOk tpkg spkg (w1.rows r) then
        .ok (w1.copyRowsSeq ((w1.rowIdsOf tim).zip (w1.rowIdsOf sim)))
      else .error .undefinedChemical
  else
    let w1 := if compatPh ps qs then w else w.expand tim qs
    let w2 := w1.clearRows (w1.rowIdsOf tim)
    if same || (w2.rowIdsOf sim).all fun r => remapOk tpkg spkg (w2.rows r) then
      w2.assignByPhase (w2.phasesOf tim) (w2.rowIdsOf tim) tim (qs.zip (w2.rowIdsOf sim))
    else .error .undefinedChemical

/-- A blank `MaterialIndexer` over the given (normalised) phases. -/
def World.blankMat (w : World) (ps : List Ph) : World × Nat :=
  let (w1, rs) := w.newRows (ps.map fun _ => Row.zero)
  let (w2, a) := w1.newArr rs
  w2.newImol (.mat ps a)

/-- A blank `ChemicalIndexer`. -/
def World.blankChem (w : World) (p : Ph) : World × Nat :=
  let (w1, ph) := w.newPh p
  let (w2, r) := w1.newRow Row.zero
  w2.newImol (.chem ph r)

/-! ## Stream level -/

/-- `ThermalCondition.copy_like` -/
def World.tcCopyLike (w : World) (t s : Nat) : World :=
  w.setTc (w.strs t).tc (w.tcs (w.strs s).tc)

/-- is the `SparseArray` of stream `i`'s indexer also the data of another stream's (different) indexer object? -/
def World.arrShared (w : World) (i : Nat) : Bool :=
  match w.imols (w.strs i).imol with
  | .chem .. => false
  | .mat _ a => (List.range w.nS).any fun j =>
      (w.strs j).imol != (w.strs i).imol &&
      match w.imols (w.strs j).imol with
      | .mat _ b => a == b
      | .chem .. => false

/-- Outcome of an operation that may be outside the modelled domain. -/
inductive Res (α : Type) where
  | ok (a : α)
  | err (e : Err)
  /-- outside the domain of the property (the adapter does not execute it either) -/
  | skip

def Res.ofExcept {α : Type} : Except Err α → Res α
  | .ok a => .ok a
  | .error e => .err e

/-- `target.copy_like(source)` (`Stream.copy_like` or `MultiStream.copy_like`, by the class of the target). -/
def World.copyLike (w : World) (t s : Nat) : Res World :=
  let T := w.strs t
  let S := w.strs s
  let same := T.pkgId == S.pkgId
  -- domain: a target whose array object is shared with another indexer keeps its phase set
  if w.arrShared t && w.phasesOf T.imol != w.phasesOf S.imol then .skip else
  match w.imols T.imol, w.imols S.imol with
  | .chem tph trow, .chem sph srow =>
    -- `ChemicalIndexer.copy_like` (nothing to do when both are the same indexer object)
    if T.imol = S.imol then .ok (w.tcCopyLike t s) else
    Res.ofExcept do
      let w1 ← w.chemCopyLike same tph trow T.pkg srow (w.phs sph) S.pkg
      pure (w1.tcCopyLike t s)
  | .chem tph trow, .mat qs sa =>
    match qs with
    | [q] =>
      -- one-phase MultiStream: `self.phase = phase`, then copy that phase's row
      let w0 := w.setPh tph q
      Res.ofExcept do
        let w1 ← w0.chemCopyLike same tph trow T.pkg ((w0.arrs sa).getD 0 0) q S.pkg
        pure (w1.tcCopyLike t s)
    | _ =>
      -- the target becomes a MultiStream over the phases of the source
      let (w1, im) := w.blankMat (normPh qs)
      let w2 := w1.setStr t { T with imol := im }
      Res.ofExcept do
        let w3 ← w2.matCopyFromMat same im T.pkg S.imol S.pkg
        pure (w3.tcCopyLike t s)
  | .mat .., .chem sph srow =>
    Res.ofExcept do
      let w1 ← w.matCopyFromChem same T.imol T.pkg srow (w.phs sph) S.pkg
      pure (w1.tcCopyLike t s)
  | .mat .., .mat .. =>
    Res.ofExcept do
      let w1 ← w.matCopyFromMat same T.imol T.pkg S.imol S.pkg
      pure (w1.tcCopyLike t s)

/-- `stream.copy()` -/
def World.copy (w : World) (s : Nat) : World × Nat :=
  let S := w.strs s
  let (w1, cf) := w.newCf []
  let (w2, im) := w1.copyImol S.imol
  let (w3, tc) := w2.newTc (w2.tcs S.tc)
  w3.pushStr { imol := im, tc := tc, cf := cf, price := 0, pkg := S.pkg, pkgId := S.pkgId, sid := none }

/-- `stream.copy(thermo=package)`: a copy re-indexed for the given package object (`reset_chemicals`
on the copied indexer); nothing but a plain copy when the package is the stream's own; fails when
the stream holds a chemical the package lacks.  `pid` names one of the packages that exist before
any stream (identity `2 * pid`), `pkg` is its CAS list. -/
def World.copyTo (w : World) (s : Nat) (pid : Nat) (pkg : List Nat) : Except Err (World × Nat) :=
  let S := w.strs s
  if S.pkgId = 2 * pid then .ok (w.copy s)
  else if (w.rowIdsOf S.imol).all (fun r => remapOk pkg S.pkg (w.rows r)) then
    .ok (((w.copy s).1.setStr (w.copy s).2 { (w.copy s).1.strs (w.copy s).2 with pkg := pkg, pkgId := 2 * pid }),
         (w.copy s).2)
  else .error .undefinedChemical

/-- `stream.flow_proxy()` -/
def World.flowProxy (w : World) (s : Nat) : World × Nat :=
  let S := w.strs s
  let (w1, im) := match w.imols S.imol with
    | .chem ph r =>
      let (w1, ph') := w.newPh (w.phs ph)
      w1.newImol (.chem ph' r)
    | .mat ps a => w.newImol (.mat ps a)
  let (w2, tc) := w1.newTc (w1.tcs S.tc)
  let (w3, cf) := w2.newCf []
  w3.pushStr { imol := im, tc := tc, cf := cf, price := 0, pkg := S.pkg, pkgId := S.pkgId, sid := none }

/-- `stream.proxy()` -/
def World.proxy (w : World) (s : Nat) : World × Nat :=
  let S := w.strs s
  w.pushStr { S with sid := none }

/-- `target.copy_thermal_condition(source)` -/
def World.copyTC (w : World) (t s : Nat) : World := w.tcCopyLike t s

/-- `target.link_with(source, flow, phase, TP)` -/
def World.link (w : World) (t s : Nat) (flow phase tp : Bool) : Res World :=
  let T := w.strs t
  let S := w.strs s
  match w.imols T.imol, w.imols S.imol with
  | .chem tph trow, .chem sph srow =>
    if T.pkgId != S.pkgId then .skip else
    let w1 := if tp then w.setStr t { T with tc := S.tc } else w
    let row' := if flow then srow else trow
    let ph' := if phase then sph else tph
    .ok (w1.setImol T.imol (.chem ph' row'))
  | .mat ps ta, .mat qs sa =>
    if T.pkgId != S.pkgId || (flow && ps != qs) then .skip else
    let w1 := if tp then w.setStr t { T with tc := S.tc } else w
    .ok (w1.setImol T.imol (.mat ps (if flow then sa else ta)))
  | _, _ => .err .linkClass

/-- `stream.unlink()`: a new indexer (rows / array / phase container copied), a new thermal condition and a
new characterization-factor dict, each with the old contents -/
def World.unlink (w : World) (s : Nat) : World :=
  let S := w.strs s
  let (w1, im) := w.copyImol S.imol
  let (w2, tc) := w1.newTc (w1.tcs S.tc)
  let (w3, cf) := w2.newCf (w2.cfs S.cf)
  w3.setStr s { S with imol := im, tc := tc, cf := cf }

/-! ## Construction and pickling -/

/-- The flows given to a constructor: per phase, (CAS, value) pairs. -/
abbrev FlowSpec := List (Nat × Rat)

def rowOf (f : FlowSpec) : Row := fun c => (f.reverse.lookup c).getD 0

/-- Constructor arguments. -/
structure Args where
  /-- `true`: `MultiStream(...)`, `false`: `Stream(...)` -/
  multi : Bool
  sid : Option Nat
  pkg : List Nat
  /-- which of the (pre-existing) property-package objects is passed as `thermo=` -/
  pkgId : Nat
  /-- `phase=` (one entry) / `phases=` -/
  phases : List Ph
  /-- flows per phase, aligned with `normPh phases` for a MultiStream -/
  flows : List FlowSpec
  T : Rat
  P : Rat
  price : Rat
  cf : List (Nat × Rat)
  /-- `units=`: `none`, or (mass basis?, conversion factor of the unit to kmol/hr resp. kg/hr) -/
  units : Option (Bool × Rat) := none
  /-- `total_flow=` -/
  total : Option Rat := none
  /-- molecular weights of the package (used by mass units) -/
  mw : Nat → Rat := fun _ => 1

/-- the sum of all flow values given to the constructor -/
def Args.given (a : Args) : Rat :=
  (a.flows.map fun f => (a.pkg.map fun c => rowOf f c).foldl (· + ·) 0).foldl (· + ·) 0

/-- The constructor divides by the sum of the given values: `total_flow=t` with `t ≠ 0`, and for a `Stream`
with `units=` also `t = 0` (`Stream.__init__` tests `total_flow is not None` there, `MultiStream.__init__`
tests `if total_flow`). -/
def Args.rescales (a : Args) : Bool :=
  match a.total with
  | some t => t != 0 || (a.units.isSome && !a.multi)
  | none => false

/-- The molar flow the constructor stores for chemical `c` of the `k`-th phase.
Without `units` the values are kmol/hr, rescaled to `total_flow` when that is given (and not 0;
see `Args.rescales` for `total_flow=0` with units).
With `units` the values (first rescaled so that they sum to `total_flow`, in these units) are converted:
divided by the unit's factor and, for a mass unit, by the molecular weight.
(For a `MultiStream` this is the behaviour with fix C13-12: `total_flow` is in the given units, as for `Stream`.) -/
def Args.row (a : Args) (k : Nat) : Row := fun c =>
  let v := rowOf (a.flows.getD k []) c
  let scaled := match a.total with
    | some t => if a.rescales then v * (t / a.given) else v
    | none => v
  match a.units with
  | none => scaled
  | some (mass, factor) => if mass then scaled / factor / a.mw c else scaled / factor

/-- every chemical given to the constructor belongs to the package -/
def Args.flowsOk (a : Args) : Bool := a.flows.all fun f => f.all fun (c, _) => a.pkg.contains c

/-- `Stream.__init__` / `MultiStream.__init__` (flows given per chemical / per phase and chemical, with the
optional `units=` and `total_flow=`). -/
def World.ctor (w : World) (a : Args) : Except Err (World × Nat) :=
  if !a.flowsOk then .error .undefinedChemical else
  if a.rescales && a.given == 0 then .error .zeroDivision else
  let (w1, cf) := w.newCf a.cf
  let (w2, tc) := w1.newTc (a.T, a.P)
  if a.multi then
    let ps := normPh a.phases
    let (w3, rs) := w2.newRows ((List.range ps.length).map fun k => a.row k)
    let (w4, ar) := w3.newArr rs
    let (w5, im) := w4.newImol (.mat ps ar)
    .ok (w5.pushStr { imol := im, tc := tc, cf := cf, price := a.price, pkg := a.pkg, pkgId := 2 * a.pkgId, sid := a.sid })
  else
    let (w3, ph) := w2.newPh (a.phases.headD .l)
    let (w4, r) := w3.newRow (a.row 0)
    let (w5, im) := w4.newImol (.chem ph r)
    .ok (w5.pushStr { imol := im, tc := tc, cf := cf, price := a.price, pkg := a.pkg, pkgId := 2 * a.pkgId, sid := a.sid })

/-- `MultiStream.from_streams(streams)` for single-phase streams: a new multi-phase stream over the phases
of the given streams whose rows ARE the row objects of the given streams (in phase order) and whose thermal
condition IS that of the first stream; the other given streams are re-bound to that thermal condition.
The given streams become its phase views (`_streams`).  Fails for an empty list, for a multi-phase stream in
the list and for two streams of one phase. -/
def World.fromStreams (w : World) (l : List Nat) : Except Err (World × Nat) :=
  match l with
  | [] => .error .valueError
  | base :: others =>
    if l.any (fun i => w.isMat (w.strs i).imol) then .error .valueError else
    let phs := l.map fun i => (w.phasesOf (w.strs i).imol).headD .l
    if !(decide phs.Nodup) then .error .valueError else
    let ps := normPh phs
    let rows := ps.map fun p => (w.rowIdsOf (w.strs (l.getD ((phs.idxOf? p).getD 0) 0)).imol).headD 0
    let tc := (w.strs base).tc
    let w1 := others.foldl (fun w i => w.setStr i { w.strs i with tc := tc }) w
    let (w2, cf) := w1.newCf []
    let (w3, ar) := w2.newArr rows
    let (w4, im) := w3.newImol (.mat ps ar)
    .ok (w4.pushStr { imol := im, tc := tc, cf := cf, price := 0, pkg := (w.strs base).pkg,
                      pkgId := (w.strs base).pkgId, sid := none })

/-- `StreamData`: a private copy of the flows with phases, T and P. -/
structure SData where
  multi : Bool
  phases : List Ph
  flows : List Row
  T : Rat
  P : Rat

/-- What `__reduce__` hands to pickle: `(get_data(), ID, price, characterization_factors, thermo)`
and the class of the object. -/
structure PArgs where
  data : SData
  sid : Option Nat
  price : Rat
  cf : List (Nat × Rat)
  pkg : List Nat

/-- `stream.get_data()` -/
def World.getData (w : World) (s : Nat) : SData :=
  let S := w.strs s
  { multi := w.isMat S.imol, phases := w.phasesOf S.imol, flows := (w.rowIdsOf S.imol).map w.rows,
    T := (w.tcs S.tc).1, P := (w.tcs S.tc).2 }

/-- `stream.__reduce__()` -/
def World.pickleArgs (w : World) (s : Nat) : PArgs :=
  let S := w.strs s
  { data := w.getData s, sid := S.sid, price := S.price, cf := w.cfs S.cf, pkg := S.pkg }

def defaultT : Rat := 5963 / 20
def defaultP : Rat := 101325

/-- the blank indexer that `self.phases = phases` leaves behind on a new stream -/
def World.blankFor (w : World) (phases : List Ph) : World × Nat :=
  match phases with
  | [q] => w.blankChem q
  | qs => w.blankMat (normPh qs)

/-- The end of `set_data` on the new object `w3`/`im`: `self._imol.copy_like(data._imol)` (same
package object: row by row), `self._thermal_condition.copy_like(data)`; then the stream exists. -/
def World.rebuildTail (w3 : World) (p : PArgs) (cf tc im : Nat) (pid : Nat) : World × Nat :=
  let w4 := w3.setRowsSeq ((w3.rowIdsOf im).zip p.data.flows)
  let w5 := w4.setTc tc (p.data.T, p.data.P)
  w5.pushStr { imol := im, tc := tc, cf := cf, price := p.price, pkg := p.pkg, pkgId := pid, sid := p.sid }

/-- `cls.from_data(data, ID, price, characterization_factors, thermo)`:
the constructor with default flows and conditions, then `set_data(data)`.
`__init__` makes a blank 'l' stream / blank ('g','l') multi-stream and `self.phases = data._phases`
turns it into a single-phase stream of that phase (one phase) or a multi-stream over exactly these
phases (a new blank indexer).
The unpickled package is a new object (identity `2 * next + 1`; the packages that exist
before any stream have even identities) which the unpickled data shares, so `set_data` copies
row by row. -/
def World.rebuild (w : World) (p : PArgs) : World × Nat :=
  let w2 := ((w.newCf p.cf).1.newTc (defaultT, defaultP)).1
  let b := w2.blankFor p.data.phases
  b.1.rebuildTail p w.next (w.next + 1) b.2 (2 * w.next + 1)

/-- `pickle.loads(pickle.dumps(stream))` -/
def World.pickle (w : World) (s : Nat) : World × Nat := w.rebuild (w.pickleArgs s)

/-! ## Slot-wise pickling (`utils/pickle.py` `cucumber`, `Chemical.__reduce__`, default `__slots__` pickling)

`Thermo`, `Chemical`, reaction objects and the phase handles are pickled as "class + slot
names + slot values" and rebuilt by `object.__new__` + `setattr` of exactly these slots.
An object is a map from slot name to value (`none`: slot unset). -/

/-- `get_state` / `get_chemical_data`: the listed slots with their values -/
def getState {V : Type} (slots : List Nat) (obj : Nat → Option V) : List (Nat × Option V) :=
  slots.map fun k => (k, obj k)

/-- `new_from_state` / `unpickle_chemical`: a new object with these slots set -/
def newFromState {V : Type} (st : List (Nat × Option V)) : Nat → Option V :=
  fun k => (st.lookup k).join

/-- what `getattr(obj, slot, None)` sees: an unset slot reads like one holding `None` (`none`) -/
def observeD {V : Type} (obj : Nat → Option (Option V)) (k : Nat) : Option V := (obj k).join

/-- `get_chemical_data`: every slot of the class with `getattr(chemical, slot, None)` -/
def chemGetData {V : Type} (slots : List Nat) (obj : Nat → Option (Option V)) : List (Nat × Option V) :=
  slots.map fun k => (k, observeD obj k)

/-- `unpickle_chemical`: `setattr` of every entry (also the `None`s) on a new object -/
def chemFromData {V : Type} (st : List (Nat × Option V)) : Nat → Option (Option V) :=
  fun k => st.lookup k

/-- `CompiledChemicals`: the chemicals (CAS id with the names it answers to: ID, synonyms, aliases set with
`set_alias` — these live on the chemical) and the chemical groups defined with `define_group`
(name, member CAS ids, molar composition). -/
structure CChems where
  chems : List (Nat × List Nat)
  groups : List (Nat × List Nat × List Rat)

/-- `chemicals._index[name]`: position(s) of the chemical(s) the name stands for -/
def CChems.index (x : CChems) (name : Nat) : Option (List Nat) :=
  match x.groups.lookup name with
  | some (members, _) => some (members.filterMap fun c => (x.chems.map (·.1)).idxOf? c)
  | none =>
    match x.chems.findIdx? (fun ch => ch.2.contains name) with
    | some i => some [i]
    | none => none

/-- `CompiledChemicals.__reduce__` (with fix C13-11 the groups travel too) and the reconstruction
(compile the chemicals again — the index is a function of them — and define the groups again) -/
def CChems.pickleArgs (x : CChems) : List (Nat × List Nat) × List (Nat × List Nat × List Rat) := (x.chems, x.groups)
def CChems.rebuild (a : List (Nat × List Nat) × List (Nat × List Nat × List Rat)) : CChems := ⟨a.1, a.2⟩

/-! ## Mutators (the "later changes" of the property) -/

/-- `stream.imol[phase, chemical] = v` (the phase is ignored by a single-phase stream) -/
def World.setFlow (w : World) (s : Nat) (p : Ph) (c : Nat) (v : Rat) : Except Err World :=
  let S := w.strs s
  match w.imols S.imol with
  | .chem _ r =>
    if !S.pkg.contains c then .error .undefinedChemical else .ok (w.setRow r (upd (w.rows r) c v))
  | .mat ps a =>
    match phIdx ps p with
    | none => .error .undefinedPhase
    | some k =>
      if !S.pkg.contains c then .error .undefinedChemical else
      let r := (w.arrs a).getD k a; .ok (w.setRow r (upd (w.rows r) c v))

def World.setT (w : World) (s : Nat) (v : Rat) : World :=
  let tc := (w.strs s).tc; w.setTc tc (v, (w.tcs tc).2)

def World.setP (w : World) (s : Nat) (v : Rat) : World :=
  let tc := (w.strs s).tc; w.setTc tc ((w.tcs tc).1, v)

/-- `stream.phase = p`: in place for a single-phase stream; a multi-stream becomes a
single-phase stream holding the sum of its phases (new indexer, phase container and row). -/
def World.setPhase (w : World) (s : Nat) (p : Ph) : World :=
  let S := w.strs s
  match w.imols S.imol with
  | .chem ph _ => w.setPh ph p
  | .mat _ a =>
    let total : Row := fun c => ((w.arrs a).map fun r => w.rows r c).foldl (· + ·) 0
    let (w1, ph) := w.newPh p
    let (w2, r) := w1.newRow total
    let (w3, im) := w2.newImol (.chem ph r)
    w3.setStr s { S with imol := im }

/-- `stream.empty()` -/
def World.empty (w : World) (s : Nat) : World := w.clearRows (w.rowIdsOf (w.strs s).imol)

def World.setPrice (w : World) (s : Nat) (v : Rat) : World :=
  w.setStr s { w.strs s with price := v }

def cfSet (d : List (Nat × Rat)) (k : Nat) (v : Rat) : List (Nat × Rat) :=
  if d.any (·.1 == k) then d.map fun (k', v') => if k' == k then (k', v) else (k', v')
  else d ++ [(k, v)]

/-- `stream.characterization_factors[k] = v` -/
def World.setCF (w : World) (s : Nat) (k : Nat) (v : Rat) : World :=
  let cf := (w.strs s).cf; w.setCf cf (cfSet (w.cfs cf) k v)

/-! ## Operations as data -/

inductive Op where
  | new (a : Args)
  | setFlow (s : Nat) (p : Ph) (c : Nat) (v : Rat)
  | setT (s : Nat) (v : Rat)
  | setP (s : Nat) (v : Rat)
  | setPhase (s : Nat) (p : Ph)
  | empty (s : Nat)
  | setPrice (s : Nat) (v : Rat)
  | setCF (s : Nat) (k : Nat) (v : Rat)
  | copy (s : Nat)
  | copyTo (s : Nat) (pid : Nat) (pkg : List Nat)
  | copyLike (t s : Nat)
  | copyTC (t s : Nat)
  | link (t s : Nat) (flow phase tp : Bool)
  | unlink (s : Nat)
  | proxy (s : Nat)
  | flowProxy (s : Nat)
  | pickle (s : Nat)

/-- the stream objects an operation mentions -/
def Op.ids : Op → List Nat
  | .new _ => []
  | .setFlow s .. | .setT s _ | .setP s _ | .setPhase s _ | .empty s | .setPrice s _ | .setCF s ..
  | .copy s | .copyTo s .. | .unlink s | .proxy s | .flowProxy s | .pickle s => [s]
  | .copyLike t s | .copyTC t s | .link t s .. => [t, s]

def World.exec (w : World) : Op → Res World
  | .new a => (Res.ofExcept (w.ctor a)) |> fun | .ok p => .ok p.1 | .err e => .err e | .skip => .skip
  | .setFlow s p c v => Res.ofExcept (w.setFlow s p c v)
  | .setT s v => .ok (w.setT s v)
  | .setP s v => .ok (w.setP s v)
  | .setPhase s p => .ok (w.setPhase s p)
  | .empty s => .ok (w.empty s)
  | .setPrice s v => .ok (w.setPrice s v)
  | .setCF s k v => .ok (w.setCF s k v)
  | .copy s => .ok (w.copy s).1
  | .copyTo s pid pkg => (Res.ofExcept (w.copyTo s pid pkg)) |> fun | .ok p => .ok p.1 | .err e => .err e | .skip => .skip
  | .copyLike t s => w.copyLike t s
  | .copyTC t s => .ok (w.copyTC t s)
  | .link t s f p tp => w.link t s f p tp
  | .unlink s => .ok (w.unlink s)
  | .proxy s => .ok (w.proxy s).1
  | .flowProxy s => .ok (w.flowProxy s).1
  | .pickle s => .ok (w.pickle s).1

/-- One operation; it can only mention streams that exist. -/
def World.step (w : World) (op : Op) : Res World :=
  if op.ids.all (· < w.nS) then w.exec op else .err .badStream

/-- Run a history; an error ends it (the Python call raised), an out-of-domain operation is not executed. -/
def World.run (w : World) : List Op → World
  | [] => w
  | op :: ops =>
    match w.step op with
    | .ok w' => w'.run ops
    | .skip => w.run ops
    | .err _ => w

/-! ## Phase views (`ms[phase]`)

A phase view is a stream object bound to one row object of its multi-phase stream and to a
thermal-condition object.  Each stream object has its own dict `_streams` of the views it has
handed out (a proxy starts with an empty one).  The views are kept next to the world of the
streams; `after` re-attaches them exactly where the code does (`unlink`, `link_with`) and
drops them where the code drops them (`MultiStream.phase = p`, `Stream.phases = ...`). -/

/-- the row object of (exactly) phase `p` of stream `i`, if it is multi-phase and has that phase -/
def World.rowOfPhase (w : World) (i : Nat) (p : Ph) : Option Nat :=
  match w.imols (w.strs i).imol with
  | .chem .. => none
  | .mat ps a =>
    match ps.idxOf? p with
    | some k => (w.arrs a)[k]?
    | none => none

structure VWorld where
  w : World
  /-- `stream._streams`: for each stream object the views it handed out: phase, bound row object,
  bound thermal-condition object -/
  vdict : Nat → List (Ph × Nat × Nat)

def VWorld.init : VWorld := ⟨World.init, fun _ => []⟩

/-- `ms[p]` (exact label of a phase the stream has): the cached view, else a new one bound to the
current row of that phase and the current thermal condition -/
def VWorld.view (vw : VWorld) (i : Nat) (p : Ph) : Option VWorld :=
  match vw.w.rowOfPhase i p with
  | none => none
  | some r =>
    match (vw.vdict i).lookup p with
    | some _ => some vw
    | none => some { vw with vdict := upd vw.vdict i ((p, r, (vw.w.strs i).tc) :: vw.vdict i) }

/-- `for phase, stream in self._streams.items(): stream._imol = imol.get_phase(phase) [if rows];
stream._thermal_condition = self._thermal_condition` in the world `w'` -/
def reattachList (w' : World) (i : Nat) (rows : Bool) (l : List (Ph × Nat × Nat)) : List (Ph × Nat × Nat) :=
  l.map fun e => (e.1, (if rows then (w'.rowOfPhase i e.1).getD e.2.1 else e.2.1), (w'.strs i).tc)

/-- what happens to the views when operation `op` took the streams from `vw.w` to `w'` -/
def VWorld.after (vw : VWorld) (op : Op) (w' : World) : VWorld :=
  match op with
  | .unlink s => ⟨w', upd vw.vdict s (reattachList w' s true (vw.vdict s))⟩
  | .link t _ f _ tp =>
    if w'.isMat (w'.strs t).imol && (f || tp) then ⟨w', upd vw.vdict t (reattachList w' t f (vw.vdict t))⟩
    else ⟨w', vw.vdict⟩
  | .setPhase s _ => if vw.w.isMat (vw.w.strs s).imol then ⟨w', upd vw.vdict s []⟩ else ⟨w', vw.vdict⟩
  | .copyLike t _ =>
    if !vw.w.isMat (vw.w.strs t).imol && w'.isMat (w'.strs t).imol then ⟨w', upd vw.vdict t []⟩ else ⟨w', vw.vdict⟩
  | _ => ⟨w', vw.vdict⟩

inductive VOp where
  | op (o : Op)
  /-- `ms[p]` -/
  | view (i : Nat) (p : Ph)

def VWorld.step (vw : VWorld) : VOp → Res VWorld
  | .op o =>
    match vw.w.step o with
    | .ok w' => .ok (vw.after o w')
    | .skip => .skip
    | .err e => .err e
  | .view i p =>
    if i < vw.w.nS then
      match vw.view i p with
      | some vw' => .ok vw'
      | none => .skip
    else .err .badStream

def VWorld.run (vw : VWorld) : List VOp → VWorld
  | [] => vw
  | op :: ops =>
    match vw.step op with
    | .ok vw' => vw'.run ops
    | .skip => vw.run ops
    | .err _ => vw

end ThermoVerif.Links
