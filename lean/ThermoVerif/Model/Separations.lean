/-
Model of the stream-level separation helpers of `thermosteam/separations.py`
(`mix_and_split`, `adjust_moisture_content`, `handle_infeasible_flow_rates`,
`phase_fraction`, `partition`, the `lle` / `vle` wrappers, `phase_split`,
`chemical_splits`, `material_balance` (`balance='flow'`)) and of the dispatch in
`thermosteam/equilibrium/binary_phase_fraction.py::phase_fraction`.

Core Lean only (no Mathlib): the file is compiled into the line-protocol driver.

Conventions
* A flow vector over the `n` chemicals of the property package is a `List Rat`;
  `v.at i` is the flow of chemical `i` (0 outside the list, like a sparse vector).
* Everything the helpers obtain from an iterative solver or from a thermodynamic
  correlation is a *parameter* of the model function: the Rachford–Rice phase
  fraction `phi` returned by `compute_phase_fraction`, the phase rows left by
  `ms.lle(..)` / `ms.vle(..)`, the densities the `lle` wrapper compares, the
  molecular weights.  The theorems in `Props/C20.lean` hold for every value of them.
* The outlets of a helper are inputs too (they may hold material from an earlier
  call); where the code reads or keeps them the model takes them as arguments.
* Python exceptions are `Except Err _`.

`partition` is modelled with the repair proposed in `fixes_proposed/C20-1.md`
(the bottom stream is emptied first) and `adjust_moisture_content` with the repair of
`fixes_proposed/C20-2.md` (sign of the non-strict correction); the behaviour of the
code as found is kept as `partitionAsIs` / `AdjIn.asIs := true` so that the
counterexample theorems can talk about it.
-/
namespace ThermoVerif.Separations

inductive Err where
  | infeasible      -- InfeasibleRegion
  | runtime         -- RuntimeError (phase_split: wrong number of outlets)
  | zeroDiv         -- division by zero (empty equilibrium feed, moisture content 1, zero MW)
  | singular        -- numpy.linalg.LinAlgError / no exact solution
  | shape           -- operands of different lengths
  | noConv          -- the fixed-point iteration of `balance='composition'` did not stop within the iteration cap
  deriving Repr, DecidableEq, Inhabited

def Err.toString : Err → String
  | .infeasible => "infeasible"
  | .runtime => "runtime"
  | .zeroDiv => "zerodiv"
  | .singular => "singular"
  | .shape => "shape"
  | .noConv => "noconv"

abbrev Vec := List Rat

/-- flow of chemical `i` -/
def Vec.at (v : Vec) (i : Nat) : Rat := v.getD i 0

/-- the vector `[f 0, …, f (n-1)]` -/
def tab (n : Nat) (f : Nat → Rat) : Vec := (List.range n).map f

def sumL : List Rat → Rat
  | [] => 0
  | x :: xs => x + sumL xs

/-- `Σ_{i ∈ idx} f i` -/
def sumOver (idx : List Nat) (f : Nat → Rat) : Rat := sumL (idx.map f)

/-- per-chemical total of a list of streams -/
def total (n : Nat) (ss : List Vec) : Vec := tab n (fun i => sumL (ss.map (·.at i)))

/-! ### `mix_and_split` -/

/-- `top.mix_from(ins); top.split_to(top, bottom, split)`:
`values = mol * split; dummy = mol - values`.  The previous contents of `top` and
`bottom` are overwritten (they are not arguments). -/
def mixAndSplit (n : Nat) (ins : List Vec) (split : Vec) : Vec × Vec :=
  let m := total n ins
  (tab n (fun i => m.at i * split.at i), tab n (fun i => m.at i - m.at i * split.at i))

/-! ### `adjust_moisture_content` -/

structure AdjIn where
  n : Nat
  R : Vec              -- retentate (inlet and outlet)
  P : Vec              -- permeate (inlet and outlet)
  MW : Vec
  k : Nat              -- index of the moisture chemical
  /-- `ID is None` branch (molar bookkeeping with the literal `MW = 18.01528`) or the
  `ID` branch (mass bookkeeping through `imass`) -/
  byMol : Bool
  mwc : Rat            -- the literal 18.01528 of the `ID is None` branch
  mc : Rat
  strict : Option Bool
  /-- mirror the code as found (non-strict correction with the wrong sign) -/
  asIs : Bool := false

def AdjIn.Fmass (a : AdjIn) : Rat := sumL ((List.range a.n).map (fun i => a.MW.at i * a.R.at i))

/-- (new retentate[k], new permeate[k]) before the infeasibility test -/
def AdjIn.raw (a : AdjIn) : Rat × Rat :=
  if a.byMol then
    let rw := a.R.at a.k
    let dry := a.Fmass - a.mwc * rw
    let water := (dry * a.mc / (1 - a.mc)) / a.mwc
    (water, a.P.at a.k - (water - rw))
  else
    let mw := a.MW.at a.k
    let rm := a.R.at a.k * mw
    let dry := a.Fmass - rm
    let moisture := dry * a.mc / (1 - a.mc)
    (moisture / mw, (a.P.at a.k * mw - (moisture - rm)) / mw)

def setAt (n : Nat) (v : Vec) (k : Nat) (x : Rat) : Vec := tab n (fun i => if i = k then x else v.at i)

/-- result: (retentate, permeate, corrected for missing water?) -/
def adjustMoisture (a : AdjIn) : Except Err (Vec × Vec × Bool) :=
  if a.mc = 1 then .error .zeroDiv
  else if (if a.byMol then a.mwc else a.MW.at a.k) = 0 then .error .zeroDiv
  else
    let (r, p) := a.raw
    if p < 0 then
      if a.strict.getD true then .error .infeasible
      else
        let r' := if a.asIs then r - p else r + p
        .ok (setAt a.n a.R a.k r', setAt a.n a.P a.k 0, true)
    else .ok (setAt a.n a.R a.k r, setAt a.n a.P a.k p, false)

/-- `mix_and_split_with_moisture_content`: `mix_and_split(ins, retentate, permeate, split)` followed by
`adjust_moisture_content(retentate, permeate, …)` -/
def mixSplitMoisture (n : Nat) (ins : List Vec) (split MW : Vec) (k : Nat) (byMol : Bool) (mwc mc : Rat)
    (strict : Option Bool) : Except Err (Vec × Vec × Bool) :=
  adjustMoisture { n := n, R := (mixAndSplit n ins split).1, P := (mixAndSplit n ins split).2, MW := MW, k := k,
                   byMol := byMol, mwc := mwc, mc := mc, strict := strict }

/-- mass fraction of chemical `k` in stream `v` (0 for an empty stream) -/
def massFrac (n : Nat) (MW v : Vec) (k : Nat) : Rat :=
  MW.at k * v.at k / sumL ((List.range n).map (fun i => MW.at i * v.at i))

/-! ### `handle_infeasible_flow_rates`, `phase_fraction`, `partition` -/

/-- one entry of `handle_infeasible_flow_rates`: negatives → 0, then above the feed → feed.
Second / third component: the entry was found negative / above the feed. -/
def clip1 (b mx : Rat) : Rat × Bool × Bool :=
  let (b1, f1) := if b < 0 then ((0 : Rat), true) else (b, false)
  if b1 > mx then (mx, f1, true) else (b1, f1, false)

/-- `check_partition_infeasibility(infeasible_index, …)` tests `infeasible_index.any()` on the array of
*indices* returned by `np.where`, which is true iff some infeasible position is not position 0:
an infeasibility of the first listed chemical alone is clipped silently (no warning, no
`InfeasibleRegion` even when strict).  Mirrored as found. -/
def reported (l : List (Rat × Bool × Bool)) : Bool :=
  (l.drop 1).any (·.2.1) || (l.drop 1).any (·.2.2)

structure PartIn where
  n : Nat
  feed : Vec
  bot0 : Vec           -- contents of the bottom outlet before the call
  ids : List Nat       -- chemicals in equilibrium
  K : List Rat         -- aligned with `ids`
  topc : List Nat      -- chemicals forced to the top
  botc : List Nat      -- chemicals forced to the bottom
  phi : Rat            -- value returned by `compute_phase_fraction` (parameter)
  strict : Bool

def PartIn.Fa (p : PartIn) : Rat := sumOver p.topc p.feed.at
def PartIn.Fb (p : PartIn) : Rat := sumOver p.botc p.feed.at
/-- `F_mol` after `F_mol += Fa + Fb` -/
def PartIn.F (p : PartIn) : Rat := sumOver p.ids p.feed.at + (p.Fa + p.Fb)

/-- un-clipped bottom flow of an equilibrium chemical with feed flow `mol` and coefficient `k`:
`x = z/(phi*K + (1-phi)); bottom = x*(1-phi)*F` with `z = mol/F` -/
def PartIn.rawBottom (p : PartIn) (mol k : Rat) : Rat :=
  (mol / p.F) / (p.phi * k + (1 - p.phi)) * (1 - p.phi) * p.F

/-- clipped bottom flows of the equilibrium chemicals, aligned with `ids`, with the flags -/
def PartIn.eqBottom (p : PartIn) : List (Rat × Bool × Bool) :=
  List.zipWith (fun i k => clip1 (p.rawBottom (p.feed.at i) k) (p.feed.at i)) p.ids p.K

/-- some equilibrium flow was actually clipped -/
def PartIn.anyClip (p : PartIn) : Bool := p.eqBottom.any (fun e => e.2.1 || e.2.2)
/-- the clipping was reported (warning, or `InfeasibleRegion` when strict) -/
def PartIn.reportedClip (p : PartIn) : Bool := reported p.eqBottom

/-- value written by `bottom.imol[IDs] = values` for chemical `i`, if `i ∈ IDs` -/
def lookupId (ids : List Nat) (vals : List Rat) (i : Nat) : Option Rat :=
  (ids.zip vals).lookup i

/-- `separations.phase_fraction`: the phase fraction only (the clipping is run for its
warning / exception) -/
def phaseFraction (p : PartIn) : Except Err Rat :=
  if p.F = 0 then .error .zeroDiv
  else if p.phi ≤ 0 then .ok 0
  else if p.phi < 1 then
    if p.strict && p.reportedClip then .error .infeasible else .ok p.phi
  else .ok 1

/-- the three branches of `partition` on the value of `phi`:
values of the equilibrium chemicals in the bottom, and the returned `phi`;
`none` = the code writes nothing (the `phi ≥ 1` branch of the code as found) -/
def PartIn.branch (p : PartIn) : Option (List Rat) × Rat :=
  if p.phi ≤ 0 then (some (p.ids.map p.feed.at), 0)
  else if p.phi < 1 then (some (p.eqBottom.map (·.1)), p.phi)
  else (none, 1)

/-- bottom flow of chemical `i` after the call.  Write order of the code:
`bottom.imol[top_chemicals] = 0`, `bottom.imol[bottom_chemicals] = feed…`, `bottom.imol[IDs] = …`
(the last write wins); `stale i` is what is there when nothing is written. -/
def PartIn.bottomCell (p : PartIn) (eqv : Option (List Rat)) (stale : Nat → Rat) (i : Nat) : Rat :=
  match eqv.bind (fun vals => lookupId p.ids vals i) with
  | some v => v
  | none =>
    if i ∈ p.botc then p.feed.at i
    else if i ∈ p.topc then 0
    else stale i

structure PartOut where
  phi : Rat
  top : Vec
  bottom : Vec
  clipped : Bool          -- an equilibrium flow was clipped
  warned : Bool           -- … and the clipping was reported (RuntimeWarning)
  deriving Repr, DecidableEq

def PartIn.run (p : PartIn) (stale : Nat → Rat) : Except Err PartOut :=
  if p.F = 0 then .error .zeroDiv
  else
    let (eqv, phi') := p.branch
    let two := decide (0 < p.phi) && decide (p.phi < 1)
    let clipped := two && p.anyClip
    let warned := two && p.reportedClip
    if p.strict && warned then .error .infeasible
    else
      let bot := tab p.n (p.bottomCell eqv stale)
      .ok { phi := phi', bottom := bot, top := tab p.n (fun i => p.feed.at i - bot.at i), clipped := clipped,
            warned := warned }

/-- `partition` with the bottom stream emptied first (fixes_proposed/C20-1.md): the result
does not depend on `bot0`. -/
def partition (p : PartIn) : Except Err PartOut := p.run (fun _ => 0)

/-- `partition` as found: whatever the bottom stream held for a chemical that is not
written stays there, and `top = feed − bottom` inherits it. -/
def partitionAsIs (p : PartIn) : Except Err PartOut := p.run p.bot0.at

/-- `partition_coefficients(IDs, top, bottom)` for the chemical `i ∈ IDs`: mole fraction in the top over mole
fraction in the bottom, both normalised over `IDs` (the `1e-24` floor of the code is not modelled: the theorems
assume a non-zero denominator) -/
def achievedK (ids : List Nat) (top bottom : Vec) (i : Nat) : Rat :=
  (top.at i / sumOver ids top.at) / (bottom.at i / sumOver ids bottom.at)

/-- smallest relative distance of an un-clipped equilibrium bottom flow from the clip
bounds `0` and `feed` (used by the driver to flag float-borderline cases) -/
def PartIn.borderline (p : PartIn) (eps : Rat) : Bool :=
  (decide (0 < p.phi) && decide (p.phi < 1)) &&
  (List.zipWith (fun i k =>
      let m := p.feed.at i
      let b := p.rawBottom m k
      let s := (if m < 0 then -m else m) * eps
      m != 0 && ((decide (-s ≤ b) && decide (b ≤ s)) || (decide (-s ≤ b - m) && decide (b - m ≤ s))))
    p.ids p.K).any id

/-! ### `binary_phase_fraction.phase_fraction`: dispatch, shortcuts, closed form -/

def maxL : List Rat → Rat
  | [] => 0
  | [x] => x
  | x :: xs => let m := maxL xs; if m < x then x else m

def minL : List Rat → Rat
  | [] => 0
  | [x] => x
  | x :: xs => let m := minL xs; if x < m then x else m

/-- `as_valid_fraction` -/
def asValidFraction (x : Rat) : Rat := if x < 0 then 0 else if x > 1 then 1 else x

/-- `compute_phase_fraction_2N` -/
def phaseFraction2N (z1 z2 k1 k2 : Rat) : Rat :=
  (-(k1 * z1 + k2 * z2) + (z1 + z2)) /
    (k1 * k2 * z1 + k1 * k2 * z2 - k1 * z2 - (k1 * z1 + k2 * z2) - k2 * z1 + (z1 + z2))

/-- which path of `phase_fraction(zs, Ks, guess, za, zb)` is taken -/
inductive PFPath where
  | solver           -- `solve_phase_fraction_Rashford_Rice` (za or zb or N > 2)
  | allKle1          -- shortcut `Ks.max() <= 1 + 1e-9`  → returns 1
  | allKge1          -- shortcut `Ks.min() >= 1 - 1e-9`  → returns 0
  | closed2N
  | valueError
  deriving Repr, DecidableEq

def tol9 : Rat := 1 / 1000000000

def pfPath (zs ks : List Rat) (za zb : Rat) : PFPath :=
  if za != 0 || zb != 0 || zs.length > 2 then .solver
  else if maxL ks ≤ 1 + tol9 then .allKle1
  else if minL ks ≥ 1 - tol9 then .allKge1
  else if zs.length = 2 then .closed2N
  else .valueError

/-- `phase_fraction` of `binary_phase_fraction.py`, as found; `solver` is the value returned by
`solve_phase_fraction_Rashford_Rice` when that path is taken -/
def binaryPhaseFraction (zs ks : List Rat) (za zb solver : Rat) : Except Err Rat :=
  match pfPath zs ks za zb with
  | .solver => .ok (asValidFraction solver)
  | .allKle1 => .ok 1
  | .allKge1 => .ok 0
  | .closed2N => .ok (asValidFraction (phaseFraction2N (zs.getD 0 0) (zs.getD 1 0) (ks.getD 0 0) (ks.getD 1 0)))
  | .valueError => .error .shape

/-- early exits of `solve_phase_fraction_Rashford_Rice` that need no iteration -/
def rrShortcut (ks : List Rat) (za zb : Rat) : Option Rat :=
  if maxL ks ≤ 1 + tol9 && za == 0 then some 0
  else if minL ks ≥ 1 - tol9 && zb == 0 then some 1
  else none

/-- the Rachford–Rice sum `Σ z_i (K_i − 1) / (1 + φ (K_i − 1))` (the code's objective is its negative,
minus `za/φ`, plus `zb/(1−φ)`) -/
def rr (zs ks : List Rat) (phi : Rat) : Rat :=
  sumL (List.zipWith (fun z k => z * (k - 1) / (1 + phi * (k - 1))) zs ks)

/-- `phase_fraction_objective_function(phi, -zs*(K-1), K-1, za, zb)`: the negative Rachford–Rice sum, minus the
forced-top term `za/φ`, plus the forced-bottom term `zb/(1−φ)` -/
def rrObjective (zs ks : List Rat) (za zb phi : Rat) : Rat :=
  sumL (List.zipWith (fun z k => -(z * (k - 1)) / (1 + phi * (k - 1))) zs ks)
    - (if za > 0 then za / phi else 0) + (if zb > 0 then zb / (1 - phi) else 0)

/-- the four sign tests on the end-point values `y0 = f(x0)`, `y1 = f(x1)` -/
def rrSignExit (y0 y1 : Rat) : Option Rat :=
  if y0 > y1 ∧ y1 > 0 then some 1
  else if y1 > y0 ∧ y0 > 0 then some 0
  else if y0 < y1 ∧ y1 < 0 then some 1
  else if y1 < y0 ∧ y0 < 0 then some 0
  else none

/-- value returned by `solve_phase_fraction_Rashford_Rice`: the single-phase early exits, the end-point sign tests
(`x0 = 1e-16 if za else 0`, `x1 = 1 − 1e-16 if zb else 1` are passed in), and otherwise `iter`, what the
bracketing / interpolation of flexsolve returns (parameter) -/
def rrSolve (zs ks : List Rat) (za zb x0 x1 iter : Rat) : Rat :=
  match rrShortcut ks za zb with
  | some v => v
  | none =>
    match rrSignExit (rrObjective zs ks za zb x0) (rrObjective zs ks za zb x1) with
    | some v => v
    | none => iter

/-- monitored hypothesis on the parameter `iter`: the objective changes sign within `delta` of it (inside `[x0, x1]`) -/
def rrRootOK (zs ks : List Rat) (za zb x0 x1 iter delta : Rat) : Bool :=
  let lo := if iter - delta < x0 then x0 else iter - delta
  let hi := if iter + delta > x1 then x1 else iter + delta
  decide (rrObjective zs ks za zb lo * rrObjective zs ks za zb hi ≤ 0)

/-- did the solver reach the iterative part? -/
def rrIterative (zs ks : List Rat) (za zb x0 x1 : Rat) : Bool :=
  (rrShortcut ks za zb).isNone && (rrSignExit (rrObjective zs ks za zb x0) (rrObjective zs ks za zb x1)).isNone

/-! ### `lle` and `vle` wrappers -/

/-- which liquid row becomes the top outlet: `ms.phases = ('L','l')`, so `L` unless no
`top_chemical` was given and `rho_L is None or rho_l is not None and rho_l < rho_L` -/
def lleTopIsSmallL (hasTopChemical : Bool) (rho_l rho_L : Option Rat) : Bool :=
  !hasTopChemical &&
    (match rho_L with
     | none => true
     | some rL => match rho_l with
       | none => false
       | some rl => decide (rl < rL))

/-- efficiency mixing: `mol *= e; mol += (1 - e)/2 * feed` when `e < 1` -/
def effMix (n : Nat) (feed eq : Vec) (e : Rat) : Vec :=
  if e < 1 then tab n (fun i => eq.at i * e + (1 - e) / 2 * feed.at i) else tab n eq.at

/-- `lle(feed, top, bottom, top_chemical, efficiency)`; `rowL`, `rowl` are the rows of `ms`
after `ms.lle(..)` (parameters).  The previous contents of the outlets are overwritten. -/
def lleWrap (n : Nat) (feed rowL rowl : Vec) (hasTopChemical : Bool) (rho_l rho_L : Option Rat) (e : Rat) :
    Vec × Vec :=
  if lleTopIsSmallL hasTopChemical rho_l rho_L then (effMix n feed rowl e, effMix n feed rowL e)
  else (effMix n feed rowL e, effMix n feed rowl e)

/-- `vle(feed, vap, liq, …)`; rows of `ms` after `ms.vle(..)` are parameters -/
def vleWrap (n : Nat) (rowg rowl : Vec) : Vec × Vec := (tab n rowg.at, tab n rowl.at)

/-! ### the `multi_stream=` holder of the wrappers

`lle(…, multi_stream=ms)` / `vle(…, multi_stream=ms)` run the equilibrium on a caller-supplied MultiStream
that is typically reused call after call, so it arrives holding the rows of the previous equilibrium.
`ms.copy_like(feed)` loads the (liquid) feed: the whole feed in the `l` row, every other row emptied.
The holder is an input of the call; `holderLoad` takes its previous rows as an argument and ignores them.
Without `multi_stream`, `ms = feed.copy()` gives the same loaded rows. -/

/-- rows `(other, l)` of the holder after `ms.copy_like(feed)`; `other` is `L` for lle and `g` for vle -/
def holderLoad (n : Nat) (_h0 : Vec × Vec) (feed : Vec) : Vec × Vec := (tab n (fun _ => 0), tab n feed.at)

/-- one whole `lle` call with the equilibrium routine as a function parameter `eqm` from the loaded rows
`(L, l)` to the rows `(L, l)` it leaves -/
def lleFull (n : Nat) (h0 : Vec × Vec) (feed : Vec) (eqm : Vec × Vec → Vec × Vec) (hasTopChemical : Bool)
    (rho_l rho_L : Option Rat) (e : Rat) : Vec × Vec :=
  let r := eqm (holderLoad n h0 feed)
  lleWrap n feed r.1 r.2 hasTopChemical rho_l rho_L e

/-- one whole `vle` call; `eqm` maps the loaded rows `(g, l)` to the rows `(g, l)` it leaves -/
def vleFull (n : Nat) (h0 : Vec × Vec) (feed : Vec) (eqm : Vec × Vec → Vec × Vec) : Vec × Vec :=
  let r := eqm (holderLoad n h0 feed)
  vleWrap n r.1 r.2

/-! ### `phase_split` -/

/-- `for i, j in zip(feed, outlets): j.copy_like(i)`; each outlet gets the phase label and the row -/
def phaseSplit (n : Nat) (phases : List String) (rows : List Vec) (nOutlets : Nat) :
    Except Err (List (String × Vec)) :=
  if nOutlets ≠ phases.length then .error .runtime
  else .ok (phases.zip (rows.map (fun r => tab n r.at)))

/-! ### `chemical_splits` -/

/-- `a.mol / mixed_mol` with `mixed_mol = mixed.mol` or `a.mol + b.mol`.  Sparse division
leaves 0 where the numerator is 0. -/
def chemicalSplits (n : Nat) (a : Vec) (b mixed : Option Vec) : Vec :=
  let m : Nat → Rat := match mixed with
    | some m => m.at
    | none => fun i => a.at i + (b.getD []).at i
  tab n (fun i => if a.at i = 0 then 0 else a.at i / m i)

/-! ### `material_balance`, `balance='flow'` -/

def dot (r x : List Rat) : Rat := sumL (List.zipWith (· * ·) r x)
def matVec (A : List (List Rat)) (x : List Rat) : List Rat := A.map (fun r => dot r x)

/-- one equation `coefficients · x = right-hand side` -/
abbrev Row := List Rat × Rat

def rowHead (r : Row) : Rat := r.1.headD 0

/-- split off the first row whose leading coefficient is non-zero (the pivot rule), keeping the order of the others -/
def findPivot : List Row → Option (Row × List Row)
  | [] => none
  | r :: rs =>
    if rowHead r ≠ 0 then some (r, rs)
    else match findPivot rs with
      | none => none
      | some (p, others) => some (p, r :: others)

/-- eliminate the leading unknown of `r` with the pivot row `p` -/
def elimRow (p r : Row) : Row :=
  (List.zipWith (fun x y => x - rowHead r / rowHead p * y) r.1.tail p.1.tail, r.2 - rowHead r / rowHead p * p.2)

/-- Gaussian elimination with back substitution on `k` unknowns (exact arithmetic): pick the first row with a
non-zero leading coefficient, eliminate that unknown from the other rows, solve the smaller system, substitute back.
Proved sound and — for systems whose homogeneous part has only the zero solution — complete in
`Lemmas/Separations.lean` (`solveRec_sound`, `solveRec_complete`). -/
def solveRec : Nat → List Row → Option (List Rat)
  | 0, M => if M.all (fun r => r.2 == 0) then some [] else none
  | k + 1, M =>
    match findPivot M with
    | none => none
    | some (p, others) =>
      match solveRec k (others.map (elimRow p)) with
      | none => none
      | some xs => some ((p.2 - dot p.1.tail xs) / rowHead p :: xs)

def gaussJordan (k : Nat) (A : List (List Rat)) (b : List Rat) : Option (List Rat) := solveRec k (A.zip b)

/-- a solution of `A x = b`; the answer of the elimination is re-checked exactly before it is returned (the check
is redundant: `solveRec_sound`) -/
def solveChecked (A : List (List Rat)) (b : List Rat) : Option (List Rat) :=
  match gaussJordan b.length A b with
  | some x => if matVec A x = b ∧ x.length = b.length then some x else none
  | none => none

structure BalIn where
  n : Nat
  idx : List Nat           -- `chemicals.get_index(chemical_IDs)`
  vin : List Vec           -- variable inlets
  cin : List Vec           -- constant inlets
  cout : List Vec          -- constant outlets

/-- `A = inlet_mols[index, :]`: row per chosen chemical, column per variable inlet -/
def BalIn.A (m : BalIn) : List (List Rat) := m.idx.map (fun c => m.vin.map (·.at c))
/-- `b = f − g` -/
def BalIn.b (m : BalIn) : List Rat :=
  m.idx.map (fun c => sumL (m.cout.map (·.at c)) - sumL (m.cin.map (·.at c)))

def scaleInlets (n : Nat) (x : List Rat) (vin : List Vec) : List Vec :=
  List.zipWith (fun f s => tab n (fun i => s.at i * f)) x vin

/-- new variable inlets -/
def materialBalance (m : BalIn) : Except Err (List Vec) :=
  if m.vin.length ≠ m.idx.length then .error .shape
  else match solveChecked m.A m.b with
    | some x => .ok (scaleInlets m.n x m.vin)
    | none => .error .singular

/-- inlets − outlets for chemical `c` -/
def BalIn.residual (m : BalIn) (vin' : List Vec) (c : Nat) : Rat :=
  sumL (vin'.map (·.at c)) + sumL (m.cin.map (·.at c)) - sumL (m.cout.map (·.at c))

/-! ### `material_balance`, `balance='composition'`

The code iterates `x ← solve(A, (A_·x).sum()·f + O)` from `x = 1` until the sum of squared relative changes is
`≤ 1e-6`, shifting a solution with negative entries up by its most negative entry.  Mirrored with an iteration cap
(`fuel`): the real loop has none and, when the rank-one map is not a contraction, runs until the floats overflow
(fixes_proposed/C20-5.md); the adapter stops the real loop at the same cap. -/

structure CompIn where
  n : Nat
  idx : List Nat
  vin : List Vec
  cin : List Vec
  cout : List Vec
  fuel : Nat           -- iteration cap (not in the code)
  tol : Rat            -- the literal `1e-6`

def rowSum (n : Nat) (v : Vec) : Rat := sumL ((List.range n).map v.at)

def CompIn.A (m : CompIn) : List (List Rat) := m.idx.map (fun c => m.vin.map (·.at c))
/-- total flow of each variable inlet: `(A_ * x).sum() = s · x` -/
def CompIn.s (m : CompIn) : List Rat := m.vin.map (rowSum m.n)
def CompIn.S (m : CompIn) (x : List Rat) : Rat := dot m.s x
def CompIn.molOut (m : CompIn) (c : Nat) : Rat := sumL (m.cout.map (·.at c))
def CompIn.Fout (m : CompIn) : Rat := sumL ((List.range m.n).map m.molOut)
/-- `f = z_mol_out[index]` (`mol_out` itself when the outlets are empty) -/
def CompIn.f (m : CompIn) (c : Nat) : Rat := if m.Fout = 0 then m.molOut c else m.molOut c / m.Fout
def CompIn.g (m : CompIn) (c : Nat) : Rat := sumL (m.cin.map (·.at c))
/-- `sum(g_)`: total flow of the constant inlets -/
def CompIn.G (m : CompIn) : Rat := sumL ((List.range m.n).map m.g)
/-- `b = (A_ * x_guess).sum()*f + O`, `O = sum(g_)*f - g` -/
def CompIn.rhs (m : CompIn) (x : List Rat) : List Rat :=
  m.idx.map (fun c => m.S x * m.f c + (m.G * m.f c - m.g c))

/-- `if infeasibles.any(): x_new -= x_new[infeasibles].min()` -/
def shiftNeg (x : List Rat) : List Rat × Bool :=
  let negs := x.filter (· < 0)
  if negs.isEmpty then (x, false) else (x.map (· - minL negs), true)

def CompIn.step (m : CompIn) (xg : List Rat) : Option (List Rat × Bool) :=
  (solveChecked m.A (m.rhs xg)).map shiftNeg

/-- `sum(((x_new - x_guess)/denominator)**2)` with `denominator = x_guess`, zeros replaced by 1 -/
def relChange2 (xn xg : List Rat) : Rat :=
  sumL (List.zipWith (fun a b => ((a - b) / (if b = 0 then 1 else b)) * ((a - b) / (if b = 0 then 1 else b))) xn xg)

structure CompOut where
  x : List Rat          -- the factors applied
  xPrev : List Rat      -- the guess of the last iteration
  shifted : Bool        -- the last solution was shifted
  iterations : Nat
  vin : List Vec        -- new variable inlets
  deriving Repr, DecidableEq

def CompIn.loop (m : CompIn) : Nat → List Rat → Nat → Except Err (List Rat × List Rat × Bool × Nat)
  | 0, _, _ => .error .noConv
  | fuel + 1, xg, it =>
    match m.step xg with
    | none => .error .singular
    | some (xn, sh) =>
      if relChange2 xn xg > m.tol then m.loop fuel xn (it + 1) else .ok (xn, xg, sh, it + 1)

/-- some iteration of the loop (within the cap) shifts its solution.  A shift leaves an entry that is exactly 0;
from there a factor can decay geometrically: in binary64 it reaches exactly 0.0 and the loop stops, in exact
arithmetic it never does.  The float and the exact iteration are then legitimately different (driver: such lines are
tagged `path=shift-history` and not compared; the oracle on the real streams still applies). -/
def CompIn.anyShift (m : CompIn) : Nat → List Rat → Bool
  | 0, _ => false
  | fuel + 1, xg =>
    match m.step xg with
    | none => false
    | some (xn, sh) => sh || (if relChange2 xn xg > m.tol then m.anyShift fuel xn else false)

def compositionBalance (m : CompIn) : Except Err CompOut :=
  if m.vin.length ≠ m.idx.length then .error .shape
  else match m.loop m.fuel (List.replicate m.idx.length 1) 0 with
    | .error e => .error e
    | .ok (x, xp, sh, it) => .ok { x := x, xPrev := xp, shifted := sh, iterations := it, vin := scaleInlets m.n x m.vin }

/-! ### aliasing: the feed object is one of the outlets

`partition(feed, top, bottom, …)` keeps a live reference `feed_mol = feed.mol` and writes the outlets in place.
* `top is feed`: `top.imol[bottom_chemicals] = 0` erases those flows from the feed before the final
  `top.mol[:] = feed_mol - bottom.mol`, so the forced-bottom chemicals come out as `−feed` at the top
  (with no forced-bottom chemical the call works).
* `bottom is feed`: emptying / writing the bottom destroys the feed; `feed_mol − bottom.mol` is then `0` everywhere:
  the top comes out empty and the bottom holds only what was written.
Mirrored as found (fixes_proposed/C20-6.md).  `mix_and_split` is alias-safe (the mixed flow is computed before
any outlet is written), so its model needs no aliasing argument. -/

inductive Alias where
  | none | top | bottom
  deriving Repr, DecidableEq

/-- `partition` (repaired as in C20-1) with the feed object aliased to an outlet -/
def partitionAliased (p : PartIn) (al : Alias) : Except Err PartOut :=
  match al with
  | .none => partition p
  | .top =>
    -- the feed seen by the last line has lost its forced-bottom chemicals
    match partition p with
    | .error e => .error e
    | .ok o => .ok { o with top := tab p.n (fun i => (if i ∈ p.botc then 0 else p.feed.at i) - o.bottom.at i) }
  | .bottom =>
    -- the feed is emptied together with the bottom before the forced flows are read; the equilibrium flows `mol`
    -- were copied before.  Forced chemicals read 0; the last line computes `bottom − bottom = 0`.
    match partition { p with feed := tab p.n (fun i => if i ∈ p.ids then p.feed.at i else 0) } with
    | .error e => .error e
    | .ok o => .ok { o with top := tab p.n (fun _ => 0) }

end ThermoVerif.Separations
