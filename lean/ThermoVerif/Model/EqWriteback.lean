/-
C03 — executable model of the *write-back layer* of thermosteam's phase-equilibrium code.

Mirrors (as the code is):
  thermosteam/equilibrium/vle.py   VLE._setup, _solve_v (clip), set_flows, the all-vapour / all-liquid
                                   shortcuts, the single-component setters, _lever_rule, the H/S correction
                                   steps of set_PH / set_PS
  thermosteam/equilibrium/lle.py   LLE.get_liquid_mol_data, the write-back of LLE.__call__ (solver path,
                                   cached-K path, top-chemical swap, renormalisation by F_mol)
  thermosteam/equilibrium/binary_phase_fraction.py   as_valid_fraction (the final clip of phase_fraction)
  thermosteam/equilibrium/sle.py   SLE._update_solubility and the pure-solute setters
  thermosteam/_stream.py           Stream.vlle: pool / normalise / (lle, vle, swap, vle, swap)* / merge / rescale

Whatever a numerical solver returns (vapour flows, bubble/dew compositions, LLE optimiser output, phase
fraction, solubility, the correction fraction f) is a *parameter* of these steps.

Everything is written once over an arbitrary scalar type with `0 1 + - * /` and a decidable `<`;
the driver instantiates it with `Float`, the theorems (Props/C03.lean) with any linearly ordered field.
Vectors live in "chemical space": a list of length `n`, entry `i` belonging to chemical `i`; a vector the
code keeps in equilibrium-index space (`x[index]`) is represented by its chemical-space expansion and only
read at the members of the index.  Core Lean only (this file is compiled into the driver).
-/
namespace ThermoVerif.EqWriteback

inductive Err where
  | infeasible    -- thermosteam.exceptions.InfeasibleRegion (lever rule)
  | noSolve       -- set_flows from `self._v` before any `_solve_v`
  | branch        -- the recorded branch is not the one the model takes
  | noSolute      -- SLE._setup: `RuntimeError('no solute available')`
  | notIndexed    -- SLE._setup: `self._index.index(solute_index)` raises ValueError
  deriving Repr, DecidableEq

section
variable {α : Type} [Zero α] [One α] [Add α] [Sub α] [Mul α] [Div α] [LT α] [DecidableLT α]

/-- `a[i]` -/
def get (a : List α) (i : Nat) : α := a.getD i 0

/-- the vector `[f 0, …, f (n-1)]` -/
def tab (n : Nat) (f : Nat → α) : List α := (List.range n).map f

/-- Python truthiness of a float (`if x:`) -/
def isNZ (x : α) : Bool := decide (0 < x) || decide (x < 0)

/-- `x[idx].sum()` for a chemical-space function (left to right from 0, the order in which NumPy adds
fewer than eight numbers: branch decisions such as `if Ml:` depend on the last bit) -/
def sumOver (idx : List Nat) (f : Nat → α) : α := (idx.map f).foldl (· + ·) 0

/-- The chemical classification of a compiled `Chemicals` object (`_light_indices`, `_heavy_indices`,
`_vle_index`, `_lle_index`, `_heavy_solutes`, `MW`). -/
structure Cls (α : Type) where
  n : Nat
  light : List Nat
  heavy : List Nat
  vle : List Nat
  lle : List Nat
  hs : List α          -- `_heavy_solutes`, aligned with `heavy`
  mw : List α

/-- The phase × chemical flow array, one row per phase. -/
structure Rows (α : Type) where
  g : List α
  l : List α
  L : List α
  s : List α

/-! ### VLE -/

/-- What `VLE._setup` leaves on the VLE object. -/
structure VReg (α : Type) where
  mol : List α            -- `liquid_mol + vapor_mol` at `_setup` (`_mol_vle` is its restriction to `idx`)
  idx : List Nat          -- `_index`
  fmol : α                -- `_F_mol`
  v : Option (List α)     -- `_v`, the last result of `_solve_v`

/-- `chemicals.get_vle_indices(nonzero)` -/
def vleIndex (c : Cls α) (mol : List α) : List Nat := c.vle.filter fun i => isNZ (get mol i)

/-- `VLE._setup`: pool l+g; light non-condensables → g, heavy non-volatiles → l.  (Written in the
order of the four slice assignments of the code, so that an index listed as both light and heavy
behaves as it does there.) -/
def vleSetup (c : Cls α) (r : Rows α) : Rows α × VReg α :=
  let mol := tab c.n fun i => get r.l i + get r.g i
  if (List.range c.n).any (fun i => isNZ (get mol i)) then
    let idx := vleIndex c mol
    let g := tab c.n fun i => if i ∈ c.light then get mol i else if i ∈ c.heavy then 0 else get r.g i
    let l := tab c.n fun i => if i ∈ c.heavy then get mol i else if i ∈ c.light then 0 else get r.l i
    let fheavy := ((c.heavy.zip c.hs).map fun p => get mol p.1 * p.2).foldl (· + ·) 0
    let fmol := sumOver idx (get mol) + sumOver c.light (get mol) + fheavy
    ({ r with g := g, l := l }, { mol := mol, idx := idx, fmol := fmol, v := none })
  else  -- `raise NoEquilibrium` before anything is written
    (r, { mol := mol, idx := [], fmol := 0, v := none })

/-- `mol.nonzero_keys()` as a sorted list (Python compares the sets) -/
def nzKeys (c : Cls α) (mol : List α) : List Nat := (List.range c.n).filter fun i => isNZ (get mol i)

/-- What a VLE object keeps between calls and `_setup` consults: `_nonzero` and `_index`. -/
structure VCache where
  nz : List Nat
  idx : List Nat
  deriving DecidableEq, Repr

/-- the body of `_setup` once the index is decided -/
def vleSetupWith (c : Cls α) (r : Rows α) (idx : List Nat) : Rows α × VReg α :=
  let mol := tab c.n fun i => get r.l i + get r.g i
  let g := tab c.n fun i => if i ∈ c.light then get mol i else if i ∈ c.heavy then 0 else get r.g i
  let l := tab c.n fun i => if i ∈ c.heavy then get mol i else if i ∈ c.light then 0 else get r.l i
  let fheavy := ((c.heavy.zip c.hs).map fun p => get mol p.1 * p.2).foldl (· + ·) 0
  let fmol := sumOver idx (get mol) + sumOver c.light (get mol) + fheavy
  ({ r with g := g, l := l }, { mol := mol, idx := idx, fmol := fmol, v := none })

/-- `VLE._setup` on a VLE object with history: `if self._nonzero == nonzero: index = self._index` (reuse),
otherwise the index is recomputed and both are stored.  Returns the new cache and whether it was reused.
The early `NoEquilibrium` (no l+g material) leaves the cache alone. -/
def vleSetupC (c : Cls α) (cache : Option VCache) (r : Rows α) : (Rows α × VReg α) × Option VCache × Bool :=
  let mol := tab c.n fun i => get r.l i + get r.g i
  if (List.range c.n).any (fun i => isNZ (get mol i)) then
    let nz := nzKeys c mol
    let fresh := (vleSetupWith c r (vleIndex c mol), some { nz := nz, idx := vleIndex c mol }, false)
    match cache with
    | some k => if k.nz = nz then (vleSetupWith c r k.idx, cache, true) else fresh
    | none => fresh
  else ((r, { mol := mol, idx := [], fmol := 0, v := none }), cache, false)

/-- `vapor_mol[index] = gv ; liquid_mol[index] = lv` -/
def writeGL (c : Cls α) (reg : VReg α) (r : Rows α) (gv lv : Nat → α) : Rows α :=
  { r with g := tab c.n fun i => if i ∈ reg.idx then gv i else get r.g i,
           l := tab c.n fun i => if i ∈ reg.idx then lv i else get r.l i }

/-- the clip at the end of `_solve_v`: `v[v > mol] = mol ; v[v < 0] = 0` -/
def clipV (mol v : α) : α :=
  let v := if mol < v then mol else v
  if v < 0 then 0 else v

/-- `set_flows(vapor_mol, liquid_mol, index, v, mol_vle)` -/
def setFlows (c : Cls α) (reg : VReg α) (r : Rows α) (v : List α) : Rows α :=
  writeGL c reg r (get v) (fun i => get reg.mol i - get v i)

/-- the clipped fraction of the H/S correction step; `none` when nothing is moved -/
def corrFrac (f : α) : Option α :=
  if f < 0 then none else if 0 < f then some (if 1 < f then 1 else f) else none

/-- lever-rule vapour flows `F_mol * split_frac * y` (after the range check and the clip of `split_frac`) -/
def leverSplit [OfScientific α] (reg : VReg α) (x0 : α) (y : List α) : Except Err α :=
  let i0 := reg.idx.headD 0
  let z0 := get reg.mol i0 / reg.fmol
  let s := (z0 - x0) / (get y i0 - x0)
  if (0 - (0.00001 : α)) < s ∧ s < (1.00001 : α) then
    .ok (if 1 < s then 1 else if s < 0 then 0 else s)
  else .error .infeasible

/-- lever-rule vapour flow of chemical `i`: `F_mol * split_frac * y`, limited to what is there
(`v[v > mol] = mol`, the idiom of `set_TV` / `set_PV`).

NOTE: the limit is the behaviour *after* the repair proposed in `fixes_proposed/C03-1.md`; the code as
found writes `F_mol * split_frac * y` unlimited, which leaves a negative liquid flow whenever
`split_frac` was clipped from `(1, 1.00001)` to `1` (see `Props.C03.lever_unlimited_counterexample`). -/
def leverV (reg : VReg α) (s : α) (y : List α) (i : Nat) : α :=
  let v := reg.fmol * s * get y i
  if get reg.mol i < v then get reg.mol i else v

/-- bubble-limited branch of `set_TV` / `set_PV` (`V_bubble > V`):
`v = y_bubble * (F_mol * V) ; v[v > mol] = mol[v > mol]` -/
def bubbleV (reg : VReg α) (V : α) (y : List α) (i : Nat) : α :=
  let v := get y i * (reg.fmol * V)
  if get reg.mol i < v then get reg.mol i else v

/-- dew-limited branch (`V_dew < V`): `l = x_dew * F_mol * (1 - V) ; l[l > mol] = mol[l > mol]`; the vapour is `mol - l` -/
def dewL (reg : VReg α) (V : α) (x : List α) (i : Nat) : α :=
  let l := get x i * reg.fmol * (1 - V)
  if get reg.mol i < l then get reg.mol i else l

/-- One write-back step of a VLE call, with the solver output as parameter. -/
inductive VEv (α : Type) where
  | solve (raw : List α)        -- `_solve_v`: raw result of `_solve_v_fixed_point`, then the clip
  | solveRaw (v : List α)       -- `_solve_v` with `method = 'shgo'`: the optimiser's result is stored as it is (no clip)
  | setFlowsReg                 -- `set_flows(..., self._v, mol_vle)`
  | setFlowsLit (v : List α)    -- `set_flows(..., v, mol)` with a `v` that did not come out of the clip
  | allVap                      -- `vapor_mol[index] = mol_vle ; liquid_mol[index] = 0`
  | allLiq                      -- `vapor_mol[index] = 0 ; liquid_mol[index] = mol_vle`
  | frac (V : α)                -- single component: `vapor = V*mol ; liquid = mol - vapor`
  | lever (x0 : α) (y : List α) -- `_lever_rule(x, y)`
  | bubbleLimited (V : α) (y : List α)   -- `set_TV`/`set_PV`, `V_bubble > V`: capped `y_bubble*F_mol*V`, then `set_flows`
  | dewLimited (V : α) (x : List α)      -- `set_TV`/`set_PV`, `V_dew < V`: capped `x_dew*F_mol*(1-V)`, `v = mol - l`, then `set_flows`
  | condense (f : α)            -- correction step: move `f` of the vapour to the liquid
  | vaporise (f : α)            -- correction step: move `f` of the liquid to the vapour

def vleStep [OfScientific α] (c : Cls α) (st : Rows α × VReg α) : VEv α → Except Err (Rows α × VReg α)
  | .solve raw =>
    .ok (st.1, { st.2 with v := some (tab c.n fun i => clipV (get st.2.mol i) (get raw i)) })
  | .solveRaw v => .ok (st.1, { st.2 with v := some v })
  | .setFlowsReg =>
    match st.2.v with
    | none => .error .noSolve
    | some v => .ok (setFlows c st.2 st.1 v, st.2)
  | .setFlowsLit v => .ok (setFlows c st.2 st.1 v, st.2)
  | .allVap => .ok (writeGL c st.2 st.1 (get st.2.mol) (fun _ => 0), st.2)
  | .allLiq => .ok (writeGL c st.2 st.1 (fun _ => 0) (get st.2.mol), st.2)
  | .frac V =>
    .ok (writeGL c st.2 st.1 (fun i => V * get st.2.mol i) (fun i => get st.2.mol i - V * get st.2.mol i), st.2)
  | .lever x0 y =>
    match leverSplit st.2 x0 y with
    | .error e => .error e
    | .ok s =>
      .ok (writeGL c st.2 st.1 (leverV st.2 s y) (fun i => get st.2.mol i - leverV st.2 s y i), st.2)
  | .bubbleLimited V y =>
    .ok (writeGL c st.2 st.1 (bubbleV st.2 V y) (fun i => get st.2.mol i - bubbleV st.2 V y i), st.2)
  | .dewLimited V x =>
    .ok (writeGL c st.2 st.1 (fun i => get st.2.mol i - dewL st.2 V x i)
          (fun i => get st.2.mol i - (get st.2.mol i - dewL st.2 V x i)), st.2)
  | .condense f =>
    match corrFrac f with
    | none => .ok st
    | some f =>
      .ok (writeGL c st.2 st.1 (fun i => get st.1.g i - f * get st.1.g i)
            (fun i => get st.1.l i + f * get st.1.g i), st.2)
  | .vaporise f =>
    match corrFrac f with
    | none => .ok st
    | some f =>
      .ok (writeGL c st.2 st.1 (fun i => get st.1.g i + f * get st.1.l i)
            (fun i => get st.1.l i - f * get st.1.l i), st.2)

/-- A whole VLE call (any specification pair): `_setup`, then the write-back steps it performed. -/
def vleCall [OfScientific α] (c : Cls α) (r : Rows α) (evs : List (VEv α)) : Except Err (Rows α × VReg α) :=
  evs.foldlM (vleStep c) (vleSetup c r)

/-- a VLE call through an object with history -/
def vleCallC [OfScientific α] (c : Cls α) (cache : Option VCache) (r : Rows α) (evs : List (VEv α)) :
    Except Err (Rows α × VReg α) × Option VCache :=
  (evs.foldlM (vleStep c) (vleSetupC c cache r).1, (vleSetupC c cache r).2.1)

/-- A history on one stream / one VLE object: before every call the stream holds arbitrary flows (whatever
the previous call left, edited in any way), then the call performs its write-back steps. -/
def vleHistory [OfScientific α] (c : Cls α) : Option VCache → List (Rows α × List (VEv α)) →
    List (Except Err (Rows α × VReg α))
  | _, [] => []
  | cache, (r, evs) :: rest => (vleCallC c cache r evs).1 :: vleHistory c (vleCallC c cache r evs).2 rest

/-- What a *reactive* flash (`vle(..., gas_conversion=/liquid_conversion=)`, outside the property: it changes
per-chemical totals by design) leaves in the VLE object as far as later ordinary calls can see: `_setup` stored
`_nonzero` = present chemicals ∪ the reaction's stoichiometry keys and the index of that set.  The reaction
delta `_dmol_vle` / `_dF_mol` also stays on the object; ordinary calls must not read it. -/
def vleAfterReactive (c : Cls α) (nz : List Nat) : Option VCache :=
  some { nz := nz, idx := c.vle.filter fun i => decide (i ∈ nz) }

/-- One call of a history that may contain reactive flashes. -/
inductive HCall (α : Type) where
  | plain (r : Rows α) (evs : List (VEv α))            -- an ordinary call (inside the property)
  | reactive (nz : List Nat) (dmol : List α) (dF : α)  -- a reactive flash: its key set and the leftovers `_dmol_vle`, `_dF_mol`

/-- History on one VLE object with reactive flashes in between; `none` marks the (excluded) reactive calls. -/
def vleHistoryR [OfScientific α] (c : Cls α) : Option VCache → List (HCall α) →
    List (Option (Except Err (Rows α × VReg α)))
  | _, [] => []
  | cache, .plain r evs :: rest => some (vleCallC c cache r evs).1 :: vleHistoryR c (vleCallC c cache r evs).2 rest
  | _, .reactive nz _ _ :: rest => none :: vleHistoryR c (vleAfterReactive c nz) rest

/-! ### LLE -/

/-- `chemicals.get_lle_indices(mol.nonzero_keys())` -/
def lleIndex (c : Cls α) (mol : List α) : List Nat := c.lle.filter fun i => isNZ (get mol i)

/-- `LLE.get_liquid_mol_data`: `imol['L'] = imol['l'] + imol['L'] ; imol['l'] = 0` -/
def llePool (c : Cls α) (r : Rows α) : Rows α :=
  { r with L := tab c.n (fun i => get r.l i + get r.L i), l := tab c.n (fun _ => 0) }

/-- `binary_phase_fraction.as_valid_fraction` -/
def asValidFraction (x : α) : α := if x < 0 then 0 else if 1 < x then 1 else x

/-- Where the two liquid compositions of `LLE.__call__` come from. -/
inductive LlePath (α : Type) where
  | solve (molL : List α)          -- `solve_lle_liquid_mol` (pseudo-equilibrium / shgo / differential evolution)
  | cache (phi : α) (K : List α)   -- cached partition coefficients and the value `phase_fraction(z, K, phi)` returned
  | cacheRaw (raw : α) (K : List α) -- the same with the RAW Rachford–Rice root: `phase_fraction` ends in `as_valid_fraction`

/-- the remembered-coefficients branch: `phi >= 1` puts everything in `l`, otherwise `y = z*K/(phi*K + 1 - phi)`,
`mol_l = y*phi`, `mol_L = mol - mol_l` -/
def lleSplitCache (z : Nat → α) (phi : α) (K : List α) : (Nat → α) × (Nat → α) :=
  if phi < 1 then
    let ml := fun i => z i * get K i / (phi * get K i + (1 - phi)) * phi
    (ml, fun i => z i - ml i)
  else (z, fun i => 0 * z i)

/-- `(mol_l, mol_L)` on the normalised composition `z`, before the top-chemical swap -/
def lleSplit (z : Nat → α) : LlePath α → (Nat → α) × (Nat → α)
  | .solve molL => (fun i => z i - get molL i, get molL)
  | .cache phi K => lleSplitCache z phi K
  | .cacheRaw raw K => lleSplitCache z (asValidFraction raw) K

/-- the top-chemical rule: swap the phases when the favoured chemical is leaner in `L` -/
def lleSwap (c : Cls α) (idx : List Nat) (top : Option Nat) (ml mL : Nat → α) : Bool :=
  match top with
  | none => false
  | some t =>
    let ML := sumOver idx fun i => mL i * get c.mw i
    let Ml := sumOver idx fun i => ml i * get c.mw i
    if isNZ ML && isNZ Ml then decide (mL t * get c.mw t / ML < ml t * get c.mw t / Ml)
    else isNZ Ml

/-- `(mol_l, mol_L)` after the top-chemical rule -/
def llePhases (c : Cls α) (idx : List Nat) (top : Option Nat) (z : Nat → α) (p : LlePath α) :
    (Nat → α) × (Nat → α) :=
  let sp := lleSplit z p
  if lleSwap c idx top sp.1 sp.2 then (sp.2, sp.1) else sp

/-- The write-back of `LLE.__call__(T, P, top_chemical)` after pooling; `p = none` when the code takes
neither branch (no flow, or fewer than two LLE chemicals). -/
def lleWrite (c : Cls α) (r : Rows α) (p : Option (LlePath α)) (top : Option Nat) : Except Err (Rows α) :=
  let mol := r.L
  let idx := lleIndex c mol
  let F := sumOver idx (get mol)
  if isNZ F && decide (1 < idx.length) then
    match p with
    | none => .error .branch
    | some p =>
      let ph := llePhases c idx top (fun i => get mol i / F) p
      .ok { r with l := tab c.n fun i => if i ∈ idx then ph.1 i * F else get r.l i,
                   L := tab c.n fun i => if i ∈ idx then ph.2 i * F else get r.L i }
  else
    match p with
    | none => .ok r
    | some _ => .error .branch

def lleCall (c : Cls α) (r : Rows α) (p : Option (LlePath α)) (top : Option Nat) : Except Err (Rows α) :=
  lleWrite c (llePool c r) p top

/-! ### SLE -/

/-- What an SLE object keeps between calls: `_nonzero`, `_index`, and whether `_chemical` is set (pure-solute mode;
set by a single-chemical `_setup`, cleared again by a multi-chemical one since 899e590). -/
structure SCache where
  nz : Option (List Nat) := none
  idx : List Nat := []
  pure : Bool := false
  deriving DecidableEq, Repr

/-- `SLE._setup` for solute `j` on an object with history (as of 899e590 + 6d30f81 + f93a1e5).
* same key set as stored: the index is re-used; a one-element index means pure-solute mode for the current solute (no
  membership check, f93a1e5), otherwise `self._index.index(solute_index)` is checked (ValueError for a non-member);
* otherwise the index is rebuilt and stored together with the key set: one LLE chemical → pure-solute mode (no
  membership check), several → pure-solute mode is left and the membership check runs AFTER the store, so the
  cache is updated even when the call raises. -/
def sleSetupC (c : Cls α) (cache : SCache) (r : Rows α) (j : Nat) : SCache × Except Err Unit :=
  let mol := tab c.n fun i => get r.l i + get r.s i
  if isNZ (get mol j) then
    let nz := nzKeys c mol
    if cache.nz = some nz then
      -- (f93a1e5) the re-use path does what the rebuild path does: a one-element index means pure-solute mode for the
      -- current solute (no membership check); otherwise `self._index.index(solute_index)` is checked
      if cache.idx.length = 1 then ({ cache with pure := true }, .ok ())
      else if j ∈ cache.idx then (cache, .ok ()) else (cache, .error .notIndexed)
    else
      let idx := lleIndex c mol
      if idx.length = 1 then ({ nz := some nz, idx := idx, pure := true }, .ok ())
      else
        let cache' : SCache := { nz := some nz, idx := idx, pure := false }
        if j ∈ idx then (cache', .ok ()) else (cache', .error .notIndexed)
  else (cache, .error .noSolute)

/-- `SLE._update_solubility(x)` for solute `j`; `idx = none` stands for `slice(None)`. -/
def sleUpdate (c : Cls α) (r : Rows α) (j : Nat) (idx : Option (List Nat)) (x : α) : Rows α :=
  let m := get r.l j + get r.s j                -- `_mol_solute`
  let idx := idx.getD (List.range c.n)
  let Fliq := sumOver idx (get r.l) - get r.l j
  let xmax := m / (Fliq + m)
  let put := fun (lj sj : α) =>
    { r with l := tab c.n fun i => if i = j then lj else get r.l i,
             s := tab c.n fun i => if i = j then sj else get r.s i }
  if x < 0 then put 0 m
  else if x < xmax then
    let ml := Fliq * x / (1 - x)
    put ml (m - ml)
  else put m 0

/-- the pure-solute setters: everything liquid / everything solid / liquid fraction `Lf` -/
def sleFrac (c : Cls α) (r : Rows α) (j : Nat) (Lf : α) : Rows α :=
  let m := get r.l j + get r.s j
  { r with l := tab c.n fun i => if i = j then Lf * m else get r.l i,
           s := tab c.n fun i => if i = j then m - Lf * m else get r.s i }

def sleAllLiq (c : Cls α) (r : Rows α) (j : Nat) : Rows α :=
  let m := get r.l j + get r.s j
  { r with l := tab c.n fun i => if i = j then m else get r.l i,
           s := tab c.n fun i => if i = j then 0 else get r.s i }

def sleAllSol (c : Cls α) (r : Rows α) (j : Nat) : Rows α :=
  let m := get r.l j + get r.s j
  { r with l := tab c.n fun i => if i = j then 0 else get r.l i,
           s := tab c.n fun i => if i = j then m else get r.s i }

/-! ### Stream.vlle skeleton (rows L, g, l) -/

/-- `liq += LIQ ; LIQ[:] = 0` -/
def vllePool (c : Cls α) (r : Rows α) : Rows α :=
  { r with l := tab c.n (fun i => get r.l i + get r.L i), L := tab c.n (fun _ => 0) }

/-- `liq[:], LIQ[:] = LIQ, liq.copy()` -/
def vlleSwap (r : Rows α) : Rows α := { r with l := r.L, L := r.l }

/-- `data.sum()` over the three rows -/
def vlleTotal (c : Cls α) (r : Rows α) : α :=
  sumOver (List.range c.n) (get r.L) + sumOver (List.range c.n) (get r.g) + sumOver (List.range c.n) (get r.l)

def scaleRows (c : Cls α) (r : Rows α) (k : Nat → α → α) : Rows α :=
  { r with g := tab c.n (fun i => k i (get r.g i)), l := tab c.n (fun i => k i (get r.l i)),
           L := tab c.n (fun i => k i (get r.L i)) }

/-- `data[:] = data / total_flow` (first iterate of the fixed point) -/
def vlleNormalise (c : Cls α) (r : Rows α) (total : α) : Rows α := scaleRows c r fun _ x => x / total

def absV (x : α) : α := if x < 0 then 0 - x else x

/-- `if np.abs(liq - LIQ).sum() < 1e-6: liq += LIQ ; LIQ.clear()`  then  `data *= total_flow` -/
def vlleFinish [OfScientific α] (c : Cls α) (r : Rows α) (total : α) : Rows α :=
  let d := sumOver (List.range c.n) fun i => absV (get r.l i - get r.L i)
  let r := if d < (0.000001 : α) then vllePool c r else r
  scaleRows c r fun _ x => x * total

/-- One step of `Stream.vlle(T, P)`. -/
inductive VlleEv (α : Type) where
  | pool                                   -- `liq += LIQ ; LIQ[:] = 0`
  | swap                                   -- `liq[:], LIQ[:] = LIQ, liq.copy()`
  | normalise                              -- first `data[:] = x` with `x = data / total_flow`
  | assign (x : Rows α)                    -- later `data[:] = x` (the fixed-point iterate)
  | finish                                 -- merge-if-equal, then `data *= total_flow`
  | vle (evs : List (VEv α))               -- `vle(T=T, P=P)`
  | lle (p : Option (LlePath α)) (top : Option Nat)   -- `lle(T, P)`

structure VlleSt (α : Type) where
  rows : Rows α
  total : Option α       -- `total_flow` while the data is normalised

def vlleStep [OfScientific α] (c : Cls α) (st : VlleSt α) : VlleEv α → Except Err (VlleSt α)
  | .pool => .ok { st with rows := vllePool c st.rows }
  | .swap => .ok { st with rows := vlleSwap st.rows }
  | .normalise =>
    match st.total with
    | some _ => .error .branch
    | none =>
      let t := vlleTotal c st.rows
      if isNZ t then .ok { rows := vlleNormalise c st.rows t, total := some t } else .error .branch
  | .assign x => .ok { st with rows := { x with s := st.rows.s } }
  | .finish =>
    match st.total with
    | none => .error .branch
    | some t => .ok { rows := vlleFinish c st.rows t, total := none }
  | .vle evs =>
    match vleCall c st.rows evs with
    | .ok (r, _) => .ok { st with rows := r }
    | .error e => .error e
  | .lle p top =>
    match lleCall c st.rows p top with
    | .ok r => .ok { st with rows := r }
    | .error e => .error e

def vlleRun [OfScientific α] (c : Cls α) (r : Rows α) (evs : List (VlleEv α)) : Except Err (VlleSt α) :=
  evs.foldlM (vlleStep c) { rows := r, total := none }

end
end ThermoVerif.EqWriteback
