/-
Model of the name → position table of `thermosteam/_chemicals.py`
(`CompiledChemicals._compile`, `set_alias`, `define_group`, `index`, `indices`).
Core Lean only (no Mathlib): compiled into the line-protocol driver.

`_index` is an insertion-ordered association list from names (IDs, CAS numbers,
aliases, group names) to either one position or a list of positions (a group).
`__dict__` (which `set_alias` consults for collisions) holds the same names plus a
fixed set of attribute names, modelled by the `reserved` lists.
-/
namespace ThermoVerif.Chemicals

inductive Err where
  | undefinedAlias | undefinedPhase | typeError | indexError | valueError | keyError | runtimeError
  deriving Repr, DecidableEq, Inhabited

def Err.toString : Err → String
  | .undefinedAlias => "UndefinedChemicalAlias"
  | .undefinedPhase => "UndefinedPhase"
  | .typeError => "TypeError"
  | .indexError => "IndexError"
  | .valueError => "ValueError"
  | .keyError => "KeyError"
  | .runtimeError => "RuntimeError"

/-! ### Association lists (Python dicts with insertion order) -/

def alookup {κ β : Type} [DecidableEq κ] (k : κ) : List (κ × β) → Option β
  | [] => none
  | (k', v) :: t => if k' = k then some v else alookup k t

/-- `d[k] = v`: an existing key keeps its place, a new key goes to the end. -/
def ainsert {κ β : Type} [DecidableEq κ] (k : κ) (v : β) : List (κ × β) → List (κ × β)
  | [] => [(k, v)]
  | (k', v') :: t => if k' = k then (k, v) :: t else (k', v') :: ainsert k v t

/-- Value of `_index[name]`: the position of a chemical, or the positions of a group. -/
inductive Ent where
  | pos (i : Nat)
  | grp (is : List Nat)
  deriving Repr, DecidableEq, Inhabited

def Ent.isGrp : Ent → Bool
  | .grp _ => true
  | .pos _ => false

/-- All positions an entry refers to. -/
def Ent.positions : Ent → List Nat
  | .pos i => [i]
  | .grp is => is

structure Chem where
  /-- number of chemicals -/
  size : Nat
  /-- `_index` -/
  index : List (String × Ent)
  /-- `_group_mol_compositions` (normalised) -/
  comps : List (String × List Rat)
  /-- `_group_wt_compositions` (normalised) -/
  wcomps : List (String × List Rat) := []
  /-- `MW` by position -/
  mw : List Rat := []
  deriving Repr, Inhabited, DecidableEq

/-- Attribute names that are in `__dict__` while `_compile` sets the aliases. -/
def reservedEarly : List String :=
  ["tuple", "size", "IDs", "CASs", "MW", "Hf", "LHV", "HHV", "_index",
   "_group_wt_compositions", "_group_mol_compositions", "_index_cache"]

/-- Attribute names in `__dict__` of a compiled object. -/
def reservedAll : List String :=
  reservedEarly ++ ["vle_chemicals", "lle_chemicals", "heavy_chemicals", "light_chemicals",
    "_vle_index", "_lle_index", "_heavy_solutes", "_heavy_indices", "_light_indices"]

/-- `chemicals.index(ID)`. -/
def Chem.lookup (c : Chem) (name : String) : Except Err Ent :=
  match alookup name c.index with
  | some e => .ok e
  | none => .error .undefinedAlias

/-- `chemicals.indices(IDs)` (stops at the first undefined name). -/
def Chem.indices (c : Chem) : List String → Except Err (List Ent)
  | [] => .ok []
  | n :: t => do
    let e ← c.lookup n
    let es ← c.indices t
    pure (e :: es)

/-- `set_alias(ID, alias)`.  `res` = the attribute names present in `__dict__`.
An alias is accepted when it is new, or already names the same chemical; it is
rejected (`ValueError`) when it names another chemical, a group or an attribute.
`ID` naming an attribute fails on `self._index[ID]` (`KeyError`); `ID` naming a group
fails on `chemical.aliases` (`AttributeError`, reported as `typeError`) — after the new name
has been entered: see `setAliasFail`. -/
def Chem.setAlias (c : Chem) (res : List String) (id alias : String) : Except Err Chem :=
  match alookup id c.index with
  | none =>
    if id ∈ res then
      if alias = id then .error .keyError
      else if alias ∈ res ∨ (alookup alias c.index).isSome then .error .valueError
      else .error .keyError
    else .error .keyError
  | some (.grp _) =>
    if alias = id then .error .typeError
    else if alias ∈ res ∨ (alookup alias c.index).isSome then .error .valueError
    else .error .typeError
  | some (.pos i) =>
    if alias ∈ res then .error .valueError else
    match alookup alias c.index with
    | none => .ok { c with index := c.index ++ [(alias, .pos i)] }
    | some (.pos j) => if j = i then .ok c else .error .valueError
    | some (.grp _) => .error .valueError

/-- The tables after a *failed* `set_alias`: with a group name for `ID` and a new `alias`, the
alias has already been entered as a second name of the group (without a composition) when
`chemical.aliases` raises.  Every other failure happens before any change. -/
def Chem.setAliasFail (c : Chem) (res : List String) (id alias : String) : Chem :=
  match alookup id c.index with
  | some (.grp is) =>
    if alias = id ∨ alias ∈ res ∨ (alookup alias c.index).isSome then c
    else { c with index := c.index ++ [(alias, .grp is)] }
  | _ => c

def sumRat : List Rat → Rat
  | [] => 0
  | x :: t => x + sumRat t

def entsToPos : List Ent → Except Err (List Nat)
  | [] => .ok []
  | .pos i :: t => do let r ← entsToPos t; pure (i :: r)
  | .grp _ :: _ => .error .typeError

def mulList : List Rat → List Rat → List Rat
  | x :: xs, y :: ys => x * y :: mulList xs ys
  | _, _ => []

def divList : List Rat → List Rat → List Rat
  | x :: xs, y :: ys => x / y :: divList xs ys
  | _, _ => []

def normalise (l : List Rat) : List Rat := l.map (· / sumRat l)

/-- `define_group(name, IDs, composition, wt)`.  Both compositions are stored normalised:
`wt=False`: mol = composition, wt = composition·MW; `wt=True`: wt = composition, mol = composition/MW.

Written to the fixed behaviour of fixes_proposed/C10-5: a name that is an attribute or a
name of a chemical (any name in use that is not a group with a composition) is rejected
(`ValueError`), as `set_alias` does; an existing group name is a redefinition. (The unfixed code silently turns the chemical's name into a group name.) -/
def Chem.defineGroup (c : Chem) (res : List String) (name : String) (ids : List String)
    (comp : Option (List Rat)) (wt : Bool := false) : Except Err Chem :=
  if name ∈ res then .error .valueError else
  match alookup name c.index, alookup name c.comps with
  | some (.pos _), _ => .error .valueError
  | some _, none => .error .valueError
  | _, _ =>
    let comp := comp.getD (ids.map fun _ => 1)
    if comp.length ≠ ids.length then .error .valueError
    else if ids.any (fun i => (alookup i c.comps).isSome) then .error .valueError
    else
      match c.indices ids with
      | .error e => .error e
      | .ok es =>
        match entsToPos es with
        | .error e => .error e
        | .ok index =>
          let mws := index.map fun i => c.mw.getD i 1
          let cmol := if wt then divList comp mws else comp
          let cwt := if wt then comp else mulList comp mws
          .ok { c with index := ainsert name (.grp index) c.index,
                       comps := ainsert name (normalise cmol) c.comps,
                       wcomps := ainsert name (normalise cwt) c.wcomps }

/-- One chemical handed to `_compile`: its ID, CAS and the set
`{*iupac_name, *aliases, common_name, formula}`. -/
structure Spec where
  id : String
  cas : String
  names : List String
  mw : Rat := 1
  deriving Repr, Inhabited

def dedup : List String → List String
  | [] => []
  | x :: t => if x ∈ t then dedup t else x :: dedup t

/-- The loop that finds names claimed by two chemicals:
returns `(names seen, names seen twice)`. -/
def scanNames : List (List String) → List String × List String → List String × List String
  | [], acc => acc
  | ns :: t, acc =>
    scanNames t (ns.foldl (fun (a : List String × List String) n =>
      if n = "" then a
      else if n ∈ a.1 then (a.1, n :: a.2) else (n :: a.1, a.2)) acc)

def repeatedNames (specs : List Spec) : List String :=
  (scanNames (specs.map fun s => dedup s.names) ([], [])).2

def aliasLoop (res : List String) : List (String × String) → Chem → Except Err Chem
  | [], c => .ok c
  | (id, a) :: t, c => do
    let c' ← c.setAlias res id a
    aliasLoop res t c'

def positionsFrom (k : Nat) : List String → List (String × Ent)
  | [] => []
  | n :: t => (n, .pos k) :: positionsFrom (k + 1) t

def insertAll : List (String × Ent) → List (String × Ent) → List (String × Ent)
  | [], d => d
  | (k, v) :: t, d => insertAll t (ainsert k v d)

/-- `_index` before the aliases: `dict((*zip(CAS, index), *zip(IDs, index)))`. -/
def baseIndex (specs : List Spec) : List (String × Ent) :=
  insertAll (positionsFrom 0 (specs.map (·.cas)) ++ positionsFrom 0 (specs.map (·.id))) []

/-- The `(ID, name)` pairs handed to `set_alias`: every non-empty name of a chemical that
is not claimed by a second chemical. -/
def aliasTodo (specs : List Spec) : List (String × String) :=
  specs.flatMap fun s =>
    ((dedup s.names).filter fun n => n ≠ "" ∧ n ∉ repeatedNames specs).map fun n => (s.id, n)

/-- `CompiledChemicals._compile`: CAS numbers and IDs first, then every name that is
not claimed by two chemicals, through `set_alias` (whose `ValueError` aborts the
construction). -/
def compile (specs : List Spec) : Except Err Chem :=
  aliasLoop reservedEarly (aliasTodo specs)
    { size := specs.length, index := baseIndex specs, comps := [], wcomps := [], mw := specs.map (·.mw) }

end ThermoVerif.Chemicals
