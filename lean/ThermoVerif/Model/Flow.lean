/-
Model of the material bookkeeping of thermosteam streams
(`Stream.mix_from / sum / split_to / separate_out / copy_flow / scale / * /`,
`MultiStream.split_to / copy_flow / phases setter`, `ChemicalIndexer.mix_from / separate_out`,
`MaterialIndexer.mix_from / separate_out / _expand_phases / to_material_indexer`,
`indexer.index_overlap`, `SparseVector.mix_from`), everything with
`energy_balance=False`.  Core Lean only (no Mathlib): it is compiled into the
line-protocol driver.

* A property package is a list of chemical ids (stand-ins for CAS numbers) in the
  package's own order.  Two packages are "the same" (`chemicals is ichemicals` in
  Python) exactly when they have the same index in the package table.
* A row is the dense image of a `SparseVector` (position `k` = chemical `pkg[k]`);
  `Row.get` reads `0` outside the stored prefix, like `dct.get(i, 0.)`.
* A stream owns its rows.  A single-phase stream (`Stream`, `ChemicalIndexer`) has one
  `(phase, row)` pair, a multi-phase stream (`MultiStream`, `MaterialIndexer`) has one
  pair per phase, sorted by phase character like `phase_tuple`.
* Python object identity between streams is equality of their indices in the world;
  every operation reads its operands from the world *before* the write it performs, which is
  what `SparseVector.mix_from`'s `repeated` accounting, `dummy = mol - values` in
  `split_to`, etc. achieve in the code.
* After a Python exception the case is over, so the state after an error is not modelled.

The model describes the code *with the patches of fixes_proposed/C01-1 … C01-8, C10-2 and C12-1
and C01-9 … C01-14 applied*.  Everything else is mirrored as found.
-/
namespace ThermoVerif.Flow

inductive Err where
  | undefinedChemical   -- `UndefinedChemicalAlias`
  | undefinedPhase      -- `UndefinedPhase`
  | rejected            -- ValueError / IndexError / TypeError / RuntimeError of an unsupported combination
  deriving Repr, DecidableEq, Inhabited

def Err.toString : Err → String
  | .undefinedChemical => "undefined-chemical"
  | .undefinedPhase => "undefined-phase"
  | .rejected => "rejected"

/-! ### rows -/

abbrev Row := List Rat

/-- `dct.get(k, 0.)` -/
def Row.get (r : Row) (k : Nat) : Rat := r.getD k 0

/-- the row of length `n` whose `k`-th entry is `f k` -/
def tab (n : Nat) (f : Nat → Rat) : Row := (List.range n).map f

def rsum : List Rat → Rat
  | [] => 0
  | x :: xs => x + rsum xs

def vzero (n : Nat) : Row := tab n (fun _ => 0)
def vadd (n : Nat) (a b : Row) : Row := tab n (fun k => a.get k + b.get k)
def vsub (n : Nat) (a b : Row) : Row := tab n (fun k => a.get k - b.get k)
def vscale (n : Nat) (q : Rat) (a : Row) : Row := tab n (fun k => a.get k * q)
def vdiv (n : Nat) (q : Rat) (a : Row) : Row := tab n (fun k => a.get k / q)

/-- sum of a list of rows -/
def vsum (n : Nat) : List Row → Row
  | [] => vzero n
  | r :: rs => vadd n r (vsum n rs)

/-- `not sv.any()` -/
def Row.isZero (r : Row) : Bool := r.all (· == 0)

/-! ### packages -/

/-- position of chemical `c` in a package (`chemicals._index[CAS]`) -/
def pos : List Nat → Nat → Option Nat
  | [], _ => none
  | a :: l, c => if a = c then some 0 else (pos l c).map (· + 1)

/-- the row of package `Q` expressed in the coordinates of package `P`
(what `data[left_index] += idata[right_index]` adds, `index_overlap` being CAS based) -/
def remap (P Q : List Nat) (r : Row) : Row :=
  tab P.length (fun j => match pos Q (P.getD j 0) with
    | some k => r.get k
    | none => 0)

/-- `index_overlap` raises `UndefinedChemicalAlias`: a nonzero key of `r` (package `Q`)
is not a chemical of `P` -/
def lacks (P Q : List Nat) (r : Row) : Bool :=
  (List.range Q.length).any (fun k => r.get k != 0 && (pos P (Q.getD k 0)).isNone)

/-! ### phases -/

/-- the other case of a phase letter (`l` ↔ `L`, `s` ↔ `S`; `g` ↔ `G`) -/
def swapc (c : Char) : Char := if c.isUpper then c.toLower else c.toUpper

abbrev PhRows := List (Char × Row)

def hasPh (l : PhRows) (p : Char) : Bool := l.any (·.1 == p)

/-- `PhaseIndexer.__call__`: the phase itself, else its other case; `none` = `UndefinedPhase` -/
def resolve (l : PhRows) (p : Char) : Option Char :=
  if hasPh l p then some p else if hasPh l (swapc p) then some (swapc p) else none

/-- insert a phase with the given row at its sorted position (`phase_tuple` sorts by character) -/
def insPh (p : Char) (r : Row) : PhRows → PhRows
  | [] => [(p, r)]
  | (q, s) :: l => if p.toNat < q.toNat then (p, r) :: (q, s) :: l else (q, s) :: insPh p r l

/-- `_expand_phases`: every phase of `ps` that is not (exactly) present gets an empty row -/
def expand (n : Nat) (l : PhRows) : List Char → PhRows
  | [] => l
  | p :: ps => let l' := expand n l ps
               if hasPh l' p then l' else insPh p (vzero n) l'

/-- add `v` to the row of the first entry with phase `p` -/
def addAt (n : Nat) (p : Char) (v : Row) : PhRows → PhRows
  | [] => []
  | (q, s) :: l => if q == p then (q, vadd n s v) :: l else (q, s) :: addAt n p v l

/-! ### streams and the world -/

structure Strm where
  /-- index of the property package in the package table -/
  pkg : Nat
  /-- `MultiStream` (a `MaterialIndexer`) or `Stream` (a `ChemicalIndexer`) -/
  multi : Bool
  /-- phase → row, sorted by phase; exactly one entry when `multi = false` -/
  ph : PhRows
  deriving Inhabited

structure World where
  pkgs : List (List Nat)
  strms : List Strm
  deriving Inhabited

def World.pkgOf (w : World) (s : Strm) : List Nat := w.pkgs.getD s.pkg []

def Strm.rows (s : Strm) : List Row := s.ph.map (·.2)

/-- `stream.isempty()` -/
def Strm.isEmpty (s : Strm) : Bool := s.ph.all (·.2.isZero)

/-- `imol.data.sum(0)` / `mol` : flows summed over the phases, in package coordinates -/
def Strm.total (n : Nat) (s : Strm) : Row := vsum n s.rows

/-- the phase of a single-phase stream -/
def Strm.phase (s : Strm) : Char := (s.ph.headD ('l', [])).1

/-- all flows of a stream set to zero (`stream.empty()`) -/
def Strm.zeroed (s : Strm) (n : Nat) : Strm := { s with ph := s.ph.map (fun pr => (pr.1, vzero n)) }

def World.setStrm (w : World) (i : Nat) (s : Strm) : World := { w with strms := w.strms.set i s }

def World.get? (w : World) (i : Nat) : Except Err Strm :=
  match w.strms[i]? with
  | some s => .ok s
  | none => .error .rejected

def getAll (w : World) : List Nat → Except Err (List Strm)
  | [] => .ok []
  | i :: is => do
    let s ← w.get? i
    let ss ← getAll w is
    .ok (s :: ss)

/-! ### mixing -/

/-- what one inlet contributes: its `(phase, row)` pairs in the receiver's coordinates.
For a single-phase receiver a multi-phase inlet of another package is summed first
(`idata.sum(0)`), which only matters for the undefined-chemical test. -/
def contribBad (w : World) (r : Strm) (x : Strm) : Bool :=
  let P := w.pkgOf r
  let Q := w.pkgOf x
  if r.multi || !x.multi then x.ph.any (fun pr => lacks P Q pr.2)
  else lacks P Q (x.total Q.length)

def contribs (w : World) (r : Strm) (x : Strm) : Except Err PhRows :=
  if x.pkg = r.pkg then .ok x.ph
  else if contribBad w r x then .error .undefinedChemical
  else .ok (x.ph.map (fun pr => (pr.1, remap (w.pkgOf r) (w.pkgOf x) pr.2)))

def contribsAll (w : World) (r : Strm) : List Strm → Except Err PhRows
  | [] => .ok []
  | x :: xs => do
    let c ← contribs w r x
    let cs ← contribsAll w r xs
    .ok (c ++ cs)

/-- `set_main_phase`: a single-phase receiver takes the common phase of its inlets when all
of them are single-phase and agree -/
def mainPhase (cur : Char) : List Strm → Char
  | [] => cur
  | x :: xs => if !x.multi && xs.all (fun y => !y.multi && y.phase == x.phase) then x.phase else cur

/-- add every contribution to the row of its (resolved) phase -/
def pour (n : Nat) (base : PhRows) : PhRows → PhRows
  | [] => base
  | (p, v) :: cs =>
    let acc := pour n base cs
    match resolve acc p with
    | some q => addAt n q v acc
    | none => acc      -- unreachable after `expand`

/-- `ChemicalIndexer.mix_from` / `MaterialIndexer.mix_from` with the given (non-empty) inlets -/
def mixIndexer (w : World) (r : Strm) (xs : List Strm) : Except Err Strm := do
  let n := (w.pkgOf r).length
  let cs ← contribsAll w r xs
  if r.multi then
    let phases := cs.map (·.1)
    let needNew := phases.any (fun p => (resolve r.ph p).isNone)
    let ph1 := if needNew then expand n r.ph phases else r.ph
    let base := ph1.map (fun pr => (pr.1, vzero n))
    .ok { r with ph := pour n base cs }
  else
    .ok { r with ph := [(mainPhase r.phase xs, vsum n (cs.map (·.2)))] }

/-- `Stream.mix_from(others, energy_balance=False)` -/
def mix (w : World) (ri : Nat) (ins : List Nat) : Except Err World := do
  let r ← w.get? ri
  let xs ← getAll w ins
  let n := (w.pkgOf r).length
  let live := xs.filter (fun x => !x.isEmpty)
  if live.isEmpty then
    .ok (w.setStrm ri (r.zeroed n))
  else do
    let r' ← mixIndexer w r live
    .ok (w.setStrm ri r')

/-- `Stream.sum(streams, thermo=pkg, energy_balance=False)`: a new liquid stream, then `mix_from` -/
def sumNew (w : World) (pkg : Nat) (ins : List Nat) : Except Err World :=
  let n := (w.pkgs.getD pkg []).length
  let w1 := { w with strms := w.strms ++ [{ pkg := pkg, multi := false, ph := [('l', vzero n)] }] }
  mix w1 w.strms.length ins

/-! ### rows that cross from one package to another -/

/-- the row `v` of package `Q` in the coordinates of package `P`; `same` = the two streams share
the package object (`chemicals is other_chemicals`), in which case nothing is remapped -/
def conv (P Q : List Nat) (same : Bool) (v : Row) : Row := if same then v else remap P Q v

/-- the CAS lookup fails: `v` carries a chemical that `P` lacks -/
def convBad (P Q : List Nat) (same : Bool) (v : Row) : Bool := !same && lacks P Q v

/-! ### `copy_like`: what `mix_from` does with exactly one non-empty inlet when the energy balance is on -/

/-- lower-case phase letters of a phase tuple joined (`PhaseIndexer._compatibility`) -/
def compat (l : PhRows) : List Char := l.map (·.1.toLower)

/-- `Stream.copy_like(x)` / `MultiStream.copy_like(x)`, material only (`r` and `x` different objects).
A single-phase receiver takes over the phase tuple of the source; a multi-phase receiver is emptied, expanded
when its phases cannot take the source's, and every source row is written to its phase (`pour` onto empty
rows: two phases of one stream never resolve to the same row, so assigning and adding coincide). -/
def copyLike (P Q : List Nat) (same : Bool) (r x : Strm) : Except Err Strm :=
  let n := P.length
  if x.ph.any (fun pr => convBad P Q same pr.2) then .error .undefinedChemical
  else
    let cs := x.ph.map (fun pr => (pr.1, tab n (conv P Q same pr.2).get))
    if !r.multi then .ok { r with multi := x.multi, ph := cs }
    else
      let keep := if x.multi then r.ph.map (·.1) == x.ph.map (·.1) || compat r.ph == compat x.ph
                  else x.ph.all (fun pr => (resolve r.ph pr.1).isSome)
      let ph1 := if keep then r.ph else expand n r.ph (x.ph.map (·.1))
      .ok { r with ph := pour n (ph1.map (fun pr => (pr.1, vzero n))) cs }

/-- stream `i` exists and is not empty -/
def World.liveAt (w : World) (i : Nat) : Bool :=
  match w.strms[i]? with
  | some x => !x.isEmpty
  | none => false

/-- `Stream.mix_from(others, energy_balance=eb)` (no `vle`, no `conserve_phases`): with the energy balance on,
exactly one non-empty inlet is copied (`copy_like`) instead of mixed; the enthalpy bookkeeping itself
(`self.H = H`) does not touch the material -/
def mixE (w : World) (ri : Nat) (ins : List Nat) (eb : Bool) : Except Err World := do
  let r ← w.get? ri
  let _ ← getAll w ins
  match ins.filter w.liveAt with
  | [xi] =>
    if !eb then mix w ri ins
    else if xi = ri then .ok w                      -- `copy_like(self)`: nothing to copy
    else do
      let x ← w.get? xi
      let r' ← copyLike (w.pkgOf r) (w.pkgOf x) (x.pkg == r.pkg) r x
      .ok (w.setStrm ri r')
  | _ => mix w ri ins

/-- `Stream.sum(streams, thermo=pkg, energy_balance=eb)` -/
def sumNewE (w : World) (pkg : Nat) (ins : List Nat) (eb : Bool) : Except Err World :=
  let n := (w.pkgs.getD pkg []).length
  let w1 := { w with strms := w.strms ++ [{ pkg := pkg, multi := false, ph := [('l', vzero n)] }] }
  mixE w1 w.strms.length ins eb

/-! ### separating -/

/-- subtract `v` from the row of the first entry with phase `p` -/
def subAt (n : Nat) (p : Char) (v : Row) : PhRows → PhRows
  | [] => []
  | (q, s) :: l => if q == p then (q, vsub n s v) :: l else (q, s) :: subAt n p v l

/-- the per-phase loop of `MaterialIndexer.separate_out` -/
def sepRows (P Q : List Nat) (same skipEmpty : Bool) (acc : PhRows) : PhRows → Except Err PhRows
  | [] => .ok acc
  | (p, v) :: rest =>
    if skipEmpty && v.isZero then sepRows P Q same skipEmpty acc rest
    else if convBad P Q same v then .error .undefinedChemical
    else match resolve acc p with
      | none => .error .undefinedPhase
      | some q => sepRows P Q same skipEmpty (subAt P.length q (conv P Q same v) acc) rest

/-- rows subtracted pairwise (equal phase tuples) -/
def subZip (n : Nat) : PhRows → List Row → PhRows
  | (p, s) :: l, v :: vs => (p, vsub n s v) :: subZip n l vs
  | l, _ => l

/-- `ChemicalIndexer.separate_out` / `MaterialIndexer.separate_out`: `y` (package `Q`) out of `x` (package `P`) -/
def sepStrm (P Q : List Nat) (same : Bool) (x y : Strm) : Except Err Strm :=
  let n := P.length
  if !x.multi then
    -- ChemicalIndexer.separate_out: `other.sum_across_phases()`
    let t := y.total Q.length
    if convBad P Q same t then .error .undefinedChemical
    else .ok { x with ph := [(x.phase, vsub n (x.total n) (conv P Q same t))] }
  else if y.multi && x.ph.map (·.1) == y.ph.map (·.1) then
    -- equal phase tuples: whole-array subtraction
    if y.ph.any (fun pr => convBad P Q same pr.2) then .error .undefinedChemical
    else .ok { x with ph := subZip n x.ph (y.rows.map (conv P Q same)) }
  else do
    let ph' ← sepRows P Q same y.multi x.ph y.ph
    .ok { x with ph := ph' }

/-- `Stream.separate_out(other, energy_balance=False)` -/
def sep (w : World) (xi yi : Nat) : Except Err World := do
  let x ← w.get? xi
  let y ← w.get? yi
  if y.isEmpty then .ok w
  else if xi = yi then .ok (w.setStrm xi (x.zeroed (w.pkgOf x).length))
  else do
    let x' ← sepStrm (w.pkgOf x) (w.pkgOf y) (x.pkg == y.pkg) x y
    .ok (w.setStrm xi x')

/-! ### splitting -/

inductive Split where
  | scalar (q : Rat)
  | vector (v : Row)

def Split.at (s : Split) (k : Nat) : Rat :=
  match s with
  | .scalar q => q
  | .vector v => v.get k

/-- `values = mol * split` -/
def splitTop (n : Nat) (s : Split) (m : Row) : Row := tab n (fun k => m.get k * s.at k)
/-- `dummy = mol - values` -/
def splitBot (n : Nat) (s : Split) (m : Row) : Row := tab n (fun k => m.get k - m.get k * s.at k)

/-- write `v` (coordinates of the feed's package `Q`) into the single row of outlet `o` (package `P`) -/
def putSingle (P Q : List Nat) (same : Bool) (o : Strm) (v : Row) : Except Err Strm :=
  if convBad P Q same v then .error .undefinedChemical
  else .ok { o with ph := [(o.phase, tab P.length (conv P Q same v).get)] }

/-- `Stream.split_to` onto one outlet.  A multi-phase outlet first becomes a single-phase stream at the
feed's phase (`s.phase = self.phase`, as the energy-balance branch does); its old content is overwritten anyway. -/
def putOutlet (P Q : List Nat) (same : Bool) (fphase : Char) (relabel : Bool) (o : Strm) (v : Row) :
    Except Err Strm :=
  -- `energy_balance=True`: `s1.phase = s2.phase = self.phase` for every outlet
  if o.multi || relabel then putSingle P Q same { o with multi := false, ph := [(fphase, o.total P.length)] } v
  else putSingle P Q same o v

/-- `to_material_indexer(phases)`: move the non-empty rows of `src` to their phase (or its
other case) among the empty rows `dst` -/
def moveRows (n : Nat) (dst : PhRows) (always : Bool) : PhRows → Except Err PhRows
  | [] => .ok dst
  | (p, v) :: rest =>
    if !always && v.isZero then moveRows n dst always rest
    else match resolve dst p with
      | none => .error .undefinedPhase
      | some q => do
        let d ← moveRows n dst always rest
        .ok (addAt n q v d)

/-- `stream.phases = phases` for a tuple of at least two phases -/
def setPhases (n : Nat) (s : Strm) (phases : List Char) : Except Err Strm :=
  if s.multi && s.ph.map (·.1) == phases then .ok s
  else do
    let blank := phases.map (fun p => (p, vzero n))
    let ph' ← moveRows n blank false s.ph          -- only material needs a phase (also for a single-phase stream)
    .ok { s with multi := true, ph := ph' }

/-- per-phase `self[phase].split_to(s1[phase], s2[phase], split)` onto one multi-phase outlet -/
def putPhases (P Q : List Nat) (same : Bool) : PhRows → Except Err PhRows
  | [] => .ok []
  | (p, v) :: rest =>
    if convBad P Q same v then .error .undefinedChemical
    else do
      let rs ← putPhases P Q same rest
      .ok ((p, tab P.length (conv P Q same v).get) :: rs)

/-- `Stream.split_to / MultiStream.split_to (s1, s2, split, energy_balance=eb)`: with the energy balance a
multi-phase feed always gives multi-phase outlets and a single-phase feed gives outlets of its phase -/
def split (w : World) (fi ai bi : Nat) (sp : Split) (eb : Bool) : Except Err World := do
  let f ← w.get? fi
  let a ← w.get? ai
  let b ← w.get? bi
  let Q := w.pkgOf f
  let n := Q.length
  if f.multi && (eb || a.multi || b.multi) then
    let phases := f.ph.map (·.1)
    let top := f.ph.map (fun pr => (pr.1, splitTop n sp pr.2))
    let bot := f.ph.map (fun pr => (pr.1, splitBot n sp pr.2))
    let a1 ← setPhases (w.pkgOf a).length a phases
    let w1 := w.setStrm ai a1
    let b0 ← w1.get? bi
    let b1 ← setPhases (w.pkgOf b0).length b0 phases
    let w2 := w1.setStrm bi b1
    let a2 ← w2.get? ai
    let pa ← putPhases (w.pkgOf a2) Q (a2.pkg == f.pkg) top
    let w3 := w2.setStrm ai { a2 with ph := pa }
    let b2 ← w3.get? bi
    let pb ← putPhases (w.pkgOf b2) Q (b2.pkg == f.pkg) bot
    .ok (w3.setStrm bi { b2 with ph := pb })
  else
    let m := f.total n
    let a' ← putOutlet (w.pkgOf a) Q (a.pkg == f.pkg) f.phase eb a (splitTop n sp m)
    let w1 := w.setStrm ai a'
    let b0 ← w1.get? bi
    let b' ← putOutlet (w.pkgOf b0) Q (b0.pkg == f.pkg) f.phase eb b0 (splitBot n sp m)
    .ok (w1.setStrm bi b')

/-! ### copying flow -/

inductive IDs where
  | all                    -- `...`
  | one (c : Nat)          -- a string
  | many (cs : List Nat)   -- a tuple / list of strings

/-- overwrite the entries `K` of `dst` by those of `src` -/
def overwrite (n : Nat) (K : List Nat) (dst src : Row) : Row :=
  tab n (fun k => if K.contains k then src.get k else dst.get k)

/-- zero the entries `K` -/
def zeroAt (n : Nat) (K : List Nat) (r : Row) : Row :=
  tab n (fun k => if K.contains k then 0 else r.get k)

/-- keep the entries `K`, zero the others -/
def keepAt (n : Nat) (K : List Nat) (r : Row) : Row :=
  tab n (fun k => if K.contains k then r.get k else 0)

def positions (Q : List Nat) : List Nat → Except Err (List Nat)
  | [] => .ok []
  | c :: cs => do
    match pos Q c with
    | none => .error .undefinedChemical
    | some k =>
      let ks ← positions Q cs
      .ok (k :: ks)

/-- which entries of the source `copy_flow` selects (`other_index`) -/
inductive Sel where
  | nothing                 -- `IDs=..., exclude=True`: return at once
  | everything              -- `IDs=...`
  | some (K : List Nat)     -- positions in the source package

/-- all positions of the source package but `bad` -/
def complement (m : Nat) (bad : List Nat) : List Nat := (List.range m).filter (fun k => !bad.contains k)

def selection (Q : List Nat) (ids : IDs) (exclude : Bool) : Except Err Sel :=
  match ids with
  | .all => if exclude then .ok .nothing else .ok .everything
  | .one c =>
    match pos Q c with
    | none => if exclude then .ok (.some (complement Q.length []))     -- nothing to exclude: every chemical
              else .error .undefinedChemical
    | some k => if exclude then .ok (.some (complement Q.length [k])) else .ok (.some [k])
  | .many cs =>
    if exclude then .ok (.some (complement Q.length (cs.filterMap (pos Q))))
    else do
      let K ← positions Q cs
      .ok (.some K)

/-- other package: keep the selected chemicals that flow or that the destination knows -/
def keptSel (P Q : List Nat) (same : Bool) (t : Row) (K : List Nat) : List Nat :=
  if same then K else K.filter (fun k => t.get k != 0 || (pos P (Q.getD k 0)).isSome)

/-- the selected positions in the destination's coordinates -/
def destSel (P Q : List Nat) (same : Bool) (K' : List Nat) : List Nat :=
  if same then K' else K'.filterMap (fun k => pos P (Q.getD k 0))

/-- `Stream.copy_flow(other, IDs, remove=, exclude=)` on a single-phase destination -/
def copySingle (w : World) (di si : Nat) (ids : IDs) (remove exclude : Bool) : Except Err World := do
  let d ← w.get? di
  let s ← w.get? si
  let P := w.pkgOf d
  let Q := w.pkgOf s
  let n := P.length
  let m := Q.length
  let t := s.total m
  let same := d.pkg == s.pkg
  let sel ← selection Q ids exclude
  match sel with
  | .nothing => .ok w
  | .everything =>
    if convBad P Q same t then .error .undefinedChemical
    else do
      let w1 := w.setStrm di { d with ph := [(d.phase, tab n (conv P Q same t).get)] }
      if remove then do
        let s1 ← w1.get? si
        .ok (w1.setStrm si (s1.zeroed m))
      else .ok w1
  | .some K =>
    let K' := keptSel P Q same t K
    let tK := keepAt m K' t
    if convBad P Q same tK then .error .undefinedChemical
    else do
      let KP := destSel P Q same K'
      let w1 := w.setStrm di { d with ph := [(d.phase, overwrite n KP (d.total n) (conv P Q same tK))] }
      if remove then do
        let s1 ← w1.get? si
        .ok (w1.setStrm si { s1 with ph := s1.ph.map (fun pr => (pr.1, zeroAt m K' pr.2)) })
      else .ok w1

/-! ### copying flow onto a multi-phase destination (`MultiStream.copy_flow`) -/

/-- the chemical index `IDs_index`: everything, one position, or a list of positions -/
inductive Cols where
  | all
  | one (k : Nat)
  | many (ks : List Nat)

def Cols.has : Cols → Nat → Bool
  | .all, _ => true
  | .one k, j => j == k
  | .many ks, j => ks.contains j

def Cols.isAll : Cols → Bool
  | .all => true
  | _ => false

/-- entries `C` of `dst` overwritten by those of `src` (`dst[C] = src[C]`) -/
def putCols (n : Nat) (C : Cols) (dst src : Row) : Row := tab n (fun k => if C.has k then src.get k else dst.get k)
/-- `r[C] = 0` -/
def zeroCols (n : Nat) (C : Cols) (r : Row) : Row := tab n (fun k => if C.has k then 0 else r.get k)
/-- only the entries `C` survive -/
def keepCols (n : Nat) (C : Cols) (r : Row) : Row := tab n (fun k => if C.has k then r.get k else 0)

/-- is the row of phase `p` selected by the phase argument (`none` = `...`) -/
def selK (R : Option Char) (p : Char) : Bool :=
  match R with
  | none => true
  | some q => p == q

/-- apply `f` to the row of the first entry with phase `q` -/
def modAt (q : Char) (f : Row → Row) : PhRows → PhRows
  | [] => []
  | (p, r) :: l => if p == q then (p, f r) :: l else (p, r) :: modAt q f l

/-- two phase tables walked together (equal phase tuples): `step p d s` gives the new rows of both -/
def pairRows (step : Char → Row → Row → Row × Row) : PhRows → PhRows → PhRows × PhRows
  | (p, d) :: ds, (q, s) :: ss =>
    ((p, (step p d s).1) :: (pairRows step ds ss).1, (q, (step p d s).2) :: (pairRows step ds ss).2)
  | ds, ss => (ds, ss)

/-- one phase of `MultiStream.copy_flow` from a multi-phase source: the new destination row and, when
`remove`, the new source row -/
def copyStep (n : Nat) (C : Cols) (R : Option Char) (remove exclude : Bool) (p : Char) (d s : Row) : Row × Row :=
  if exclude then
    -- everything is copied, then the excluded entries are restored / kept
    ((if selK R p then putCols n C (tab n s.get) d else tab n s.get),
     (if !remove then s else if selK R p then keepCols n C s else vzero n))
  else if selK R p then (putCols n C d s, if remove then zeroCols n C s else s)
  else (d, s)

/-- the rows of destination and source after `MultiStream.copy_flow` (`none` = the source is not touched) -/
def copyRows (n : Nat) (C : Cols) (R : Option Char) (remove exclude : Bool) (d s : Strm) :
    Except Err (PhRows × Option PhRows) :=
  if s.multi then
    if d.ph.map (·.1) != s.ph.map (·.1) then .error .rejected   -- 'other stream must have the same phases'
    else
      let r := pairRows (copyStep n C R remove exclude) d.ph s.ph
      .ok (r.1, if remove then some r.2 else none)
  else
    let srow := s.total n
    match resolve d.ph s.phase with
    | none => .error .undefinedPhase
    | some q =>
      -- `phase is ... or phase_index == other_phase_index`
      let hit := selK R q
      if exclude then
        .ok (modAt q (fun dr => if hit then putCols n C (tab n srow.get) dr else tab n srow.get) d.ph,
             if remove then some [(s.phase, if hit then keepCols n C srow else vzero n)] else none)
      else
        let d0 := d.ph.map (fun pr => (pr.1, vzero n))
        if hit then
          .ok (modAt q (fun _ => putCols n C (vzero n) srow) d0,
               if remove then some [(s.phase, zeroCols n C srow)] else none)
        else .ok (d0, none)

/-- write the new rows back: the destination first, then the source -/
def copyFinish (w : World) (di si : Nat) (d : Strm) (r : PhRows × Option PhRows) : Except Err World :=
  let w1 := w.setStrm di { d with ph := r.1 }
  match r.2 with
  | none => .ok w1
  | some rs => do
    let s1 ← w1.get? si
    .ok (w1.setStrm si { s1 with ph := rs })

/-- the chemical index `IDs_index` of `MultiStream.copy_flow` (looked up in the destination's package) -/
def colsOf (P : List Nat) (ids : IDs) : Except Err Cols :=
  match ids with
  | .all => .ok .all
  | .one c => match pos P c with
    | some k => .ok (.one k)
    | none => .error .undefinedChemical
  | .many cs => (positions P cs).map Cols.many

/-- the phase index `phase_index` (`none` = `...`), as the phase it resolves to -/
def phaseOf (l : PhRows) (phase : Option Char) : Except Err (Option Char) :=
  match phase with
  | none => .ok none
  | some p => match resolve l p with
    | none => .error .undefinedPhase
    | some q => .ok (some q)

/-- `MultiStream.copy_flow(other, phase, IDs, remove=, exclude=)` (multi-phase destination), with the
patches C01-12 … C01-14: a multi-phase source must have the destination's phase tuple -/
def copyMulti (w : World) (di si : Nat) (phase : Option Char) (ids : IDs) (remove exclude : Bool) :
    Except Err World := do
  let d ← w.get? di
  let s ← w.get? si
  let P := w.pkgOf d
  if d.pkg != s.pkg && P != w.pkgOf s then .error .rejected   -- 'other stream must have the same chemicals'
  else do
    let C ← colsOf P ids
    let R ← phaseOf d.ph phase
    let r ← copyRows P.length C R remove exclude d s
    copyFinish w di si d r

/-! ### scaling -/

def Strm.mapRows (s : Strm) (f : Row → Row) : Strm := { s with ph := s.ph.map (fun pr => (pr.1, f pr.2)) }

/-- `stream.scale(k)`, `stream *= k` -/
def scale (w : World) (i : Nat) (k : Rat) : Except Err World := do
  let s ← w.get? i
  .ok (w.setStrm i (s.mapRows (vscale (w.pkgOf s).length k)))

/-- `stream /= k` -/
def idiv (w : World) (i : Nat) (k : Rat) : Except Err World := do
  let s ← w.get? i
  if k = 0 then .error .rejected
  else .ok (w.setStrm i (s.mapRows (vdiv (w.pkgOf s).length k)))

/-- `new = stream * k` -/
def mulNew (w : World) (i : Nat) (k : Rat) : Except Err World := do
  let s ← w.get? i
  .ok { w with strms := w.strms ++ [s.mapRows (vscale (w.pkgOf s).length k)] }

/-- `new = stream / k` -/
def divNew (w : World) (i : Nat) (k : Rat) : Except Err World := do
  let s ← w.get? i
  if k = 0 then .error .rejected
  else .ok { w with strms := w.strms ++ [s.mapRows (vdiv (w.pkgOf s).length k)] }

/-- `new = -stream` -/
def negNew (w : World) (i : Nat) : Except Err World := mulNew w i (-1)

/-- `stream.empty()` -/
def emptyS (w : World) (i : Nat) : Except Err World := do
  let s ← w.get? i
  .ok (w.setStrm i (s.zeroed (w.pkgOf s).length))

/-! ### phase views as operands (`ms['g']`) -/

/-- an operand of an operation: a stream of the world, or the phase view `ms[p]` of one of them (a live
single-phase stream on the row of that phase) -/
inductive Ref where
  | strm (i : Nat)
  | view (j : Nat) (p : Char)

/-- the row of the first entry with phase `q` -/
def rowOf (l : PhRows) (q : Char) : Row :=
  match l.find? (·.1 == q) with
  | some pr => pr.2
  | none => []

/-- Make the operand addressable by an index.  A view of a multi-phase stream (`MultiStream.__getitem__`:
the phase or its other case, labelled with the requested letter) is appended to the world as a temporary
stream holding the row as it is *now*: every operation reads its operands before it writes, which is what
the code achieves for a row that is both read and written (`repeated` accounting in `SparseVector.mix_from`,
`row -= row`).  `Stream.__getitem__` of a single-phase stream returns the stream itself when the letter
matches up to case. -/
def World.bind (w : World) : Ref → Except Err (World × Nat)
  | .strm i => .ok (w, i)
  | .view j p => do
    let s ← w.get? j
    if s.multi then
      match resolve s.ph p with
      | none => .error .undefinedPhase
      | some q => .ok ({ w with strms := w.strms ++ [{ pkg := s.pkg, multi := false, ph := [(p, rowOf s.ph q)] }] },
                       w.strms.length)
    else if p.toLower == s.phase.toLower then .ok (w, j)
    else .error .undefinedPhase

def World.bindAll (w : World) : List Ref → Except Err (World × List Nat)
  | [] => .ok (w, [])
  | r :: rs => do
    let (w1, i) ← w.bind r
    let (w2, is) ← w1.bindAll rs
    .ok (w2, i :: is)

/-- forget the temporaries -/
def World.trim (w : World) (n : Nat) : World := { w with strms := w.strms.take n }

/-- the operand names a stream of the world (not a temporary) -/
def Ref.valid (n : Nat) : Ref → Bool
  | .strm i => i < n
  | .view j _ => j < n

/-- `x.separate_out(y, energy_balance=False)` where `y` may be a phase view -/
def sepR (w : World) (xi : Nat) (y : Ref) : Except Err World := do
  if !y.valid w.strms.length then .error .rejected else
  let (w1, yi) ← w.bind y
  let w2 ← sep w1 xi yi
  .ok (w2.trim w.strms.length)

/-- `r.mix_from([...], energy_balance=eb)` where inlets may be phase views -/
def mixR (w : World) (ri : Nat) (ins : List Ref) (eb : Bool) : Except Err World := do
  if !ins.all (Ref.valid w.strms.length) then .error .rejected else
  let (w1, is) ← w.bindAll ins
  let w2 ← mixE w1 ri is eb
  .ok (w2.trim w.strms.length)

/-! ### holders of shared flow data -/

/-- Stream `i` of the world is only a *holder* of flow data that belongs to stream `j`: one of its phase rows
(`some q`: a phase view `ms[q]`, a constituent of `MultiStream.from_streams`) or all of it (`none`: a flow proxy).
In the code the two objects share one `SparseVector` / `SparseArray`; here the holder's entry is re-derived from
the owner after every operation (`refresh`), and an in-place scaling of a holder is applied to the owner's data. -/
structure Alias where
  i : Nat
  j : Nat
  q : Option Char

/-- what the holder reads now -/
def derive (w : World) (a : Alias) : Option Strm :=
  match w.strms[a.j]?, w.strms[a.i]? with
  | some owner, some cur =>
    match a.q with
    | none => some { cur with multi := owner.multi, ph := owner.ph }
    | some q => some { cur with multi := false, ph := [(cur.phase, rowOf owner.ph q)] }
  | _, _ => none

def refresh (w : World) : List Alias → World
  | [] => w
  | a :: as =>
    match derive w a with
    | some s => refresh (w.setStrm a.i s) as
    | none => refresh w as

/-- `view *= k` / `view.scale(k)` on a holder of one phase row: the row of the owner is scaled in place -/
def scaleRow (w : World) (j : Nat) (q : Char) (k : Rat) : Except Err World := do
  let s ← w.get? j
  .ok (w.setStrm j { s with ph := modAt q (vscale (w.pkgOf s).length k) s.ph })

/-- `view /= k` -/
def divRow (w : World) (j : Nat) (q : Char) (k : Rat) : Except Err World := do
  let s ← w.get? j
  if k = 0 then .error .rejected
  else .ok (w.setStrm j { s with ph := modAt q (vdiv (w.pkgOf s).length k) s.ph })

/-- `MultiStream.from_streams([...])`: a new multi-phase stream on the rows of the given single-phase streams
(same package, pairwise different phases) -/
def fromStreams (w : World) (ids : List Nat) : Except Err World := do
  let xs ← getAll w ids
  match xs with
  | [] => .error .rejected
  | x :: _ =>
    let phases := xs.map (·.phase)
    if xs.any (·.multi) || phases.eraseDups.length != phases.length || xs.any (fun y => y.pkg != x.pkg) then .error .rejected
    else
      let ph := xs.foldl (fun acc y => insPh y.phase (y.total (w.pkgOf x).length) acc) []
      .ok { w with strms := w.strms ++ [{ pkg := x.pkg, multi := true, ph := ph }] }

/-! ### the enthalpy setter's phase flip (external numerics) -/

/-- `Stream.H = H` relabels a gas stream as liquid (or the reverse) when the temperature solve fails in the
current phase.  Whether it does is decided by the thermodynamic models, not by the material: the harness
reports the label the code ended with and the model accepts it only as such a flip.  Flows are untouched. -/
def flipPhase (w : World) (i : Nat) (p : Char) : World :=
  match w.strms[i]? with
  | some s =>
    -- `phase = self.phase.lower()`: a `'L'` stream is relabelled `'g'` as well
    if !s.multi && ((s.phase.toLower == 'g' && p == 'l') || (s.phase.toLower == 'l' && p == 'g')) then
      w.setStrm i { s with ph := match s.ph with | (_, r) :: rest => (p, r) :: rest | [] => [] }
    else w
  | none => w

/-! ### observation -/

/-- flow of chemical `c` in stream `s`, summed over its phases: the quantity the property is about -/
def amount (P : List Nat) (s : Strm) (c : Nat) : Rat :=
  match pos P c with
  | some k => rsum (s.rows.map (·.get k))
  | none => 0

def World.amount (w : World) (i : Nat) (c : Nat) : Rat :=
  match w.strms[i]? with
  | some s => Flow.amount (w.pkgOf s) s c
  | none => 0

end ThermoVerif.Flow
