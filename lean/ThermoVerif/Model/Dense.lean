/-
Reference semantics of NumPy on the dense images (C09).

This is *our* definition of what NumPy computes for 1-d and 2-d arrays of exact
numbers: element-wise operators with broadcasting of length-1 axes, the shape errors of
binary and in-place operators, comparisons, reductions with `axis`/`keepdims`, and
element/slice/fancy/boolean get and set.  It is tied to the real NumPy by the same
correspondence run that ties the sparse model to `sparse.py` (the harness prints what NumPy
computed on the dense images, the driver prints what these definitions compute).

Booleans are represented by the rationals 0 and 1 (the harness compares values, not dtypes,
exactly as the existing tests do with `==`).

Core Lean only.
-/
namespace ThermoVerif.Dense

/-- why NumPy does not return a finite array -/
inductive NpErr
  | shape        -- operands could not be broadcast together / non-broadcastable output operand
  | nonFinite    -- a division by zero: the result holds `inf`/`nan`
  | index        -- index out of bounds, too many indices, boolean index of the wrong length
  | type         -- the operator is not defined for these dtypes (e.g. boolean subtract)
  | empty        -- zero-size reduction without identity
  deriving DecidableEq, Repr, Inhabited

abbrev Vec := List Rat
abbrev Mat := List (List Rat)

def b2r (b : Bool) : Rat := if b then 1 else 0

/-! ### element-wise binary operators, 1-d -/

/-- NumPy broadcasting of two 1-d operands: equal lengths, or one of them of length 1. -/
def np1 (f : Rat → Rat → Rat) (a b : Vec) : Except NpErr Vec :=
  if a.length = b.length then .ok (List.zipWith f a b)
  else if a.length = 1 then .ok (b.map (fun y => f (a.getD 0 0) y))
  else if b.length = 1 then .ok (a.map (fun x => f x (b.getD 0 0)))
  else .error .shape

/-- in-place `a op= b`: the broadcast result must have the shape of `a`. -/
def np1i (f : Rat → Rat → Rat) (a b : Vec) : Except NpErr Vec :=
  if a.length = b.length then .ok (List.zipWith f a b)
  else if b.length = 1 then .ok (a.map (fun x => f x (b.getD 0 0)))
  else .error .shape

/-- operand scalar -/
def np1s (f : Rat → Rat → Rat) (a : Vec) (x : Rat) : Vec := a.map (fun y => f y x)

/-- true division: any divisor that is zero makes the result non-finite -/
def np1div (a b : Vec) : Except NpErr Vec :=
  match np1 (· / ·) a b with
  | .error e => .error e
  | .ok r => if r.length ≠ 0 ∧ b.any (· == 0) then .error .nonFinite else .ok r

def np1idiv (a b : Vec) : Except NpErr Vec :=
  match np1i (· / ·) a b with
  | .error e => .error e
  | .ok r => if r.length ≠ 0 ∧ b.any (· == 0) then .error .nonFinite else .ok r

def np1sdiv (a : Vec) (x : Rat) : Except NpErr Vec :=
  if a.length ≠ 0 ∧ x = 0 then .error .nonFinite else .ok (np1s (· / ·) a x)

/-! ### 2-d: rows broadcast like elements -/

def np2 (f : Rat → Rat → Rat) (A B : Mat) : Except NpErr Mat :=
  if A.length = B.length then (List.zip A B).mapM (fun p => np1 f p.1 p.2)
  else if A.length = 1 then B.mapM (fun r => np1 f (A.getD 0 []) r)
  else if B.length = 1 then A.mapM (fun r => np1 f r (B.getD 0 []))
  else .error .shape

def shapeOf (A : Mat) : Nat × Nat := (A.length, (A.getD 0 []).length)

/-- all rows have the same length (the images of real arrays are rectangular) -/
def rect (A : Mat) : Bool := A.all (fun r => r.length == (A.getD 0 []).length)

def np2i (f : Rat → Rat → Rat) (A B : Mat) : Except NpErr Mat :=
  match np2 f A B with
  | .error e => .error e
  | .ok R => if shapeOf R = shapeOf A then .ok R else .error .shape

def matHasZero (B : Mat) : Bool := B.any (fun r => r.any (· == 0))

def np2div (A B : Mat) : Except NpErr Mat :=
  match np2 (· / ·) A B with
  | .error e => .error e
  | .ok R => if (shapeOf R).1 ≠ 0 ∧ (shapeOf R).2 ≠ 0 ∧ matHasZero B then .error .nonFinite else .ok R

def np2idiv (A B : Mat) : Except NpErr Mat :=
  match np2i (· / ·) A B with
  | .error e => .error e
  | .ok R => if (shapeOf R).1 ≠ 0 ∧ (shapeOf R).2 ≠ 0 ∧ matHasZero B then .error .nonFinite else .ok R

/-! ### the operators -/

inductive BinOp
  | add | sub | mul | truediv | eq | ne | gt | lt | ge | le | and | or | xor
  deriving DecidableEq, Repr, Inhabited

def BinOp.isCmp : BinOp → Bool
  | .eq | .ne | .gt | .lt | .ge | .le => true
  | _ => false

def BinOp.isLogic : BinOp → Bool
  | .and | .or | .xor => true
  | _ => false

/-- the element function on numbers (booleans are 0/1) -/
def BinOp.fn : BinOp → Rat → Rat → Rat
  | .add => (· + ·)
  | .sub => (· - ·)
  | .mul => (· * ·)
  | .truediv => (· / ·)
  | .eq => fun x y => b2r (x == y)
  | .ne => fun x y => b2r (x != y)
  | .gt => fun x y => b2r (decide (x > y))
  | .lt => fun x y => b2r (decide (x < y))
  | .ge => fun x y => b2r (decide (x ≥ y))
  | .le => fun x y => b2r (decide (x ≤ y))
  | .and => fun x y => b2r (x != 0 && y != 0)
  | .or => fun x y => b2r (x != 0 || y != 0)
  | .xor => fun x y => b2r ((x != 0) != (y != 0))

/-- the element function when both operands are boolean: `+` is `or`, `*` is `and` -/
def BinOp.fnBool : BinOp → Rat → Rat → Rat
  | .add => BinOp.fn .or
  | op => op.fn

/-- a dense value with its dtype kind: 0-d, 1-d or 2-d -/
inductive Shape | s | v | m deriving DecidableEq, Repr, Inhabited

structure ND where
  isBool : Bool
  shape : Shape
  data : Mat          -- 0-d: [[x]], 1-d: [row], 2-d: rows
  deriving Repr, Inhabited, DecidableEq

def ND.scalar (x : Rat) (b := false) : ND := ⟨b, .s, [[x]]⟩
def ND.vec (l : Vec) (b := false) : ND := ⟨b, .v, [l]⟩
def ND.mat (l : Mat) (b := false) : ND := ⟨b, .m, l⟩
def ND.row0 (a : ND) : Vec := a.data.getD 0 []
def ND.x0 (a : ND) : Rat := a.row0.getD 0 0

/-- the operand as the reference sees it: leading axes of length 1 dropped (`reduce_ndim` does so
by design; the existing tests compare `sv + [[2]]` with `arr + [[2]]` through `==`) -/
def ND.strip (a : ND) : ND :=
  let v1 (a : ND) : ND := if a.row0.length = 1 then { a with shape := .s } else a
  match a.shape with
  | .m => if a.data.length = 1 then v1 { a with shape := .v } else a
  | .v => v1 a
  | .s => a

def maxShape : Shape → Shape → Shape
  | .m, _ | _, .m => .m
  | .v, _ | _, .v => .v
  | _, _ => .s

/-- dtype rules that make NumPy refuse an operator -/
def typeOk (op : BinOp) (ab bb : Bool) : Bool :=
  match op with
  | .sub => !(ab && bb)          -- boolean subtract is not supported
  | .and | .or | .xor => ab && bb  -- bitwise operators need booleans (integers are not generated)
  | _ => true

def resBool (op : BinOp) (ab bb : Bool) : Bool :=
  op.isCmp || (op.isLogic && ab && bb) || ((op == .add || op == .mul) && ab && bb)

/-- `a op b` as NumPy computes it on 0/1/2-d operands -/
def npBin (op : BinOp) (a b : ND) : Except NpErr ND :=
  if !typeOk op a.isBool b.isBool then .error .type else
  let f := if a.isBool && b.isBool then op.fnBool else op.fn
  let sh := maxShape a.shape b.shape
  let rb := resBool op a.isBool b.isBool
  match np2 f a.data b.data with
  | .error e => .error e
  | .ok R =>
    if op == .truediv ∧ (shapeOf R).1 ≠ 0 ∧ (shapeOf R).2 ≠ 0 ∧ matHasZero b.data then .error .nonFinite
    else .ok ⟨rb, sh, R⟩

/-- `a op= b`: the result must keep the shape **and dtype kind** of `a`
(a float result cannot be cast back into a boolean array). -/
def npIBin (op : BinOp) (a b : ND) : Except NpErr ND :=
  if op.isCmp then .error .type else
  if !typeOk op a.isBool b.isBool then .error .type else
  if a.isBool && (!b.isBool || op == .truediv) then .error .type else
  if maxShape a.shape b.shape ≠ a.shape then .error .shape else
  let f := if a.isBool && b.isBool then op.fnBool else op.fn
  match np2i f a.data b.data with
  | .error e => .error e
  | .ok R =>
    if op == .truediv ∧ (shapeOf R).1 ≠ 0 ∧ (shapeOf R).2 ≠ 0 ∧ matHasZero b.data then .error .nonFinite
    else .ok ⟨a.isBool, a.shape, R⟩

/-! ### unary -/

def npNeg (a : ND) : Except NpErr ND :=
  if a.isBool then .error .type else .ok { a with data := a.data.map (·.map (fun x => -x)) }

def npAbs (a : ND) : ND := { a with data := a.data.map (·.map Rat.abs) }

def npInvert (a : ND) : Except NpErr ND :=
  if a.isBool then .ok { a with data := a.data.map (·.map (fun x => b2r (x == 0))) } else .error .type

/-! ### reductions -/

inductive Red | sum | any | all | max | min | mean
  deriving DecidableEq, Repr, Inhabited

def vsum (l : Vec) : Rat := l.foldl (· + ·) 0
def vmax (l : Vec) : Option Rat := l.foldl (fun acc x => match acc with | none => some x | some m => some (if x > m then x else m)) none
def vmin (l : Vec) : Option Rat := l.foldl (fun acc x => match acc with | none => some x | some m => some (if x < m then x else m)) none

/-- reduce one vector -/
def redVec (r : Red) (l : Vec) : Except NpErr Rat :=
  match r with
  | .sum => .ok (vsum l)
  | .any => .ok (b2r (l.any (· != 0)))
  | .all => .ok (b2r (l.all (· != 0)))
  | .max => match vmax l with | some m => .ok m | none => .error .empty
  | .min => match vmin l with | some m => .ok m | none => .error .empty
  | .mean => if l.length = 0 then .error .nonFinite else .ok (vsum l / l.length)

def transpose (A : Mat) : Mat :=
  (List.range (A.getD 0 []).length).map (fun j => A.map (fun r => r.getD j 0))

def Red.resBool (r : Red) (inBool : Bool) : Bool :=
  match r with
  | .any | .all => true
  | .max | .min => inBool
  | _ => false

/-- `a.<red>(axis, keepdims)`; `axis = none` reduces everything.  The sum of booleans counts. -/
def npReduce (r : Red) (a : ND) (axis : Option Nat) (keepdims : Bool) : Except NpErr ND :=
  let rb := r.resBool a.isBool
  match a.shape with
  | .s => .error .type
  | .v =>
    match axis with
    | some (_ + 1) => .error .index
    | _ =>
      match redVec r a.row0 with
      | .error e => .error e
      | .ok x => .ok (if keepdims then ND.vec [x] rb else ND.scalar x rb)
  | .m =>
    match axis with
    | none =>
      match redVec r (a.data.foldr (· ++ ·) []) with
      | .error e => .error e
      | .ok x => .ok (if keepdims then ND.mat [[x]] rb else ND.scalar x rb)
    | some 0 =>
      match (transpose a.data).mapM (redVec r) with
      | .error e => .error e
      | .ok l => .ok (if keepdims then ND.mat [l] rb else ND.vec l rb)
    | some 1 =>
      match a.data.mapM (redVec r) with
      | .error e => .error e
      | .ok l => .ok (if keepdims then ND.mat (l.map ([·])) rb else ND.vec l rb)
    | some _ => .error .index

/-! ### indexing, 1-d -/

/-- `range(start, stop, step)` for non-negative arguments, `step ≥ 1` -/
def pyRange (start stop step : Nat) : List Nat :=
  if step = 0 then [] else
  (List.range ((stop - start + step - 1) / step)).map (fun k => start + k * step)

/-- the positions a NumPy slice `start:stop:step` selects in an axis of length `n`
(non-negative bounds, clipped to `n`) -/
def npSlice (n : Nat) (start stop step : Option Nat) : List Nat :=
  let st := min (start.getD 0) n
  let sp := min (stop.getD n) n
  pyRange st sp (step.getD 1)

def maskIdx (m : List Bool) : List Nat :=
  (List.range m.length).filter (fun i => m.getD i false)

def npGet1 (a : Vec) (i : Nat) : Except NpErr Rat :=
  if i < a.length then .ok (a.getD i 0) else .error .index

def npFancy1 (a : Vec) (l : List Nat) : Except NpErr Vec :=
  l.mapM (npGet1 a)

def npMask1 (a : Vec) (m : List Bool) : Except NpErr Vec :=
  if m.length = a.length then npFancy1 a (maskIdx m) else .error .index

def setAt (a : Vec) (i : Nat) (x : Rat) : Vec := a.set i x

/-- `a[idx] = values` for a list of positions: one value for all, or one value each -/
def npSetMany (a : Vec) (idx : List Nat) (vals : Vec) (scalar : Bool) : Except NpErr Vec :=
  if idx.any (fun i => decide (a.length ≤ i)) then .error .index
  else if scalar then .ok (idx.foldl (fun acc i => setAt acc i (vals.getD 0 0)) a)
  else if vals.length = idx.length then .ok ((List.zip idx vals).foldl (fun acc p => setAt acc p.1 p.2) a)
  else if vals.length = 1 then .ok (idx.foldl (fun acc i => setAt acc i (vals.getD 0 0)) a)
  else .error .shape

end ThermoVerif.Dense
