/-
Model of the energy / pressure side of stream mixing and of the enthalpy and entropy
setters of thermosteam:

  * `Stream.mix_from` (thermosteam/_stream.py); `mixFrom` is the energy path with `energy_balance=True`,
    `vle=False`, `mixFromX` adds `vle=True` (the equilibrium result is a parameter) and
    `energy_balance=False`: the count of non-empty inlets N = 0 / 1 / ≥ 2, heat and power objects folded
    into `Q`, `P := min P_in`, `H_out := Σ H_in + Q`, `conserve_phases`, and the bare
    `except:` fallback that re-phases the receiver to the union of all phases and assigns `H` again;
  * `Stream.separate_out`: a no-op for `None` / an empty stream, else `H_new = H − other.H`, then the
    assignment;
  * the `H` / `h` / `S` setters of `Stream` (one temperature solve, on failure the g ↔ l
    phase flip and one more solve) and of `MultiStream` (one solve, no fallback).

Core Lean only (this file is compiled into the driver).  The scalar type is a parameter:
the driver instantiates `Float`, the theorems an ordered field.

What is a parameter (external numerics, recorded from the real run by the adapter):
the inlets' enthalpy flows `H`, and the temperature solver
(`Mixture.solve_T_at_HP / solve_T_at_SP / xsolve_*`): `solve k ph x` is the answer of the
`k`-th solver call of the operation (phase state `ph`, target `x`); `none` = the call raised.

The model is written to the behaviour *with* the four proposed repairs
(fixes_proposed/C02-1..4.md): with exactly one non-empty inlet the heat `Q` is still
assigned, the `S` setter's fallback assigns the temperature, the inlet enthalpies
are the ones the inlets had when `mix_from` was called (also when the receiver is one of
the inlets), and heat objects / `None` among the inlets are skipped when phases are collected.
-/
namespace ThermoVerif.EnergyBalance

/-- phase labels of thermosteam -/
inductive Phase where
  | g | l | s | L | S
  deriving DecidableEq, Repr, Inhabited

/-- `str.lower` on a phase label -/
def Phase.lower : Phase → Phase
  | .L => .l
  | .S => .s
  | p => p

/-- The setters' fallback: a gas becomes a liquid, a liquid (also `'L'`) a gas, anything else
re-raises. -/
def Phase.flip (p : Phase) : Option Phase :=
  match p.lower with
  | .g => some .l
  | .l => some .g
  | _ => none

/-- all labels in the order of `sorted()` (what `phase_tuple` returns) -/
def allPhases : List Phase := [.L, .S, .g, .l, .s]

/-- `phase_tuple(set(...))`: sorted, without repetitions -/
def canon (ps : List Phase) : List Phase := allPhases.filter (fun p => ps.contains p)

/-- `Stream` (one phase) or `MultiStream` (a tuple of phases) -/
inductive PhaseState where
  | single (p : Phase)
  | multi (ps : List Phase)
  deriving DecidableEq, Repr, Inhabited

/-- the `phases` setter of `Stream` and of `MultiStream`: one distinct phase gives a single-phase
stream, otherwise a multi-phase stream over the sorted set -/
def setPhases (req : List Phase) : PhaseState :=
  match canon req with
  | [p] => .single p
  | ps => .multi ps

/-- `MultiStream.phase` reports one letter per non-empty group `g`, `lL`, `sS` -/
def groupRep : Phase → Phase
  | .L => .l
  | .S => .s
  | p => p

/-- the characters of `stream.phase`: the phase of a `Stream`; for a `MultiStream` the
non-empty phase groups (`nonEmpty` = phases that hold material) -/
def PhaseState.phaseStr (ps : PhaseState) (nonEmpty : List Phase) : List Phase :=
  match ps with
  | .single p => [p]
  | .multi _ => canon (nonEmpty.map groupRep)

/-- What the energy side needs to know of a stream. -/
structure St (α : Type) where
  ph : PhaseState
  T : α
  P : α
  /-- `isempty()` -/
  empty : Bool
  deriving Repr

inductive Outcome where
  | ok | raised
  deriving DecidableEq, Repr

/-- the temperature solver as a parameter: call index within the operation, phase state, target -/
abbrev Solver (α : Type) := Nat → PhaseState → α → Option α

structure Res (α : Type) where
  st : St α
  out : Outcome
  /-- index of the next solver call -/
  k : Nat
  /-- the phase states the solver was asked for by this assignment, in order -/
  qs : List PhaseState

section
variable {α : Type} [Add α] [Sub α] [LT α] [DecidableLT α] [BEq α] [OfNat α 0]

/-- Python's `not x` for a float -/
def isZero (x : α) : Bool := x == 0

/--
`stream.H = x`, `stream.h = x`, `stream.S = x` (the three setters have the same shape; the
`S` setter in its repaired form).

```
if not x and self.isempty(): return
try: self.T = solve(self.phase, ...)
except:  g -> l | l -> g | else raise ; self.T = solve(self.phase, ...)
```
A `MultiStream` has no fallback.  When the second solve raises too, the phase stays flipped.
-/
def setEnergy (solve : Solver α) (k : Nat) (st : St α) (x : α) : Res α :=
  if isZero x && st.empty then ⟨st, .ok, k, []⟩
  else
    match solve k st.ph x with
    | some T => ⟨{ st with T := T }, .ok, k + 1, [st.ph]⟩
    | none =>
      match st.ph with
      | .multi _ => ⟨st, .raised, k + 1, [st.ph]⟩
      | .single p =>
        match p.flip with
        | none => ⟨st, .raised, k + 1, [st.ph]⟩
        | some q =>
          let st1 : St α := { st with ph := .single q }
          match solve (k + 1) st1.ph x with
          | some T => ⟨{ st1 with T := T }, .ok, k + 2, [st.ph, st1.ph]⟩
          | none => ⟨st1, .raised, k + 2, [st.ph, st1.ph]⟩

/-- One entry of the `others` argument of `mix_from`. -/
inductive Inlet (α : Type) where
  /-- a stream: `isempty()`, its `H`, `P`, `T`, its phase state, the characters of its `.phase`,
  and whether it is the receiver itself -/
  | stream (empty : Bool) (H P T : α) (ph : PhaseState) (phaseStr : List Phase) (isSelf : Bool)
  /-- a `Heat` / `Power` object (always truthy) carrying `heat` -/
  | heat (q : α)
  /-- `None` (a missing stream): skipped -/
  | none
  deriving Repr

/-- a non-empty stream among the inlets -/
structure Feed (α : Type) where
  H : α
  P : α
  T : α
  ph : PhaseState
  phaseStr : List Phase
  /-- the receiver itself is this inlet -/
  isSelf : Bool
  deriving Repr

/-- `streams`: the non-empty `Stream` entries, in order -/
def feeds : List (Inlet α) → List (Feed α)
  | [] => []
  | .stream false H P T ph s b :: t => ⟨H, P, T, ph, s, b⟩ :: feeds t
  | _ :: t => feeds t

/-- `Q += i.heat` for every heat / power object, in order -/
def heatSum (Q : α) : List (Inlet α) → α
  | [] => Q
  | .heat q :: t => heatSum (Q + q) t
  | _ :: t => heatSum Q t

/-- `sum(hs, start)` -/
def sumFrom (start : α) (hs : List α) : α := hs.foldl (· + ·) start

/-- `min([p, *ps])`: the first smallest element -/
def minList (p : α) (ps : List α) : α := ps.foldl (fun acc x => if x < acc then x else acc) p

/-- `''.join([i.phase for i in others if isinstance(i, Stream)])` (empty streams included);
`selfStr` are the characters of the receiver's own `.phase` at that moment, which is what an entry
that *is* the receiver contributes -/
def othersPhases (selfStr : List Phase) : List (Inlet α) → List Phase
  | [] => []
  | .stream _ _ _ _ _ s isSelf :: t => (if isSelf then selfStr else s) ++ othersPhases selfStr t
  | _ :: t => othersPhases selfStr t

/-- the phases a stream's indexer carries: its phase, or the whole phase tuple of a `MultiStream` -/
def PhaseState.all : PhaseState → List Phase
  | .single p => [p]
  | .multi ps => ps

/-- the other spelling of a liquid or solid phase (`'l'` ↔ `'L'`, `'s'` ↔ `'S'`) -/
def Phase.swapCase : Phase → Option Phase
  | .l => some .L
  | .L => some .l
  | .s => some .S
  | .S => some .s
  | .g => none

/-- `phase in phase_indexer`: a `PhaseIndexer` also answers for the other spelling of a phase it holds -/
def knows (ps : List Phase) (p : Phase) : Bool :=
  ps.contains p || (match p.swapCase with
                    | some q => ps.contains q
                    | none => false)

/-- `_expand_phases(others)` guarded by "some phase is not in the indexer": only then the phase tuple
grows, and then by *all* of `others` -/
def expandWith (ps others : List Phase) : List Phase :=
  if others.all (knows ps) then ps else canon (ps ++ others)

/-- `PhaseIndexer.compatible_with`: the sorted phase tuples agree after lower-casing -/
def compatible (ps qs : List Phase) : Bool :=
  (canon ps).map Phase.lower == (canon qs).map Phase.lower

/-- `copy_like` as far as phase, T, P go: a `Stream` takes the phase state of the source; a
`MultiStream` keeps its own phases and gains the source's when it cannot hold them
(`MaterialIndexer.copy_like` → `_expand_phases`) -/
def copyLike (recv : St α) (f : Feed α) : St α :=
  { ph := (match recv.ph with
           | .single _ => f.ph
           | .multi ps =>
             match f.ph with
             | .single p => .multi (expandWith ps [p])
             | .multi qs => if canon ps == canon qs || compatible ps qs then .multi ps else .multi (canon (ps ++ qs))),
    T := f.T, P := f.P, empty := false }

/-- `set_main_phase` inside `ChemicalIndexer.mix_from`: a single-phase receiver takes the phase of
the inlets when all of them are single-phase streams of one and the same phase -/
def mainPhase (ph : PhaseState) (fs : List (Feed α)) : PhaseState :=
  match ph, fs with
  | .single _, f :: rest =>
    match f.ph with
    | .single p => if rest.all (fun g => g.ph == .single p) then .single p else ph
    | .multi _ => ph
  | _, _ => ph

/-- `MaterialIndexer.mix_from`: a multi-phase receiver gains the phases of the inlets when it cannot
hold one of them (`_expand_phases`; `'L'` is held by an indexer that has `'l'`); a single-phase receiver is left alone.  An inlet that is the receiver itself has,
by then, the receiver's phases and adds none. -/
def expandMulti (ph : PhaseState) (fs : List (Feed α)) : PhaseState :=
  match ph with
  | .single p => .single p
  | .multi ps => .multi (expandWith ps (((fs.filter (fun f => !f.isSelf)).map (·.ph.all)).foldr (· ++ ·) []))

/-- the phase state after `self._imol.mix_from(streams)` -/
def mixPhase (ph : PhaseState) (fs : List (Feed α)) : PhaseState :=
  expandMulti (mainPhase ph fs) fs

inductive Tag where
  | n0 | n1 | n1q | n2 | n2cp | n2fb | sepNone | sep | n1m | n2m | n2vle
  deriving DecidableEq, Repr

structure MixOut (α : Type) where
  st : St α
  out : Outcome
  /-- number of solver calls made -/
  k : Nat
  /-- the enthalpy that was assigned (`none`: no assignment took place) -/
  target : Option α
  tag : Tag
  /-- the phase states the solver was asked for, in order -/
  qs : List PhaseState

/--
`recv.mix_from(ins, energy_balance=True, vle=False, Q=Q, conserve_phases=cp)`.
`rphase0` are the characters of `recv.phase` at the time of the call (used by `conserve_phases`).
-/
def mixFrom (solve : Solver α) (recv : St α) (rphase0 : List Phase) (ins : List (Inlet α)) (Q : α)
    (cp : Bool) : MixOut α :=
  let Q' := heatSum Q ins
  match feeds ins with
  | [] => ⟨{ recv with empty := true }, .ok, 0, none, .n0, []⟩
  | [f] =>
    let st1 := copyLike recv f
    if isZero Q' then ⟨st1, .ok, 0, none, .n1, []⟩
    else
      let r := setEnergy solve 0 st1 (f.H + Q')
      ⟨r.st, r.out, r.k, some (f.H + Q'), .n1q, r.qs⟩
  | f :: fs =>
    let P := minList f.P (fs.map (·.P))
    let H := sumFrom Q' ((f :: fs).map (·.H))
    let st1 : St α := { recv with P := P }
    if cp then
      let st2 : St α := { st1 with ph := mixPhase (setPhases (rphase0 ++ othersPhases rphase0 ins)) (f :: fs),
                                   empty := false }
      let r := setEnergy solve 0 st2 H
      ⟨r.st, r.out, r.k, some H, .n2cp, r.qs⟩
    else
      let st2 : St α := { st1 with ph := mixPhase st1.ph (f :: fs), empty := false }
      let r := setEnergy solve 0 st2 H
      match r.out with
      | .ok => ⟨r.st, .ok, r.k, some H, .n2, r.qs⟩
      | .raised =>
        -- the bare `except:`; `set_main_phase` cannot change a phase that `phases` just made the
        -- common phase of all inlets, so it does not appear here
        let held := ((f :: fs).map (·.phaseStr)).foldr (· ++ ·) []
        let cur := r.st.ph.phaseStr held
        let st3 : St α := { r.st with ph := expandMulti (setPhases (cur ++ othersPhases cur ins)) (f :: fs) }
        let r2 := setEnergy solve r.k st3 H
        ⟨r2.st, r2.out, r2.k, some H, .n2fb, r.qs ++ r2.qs⟩

/-! ### `mix_from` with `vle=True` and / or `energy_balance=False`

The vapour-liquid equilibrium (`stream.vle(H=, P=)` / `vle(T=, P=)`, thermosteam/equilibrium/vle.py) is a
parameter: what it was asked for and what it left behind (temperature, the phases that hold
material) or that it raised. -/

/-- the specification handed to `self.vle(...)` -/
inductive VleSpec (α : Type) where
  | HP (H P : α)
  | TP (T P : α)
  deriving Repr

/-- what the equilibrium left: the temperature and the phases holding material -/
structure VleRes (α : Type) where
  T : α
  nonEmpty : List Phase
  deriving Repr

abbrev VleRun (α : Type) := VleSpec α → Option (VleRes α)

/-- the `vle` property of a `Stream` makes it a `MultiStream` over `('g', 'l')`; a `MultiStream` keeps
its phases -/
def vlePhases : PhaseState → PhaseState
  | .single _ => .multi [.g, .l]
  | .multi ps => .multi ps

/-- `reduce_phases()` of a `MultiStream` (`self.phase = self.phase`): the phases that hold material
remain; one of them makes a single-phase `Stream`, none the default liquid -/
def reducePhases (nonEmpty : List Phase) : PhaseState :=
  match canon (nonEmpty.map groupRep) with
  | [] => .single .l
  | [p] => .single p
  | ps => .multi ps

/--
`recv.mix_from(ins, energy_balance=eb, vle=vle, Q=Q, conserve_phases=cp)` in full.  With the
energy balance on and no equilibrium it is `mixFrom`.  Otherwise:

* no non-empty inlet: the receiver is emptied;
* one non-empty inlet: `vle` is ignored; with the energy balance on the copy path of `mixFrom`,
  without it only the material is mixed in (`self._imol.mix_from([inlet._imol])`) — T and P stay;
* two or more: `P := min`, `conserve_phases`, the material, then `vle(H = Σ H_in + Q, P)` resp.
  `vle(T = self.T, P)` followed by `reduce_phases()`, or nothing more when there is neither energy
  balance nor equilibrium (T stays).
-/
def mixFromX (solve : Solver α) (vleRun : VleRun α) (recv : St α) (rphase0 : List Phase)
    (ins : List (Inlet α)) (Q : α) (cp eb vle : Bool) : MixOut α :=
  if eb && !vle then mixFrom solve recv rphase0 ins Q cp
  else
    let Q' := heatSum Q ins
    match feeds ins with
    | [] => ⟨{ recv with empty := true }, .ok, 0, none, .n0, []⟩
    | [f] =>
      if eb then mixFrom solve recv rphase0 ins Q cp
      else ⟨{ recv with ph := mixPhase recv.ph [f], empty := false }, .ok, 0, none, .n1m, []⟩
    | f :: fs =>
      let P := minList f.P (fs.map (·.P))
      let H := sumFrom Q' ((f :: fs).map (·.H))
      let ph1 := if cp then setPhases (rphase0 ++ othersPhases rphase0 ins) else recv.ph
      let st2 : St α := { recv with P := P, ph := mixPhase ph1 (f :: fs), empty := false }
      if vle then
        let spec : VleSpec α := if eb then .HP H P else .TP recv.T P
        match vleRun spec with
        | Option.none => ⟨{ st2 with ph := vlePhases st2.ph }, .raised, 0, (if eb then some H else none), .n2vle, []⟩
        | some r =>
          ⟨{ st2 with ph := reducePhases r.nonEmpty, T := r.T }, .ok, 0, (if eb then some H else none), .n2vle, []⟩
      else ⟨st2, .ok, 0, none, .n2m, []⟩

/-- the specification `mix_from` hands to the equilibrium, if it calls it at all -/
def vleSpecX (recv : St α) (ins : List (Inlet α)) (Q : α) (eb vle : Bool) : Option (VleSpec α) :=
  if vle then
    match feeds ins with
    | f :: g :: fs =>
      let P := minList f.P ((g :: fs).map (·.P))
      some (if eb then .HP (sumFrom (heatSum Q ins) ((f :: g :: fs).map (·.H))) P else .TP recv.T P)
    | _ => none
  else none

/--
`self.separate_out(other, energy_balance=True)`:

```
if other and not other.isempty():
    if self is other: self.empty()
    H_new = self.H - other.H ; self._imol.separate_out(other._imol) ; self.H = H_new
```
`other` is `None` or an empty stream (nothing at all happens: no material, no energy, no
temperature change, no solver call), the stream itself (emptied first) or another non-empty stream;
`Hself`, `Hother` are the enthalpy flows read before the material is taken out, `emptyAfter`
whether `self` is empty afterwards.
-/
def separateOut (solve : Solver α) (self : St α) (Hself Hother : α)
    (otherNone otherEmpty same emptyAfter : Bool) : MixOut α :=
  if otherNone || otherEmpty then ⟨self, .ok, 0, none, .sepNone, []⟩
  else
    let Hs : α := if same then 0 else Hself
    let Ho : α := if same then 0 else Hother
    let Hnew := Hs - Ho
    let st1 : St α := { self with empty := same || emptyAfter }
    let r := setEnergy solve 0 st1 Hnew
    ⟨r.st, r.out, r.k, some Hnew, .sep, r.qs⟩

end

/-! ### the solver and the flash as recorded from a run

The driver instantiates the parameters `Solver` / `VleRun` with these functions of the calls the
real run made (`near` = "the same number up to the rounding of a sum"): call `k` is answered with
the recorded temperature only when the model asks it for the recorded phase state and (nearly) the
recorded target, otherwise it "raised".  So the model's answers depend on what it asks, and the
solver hypotheses of the theorems (`SolverSound`, `VleSound`) are met by a run exactly when the
recorded calls are sound one by one (`recordedSolver_sound`, `recordedVle_sound`). -/

/-- one recorded solver call: the phase state and target it was made with, and what it returned -/
structure RecCall (α : Type) where
  ph : PhaseState
  target : α
  T : Option α

def recordedSolver {α : Type} (near : α → α → Bool) (calls : List (RecCall α)) : Solver α := fun k ph x =>
  match calls[k]? with
  | some c => if c.ph == ph && near c.target x then c.T else none
  | none => none

/-- the recorded flash: what it was asked for and what it left (`none`: it raised) -/
def recordedVle {α : Type} [BEq α] (near : α → α → Bool) (rec : Option (VleSpec α × Option (VleRes α))) : VleRun α :=
  fun spec =>
    match rec, spec with
    | some (.HP H' P', r), .HP H P => if near H' H && P' == P then r else none
    | some (.TP T' P', r), .TP T P => if T' == T && P' == P then r else none
    | _, _ => none

/-! ### the iteration maps of `thermosteam/mixture/mixture.py`

`flx.aitken` iterates these maps to a fixed point (tolerance `T_tol = 1e-6`) and a secant polish
follows; the iteration itself runs inside `flexsolve` and is a parameter of the model (`Solver`).
The maps are here so that the theorems can say what their fixed points are. -/

/-- `iter_T_at_HP`: `T + (H - H_model(T)) / Cn` -/
def iterHP {α : Type} [Add α] [Sub α] [Div α] (T H HT Cn : α) : α := T + (H - HT) / Cn

/-- `iter_T_at_SP`: `T * exp((S - S_model(T)) / Cn)` -/
def iterSP {α : Type} [Mul α] [Sub α] [Div α] (exp : α → α) (T S ST Cn : α) : α := T * exp ((S - ST) / Cn)

end ThermoVerif.EnergyBalance
