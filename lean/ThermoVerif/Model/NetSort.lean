/-
Model of the part of thermosteam/network.py that derives a simulation order from a
flowsheet (property C19).  Core Lean only.

  * `Graph`               – units `0..n-1`, streams by id; per unit the outlet / inlet stream ids in
                            port order (`unit._outs`, `unit._ins`), per stream its sink / source unit
                            (`stream._sink`, `stream._source`).
  * `downstreamOf`        – `AbstractUnit.get_downstream_units(ends=…, universal=False)` and the
                            union of it that `PathSource.__init__` takes for a sub-network.
  * `feedOrder`           – `sort_feeds_big_to_small` (all feeds truthy, no explicit priorities).
  * `fillPath`, `findPaths` – `fill_path`, `find_paths_with_and_without_recycle`.
  * `bubble`, `sortLevel`, `sortItem` – `Network.sort`: the bounded bubble pass over path items,
                            recycle insertion on mutual reachability, the `stop` flag / warning.
  * `validNetwork`        – executable checker of the property's observable
                            (flattened path, nested recycle loops, reported recycles vs the graph).

  * `fromUnits`           – the whole of `Network.from_units` as long as no walk reports a recycle (every
                            acyclic flowsheet): feeds, `sort_feeds_big_to_small`, the walk of every feed,
                            `simplified_linear_paths`, `join_linear_network`, `_remove_overlap`,
                            `_insert_linear_network`, `_append_network`, `join_network_at_unit`, `first_unit`,
                            the final `sort`, the closing step of `add_interaction_units`.

The recycle part of the assembly (`join_recycle_network`, `_insert_recycle_network`,
`_add_linear_network`, `reduce_recycles`) is *not* modelled: `fromUnits` answers `Err.recycle`
as soon as a walk reports a recycle, and the network the real code builds then is validated per
run with `validNetwork`.
-/
namespace ThermoVerif.NetSort

inductive Err where
  | fuel        -- a bounded iteration did not reach its fixpoint / recursion bound hit
  | recycle     -- the depth-first walk found a recycle: outside the modelled (acyclic) assembly
  | noUnit      -- `Network.first_unit`: "network does not contain any of the given units"
  deriving Repr, DecidableEq

def Err.toString : Err → String
  | .fuel => "fuel"
  | .recycle => "recycle"
  | .noUnit => "no-unit"

/-! ## The flowsheet graph -/

structure Graph where
  /-- number of units; the given units are `0 … n-1` -/
  n : Nat
  /-- `unit._outs` as stream ids, in port order -/
  outs : List (List Nat)
  /-- `unit._ins` as stream ids, in port order -/
  ins : List (List Nat)
  /-- `stream._sink` -/
  snk : List (Option Nat)
  /-- `stream._source` -/
  src : List (Option Nat)
  deriving Repr

def Graph.empty : Graph := { n := 0, outs := [], ins := [], snk := [], src := [] }

def Graph.outsOf (g : Graph) (u : Nat) : List Nat := g.outs.getD u []
def Graph.insOf (g : Graph) (u : Nat) : List Nat := g.ins.getD u []
def Graph.sinkOf (g : Graph) (s : Nat) : Option Nat := g.snk.getD s none
def Graph.sourceOf (g : Graph) (s : Nat) : Option Nat := g.src.getD s none

/-- `_add_downstream_neighbors_to_set`: sinks of the outlets that are not in `ends`. -/
def succs (g : Graph) (ends : List Nat) (u : Nat) : List Nat :=
  (g.outsOf u).filterMap fun s => if ends.contains s then none else g.sinkOf s

/-- add the elements of `xs` that are not yet in `acc` (set union on duplicate-free lists) -/
def addNew (acc xs : List Nat) : List Nat :=
  xs.foldl (fun a x => if a.contains x then a else a ++ [x]) acc

def closeN (g : Graph) (ends : List Nat) : Nat → List Nat → List Nat
  | 0, S => S
  | k + 1, S => closeN g ends k (addNew S (S.flatMap (succs g ends)))

def isClosed (g : Graph) (ends : List Nat) (S : List Nat) : Bool :=
  S.all fun u => (succs g ends u).all S.contains

/-- Units downstream of any of `us` (at least one stream away), not crossing `ends`.
`get_downstream_units` iterates "until the set stops growing"; here: `n` rounds, and the result is
returned only if it is closed under `succs` (otherwise `Err.fuel`, which never happens for
well-formed graphs: every round that is not the last adds a unit `< n`). -/
def downstreamOf (g : Graph) (ends : List Nat) (us : List Nat) : Except Err (List Nat) :=
  let S := closeN g ends g.n (addNew [] (us.flatMap (succs g ends)))
  if isClosed g ends S then .ok S else .error .fuel

/-! ## Feed ordering (`sort_feeds_big_to_small`) -/

/-- insert feed index `x` in front of the first entry whose `F_mass` is not larger -/
def insertFeed (fmass : List Nat) (x : Nat) : List Nat → List Nat
  | [] => [x]
  | y :: ys => if fmass.getD y 0 ≤ fmass.getD x 0 then x :: y :: ys else y :: insertFeed fmass x ys

/-- Stable sort of the feed indices by `1 - F/Fmax` ascending, i.e. by `F` descending
(all priorities are `1.` when `Fmax = 0`, which leaves the order unchanged, as a stable
descending sort of all-equal keys does).  Stable insertion sort, inserting from the right. -/
def feedOrder (fmass : List Nat) : List Nat :=
  (List.range fmass.length).foldr (insertFeed fmass) []

/-! ## Depth-first walk (`fill_path`) -/

structure DfsSt where
  /-- `paths_with_recycle`: (path, closing stream), in append order -/
  withR : List (List Nat × Nat)
  /-- `paths_without_recycle`, in append order -/
  without : List (List Nat)
  /-- the `ends` set (mutated by the walk) -/
  ends : List Nat
  deriving Repr

def DfsSt.addWithout (st : DfsSt) (p : List Nat) : DfsSt := { st with without := st.without ++ [p] }

def DfsSt.addRecycle (st : DfsSt) (p : List Nat) (feed : Nat) : DfsSt :=
  { st with ends := st.ends ++ [feed], withR := st.withR ++ [(p, feed)] }

/-- `fill_path(feed, path, paths_with_recycle, paths_without_recycle, ends, units)`.
`fuel` bounds the recursion depth (each level appends a unit that is not yet in `path`). -/
def fillPath (g : Graph) (units : List Nat) : Nat → Nat → List Nat → DfsSt → Except Err DfsSt
  | 0, _, _, _ => .error .fuel
  | fuel + 1, feed, path, st =>
    match g.sinkOf feed with
    | none => .ok (st.addWithout path)
    | some unit =>
      if !units.contains unit then .ok (st.addWithout path)
      else if st.ends.contains feed then .ok (st.addWithout path)
      else if path.contains unit then
        match g.outsOf unit with
        | [o] => if st.ends.contains o then .ok (st.addWithout path) else .ok (st.addRecycle path feed)
        | _ => .ok (st.addRecycle path feed)
      else
        let path' := path ++ [unit]
        match g.outsOf unit with
        | [] => .ok st     -- `if outlets:` is false: the path is appended nowhere
        | first :: others =>
          match others.foldlM (fun st o => fillPath g units fuel o path' st) st with
          | .error e => .error e
          | .ok st' => fillPath g units fuel first path' st'

/-- `find_paths_with_and_without_recycle(feed, ends, units)` -/
def findPaths (g : Graph) (units : List Nat) (feed : Nat) (ends : List Nat) : Except Err DfsSt :=
  fillPath g units (units.length + 2) feed [] { withR := [], without := [], ends := ends }

/-! ## `Network.sort` -/

/-- first index `j ≥ start` with `p l[j]` -/
def findFrom {α} (p : α → Bool) : List α → Nat → Nat → Option Nat
  | [], _, _ => none
  | x :: xs, start, k => if k ≥ start && p x then some k else findFrom p xs start (k + 1)

/-- set union, keeping the list duplicate-free -/
def addRecycles (r new : List Nat) : List Nat := addNew r new

structure BState (α : Type) where
  items : List α
  recycle : List Nat
  stop : Bool

/-- body of `for i in range(N - 1)` -/
def passStep {α} (down : α → α → Bool) (recy : α → α → List Nat) (st : BState α) (i : Nat) : BState α :=
  match st.items[i]? with
  | none => st
  | some up =>
    match findFrom (fun d => down up d) st.items (i + 1) 0 with
    | none => st
    | some j =>
      match st.items[j]? with
      | none => st
      | some dn =>
        if down dn up then
          let rs := recy up dn
          if rs.isEmpty then st
          else { st with recycle := addRecycles st.recycle rs, stop := false }
        else
          { st with items := (st.items.eraseIdx j).insertIdx i dn, stop := false }

/-- one execution of the body of `for _ in range(N * N)` -/
def onePass {α} (down : α → α → Bool) (recy : α → α → List Nat) (items : List α) (recycle : List Nat) : BState α :=
  (List.range (items.length - 1)).foldl (passStep down recy) { items := items, recycle := recycle, stop := true }

/-- `for _ in range(N * N): …; if stop: break` -/
def passes {α} (down : α → α → Bool) (recy : α → α → List Nat) : Nat → BState α → BState α
  | 0, st => st
  | k + 1, st =>
    let st' := onePass down recy st.items st.recycle
    if st'.stop then st' else passes down recy k st'

/-- the loop of `Network.sort` over already-built path sources -/
def bubble {α} (down : α → α → Bool) (recy : α → α → List Nat) (items : List α) (recycle : List Nat) : BState α :=
  let N := items.length
  passes down recy (N * N) { items := items, recycle := recycle, stop := true }

/-- A path item: a unit or a sub-network (path, recycle streams). -/
inductive Item where
  | unit : Nat → Item
  | net : List Item → List Nat → Item
  deriving Repr, Inhabited

mutual
/-- all units of an item (`Network.units`) -/
def Item.flat : Item → List Nat
  | .unit u => [u]
  | .net p _ => flatList p
def flatList : List Item → List Nat
  | [] => []
  | i :: is => i.flat ++ flatList is
end

def Item.isNet : Item → Bool
  | .unit _ => false
  | .net _ _ => true

/-- `PathSource`: the item, its units, and the units downstream of it. -/
structure PS where
  item : Item
  members : List Nat
  isNet : Bool
  reach : List Nat
  deriving Repr

/-- `a.downstream_from(b)` (`self is not other` always holds between two entries of one path) -/
def PS.downFrom (a b : PS) : Bool := a.members.any b.reach.contains

/-- `tmo.utils.streams_from_units(units)` -/
def streamsOf (g : Graph) (us : List Nat) : List Nat :=
  us.flatMap fun u => g.insOf u ++ g.outsOf u

/-- the recycle candidates of `Network.sort` for `upstream = a`, `downstream = b`, minus `ends` -/
def recyclesBetween (g : Graph) (ends : List Nat) (a b : PS) : List Nat :=
  let cand :=
    if b.isNet then
      if a.isNet then (streamsOf g b.members).filter (streamsOf g a.members).contains
      else (streamsOf g b.members).filter (a.members.flatMap g.outsOf).contains
    else if a.isNet then (streamsOf g a.members).filter (b.members.flatMap g.outsOf).contains
    else (a.members.flatMap g.outsOf).filter (b.members.flatMap g.insOf).contains
  cand.filter fun s => !ends.contains s

def mkPS (g : Graph) (ends : List Nat) (it : Item) : Except Err PS :=
  match downstreamOf g ends it.flat with
  | .error e => .error e
  | .ok r => .ok { item := it, members := it.flat, isNet := it.isNet, reach := r }

/-- `[PathSource(i, ends) for i in self.path]` -/
def mkPSs (g : Graph) (ends : List Nat) : List Item → Except Err (List PS)
  | [] => .ok []
  | i :: is =>
    match mkPS g ends i with
    | .error e => .error e
    | .ok p =>
      match mkPSs g ends is with
      | .error e => .error e
      | .ok ps => .ok (p :: ps)

structure SortOut where
  path : List Item
  recycle : List Nat
  stop : Bool

/-- `Network.sort` on one level (sub-networks already sorted) -/
def sortLevel (g : Graph) (ends : List Nat) (path : List Item) (recycle : List Nat) : Except Err SortOut :=
  match mkPSs g ends path with
  | .error e => .error e
  | .ok ps =>
    let r := bubble PS.downFrom (recyclesBetween g ends) ps recycle
    .ok { path := r.items.map (·.item), recycle := r.recycle, stop := r.stop }

mutual
/-- `Network.sort(ends)`; the second component counts the
"network path could not be determined" warnings. -/
def sortItem (g : Graph) (ends : List Nat) : Item → Except Err (Item × Nat)
  | .unit u => .ok (.unit u, 0)
  | .net p r =>
    match sortList g ends p with
    | .error e => .error e
    | .ok (p', w) =>
      match sortLevel g ends p' r with
      | .error e => .error e
      | .ok o => .ok (.net o.path o.recycle, w + (if o.stop then 0 else 1))
def sortList (g : Graph) (ends : List Nat) : List Item → Except Err (List Item × Nat)
  | [] => .ok ([], 0)
  | i :: is =>
    match sortItem g ends i with
    | .error e => .error e
    | .ok (i', w) =>
      match sortList g ends is with
      | .error e => .error e
      | .ok (is', w') => .ok (i' :: is', w + w')
end

/-! ## The property's observable: `validNetwork` -/

mutual
/-- unit sets of all (sub-)networks that carry a recycle, outermost first -/
def Item.loops : Item → List (List Nat)
  | .unit _ => []
  | .net p r => (if r.isEmpty then [] else [flatList p]) ++ loopsList p
def loopsList : List Item → List (List Nat)
  | [] => []
  | i :: is => i.loops ++ loopsList is
end

/-- all stream edges `(a, b)` between given units -/
def edgesOf (g : Graph) : List (Nat × Nat) :=
  (List.range g.n).flatMap fun a => (g.outsOf a).filterMap fun s =>
    match g.sinkOf s with
    | some b => some (a, b)
    | none => none

/-- some unit reaches itself (computed reachability is sound: a `true` answer exhibits a real cycle) -/
def hasCycle (g : Graph) : Bool :=
  (List.range g.n).any fun u => (closeN g [] g.n (addNew [] (succs g [] u))).contains u

mutual
/-- `Network.get_all_recycles()`: the recycles of the network and of all nested sub-networks -/
def allRecycles : Item → List Nat
  | .unit _ => []
  | .net p r => r ++ allRecyclesList p
def allRecyclesList : List Item → List Nat
  | [] => []
  | i :: is => allRecycles i ++ allRecyclesList is
end

/-- no unit is in its own (exactly computed) downstream set once the streams `ends` are cut -/
def acyclicB (g : Graph) (ends : List Nat) : Bool :=
  (List.range g.outs.length).all fun u =>
    match downstreamOf g ends [u] with
    | .ok S => !S.contains u
    | .error _ => false

/-- `a` is (computed to be) downstream of `b`; a `true` answer exhibits a real chain of streams -/
def reachesB (g : Graph) (b a : Nat) : Bool :=
  (closeN g [] g.n (addNew [] (succs g [] b))).contains a

/-- stream `s` leaves a given unit and that unit is downstream of the stream's sink: `s` lies on a cycle -/
def onCycleB (g : Graph) (s : Nat) : Bool :=
  (List.range g.n).any fun a => (g.outsOf a).contains s &&
    match g.sinkOf s with
    | some b => a == b || reachesB g b a
    | none => false

inductive Verdict where
  | valid
  | units          -- the path's unit set differs from the given units
  | dup            -- a unit appears twice
  | recycleSet     -- the reported recycles are not the recycles carried by the (sub-)networks
  | order          -- acyclic: a unit precedes a unit that feeds it
  | recycleOnDag   -- acyclic: a recycle is reported
  | noRecycle      -- cyclic: no recycle is reported
  | notCut         -- cyclic: a cycle survives the removal of the reported recycle streams
  | offCycle       -- cyclic: a reported recycle stream does not lie on any cycle
  | backward       -- cyclic: a stream against the path order is not on a cycle inside a common recycle loop
  deriving Repr, DecidableEq

def Verdict.toString : Verdict → String
  | .valid => "valid" | .units => "units" | .dup => "dup" | .recycleSet => "recycle-set" | .order => "order"
  | .recycleOnDag => "recycle-on-dag" | .noRecycle => "no-recycle" | .notCut => "recycles-do-not-cut" | .offCycle => "recycle-off-cycle"
  | .backward => "backward"

def nodupB : List Nat → Bool
  | [] => true
  | x :: xs => !xs.contains x && nodupB xs

def checkNetwork (g : Graph) (p : Item) (R : List Nat) : Verdict :=
  let flat := p.flat
  if !(flat.all (· < g.n) && (List.range g.n).all flat.contains) then .units
  else if !nodupB flat then .dup
  else if !(R.all (allRecycles p).contains && (allRecycles p).all R.contains) then .recycleSet
  else
    let pos := fun u => flat.idxOf u
    let es := edgesOf g
    if hasCycle g then
      if R.isEmpty then .noRecycle
      else if !acyclicB g R then .notCut
      else if !R.all (onCycleB g) then .offCycle
      else
        let lp := p.loops
        if es.all (fun (a, b) => pos a < pos b ||
            (reachesB g b a && lp.any (fun l => l.contains a && l.contains b)))
        then .valid else .backward
    else
      if !es.all (fun (a, b) => pos a < pos b) then .order
      else if !R.isEmpty then .recycleOnDag
      else .valid

/-- every clause of the checker that fails, each judged on its own (so that one failure cannot hide
another); empty exactly when `checkNetwork` says `valid` -/
def failingClauses (g : Graph) (p : Item) (R : List Nat) : List Verdict :=
  let flat := p.flat
  if !(flat.all (· < g.n) && (List.range g.n).all flat.contains) then [.units]
  else
    let pos := fun u => flat.idxOf u
    let es := edgesOf g
    (if !nodupB flat then [.dup] else []) ++
    (if !(R.all (allRecycles p).contains && (allRecycles p).all R.contains) then [.recycleSet] else []) ++
    (if hasCycle g then
      (if R.isEmpty then [.noRecycle] else if !acyclicB g R then [.notCut] else []) ++
      (if !R.all (onCycleB g) then [.offCycle] else []) ++
      (if es.all (fun (a, b) => pos a < pos b ||
            (reachesB g b a && p.loops.any (fun l => l.contains a && l.contains b))) then [] else [.backward])
    else
      (if !es.all (fun (a, b) => pos a < pos b) then [.order] else []) ++
      (if !R.isEmpty then [.recycleOnDag] else []))

def validNetwork (g : Graph) (p : Item) (R : List Nat) : Bool := checkNetwork g p R == .valid

/-! ## The acyclic pipeline of `Network.from_units`

`from_units → sort_feeds_big_to_small → from_feedstock` over all feeds with linear paths only
(`simplified_linear_paths`, `join_linear_network`, `_remove_overlap`, `_insert_linear_network`,
`_append_network`, `join_network_at_unit`, `first_unit`), the final `sort` and the closing step of
`add_interaction_units`.  Networks are flat here (`path : List Nat`; `Network.units = set(path)`).
As soon as the walk reports a recycle the model stops with `Err.recycle`: recycle networks
(`join_recycle_network`, `_insert_recycle_network`, `reduce_recycles`) are not modelled. -/

/-! stable insertion sort by length (`linear_paths.sort(key=len)`) -/

/-- inserting from the right: `p` goes in front of the first entry that is not shorter (stable) -/
def insertByLenFront (p : List Nat) : List (List Nat) → List (List Nat)
  | [] => [p]
  | q :: qs => if p.length ≤ q.length then p :: q :: qs else q :: insertByLenFront p qs

def sortByLen (L : List (List Nat)) : List (List Nat) := L.foldr insertByLenFront []

/-- `simplify_linear_path(path, unit_sets)`: drop every unit that occurs in one of the later paths -/
def simplifyPath (path : List Nat) (later : List (List Nat)) : List Nat :=
  path.filter fun u => !(later.any fun q => q.contains u)

def simplifyAll : List (List Nat) → List (List Nat)
  | [] => []
  | p :: rest =>
    let p' := simplifyPath p rest
    (if p'.isEmpty then [] else [p']) ++ simplifyAll rest

/-- `simplified_linear_paths(linear_paths)` -/
def simplifiedPaths (L : List (List Nat)) : List (List Nat) := (simplifyAll (sortByLen L)).reverse

/-- `_remove_overlap(network, path_tuple)` -/
def removeOverlap (path : List Nat) (pathTuple : List Nat) (units : List Nat) : List Nat :=
  pathTuple.foldl (fun p i => if units.contains i then p.erase i else p) path

/-- `_insert_linear_network(index, network)` -/
def insertLinear (path : List Nat) (index : Nat) (nw : List Nat) : List Nat :=
  path.take index ++ nw ++ path.drop index

/-- `join_linear_network(linear_network)` on a flat network -/
def joinLinear (self nw : List Nat) : List Nat :=
  let path' := removeOverlap self self nw
  match self.findIdx? (fun i => nw.contains i) with
  | some index => insertLinear path' index nw
  | none => path' ++ nw

/-- `join_network_at_unit(network, unit)` on flat networks without recycle -/
def joinAtUnit (self nw : List Nat) (unit : Nat) : List Nat :=
  match self.findIdx? (fun i => i == unit) with
  | some index => insertLinear self index nw
  | none => joinLinear self nw

/-- `from_feedstock(feed, (), ends, units, final=False)` as long as no recycle is found:
walk, simplify, join the linear paths -/
def linearNetwork (g : Graph) (units : List Nat) (feed : Nat) (ends : List Nat) : Except Err (List Nat) :=
  match findPaths g units feed ends with
  | .error e => .error e
  | .ok st =>
    if !st.withR.isEmpty then .error .recycle
    else
      match simplifiedPaths st.without with
      | [] => .ok []
      | p :: rest => .ok (rest.foldl joinLinear p)

/-- `tmo.utils.feeds_from_units(units)` -/
def feedsOf (g : Graph) (units : List Nat) : List Nat :=
  units.flatMap fun u => (g.insOf u).filter fun s =>
    match g.sourceOf s with
    | some v => !units.contains v
    | none => true

/-- `tmo.utils.products_from_units(units)` -/
def productsOf (g : Graph) (units : List Nat) : List Nat :=
  units.flatMap fun u => (g.outsOf u).filter fun s =>
    match g.sinkOf s with
    | some v => !units.contains v
    | none => true

/-- the units at which the network of another feed connects to what is already there -/
def connectingUnits (g : Graph) (units ends newStreams : List Nat) : List Nat :=
  addNew [] (ends.filterMap fun s =>
    if newStreams.contains s && (g.sourceOf s).isSome then
      match g.sinkOf s with
      | some v => if units.contains v then some v else none
      | none => none
    else none)

structure AsmSt where
  path : List Nat
  ends : List Nat

/-- body of `for feed in feeds:` in `from_feedstock` -/
def addFeed (g : Graph) (units : List Nat) (st : AsmSt) (feed : Nat) : Except Err AsmSt :=
  if st.ends.contains feed then .ok st
  else
    match linearNetwork g units feed st.ends with
    | .error e => .error e
    | .ok q =>
      let newStreams := streamsOf g q
      let conn := connectingUnits g units st.ends newStreams
      let ends' := addNew st.ends newStreams
      match conn with
      | [] => .ok { path := st.path ++ q, ends := ends' }
      | [v] => .ok { path := joinAtUnit st.path q v, ends := ends' }
      | _ =>
        match st.path.find? (fun i => conn.contains i) with
        | some v => .ok { path := joinAtUnit st.path q v, ends := ends' }
        | none => .error .noUnit

def addFeeds (g : Graph) (units : List Nat) : AsmSt → List Nat → Except Err AsmSt
  | st, [] => .ok st
  | st, f :: fs =>
    match addFeed g units st f with
    | .error e => .error e
    | .ok st' => addFeeds g units st' fs

/-- the last line of `_add_interaction_units`: `if len(path) > 1 and path[-1] is path[0]: path.pop()` -/
def popIfLoop : List Item → List Item
  | [] => []
  | x :: xs =>
    match x, xs.getLast? with
    | .unit a, some (.unit b) => if a == b then x :: xs.dropLast else x :: xs
    | _, _ => x :: xs

/-- the feeds of the given units after `sort_feeds_big_to_small`; the first one is the feedstock -/
def sortedFeeds (g : Graph) (units : List Nat) (fmass : List Nat) : List Nat :=
  let feeds := feedsOf g units
  (feedOrder (feeds.map fun s => fmass.getD s 0)).map fun k => feeds.getD k 0

/-- `Network.from_units(units)` on a flowsheet whose walks find no recycle.  `fmass` gives `F_mass`
per stream id.  Result: the final network and the number of warnings of the final `sort`. -/
def fromUnits (g : Graph) (units : List Nat) (fmass : List Nat) : Except Err (Item × Nat) :=
  match sortedFeeds g units fmass with
  | [] => .ok (.net [] [], 0)
  | feedstock :: rest =>
    let ends0 := addNew [] (productsOf g units)
    match linearNetwork g units feedstock ends0 with
    | .error e => .error e
    | .ok p0 =>
      match addFeeds g units { path := p0, ends := addNew ends0 (streamsOf g p0) } rest with
      | .error e => .error e
      | .ok st =>
        let recycleEnds := addNew ends0 (productsOf g st.path)
        match sortItem g recycleEnds (.net (st.path.map .unit) []) with
        | .error e => .error e
        | .ok (.net p r, w) => .ok (.net (popIfLoop p) r, w)
        | .ok (it, w) => .ok (it, w)

end ThermoVerif.NetSort
