import ThermoVerif.Model.Dense
/-
Executable model of `thermosteam/base/sparse.py` (property C09), kernel layer.

  * `Dct`   : a Python `dict` index → non-zero float, as an association list.  The order of the
              list is *not* Python's insertion order (nothing the property talks about depends on
              it; the harness sorts before comparing).
  * `SV`    : `SparseVector`  = {size, dct, read_only}
  * `SLV`   : `SparseLogicalVector` = {size, set}

Every kernel keeps the branch structure of the Python code it mirrors
(`size == other_size` / `size == 1 and other_size` / `other_size == 1` / mismatch;
 scalar / sparse / dense-array operand; binary vs in-place), and the loop structure where the
code loops over *stored* entries (`mergeWith`, `mapVals`, `interWith`) rather than over
`range(size)` (`tabulate`).  Values are exact rationals.

Deviations from the code, all on purpose and all listed in fixes_proposed/C09-*.md:
  * `_truediv_sparse`, `size == 1` target without entry: the code returns an object that *shares*
    the operand's dict (`new = dct`); the model returns a fresh empty dict        (C09-1)
  * `_truediv_sparse`, equal sizes: the code tests `len(dct) > len(other_dct)` and silently drops a
    non-zero numerator over a zero divisor otherwise; the model raises zeroDiv like the
    in-place kernel does                                                           (C09-2)
Mirrored although NumPy behaves differently (known findings / pinned by tests, see Props/C09.lean):
  * in-place kernels let a length-1 target grow (`self.size = other_size`)
  * `size == 1 and other_size` rejects a length-1 against an empty operand
  * integer / fancy indices are not range-checked ("size is not strict"), `x[:] = seq` does not
    check `len(seq)`, `zip` truncates fancy assignments
  * `0/0` is `0` and `x/0` raises ZeroDivisionError

Core Lean only (compiled into the driver).
-/
namespace ThermoVerif.Sparse
open ThermoVerif.Dense

inductive Err
  | shape      -- ValueError('shape mismatch between arrays') and every other rejection of operand shapes/types
  | readOnly   -- ValueError('assignment destination is read-only')
  | zeroDiv    -- ZeroDivisionError / FloatingPointError
  | index      -- IndexError
  | type       -- TypeError / AttributeError
  | value      -- other ValueError
  deriving DecidableEq, Repr, Inhabited

abbrev Dct := List (Nat × Rat)

namespace Dct

def get? (d : Dct) (i : Nat) : Option Rat := d.lookup i
def get (d : Dct) (i : Nat) : Rat := (d.lookup i).getD 0
def has (d : Dct) (i : Nat) : Bool := (d.lookup i).isSome
def keys (d : Dct) : List Nat := d.map (·.1)
def vals (d : Dct) : List Rat := d.map (·.2)
/-- `del dct[i]` (no-op when absent) -/
def erase (d : Dct) (i : Nat) : Dct := d.filter (fun p => p.1 != i)
/-- `dct[i] = v` -/
def put (d : Dct) (i : Nat) (v : Rat) : Dct := (i, v) :: erase d i
/-- `if v: dct[i] = v` / `elif i in dct: del dct[i]` -/
def setNZ (d : Dct) (i : Nat) (v : Rat) : Dct := if v = 0 then erase d i else put d i v
/-- `{i: f(i) for i in range(n) if f(i)}` -/
def tabulate (n : Nat) (f : Nat → Rat) : Dct :=
  (List.range n).filterMap (fun i => if f i = 0 then none else some (i, f i))
/-- `{i: f(j) for i, j in dct.items()}` (no test for zero: the code relies on `f` keeping non-zeros) -/
def mapVals (f : Rat → Rat) (d : Dct) : Dct := d.map (fun p => (p.1, f p.2))
/-- the non-zero entries of a dense sequence -/
def ofList (l : List Rat) : Dct := tabulate l.length (fun i => l.getD i 0)
/-- `for i, j in other.items(): x = f(dct.get(i, 0), j); if x: dct[i] = x else: del dct[i]` -/
def mergeWith (f : Rat → Rat → Rat) (d other : Dct) : Dct :=
  other.foldl (fun acc p => setNZ acc p.1 (f (get acc p.1) p.2)) d
/-- `{i: f(dct[i], g(i)) for i in dct if g(i)}` : loop over the stored entries, keep those whose
partner is non-zero -/
def interWith (f : Rat → Rat → Rat) (d : Dct) (g : Nat → Rat) : Dct :=
  d.filterMap (fun p => if g p.1 = 0 then none else some (p.1, f p.2 (g p.1)))
def filterVals (p : Rat → Bool) (d : Dct) : Dct := d.filter (fun q => p q.2)

end Dct

/-! ## SparseVector -/

/-- no key twice -/
def nodupb : List Nat → Bool
  | [] => true
  | k :: r => !r.contains k && nodupb r

structure SV where
  size : Nat
  dct : Dct
  readOnly : Bool := false
  deriving Repr, Inhabited, DecidableEq

structure SLV where
  size : Nat
  set : List Nat
  deriving Repr, Inhabited, DecidableEq

namespace SV

def get (a : SV) (i : Nat) : Rat := a.dct.get i
def toDense (a : SV) : Vec := (List.range a.size).map a.get
def fromDict (d : Dct) (n : Nat) : SV := ⟨n, d, false⟩
/-- `SparseVector(seq)` / `SparseVector(seq, size)` -/
def ofList (l : List Rat) (size : Option Nat := none) : SV := ⟨size.getD l.length, Dct.ofList l, false⟩
def copy (a : SV) : SV := ⟨a.size, a.dct, false⟩
def has0 (a : SV) : Bool := a.dct.has 0

/-- well-formedness: the representation invariant of the property (keys distinct, inside the size,
no stored zero) -/
def wfb (a : SV) : Bool :=
  nodupb a.dct.keys && a.dct.all (fun p => decide (p.1 < a.size) && p.2 != 0)

end SV

namespace SLV
def mem (a : SLV) (i : Nat) : Bool := a.set.contains i
def toDense (a : SLV) : Vec := (List.range a.size).map (fun i => b2r (a.mem i))
/-- `{i for i in range(n) if p(i)}` -/
def ofPred (n : Nat) (p : Nat → Bool) : SLV := ⟨n, (List.range n).filter p⟩
def ofList (l : List Rat) (size : Option Nat := none) : SLV :=
  ⟨size.getD l.length, (List.range l.length).filter (fun i => l.getD i 0 != 0)⟩
/-- `SparseVector.from_dict({i: 1. for i in self.set}, self.size)` -/
def toSV (a : SLV) : SV := ⟨a.size, a.set.map (fun i => (i, 1)), false⟩
def wfb (a : SLV) : Bool :=
  nodupb a.set && a.set.all (fun i => decide (i < a.size))
end SLV

/-! ### arithmetic kernels `_<op>_scalar`, `_<op>_sparse`, `_<op>_array` and their in-place twins

`inplace` only matters where the two Python kernels differ; the size of the result is the size the
Python object has afterwards (so an in-place kernel on a length-1 target *grows* it). -/

inductive Arith | add | sub | mul | truediv
  deriving DecidableEq, Repr, Inhabited

def Arith.fn : Arith → Rat → Rat → Rat
  | .add => (· + ·) | .sub => (· - ·) | .mul => (· * ·) | .truediv => (· / ·)

namespace SV

/-- `_add_scalar`, `_sub_scalar`, `_iadd_scalar`, `_isub_scalar` (`x` already negated for sub) -/
def addScalar (a : SV) (x : Rat) : SV :=
  if x = 0 then a                      -- `new = dct.copy()` / `return self`
  else { a with dct := Dct.tabulate a.size (fun i => a.get i + x) }

def mulScalar (a : SV) (x : Rat) : SV :=
  if x = 0 then { a with dct := [] } else { a with dct := a.dct.mapVals (· * x) }

/-- `float(other)`; `{i: j / other for ...}`: divides only if something is stored -/
def divScalar (a : SV) (x : Rat) : Except Err SV :=
  if x = 0 then (if a.dct.isEmpty then .ok a else .error .zeroDiv)
  else .ok { a with dct := a.dct.mapVals (· / x) }

def arithScalar (op : Arith) (a : SV) (x : Rat) : Except Err SV :=
  match op with
  | .add => .ok (a.addScalar x)
  | .sub => .ok (a.addScalar (-x))
  | .mul => .ok (a.mulScalar x)
  | .truediv => a.divScalar x

/-- the sign of the add/sub kernels -/
def sgn (sub : Bool) : Rat := if sub then -1 else 1

/-- `_add_sparse` / `_sub_sparse` and in-place twins (`x - y` is computed as `x + (-1)·y`) -/
def addSparse (sub : Bool) (a b : SV) : Except Err SV :=
  if a.size = b.size then
    .ok { a with dct := Dct.mergeWith (fun x y => x + sgn sub * y) a.dct b.dct }
  else if a.size = 1 ∧ b.size ≠ 0 then
    if a.has0 then .ok { a with size := b.size, dct := Dct.tabulate b.size (fun i => a.get 0 + sgn sub * b.get i) }
    else .ok { a with size := b.size, dct := b.dct.mapVals (fun y => sgn sub * y) }
  else if b.size = 1 then
    if b.has0 then .ok { a with dct := Dct.tabulate a.size (fun i => a.get i + sgn sub * b.get 0) }
    else .ok a
  else .error .shape

/-- `_add_array` / `_sub_array` and in-place twins -/
def addArray (sub : Bool) (a : SV) (l : Vec) : Except Err SV :=
  if a.size = l.length then
    .ok { a with dct := Dct.mergeWith (fun x y => x + sgn sub * y) a.dct (Dct.ofList l) }
  else if a.size = 1 ∧ l.length ≠ 0 then
    if a.has0 then .ok { a with size := l.length, dct := Dct.tabulate l.length (fun i => a.get 0 + sgn sub * l.getD i 0) }
    else .ok { a with size := l.length, dct := (Dct.ofList l).mapVals (fun y => sgn sub * y) }
  else .error .shape

def mulSparse (a b : SV) : Except Err SV :=
  if a.size = b.size then
    .ok { a with dct := Dct.interWith (· * ·) a.dct b.get }
  else if a.size = 1 ∧ b.size ≠ 0 then
    if a.has0 then .ok { a with size := b.size, dct := b.dct.mapVals (fun y => a.get 0 * y) }
    else .ok { a with size := b.size, dct := [] }
  else if b.size = 1 then
    if b.has0 then .ok { a with dct := a.dct.mapVals (· * b.get 0) }
    else .ok { a with dct := [] }
  else .error .shape

def mulArray (a : SV) (l : Vec) : Except Err SV :=
  if a.size = l.length then
    .ok { a with dct := Dct.interWith (· * ·) a.dct (fun i => l.getD i 0) }
  else if a.size = 1 ∧ l.length ≠ 0 then
    if a.has0 then .ok { a with size := l.length, dct := (Dct.ofList l).mapVals (fun y => a.get 0 * y) }
    else .ok { a with size := l.length, dct := [] }
  else .error .shape

/-- `_truediv_sparse` (with the two repairs of C09-1/C09-2) and `_itruediv_sparse` -/
def divSparse (inplace : Bool) (a b : SV) : Except Err SV :=
  if a.size = b.size then
    if a.dct.any (fun p => !b.dct.has p.1) then .error .zeroDiv
    else .ok { a with dct := Dct.interWith (· / ·) a.dct b.get }
  else if a.size = 1 ∧ b.size ≠ 0 then
    if a.has0 then
      -- binary: `if len(other_dct) != other_size: raise`; in-place: `if other_size != other_size` never raises
      if !inplace ∧ b.dct.length ≠ b.size then .error .zeroDiv
      else .ok { a with size := b.size, dct := b.dct.mapVals (fun y => a.get 0 / y) }
    else .ok { a with size := b.size, dct := [] }
  else if b.size = 1 then
    if b.has0 then .ok { a with dct := a.dct.mapVals (· / b.get 0) }
    else if !a.dct.isEmpty then .error .zeroDiv
    else .ok a
  else .error .shape

/-- `_truediv_array` and `_itruediv_array` -/
def divArray (a : SV) (l : Vec) : Except Err SV :=
  if a.size = l.length then
    if a.dct.any (fun p => l.getD p.1 0 == 0) then .error .zeroDiv
    else .ok { a with dct := a.dct.map (fun p => (p.1, p.2 / l.getD p.1 0)) }
  else if a.size = 1 ∧ l.length ≠ 0 then
    if a.has0 then
      if l.any (· == 0) then .error .zeroDiv
      else .ok { a with size := l.length, dct := Dct.tabulate l.length (fun i => a.get 0 / l.getD i 0) }
    else .ok { a with size := l.length, dct := [] }
  else .error .shape

def arithSparse (op : Arith) (inplace : Bool) (a b : SV) : Except Err SV :=
  match op with
  | .add => addSparse false a b
  | .sub => addSparse true a b
  | .mul => mulSparse a b
  | .truediv => divSparse inplace a b

def arithArray (op : Arith) (a : SV) (l : Vec) : Except Err SV :=
  match op with
  | .add => addArray false a l
  | .sub => addArray true a l
  | .mul => mulArray a l
  | .truediv => divArray a l

/-- `__neg__` -/
def neg (a : SV) : SV := ⟨a.size, a.dct.mapVals (fun x => -x), false⟩
/-- `__abs__` -/
def abs (a : SV) : SV := ⟨a.size, a.dct.mapVals Rat.abs, false⟩

/-- `__rtruediv__` with a scalar: `other / self` -/
def rdivScalar (a : SV) (x : Rat) : Except Err SV :=
  if x = 0 then .ok ⟨a.size, [], false⟩
  else if a.dct.length ≠ a.size then .error .zeroDiv
  else .ok ⟨a.size, a.dct.mapVals (fun y => x / y), false⟩

end SV

/-! ### comparison kernels: the result is the set of positions where the relation holds -/

inductive Cmp | eq | ne | gt | lt | ge | le
  deriving DecidableEq, Repr, Inhabited

def Cmp.eval : Cmp → Rat → Rat → Bool
  | .eq => fun x y => x == y
  | .ne => fun x y => x != y
  | .gt => fun x y => decide (x > y)
  | .lt => fun x y => decide (x < y)
  | .ge => fun x y => decide (x ≥ y)
  | .le => fun x y => decide (x ≤ y)

def Cmp.toBin : Cmp → BinOp
  | .eq => .eq | .ne => .ne | .gt => .gt | .lt => .lt | .ge => .ge | .le => .le

namespace SV

def cmpScalar (op : Cmp) (a : SV) (x : Rat) : SLV :=
  SLV.ofPred a.size (fun i => op.eval (a.get i) x)

def cmpSparse (op : Cmp) (a b : SV) : Except Err SLV :=
  if a.size = b.size then .ok (SLV.ofPred a.size (fun i => op.eval (a.get i) (b.get i)))
  else if b.size = 1 then .ok (SLV.ofPred a.size (fun i => op.eval (a.get i) (b.get 0)))
  else if a.size = 1 ∧ b.size ≠ 0 then .ok (SLV.ofPred b.size (fun i => op.eval (a.get 0) (b.get i)))
  else .error .shape

/-- `_eq_array`/`_ne_array` have an `other_size == 1` branch, the `gt/lt/ge/le` template has not -/
def cmpArray (op : Cmp) (a : SV) (l : Vec) : Except Err SLV :=
  if a.size = l.length then .ok (SLV.ofPred a.size (fun i => op.eval (a.get i) (l.getD i 0)))
  else if a.size = 1 ∧ l.length ≠ 0 then .ok (SLV.ofPred l.length (fun i => op.eval (a.get 0) (l.getD i 0)))
  else if l.length = 1 ∧ (op = .eq ∨ op = .ne) then .ok (SLV.ofPred a.size (fun i => op.eval (a.get i) (l.getD 0 0)))
  else .error .shape

end SV

/-! ### reductions and queries of a SparseVector -/

namespace SV

def sum (a : SV) : Rat := a.dct.vals.foldl (· + ·) 0
def any (a : SV) : Bool := !a.dct.isEmpty
def all (a : SV) : Bool := a.dct.length == a.size
def mean (a : SV) : Rat := if a.dct.isEmpty then 0 else a.sum / a.size

def max (a : SV) : Except Err Rat :=
  match vmax a.dct.vals with
  | some m => .ok (if m < 0 ∧ a.dct.length < a.size then 0 else m)
  | none => if a.size ≠ 0 then .ok 0 else .error .value

def min (a : SV) : Except Err Rat :=
  match vmin a.dct.vals with
  | some m => .ok (if m > 0 ∧ a.dct.length < a.size then 0 else m)
  | none => if a.size ≠ 0 then .ok 0 else .error .value

def hasNegatives (a : SV) : Bool := a.dct.any (fun p => decide (p.2 < 0))
def removeNegatives (a : SV) : SV := { a with dct := a.dct.filterVals (fun x => !decide (x < 0)) }
def negativeKeys (a : SV) : List Nat := (a.dct.filterVals (fun x => decide (x < 0))).keys
def positiveKeys (a : SV) : List Nat := (a.dct.filterVals (fun x => decide (x > 0))).keys
def clear (a : SV) : SV := { a with dct := [] }

/-- `sum_of(index)` for a list of keys -/
def sumOf (a : SV) (idx : List Nat) : Rat :=
  (idx.filter a.dct.has).foldl (fun acc i => acc + a.get i) 0

/-- the one-element result of a reduction with `keepdims=True` -/
def keep (x : Rat) : SV := ⟨1, if x = 0 then [] else [(0, x)], false⟩

end SV

def SLV.keep (b : Bool) : SLV := ⟨1, if b then [0] else []⟩

/-! ### `__getitem__` / `__setitem__` of a SparseVector -/

/-- an index as the code classifies it -/
inductive Idx
  | int (i : Nat)
  | slice (start stop step : Option Nat)
  | fancy (l : List Nat)
  | mask (m : List Bool)
  deriving Repr, Inhabited, DecidableEq

def Idx.isOpen : Idx → Bool
  | .slice none none none => true
  | _ => false

/-- `default_range(slice, max)` : **not** clipped to the size -/
def defaultRange (n : Nat) (start stop step : Option Nat) : List Nat :=
  pyRange (start.getD 0) (stop.getD n) (step.getD 1)

inductive GetRes
  | self               -- `x[:]` returns the object itself
  | scalar (x : Rat)
  | dense (l : Vec)
  deriving Repr, Inhabited

namespace SV

def getItem (a : SV) : Idx → GetRes
  | .int i => .scalar (a.get i)
  | .slice s e st => if (Idx.slice s e st).isOpen then .self else .dense ((defaultRange a.size s e st).map a.get)
  | .fancy l => .dense (l.map a.get)
  | .mask m => .dense ((maskIdx m).map a.get)

/-- value of an assignment after `reduce_ndim` -/
inductive Val
  | scalar (x : Rat)
  | seq (l : Vec)            -- 1-d: list, array, or a vector object iterated densely
  | sv (v : SV)              -- a SparseVector object of size ≠ 1 (only `x[:] = sv` looks at the class)
  | deep                     -- 2-d or more after reduction
  deriving Repr, Inhabited

def Val.dense : Val → Vec
  | .scalar x => [x] | .seq l => l | .sv v => v.toDense | .deep => []

/-- assignment to a list of positions: `zip(index, value)` truncates, nothing is range-checked -/
def setMany (d : Dct) (idx : List Nat) : Val → Except Err Dct
  | .scalar x => .ok (idx.foldl (fun acc i => Dct.setNZ acc i x) d)
  | .deep => .error .index
  | v => .ok ((List.zip idx v.dense).foldl (fun acc p => Dct.setNZ acc p.1 p.2) d)

/-- `__setitem__`; `same` tells that the value *is* the target (`x[:] = x`) -/
def setItem (a : SV) (idx : Idx) (v : Val) (same : Bool := false) : Except Err SV :=
  if a.readOnly then .error .readOnly else
  match idx with
  | .int i =>
    match v with
    | .scalar x => .ok { a with dct := a.dct.setNZ i x }
    | _ => .error .index
  | .fancy l => (setMany a.dct l v).map (fun d => { a with dct := d })
  | .mask m => (setMany a.dct (maskIdx m) v).map (fun d => { a with dct := d })
  | .slice s e st =>
    if (Idx.slice s e st).isOpen then
      if same then .ok a else
      match v with
      | .sv b => .ok { a with dct := b.dct }                -- `dct.clear(); dct.update(value.dct)`
      | .seq l => .ok { a with dct := Dct.ofList l }        -- `enumerate(value)`: length not checked
      | .scalar x => .ok { a with dct := Dct.tabulate a.size (fun _ => x) }
      | .deep => .error .index
    else (setMany a.dct (defaultRange a.size s e st) v).map (fun d => { a with dct := d })

/-- `mix_from(others)`; `rep` = how many of the others *are* the receiver -/
def mixFrom (a : SV) (others : List SV) (rep : Nat) : SV :=
  let start : Dct := if rep = 0 then [] else a.dct.mapVals (· * rep)
  { a with dct := others.foldl (fun acc o => Dct.mergeWith (· + ·) acc o.dct) start }

end SV

end ThermoVerif.Sparse

/-! ## SparseLogicalVector kernels

`_i<op>_scalar`, `_i<op>_sparse`, `_i<op>_array` for `add` (or), `mul` (and), `truediv`, `and`,
`xor`, `or`.  The binary operators are `self.copy()._i<op>_…(other)`.  A sparse operand is given by
its size and its set of non-zero positions (`other.set`: for a SparseVector the keys of its dict). -/
namespace ThermoVerif.Sparse
open ThermoVerif.Dense

inductive LOp | add | mul | truediv | and | xor | or
  deriving DecidableEq, Repr, Inhabited

namespace SLV

def all (n : Nat) : List Nat := List.range n
def has0 (a : SLV) : Bool := a.mem 0
def copy (a : SLV) : SLV := ⟨a.size, a.set⟩
def isEmpty (a : SLV) : Bool := a.set.isEmpty

/-- `True + j` is falsy only for `j = -1` -/
def addTruth (m : Bool) (x : Rat) : Bool := if x = 0 then m else if m then decide (1 + x ≠ 0) else true

def iopScalar (op : LOp) (a : SLV) (x : Rat) : Except Err SLV :=
  match op with
  | .add => .ok (if x = 0 then a else ofPred a.size (fun i => addTruth (a.mem i) x))
  | .mul | .and => .ok (if x = 0 then ⟨a.size, []⟩ else a)
  | .truediv => if x = 0 then .error .zeroDiv else .ok a      -- `if not other and set` tests the builtin `set`
  | .xor => .ok (if x = 0 then a else ofPred a.size (fun i => !a.mem i))
  | .or => .ok (if x = 0 then a else ofPred a.size (fun _ => true))

/-- `b` : size and non-zero positions of the operand -/
def iopSparse (op : LOp) (a b : SLV) : Except Err SLV :=
  if a.size = b.size then
    match op with
    | .add | .or => .ok (ofPred a.size (fun i => a.mem i || b.mem i))
    | .mul | .and => .ok (ofPred a.size (fun i => a.mem i && b.mem i))
    | .xor => .ok (ofPred a.size (fun i => a.mem i != b.mem i))
    | .truediv => if a.set.any (fun i => !b.mem i) then .error .zeroDiv else .ok a
  else if a.size = 1 ∧ b.size ≠ 0 then
    match op with
    | .add | .or => .ok (if a.has0 then ofPred b.size (fun _ => true) else ofPred b.size b.mem)
    | .mul | .and => .ok (if a.has0 then ofPred b.size b.mem else ⟨b.size, []⟩)
    | .xor => .ok (if a.has0 then ofPred b.size (fun i => !b.mem i) else ofPred b.size b.mem)
    | .truediv =>        -- (C09-2: the code does not test the divisor here)
      if a.has0 then (if b.set.length ≠ b.size then .error .zeroDiv else .ok (ofPred b.size (fun _ => true)))
      else .ok ⟨b.size, []⟩
  else if b.size = 1 then
    match op with
    | .add | .or => .ok (if b.has0 then ofPred a.size (fun _ => true) else a)
    | .mul | .and => .ok (if b.has0 then a else ⟨a.size, []⟩)
    | .xor => .ok (if b.has0 then ofPred a.size (fun i => !a.mem i) else a)
    | .truediv => if !b.has0 && !a.isEmpty then .error .zeroDiv else .ok a
  else .error .shape

def iopArray (op : LOp) (a : SLV) (l : Vec) : Except Err SLV :=
  let nz (i : Nat) : Bool := l.getD i 0 != 0
  if a.size = l.length then
    match op with
    | .add => .ok (ofPred a.size (fun i => addTruth (a.mem i) (l.getD i 0)))
    | .or => .ok (ofPred a.size (fun i => a.mem i || nz i))
    | .mul | .and => .ok (ofPred a.size (fun i => a.mem i && nz i))
    | .xor => .ok (ofPred a.size (fun i => a.mem i != nz i))
    | .truediv => if a.set.any (fun i => !nz i) then .error .zeroDiv else .ok a
  else if a.size = 1 ∧ l.length ≠ 0 then
    match op with
    | .add | .or => .ok (if a.has0 then ofPred l.length (fun _ => true) else ofPred l.length nz)
    | .mul | .and => .ok (if a.has0 then ofPred l.length nz else ⟨l.length, []⟩)
    | .xor => .ok (if a.has0 then ofPred l.length (fun i => !nz i) else ofPred l.length nz)
    | .truediv =>
      if a.has0 then (if l.any (· == 0) then .error .zeroDiv else .ok (ofPred l.length (fun _ => true)))
      else .ok ⟨l.length, []⟩
  else .error .shape

/-- the operand of `_i<op>_sparse` when it is a float vector: `other.set` are the keys, `other.size` the size -/
def ofSV (b : SV) : SLV := ⟨b.size, b.dct.keys⟩

/-- set-based comparison kernels `_eq_sparse` … `_le_sparse` -/
def cmpSparse (op : Cmp) (a b : SLV) : Except Err SLV :=
  let v (m : Bool) : Rat := b2r m
  if a.size = b.size then .ok (ofPred a.size (fun i => op.eval (v (a.mem i)) (v (b.mem i))))
  else if b.size = 1 then .ok (ofPred a.size (fun i => op.eval (v (a.mem i)) (v (b.mem 0))))
  else if a.size = 1 ∧ b.size ≠ 0 then .ok (ofPred b.size (fun i => op.eval (v (a.mem 0)) (v (b.mem i))))
  else .error .shape

def cmpScalar (op : Cmp) (a : SLV) (x : Rat) : SLV :=
  ofPred a.size (fun i => op.eval (b2r (a.mem i)) x)

/-- template `sparse_logical_vector_scalar_array_comparison._<op>_array`: `size == 1` has no
`and other_size` guard and comes before `other_size == 1` -/
def cmpArray (op : Cmp) (a : SLV) (l : Vec) : Except Err SLV :=
  if a.size = l.length then .ok (ofPred a.size (fun i => op.eval (b2r (a.mem i)) (l.getD i 0)))
  else if a.size = 1 then .ok (ofPred l.length (fun i => op.eval (b2r (a.mem 0)) (l.getD i 0)))
  else if l.length = 1 then .ok (ofPred a.size (fun i => op.eval (b2r (a.mem i)) (l.getD 0 0)))
  else .error .shape

def invert (a : SLV) : SLV := ofPred a.size (fun i => !a.mem i)
def neg (a : SLV) : SV := ⟨a.size, a.set.map (fun i => (i, -1)), false⟩

def count (a : SLV) : Nat := a.set.length
def any (a : SLV) : Bool := !a.set.isEmpty
def allTrue (a : SLV) : Bool := a.set.length == a.size
def mean (a : SLV) : Rat := if a.set.isEmpty then 0 else (a.set.length : Rat) / a.size
def max (a : SLV) : Except Err Rat := if !a.set.isEmpty then .ok 1 else if a.size ≠ 0 then .ok 0 else .error .value
def min (a : SLV) : Except Err Rat :=
  if !a.set.isEmpty then .ok (b2r (decide (a.set.length ≥ a.size))) else if a.size ≠ 0 then .ok 0 else .error .value

def getItem (a : SLV) : Idx → GetRes
  | .int i => .scalar (b2r (a.mem i))
  | .slice s e st => if (Idx.slice s e st).isOpen then .self else .dense ((defaultRange a.size s e st).map (fun i => b2r (a.mem i)))
  | .fancy l => .dense (l.map (fun i => b2r (a.mem i)))
  | .mask m => .dense ((maskIdx m).map (fun i => b2r (a.mem i)))

def setOne (s : List Nat) (i : Nat) (x : Rat) : List Nat :=
  if x = 0 then s.filter (· != i) else if s.contains i then s else i :: s

def setMany (s : List Nat) (idx : List Nat) : SV.Val → Except Err (List Nat)
  | .scalar x => .ok (idx.foldl (fun acc i => setOne acc i x) s)
  | .deep => .error .index
  | v => .ok ((List.zip idx v.dense).foldl (fun acc p => setOne acc p.1 p.2) s)

/-- `__setitem__`; `keys` = the `.set` of a sparse value assigned with `x[:] = value` -/
def setItem (a : SLV) (idx : Idx) (v : SV.Val) (same : Bool := false) (keys : Option (List Nat) := none) :
    Except Err SLV :=
  match idx with
  | .int i =>
    match v with
    | .scalar x => .ok { a with set := setOne a.set i x }
    | _ => .error .index
  | .fancy l => (setMany a.set l v).map (fun d => { a with set := d })
  | .mask m => (setMany a.set (maskIdx m) v).map (fun d => { a with set := d })
  | .slice s e st =>
    if (Idx.slice s e st).isOpen then
      if same then .ok a else
      match v, keys with
      | .scalar x, _ => .ok (if x = 0 then { a with set := [] } else { a with set := all a.size })
      | .deep, _ => .error .index
      | _, some ks => .ok { a with set := ks }                 -- `set.update(value.set)`: size not checked
      | w, none => .ok { a with set := (List.range w.dense.length).filter (fun i => w.dense.getD i 0 != 0) }
    else (setMany a.set (defaultRange a.size s e st) v).map (fun d => { a with set := d })

end SLV

end ThermoVerif.Sparse
