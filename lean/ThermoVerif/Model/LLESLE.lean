/-
Model of the decision logic and bookkeeping of liquid-liquid and solid-liquid
equilibrium in thermosteam:

  * `LLE.__call__` (thermosteam/equilibrium/lle.py): normalisation of the feed, the
    cache decision, the cached-path formulae, the solver's output convention, the
    top-chemical swap, the `K`/`phi` bookkeeping and the write-back;
  * `psuedo_equilibrium_inner_loop` and the closing formula of `pseudo_equilibrium`;
  * `SLE._update_solubility`, the pure-solute branch and the part of `SLE._setup`
    that decides between them (thermosteam/equilibrium/sle.py).

Core Lean only.  Every definition is written once, polymorphic in the scalar type:
the driver instantiates it with `Float`, the theorems (Props/C15.lean) with any
linearly ordered field.  External numerics are parameters: the Rachford–Rice root
(`phase_fraction`), the equilibrium solver (`solve_lle_liquid_mol`), the activity
coefficient function and the eutectic solubility.

The cache decision is modelled in two versions: `useCacheCode` is the comparison
as first found in the code (`T - T_last < tol`, `z_last - z < tol`, no absolute value),
`useCacheFixed` is the two-sided test.  `call` uses the FIXED test (see
fixes_proposed/C15-1.md).
-/
namespace ThermoVerif.LLESLE

section generic
variable {α : Type} [Zero α] [One α] [Add α] [Sub α] [Mul α] [Div α] [Neg α]
  [LT α] [DecidableLT α] [LE α] [DecidableLE α]

/-- `abs` written with the order only -/
def absv (x : α) : α := if x < 0 then -x else x

/-- Python truthiness of a float (`if F_mol:`), written with the order only -/
def nz (x : α) : Bool := decide (x < 0) || decide (0 < x)

/-- `ndarray.sum()` of a short 1-d array: left to right -/
def vsum (l : List α) : α := l.foldl (· + ·) 0

def vsub (a b : List α) : List α := List.zipWith (· - ·) a b
def vmul (a b : List α) : List α := List.zipWith (· * ·) a b
def vscale (a : List α) (k : α) : List α := a.map (· * k)

/-- `mol / mol.sum()` -/
def normalize (mol : List α) : List α := mol.map (· / vsum mol)

/-! ### the state kept between calls -/

/-- `_lle_chemicals, _T, _z_mol, _K, _phi` after a call that found ≥ 2 chemicals -/
structure Stored (α : Type) where
  chems : List Nat
  T : α
  z : List α
  K : List α
  phi : α

structure Query (α : Type) where
  useCache : Bool
  chems : List Nat
  T : α
  z : List α

/-- the comparison the code had:
`use_cache and self._lle_chemicals == lle_chemicals and T - self._T < tolT and (self._z_mol - z_mol < tolZ).all()` -/
def useCacheCode (tolT tolZ : α) (st : Stored α) (q : Query α) : Bool :=
  q.useCache && (st.chems == q.chems) && decide (q.T - st.T < tolT)
    && (List.zipWith (fun a b => decide (a - b < tolZ)) st.z q.z).all id

/-- the two-sided comparison (the repaired code) -/
def useCacheFixed (tolT tolZ : α) (st : Stored α) (q : Query α) : Bool :=
  q.useCache && (st.chems == q.chems) && decide (absv (q.T - st.T) < tolT)
    && (List.zipWith (fun a b => decide (absv (a - b) < tolZ)) st.z q.z).all id

/-! ### the two ways a split is produced -/

/-- one entry of `y = z*K / (phi*K + (1 - phi))` -/
def yEntry (phi zi Ki : α) : α := zi * Ki / (phi * Ki + (1 - phi))

/-- cached path: `(mol_l, mol_L)` from the remembered `K` and the Rachford–Rice root `phi` -/
def cachedSplit (z K : List α) (phi : α) : List α × List α :=
  if 1 ≤ phi then (z, z.map (fun v => 0 * v))
  else
    let l := (List.zipWith (yEntry phi) z K).map (· * phi)
    (l, vsub z l)

/-- one entry of the solver's output convention `z/(1 + phi*(K - 1)) * (1 - phi)` -/
def xEntry (phi zi Ki : α) : α := zi / (1 + phi * (Ki - 1)) * (1 - phi)

/-- closing formula of `pseudo_equilibrium`: the `mol_L` it returns for a converged `(K, phi)` -/
def solverOut (z K : List α) (phi : α) : List α := List.zipWith (xEntry phi) z K

/-- solver path: `mol_L` is the solver's answer, `mol_l = mol - mol_L` -/
def solveSplit (z molL : List α) : List α × List α := (vsub z molL, molL)

/-! ### top-chemical swap -/

/-- mass fraction of entry `t` -/
def massFrac (MW mol : List α) (t : Nat) : α := (vmul mol MW).getD t 0 / vsum (vmul mol MW)

/-- does the code exchange `mol_l` and `mol_L`? -/
def topSwap (MW : List α) (top : Option Nat) (l L : List α) : Bool :=
  match top with
  | none => false
  | some t =>
    let ML := vsum (vmul L MW)
    let Ml := vsum (vmul l MW)
    if nz ML && nz Ml then decide (massFrac MW L t < massFrac MW l t)
    else nz Ml

def applySwap (sw : Bool) (p : List α × List α) : List α × List α := if sw then (p.2, p.1) else p

/-! ### K / phi bookkeeping -/

/-- `(self._K, self._phi)` from the final `(mol_l, mol_L)`; `eps = 1e-16`, `big = 1e16` -/
def bookkeep (eps big : α) (l L : List α) : List α × α :=
  let Fl := vsum l
  let FL := vsum L
  if !nz FL then (l.map (fun _ => 0), 0)
  else if !nz Fl then (l.map (fun _ => big * 1), 1)
  else
    let xl := l.map (fun v => let x := v / Fl; if x < eps then eps else x)
    let xL := L.map (· / FL)
    (List.zipWith (· / ·) xL xl, FL / (FL + Fl))

/-! ### the whole call -/

structure Params (α : Type) where
  tolT : α
  tolZ : α
  eps : α
  big : α

inductive Path where
  | none | cache | solve
  deriving DecidableEq, Repr

structure CallIn (α : Type) where
  useCache : Bool
  chems : List Nat
  T : α
  /-- liquid flows of the chemicals that take part -/
  mol : List α
  MW : List α
  /-- position of the top chemical among `chems`, if named and present -/
  top : Option Nat

structure CallOut (α : Type) where
  path : Path
  swapped : Bool
  /-- flows written to `imol['l']`, `imol['L']` -/
  l : List α
  L : List α

/-- everything `LLE.__call__` does after normalising the feed to `z`: decision, split, swap,
bookkeeping.  Returns the new remembered state and the final `(mol_l, mol_L)` per unit feed. -/
def callCore (p : Params α) (rr : List α → List α → α → Option α)
    (solve : Option (Stored α) → Query α → List α)
    (st : Option (Stored α)) (c : CallIn α) (z : List α) :
    Stored α × Path × Bool × (List α × List α) :=
  let q : Query α := { useCache := c.useCache, chems := c.chems, T := c.T, z := z }
  -- cached path: only if the test accepts AND the Rachford–Rice routine returns (it raises
  -- ZeroDivisionError on degenerate remembered coefficients; the call then solves instead,
  -- fixes_proposed/C15-4.md)
  let cached : Option (List α × List α) :=
    match st with
    | some s => if useCacheFixed p.tolT p.tolZ s q then (rr z s.K s.phi).map (cachedSplit z s.K) else none
    | none => none
  let (path, split) :=
    match cached with
    | some sp => (Path.cache, sp)
    | none =>
      -- a different set of chemicals forgets the remembered guess
      let guess := match st with
        | some s => if s.chems == c.chems then some s else none
        | none => none
      (Path.solve, solveSplit z (solve guess q))
  let sw := topSwap c.MW c.top split.1 split.2
  let fin := applySwap sw split
  let (K, phi) := bookkeep p.eps p.big fin.1 fin.2
  ({ chems := c.chems, T := c.T, z := z, K := K, phi := phi }, path, sw, fin)

/-- `LLE.__call__(T, top_chemical, use_cache, update=True)`.
`rr z K phi` is `phase_fraction` (`none` when it raises); `solve st q` is `solve_lle_liquid_mol` (it sees the remembered
`K, phi` as an initial guess and the normalised feed). -/
def call (p : Params α) (rr : List α → List α → α → Option α)
    (solve : Option (Stored α) → Query α → List α)
    (st : Option (Stored α)) (c : CallIn α) : Option (Stored α) × CallOut α :=
  let F := vsum c.mol
  if !(nz F && decide (1 < c.chems.length)) then
    (st, { path := .none, swapped := false, l := [], L := [] })
  else
    let r := callCore p rr solve st c (normalize c.mol)
    (some r.1, { path := r.2.1, swapped := r.2.2.1, l := vscale r.2.2.2.1 F, L := vscale r.2.2.2.2 F })

/-- `LLE.__call__(…, update=False)` when there is nothing to split (empty feed or fewer than two
chemicals): the `(K, phi)` it returns.  Everything is put in `l`, then exchanged if the named top
chemical is present (`0 < mol[top]`). -/
def degenerateKphi (big : α) (mol : List α) (top : Option Nat) : List α × α :=
  let swap := match top with
    | some t => decide (0 < mol.getD t 0)
    | none => false
  if swap && nz (vsum mol) then (mol.map (fun _ => big * 1), 1) else (mol.map (fun _ => 0), 0)

/-! ### pseudo-equilibrium iteration -/

/-- `x = z/(1 + phi*(K - 1))`, normalised -/
def xOf (z K : List α) (phi : α) : List α :=
  normalize (List.zipWith (fun zi Ki => zi / (1 + phi * (Ki - 1))) z K)

/-- `y = K*x`, normalised, with `K = gammax / gammay` -/
def yOf (x gammax gammay : List α) : List α :=
  normalize (vmul (List.zipWith (· / ·) gammax gammay) x)

/-- `psuedo_equilibrium_inner_loop` as it is in the code: the state is `(log K, gamma_y)`.
The line `logKgammay_new[n:] = np.log(K)` is immediately overwritten by
`logKgammay_new[n:] = gammay`, so the `log K` half is returned unchanged. -/
def innerCode (gamma : List α → List α) (exp : α → α) (z : List α) (phi : α)
    (s : List α × List α) : List α × List α :=
  let K := s.1.map exp
  let x := xOf z K phi
  let gammax := gamma x
  let y := yOf x gammax s.2
  (s.1, gamma y)

/-- the inner loop with the `log K` half updated (what the iteration is meant to be) -/
def innerFixed (gamma : List α → List α) (exp log : α → α) (z : List α) (phi : α)
    (s : List α × List α) : List α × List α :=
  let K := s.1.map exp
  let x := xOf z K phi
  let gammax := gamma x
  let y := yOf x gammax s.2
  let gammay := gamma y
  ((List.zipWith (· / ·) gammax gammay).map log, gammay)

/-! ### solid-liquid equilibrium -/

/-- `SLE._update_solubility(x)`; `idx` is `self._index`, `s` the solute, `m` the solute present -/
def updateSolubility (x : α) (liquid solid : List α) (idx : List Nat) (s : Nat) (m : α) :
    List α × List α :=
  let Fliq := vsum (idx.map (fun i => liquid.getD i 0)) - liquid.getD s 0
  let xmax := m / (Fliq + m)
  if x < 0 then (liquid.set s 0, solid.set s m)
  else if xmax ≤ x then (liquid.set s m, solid.set s 0)
  else
    let d := Fliq * x / (1 - x)
    (liquid.set s d, solid.set s (m - d))

/-- pure-solute branch for a given temperature -/
def pureSolute (T Tm : α) (liquid solid : List α) (s : Nat) (m : α) : List α × List α :=
  if Tm < T then (liquid.set s m, solid.set s 0) else (liquid.set s 0, solid.set s m)

/-- `_nonzero` (the set of chemicals the solver was last set up for) and whether `_chemical` is set.
Written to the repaired `_setup` (fixes_proposed/C15-5.md): a set-up for another set of chemicals
records that set and sets OR CLEARS `_chemical`; as first found, `_chemical` was never cleared, so after
one pure-solute call every later call took the pure-solute branch, with the melting point of that first
chemical. -/
structure SleState where
  nonzero : Option (List Nat) := none
  pure : Bool := false
  deriving Repr

inductive SleErr where
  | noSolute
  deriving DecidableEq, Repr

structure SleIn (α : Type) where
  solute : Nat
  T : α
  Tm : α
  /-- solubility passed by the caller -/
  given : Option α
  /-- what `_solve_x(T)` returns (parameter) -/
  computed : α
  liquid : List α
  solid : List α
  /-- sorted indices of chemicals present in either phase -/
  nonzero : List Nat
  /-- `chemicals.get_lle_indices(nonzero)` -/
  idx : List Nat
  /-- all chemical indices (`slice(None)`) -/
  all : List Nat

/-- the part of `SLE._setup` that keeps `_nonzero` / `_chemical`: nothing when the set of chemicals
present is the one it was last set up for; otherwise the set is recorded and the solver is in the
pure-solute mode exactly when one chemical takes part -/
def sleSetup (st : SleState) (nonzero idx : List Nat) : SleState :=
  if st.nonzero == some nonzero then st
  else { nonzero := some nonzero, pure := idx.length == 1 }

/-- the rows after a computed-solubility call -/
def sleRows (isPure : Bool) (c : SleIn α) (m : α) : List α × List α :=
  if isPure then pureSolute c.T c.Tm c.liquid c.solid c.solute m
  else updateSolubility c.computed c.liquid c.solid c.idx c.solute m

/-- `SLE.__call__(solute, T=…, solubility=…)`, with the given-solubility branch reading the
current rows and leaving `_index` alone (fixes_proposed/C15-2.md).  Returns the new state, whether the
pure-solute branch ran, and the `(liquid, solid)` rows. -/
def sleCall (st : SleState) (c : SleIn α) : Except SleErr (SleState × Bool × (List α × List α)) :=
  match c.given with
  | some x =>
    .ok (st, false, updateSolubility x c.liquid c.solid c.all c.solute
                      (c.solid.getD c.solute 0 + c.liquid.getD c.solute 0))
  | none =>
    let m := c.liquid.getD c.solute 0 + c.solid.getD c.solute 0
    if !nz m then .error .noSolute
    else
      let st' := sleSetup st c.nonzero c.idx
      .ok (st', st'.pure, sleRows st'.pure c m)

end generic

/-! ### which material data the solver of a stream is bound to

`MultiStream.reset_cache` builds `VLECache/LLECache/SLECache(self._imol, …)`; `Cache.retrieve`
(thermosteam/utils/cache.py) loads the solver from `Cache.args` on first use and afterwards returns
the loaded one WITHOUT looking at `args` again; the `phases` setter replaces `self._imol` by a new
indexer and calls `reset_cache()` when the set of phases changes.  Identities (`is`) are ids. -/

/-- a `Cache` object: `args` (the indexer it would load with) and `value` (the indexer the loaded
solver is bound to, if one is loaded) -/
structure CacheM where
  args : Nat
  value : Option Nat
  deriving DecidableEq, Repr

inductive Kind where
  | vle | lle | sle
  deriving DecidableEq, Repr

structure StreamM where
  /-- identity of the stream's material indexer -/
  imol : Nat
  /-- next unused identity -/
  next : Nat
  vle : CacheM
  lle : CacheM
  sle : CacheM
  deriving DecidableEq, Repr

def StreamM.init : StreamM :=
  { imol := 0, next := 1, vle := ⟨0, none⟩, lle := ⟨0, none⟩, sle := ⟨0, none⟩ }

def StreamM.cache (m : StreamM) : Kind → CacheM
  | .vle => m.vle | .lle => m.lle | .sle => m.sle

/-- `reset_cache()`: three new, unloaded caches for the current indexer -/
def StreamM.resetCache (m : StreamM) : StreamM :=
  { m with vle := ⟨m.imol, none⟩, lle := ⟨m.imol, none⟩, sle := ⟨m.imol, none⟩ }

/-- `ms.phases = …`: nothing happens for the same set of phases; otherwise a new indexer and
`reset_cache()` -/
def StreamM.setPhases (m : StreamM) (changes : Bool) : StreamM :=
  if changes then ({ m with imol := m.next, next := m.next + 1 } : StreamM).resetCache else m

def CacheM.retrieve (c : CacheM) : CacheM × Nat :=
  match c.value with
  | some b => (c, b)
  | none => ({ c with value := some c.args }, c.args)

/-- `cache.retrieve()`: the new stream state and the indexer the returned solver works on -/
def StreamM.retrieve (m : StreamM) : Kind → StreamM × Nat
  | .vle => let r := m.vle.retrieve; ({ m with vle := r.1 }, r.2)
  | .lle => let r := m.lle.retrieve; ({ m with lle := r.1 }, r.2)
  | .sle => let r := m.sle.retrieve; ({ m with sle := r.1 }, r.2)

inductive SOp where
  | setPhases (changes : Bool)
  | retrieve (k : Kind)
  | resetCache
  deriving DecidableEq, Repr

def StreamM.step (m : StreamM) : SOp → StreamM
  | .setPhases c => m.setPhases c
  | .retrieve k => (m.retrieve k).1
  | .resetCache => m.resetCache

def StreamM.run (m : StreamM) (ops : List SOp) : StreamM := ops.foldl StreamM.step m

/-- a `phases` setter that keeps the cache objects and only re-points their `args` (NOT what the
code does; kept to show why `reset_cache()` is needed, Props/C15 `repoint_counterexample`) -/
def StreamM.setPhasesRepoint (m : StreamM) (changes : Bool) : StreamM :=
  if changes then
    { m with imol := m.next, next := m.next + 1,
             vle := { m.vle with args := m.next }, lle := { m.lle with args := m.next },
             sle := { m.sle with args := m.next } }
  else m

end ThermoVerif.LLESLE
