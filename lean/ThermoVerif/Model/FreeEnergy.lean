import ThermoVerif.Generated.FreeEnergy
/-
C07 — hand model of the code around the translated functors (Generated/FreeEnergy.lean).
Core Lean only (compiled into the driver executable); generic in the scalar type `α`
(ℝ in Props/C07.lean, Float in Driver/C07.lean).

Mirrors, as the code is:
  * `Chemical._init_energies` (thermosteam/_chemical.py): which integral constant is computed under
    which guard and passed in which POSITION of which functor's data tuple, for the three reference
    phases and for phase-locked chemicals;  `Functor.from_args` (= `dict(zip(params, data))`);
  * `PhaseTPHandle.__call__` (dispatch on the phase; the class switch `force_gas_critical_phase`: `effPhase`, `Hforce`);
  * `_init_data`: `Sfus = Hfus / Tm if (Tm and Hfus is not None) else None` on the stored values; the `Tm` / `Hfus`
    setters keeping a derived Sfus consistent (`sfusAfterEdit`, fix C07-5);
  * `IdealTPMixtureModel`, `IdealTMixtureModel`, `IdealEntropyModel` (thermosteam/mixture/ideal_mixture_model.py),
    `Mixture.S` (empty stream → 0), `Mixture.xH/xS/xCn`, and `Mixture.H/S` with `include_excess_energies`
    (`mixtureHx`, `mixtureSx`; the per-chemical excess values are parameters).
A Python `None` is `Option.none`; arithmetic on `None` raises `TypeError`, which is `Err.typeError`.
-/
namespace ThermoVerif.FreeEnergy

inductive Phase where
  | s | l | g
  deriving DecidableEq, Repr

def Phase.name : Phase → String
  | .s => "s" | .l => "l" | .g => "g"

/-- The phase LABELS the handles accept: `getattr(handle, label)` — the slots `s`, `l`, `g` and the alias properties
`PhaseHandle.S` (→ `s`) and `PhaseHandle.L` (→ `l`, the label of a second liquid phase).  Any other label is an
`AttributeError`. -/
def phaseOfLabel : String → Option Phase
  | "s" => some .s | "l" => some .l | "g" => some .g
  | "S" => some .s | "L" => some .l
  | _ => none

inductive Err where
  | typeError
  deriving DecidableEq, Repr

/-- one element of a functor's data tuple: a heat-capacity object (tagged with the phase it belongs to, for
printing only) or a number / `None` -/
inductive Arg (α : Type) where
  | cn (C : HeatCap α) (tag : Phase)
  | val (v : Option α)

/-- a functor object: its class and its positional data (`Functor.from_args(data)`) -/
structure Inst (α : Type) where
  fn : Fn
  data : List (Arg α)

/-- what `_init_energies` leaves in `chemical._H`, `chemical._S` -/
inductive Energies (α : Type) where
  /-- no heat-capacity model at all: `_H = _S = None` -/
  | none
  /-- phase-locked chemical: plain functors of (T, P) -/
  | locked (H S : Inst α)
  /-- `PhaseTPHandle`s with one functor per phase -/
  | handles (Hs Hl Hg Ss Sl Sg : Inst α)

/-- the arguments of `_init_energies` that matter for `_H` and `_S` -/
structure ChemIn (α : Type) where
  phaseRef : Phase
  /-- `chemical._locked_state` -/
  locked : Option Phase
  /-- `bool(Cn.s)`, `bool(Cn.l)`, `bool(Cn.g)`: a heat-capacity method is set
      (for a locked chemical only the flag of the locked phase is read) -/
  hasS : Bool
  hasL : Bool
  hasG : Bool
  Tm : Option α
  Tb : Option α
  Hfus : Option α
  Sfus : Option α
  /-- what `Hvap(Tb)` returns (`none` when there is no Hvap model); read only when `Tb` is truthy -/
  HvapAtTb : Option α
  S0 : Option α
  T_ref : α
  P_ref : α
  H_ref : α

section
variable {α : Type} [Add α] [Sub α] [Mul α] [Div α] [Neg α]

/-- Python truth value of an optional number -/
def truthy (E : Env α) : Option α → Bool
  | some v => !E.isZero v
  | none => false

/-- `Chemical._set_phase_ref` when no reference phase is given: the phase at `T_ref`
(`if Tm and T_ref <= Tm: 's' elif Tb and T_ref >= Tb: 'g' else: 'l'`) -/
def defaultPhaseRef (E : Env α) (T_ref : α) (Tm Tb : Option α) : Phase :=
  match (if truthy E Tm then Tm else none) with
  | some tm =>
    if E.le T_ref tm then .s else
      match (if truthy E Tb then Tb else none) with
      | some tb => if E.le tb T_ref then .g else .l
      | none => .l
  | none =>
    match (if truthy E Tb then Tb else none) with
    | some tb => if E.le tb T_ref then .g else .l
    | none => .l

/-- `Cn.T_dependent_property_integral(a, b)` with possibly-`None` bounds, under guard `c` (else `None`) -/
def guardedInt (c : Bool) (f : α → α → α) (a b : Option α) : Option α :=
  if c then a.bind fun x => b.bind fun y => some (f x y) else none

/-- `Chemical._init_energies`.  `Cs Cl Cg` are the three heat-capacity objects (for a locked chemical the
single model is passed in the position of its phase). -/
def initEnergies (E : Env α) (Cs Cl Cg : HeatCap α) (c : ChemIn α) : Energies α :=
  let tr := truthy E
  -- has_Cn flags
  let hasS := match c.locked with | none => c.hasS | some p => p == .s && c.hasS
  let hasL := match c.locked with | none => c.hasL | some p => p == .l && c.hasL
  let hasG := match c.locked with | none => c.hasG | some p => p == .g && c.hasG
  if !(hasS || hasL || hasG) then .none else
  let Tref : Option α := some c.T_ref
  let Href : Option α := some c.H_ref
  let Pref : Option α := some c.P_ref
  -- Hvap_Tb = Hvap(Tb) if Tb else None ; Svap_Tb = Hvap_Tb / Tb if Hvap_Tb else None
  let HvapTb : Option α := if tr c.Tb then c.HvapAtTb else none
  let SvapTb : Option α := if tr HvapTb then HvapTb.bind fun h => c.Tb.bind fun tb => some (h / tb) else none
  match c.locked with
  | some p =>
    -- "Reference state does not matter because phase will not change"
    let C := match p with | .s => Cs | .l => Cl | .g => Cg
    let H : Inst α := ⟨.Enthalpy, [.cn C p, .val Tref, .val Href]⟩
    let S : Inst α := if c.phaseRef == .g then ⟨.EntropyGas, [.cn C p, .val Tref, .val Pref, .val c.S0]⟩
                      else ⟨.Entropy, [.cn C p, .val Tref, .val c.S0]⟩
    .locked H S
  | none =>
    -- integrals between T_ref, Tm, Tb
    let H_int_Tm_to_Tb_l := guardedInt (c.phaseRef != .l && hasL && (tr c.Tm && tr c.Tb)) Cl.I c.Tm c.Tb
    let S_int_Tm_to_Tb_l := guardedInt (c.phaseRef != .l && hasL && (tr c.Tm && tr c.Tb)) Cl.J c.Tm c.Tb
    let H_int_T_ref_to_Tm_s := guardedInt (c.phaseRef == .s && hasS && tr c.Tm) Cs.I Tref c.Tm
    let S_int_T_ref_to_Tm_s := guardedInt (c.phaseRef == .s && hasS && tr c.Tm) Cs.J Tref c.Tm
    let H_int_Tb_to_T_ref_g := guardedInt (c.phaseRef == .g && hasG && tr c.Tb) Cg.I c.Tb Tref
    let S_int_Tb_to_T_ref_g := guardedInt (c.phaseRef == .g && hasG && tr c.Tb) Cg.J c.Tb Tref
    let H_int_T_ref_to_Tb_l := guardedInt (c.phaseRef == .l && hasL && tr c.Tb) Cl.I Tref c.Tb
    let S_int_T_ref_to_Tb_l := guardedInt (c.phaseRef == .l && hasL && tr c.Tb) Cl.J Tref c.Tb
    let H_int_Tm_to_T_ref_l := guardedInt (c.phaseRef == .l && hasL && tr c.Tm) Cl.I c.Tm Tref
    let S_int_Tm_to_T_ref_l := guardedInt (c.phaseRef == .l && hasL && tr c.Tm) Cl.J c.Tm Tref
    let cs : Arg α := .cn Cs .s
    let cl : Arg α := .cn Cl .l
    let cg : Arg α := .cn Cg .g
    let v (x : Option α) : Arg α := .val x
    match c.phaseRef with
    | .s =>
      let bH := Builder.EnthalpyRefSolid
      let bS := Builder.EntropyRefSolid
      .handles
        ⟨bH.s, [cs, v Tref, v Href]⟩
        ⟨bH.l, [cl, v H_int_T_ref_to_Tm_s, v c.Hfus, v c.Tm, v Href]⟩
        ⟨bH.g, [cg, v H_int_T_ref_to_Tm_s, v c.Hfus, v H_int_Tm_to_Tb_l, v HvapTb, v c.Tb, v Href]⟩
        ⟨bS.s, [cs, v Tref, v c.S0]⟩
        ⟨bS.l, [cl, v S_int_T_ref_to_Tm_s, v c.Sfus, v c.Tm, v c.S0]⟩
        ⟨bS.g, [cg, v S_int_T_ref_to_Tm_s, v c.Sfus, v S_int_Tm_to_Tb_l, v SvapTb, v c.Tb, v Pref, v c.S0]⟩
    | .l =>
      let bH := Builder.EnthalpyRefLiquid
      let bS := Builder.EntropyRefLiquid
      .handles
        ⟨bH.s, [cs, v H_int_Tm_to_T_ref_l, v c.Hfus, v c.Tm, v Href]⟩
        ⟨bH.l, [cl, v Tref, v Href]⟩
        ⟨bH.g, [cg, v H_int_T_ref_to_Tb_l, v HvapTb, v c.Tb, v Href]⟩
        ⟨bS.s, [cs, v S_int_Tm_to_T_ref_l, v c.Sfus, v c.Tm, v c.S0]⟩
        ⟨bS.l, [cl, v Tref, v c.S0]⟩
        ⟨bS.g, [cg, v S_int_T_ref_to_Tb_l, v SvapTb, v c.Tb, v Pref, v c.S0]⟩
    | .g =>
      let bH := Builder.EnthalpyRefGas
      let bS := Builder.EntropyRefGas
      .handles
        ⟨bH.s, [cs, v H_int_Tb_to_T_ref_g, v HvapTb, v H_int_Tm_to_Tb_l, v c.Hfus, v c.Tm, v Href]⟩
        ⟨bH.l, [cl, v H_int_Tb_to_T_ref_g, v HvapTb, v c.Tb, v Href]⟩
        ⟨bH.g, [cg, v Tref, v Href]⟩
        ⟨bS.s, [cs, v S_int_Tb_to_T_ref_g, v SvapTb, v S_int_Tm_to_Tb_l, v c.Sfus, v c.Tm, v c.S0]⟩
        ⟨bS.l, [cl, v S_int_Tb_to_T_ref_g, v SvapTb, v c.Tb, v c.S0]⟩
        ⟨bS.g, [cg, v Tref, v Pref, v c.S0]⟩

/-- association-list lookup (first match) -/
def lookupPar (p : Par) : List (Par × Arg α) → Option (Arg α)
  | [] => none
  | (q, a) :: rest => if p = q then some a else lookupPar p rest

/-- `dict(zip(params, data))[p]` (parameter names are distinct, so first match = the dict entry) -/
def Inst.arg (i : Inst α) (p : Par) : Option (Arg α) :=
  lookupPar p (i.fn.params.zip i.data)

def Inst.cnOf (i : Inst α) (p : Par) : Option (HeatCap α) :=
  match i.arg p with
  | some (.cn C _) => some C
  | _ => none

def Inst.valOf (i : Inst α) (p : Par) : Option α :=
  match i.arg p with
  | some (.val v) => v
  | _ => none

/-- calling the functor object: `self.function(T, P, **self.__dict__)` -/
def Inst.eval (E : Env α) (i : Inst α) (T P : α) : Except Err α :=
  match call E i.fn T P i.cnOf i.valOf with
  | some x => .ok x
  | none => .error .typeError

/-- `chemical.H(phase, T, P)` (`chemical.H(T, P)` for a locked chemical, whatever the phase asked for) -/
def Energies.H (E : Env α) (w : Energies α) (ph : Phase) (T P : α) : Except Err α :=
  match w with
  | .none => .error .typeError
  | .locked h _ => h.eval E T P
  | .handles hs hl hg _ _ _ => (match ph with | .s => hs | .l => hl | .g => hg).eval E T P

/-- `chemical.S(phase, T, P)` -/
def Energies.S (E : Env α) (w : Energies α) (ph : Phase) (T P : α) : Except Err α :=
  match w with
  | .none => .error .typeError
  | .locked _ s => s.eval E T P
  | .handles _ _ _ ss sl sg => (match ph with | .s => ss | .l => sl | .g => sg).eval E T P

/-- `PhaseTHandle/PhaseTPHandle.__call__`: `if self.force_gas_critical_phase and T > self.Tc: phase = 'g'`
(`force` is the class attribute, False by default) -/
def effPhase (E : Env α) (force : Bool) (Tc T : α) (ph : Phase) : Phase :=
  if force && !E.le T Tc then .g else ph

/-- `chemical.H(phase, T, P)` with the class switch `force_gas_critical_phase` (a locked chemical has plain
functors, which ignore the phase) -/
def Energies.Hforce (E : Env α) (force : Bool) (Tc : α) (w : Energies α) (ph : Phase) (T P : α) : Except Err α :=
  w.H E (effPhase E force Tc T ph) T P

def Energies.Sforce (E : Env α) (force : Bool) (Tc : α) (w : Energies α) (ph : Phase) (T P : α) : Except Err α :=
  w.S E (effPhase E force Tc T ph) T P

/-- `_init_data` (after fix 7c3427a): `Sfus = Hfus / Tm if (Tm and Hfus is not None) else None`, on the STORED
values (`self._Hfus`, `self._Tm`: constructor argument or database value). -/
def initSfus (E : Env α) (Hfus Tm : Option α) : Option α :=
  if truthy E Tm then Hfus.bind fun h => Tm.bind fun t => some (h / t) else none

/-- The `Tm` and `Hfus` setters (after fix C07-5): an entropy of fusion that is the derived one (`None`, or exactly
`Hfus / Tm` of the values before the edit) follows the edit; a value the user set independently through the `Sfus`
setter is kept.  Arguments: the stored Sfus, Hfus, Tm before the edit and Hfus, Tm after it. -/
def sfusAfterEdit (E : Env α) (sfusOld HfusOld TmOld HfusNew TmNew : Option α) : Option α :=
  let derived : Bool :=
    match sfusOld with
    | none => true
    | some s =>
      match (if truthy E TmOld then TmOld else none), HfusOld with
      | some t, some h => E.isZero (s - h / t)
      | _, _ => false
  if derived then
    match initSfus E HfusNew TmNew with
    | some x => some x
    | none => sfusOld
  else sfusOld

/-! ### Mixture models -/

variable [OfNat α 0]

/-- Python `sum([...])` (start value 0) -/
def sumList (l : List α) : α := l.foldl (· + ·) 0

/-- `mol.dct.items()` of a SparseVector zipped with the per-chemical values: only non-zero amounts are visited -/
def nonzero (E : Env α) (mol vals : List α) : List (α × α) :=
  (mol.zip vals).filter fun p => !E.isZero p.1

/-- `IdealTPMixtureModel.__call__` / `IdealTMixtureModel.__call__`: `sum([j * models[i](phase, T, P) for i, j in mol.dct.items()])`;
`vals` are the pure-component values `models[i](phase, T, P)` -/
def idealMix (E : Env α) (mol vals : List α) : α :=
  sumList ((nonzero E mol vals).map fun p => p.1 * p.2)

/-- `SparseVector.sum()` -/
def molTotal (E : Env α) (mol : List α) : α :=
  sumList (mol.filter fun n => !E.isZero n)

/-- `IdealEntropyModel.__call__` AS IT IS:
`sum([j * models[i](phase, T, P) + j * log(j / total_mol) for i, j in mol.dct.items()])` -/
def idealEntropy (E : Env α) (mol vals : List α) : α :=
  let N := molTotal E mol
  sumList ((nonzero E mol vals).map fun p => p.1 * p.2 + p.1 * E.log (p.1 / N))

/-- `Mixture.S` with `include_excess_energies = False`: `0.` for an empty `mol` -/
def mixtureS (E : Env α) (mol vals : List α) : α :=
  if (mol.filter fun n => !E.isZero n).isEmpty then 0 else idealEntropy E mol vals

/-- `Mixture.H`: `H = self._H(phase, mol, T, P); if self.include_excess_energies: H += self._H_excess(phase, mol, T, P)`;
`_H_excess` is an `IdealTPMixtureModel` over the chemicals' excess-enthalpy handles, whose values `ex` are parameters
(they come from the equation of state) -/
def mixtureHx (E : Env α) (incl : Bool) (mol vals ex : List α) : α :=
  if incl then idealMix E mol vals + idealMix E mol ex else idealMix E mol vals

/-- `Mixture.S` with the flag: `0.` for an empty `mol`, else `_S(...)` plus, when the flag is set, `_S_excess(...)` -/
def mixtureSx (E : Env α) (incl : Bool) (mol vals ex : List α) : α :=
  if (mol.filter fun n => !E.isZero n).isEmpty then 0
  else if incl then idealEntropy E mol vals + idealMix E mol ex else idealEntropy E mol vals

/-- `Mixture.xH` / `xS` / `xCn`: sum over the phases of the single-phase value -/
def xSum (perPhase : List α) : α := sumList perPhase

end

end ThermoVerif.FreeEnergy
