import ThermoVerif.Model.Sparse
/-
Executable model of `thermosteam/base/sparse.py` (property C09), object layer:
the operator templates (`sparse_vector_math`, `sparse_vector_imath`, `sparse_array_math`,
`sparse_array_imath`), `reduce_ndim`, `__getitem__`/`__setitem__` dispatch, reductions,
on a store of objects addressed by id (Python identity = id), so that aliasing
(`x[:]` is `x`, `sa[0]` is the row object, `sa[[0, 1]]` shares rows) is part of the model.

Core Lean only.
-/
namespace ThermoVerif.Sparse
open ThermoVerif.Dense

inductive Obj
  | sv (v : SV)
  | slv (v : SLV)
  | sa (rows : List Nat)          -- ids of the row objects
  deriving Repr, Inhabited, DecidableEq

abbrev Store := List Obj

/-- a Python value written literally on the protocol line: number, (nested) list or ndarray -/
structure Lit where
  isNd : Bool := false
  isBool : Bool := false
  shape : List Nat := []          -- [] = a number
  data : List Rat := []           -- row-major
  deriving Repr, Inhabited, DecidableEq

inductive Operand
  | lit (l : Lit)
  | ref (id : Nat)
  deriving Repr, Inhabited

/-- a value after `reduce_ndim`: leading axes of length 1 are dropped -/
inductive Reduced
  | scalar (x : Rat)
  | vec (l : Vec)
  | mat (rows : Mat)
  | deep
  deriving Repr, Inhabited

def chunks (n : Nat) (l : List Rat) : Nat → List (List Rat)
  | 0 => []
  | k + 1 => l.take n :: chunks n (l.drop n) k

def Lit.reduce (l : Lit) : Reduced :=
  match l.shape.dropWhile (· == 1) with
  | [] => .scalar (l.data.getD 0 0)
  | [_] => .vec l.data
  | [m, n] => .mat (chunks n l.data m)
  | _ => .deep

/-- the value as NumPy sees it (no reduction) -/
def stripTo2 : List Nat → List Nat
  | 1 :: a :: b :: rest => stripTo2 (a :: b :: rest)
  | l => l

def Lit.toND (l : Lit) : Option ND :=
  match stripTo2 l.shape with
  | [] => some (ND.scalar (l.data.getD 0 0) l.isBool)
  | [_] => some (ND.vec l.data l.isBool)
  | [m, n] => some (ND.mat (chunks n l.data m) l.isBool)
  | _ => none

/-- what an operation returns -/
inductive Res
  | obj (id : Nat)
  | num (x : Rat)
  | vec (l : Vec)
  | mat (l : Mat)
  | keys (l : List Nat)
  | items (l : List (Nat × Rat))
  | none
  deriving Repr, Inhabited, DecidableEq

namespace Store

def alloc (s : Store) (o : Obj) : Store × Nat := (s ++ [o], s.length)

def getSV (s : Store) (i : Nat) : Option SV :=
  match s[i]? with | some (.sv v) => some v | _ => none

/-- a vector object as a float vector (`SparseVector.from_dict({i: 1. for i in x.set}, x.size)`) -/
def asSV (s : Store) (i : Nat) : Option SV :=
  match s[i]? with | some (.sv v) => some v | some (.slv v) => some v.toSV | _ => none

def isBoolObj (s : Store) (i : Nat) : Bool :=
  match s[i]? with
  | some (.slv _) => true
  | some (.sa (r :: _)) => (match s[r]? with | some (.slv _) => true | _ => false)
  | _ => false

def objWF (s : Store) : Obj → Bool
  | .sv v => v.wfb
  | .slv v => v.wfb
  | .sa rows => rows.all (fun (r : Nat) => match s[r]? with | some (.sv v) => v.wfb | some (.slv v) => v.wfb | _ => false)

/-- dense image of an object; `none` when the representation is not well formed
(then `to_array()` raises or silently drops entries) -/
def toND (s : Store) (i : Nat) : Option ND :=
  match s[i]? with
  | some (.sv v) => if v.wfb then some (ND.vec v.toDense) else none
  | some (.slv v) => if v.wfb then some (ND.vec v.toDense true) else none
  | some (.sa rows) =>
    if objWF s (.sa rows) then
      some (ND.mat (rows.map (fun (r : Nat) => match s[r]? with
        | some (.sv v) => v.toDense | some (.slv v) => v.toDense | _ => [])) (isBoolObj s i))
    else none
  | none => none

end Store

def Operand.toND (s : Store) : Operand → Option ND
  | .lit l => l.toND
  | .ref i => s.toND i

/-! ### vector objects and the class dispatch of the kernels -/

inductive VecObj
  | sv (v : SV)
  | slv (v : SLV)
  deriving Repr, Inhabited, DecidableEq

namespace VecObj
def size : VecObj → Nat | .sv v => v.size | .slv v => v.size
def isBool : VecObj → Bool | .sv _ => false | .slv _ => true
def toSV : VecObj → SV | .sv v => v | .slv v => v.toSV
/-- `other.set`, `other.size` as the logical kernels read them -/
def toSet : VecObj → SLV | .sv v => SLV.ofSV v | .slv v => v
def toObj : VecObj → Obj | .sv v => .sv v | .slv v => .slv v
def toDense : VecObj → Vec | .sv v => v.toDense | .slv v => v.toDense
def wfb : VecObj → Bool | .sv v => v.wfb | .slv v => v.wfb
def readOnly : VecObj → Bool | .sv v => v.readOnly | .slv _ => false
end VecObj

def Store.getVec (s : Store) (i : Nat) : Option VecObj :=
  match s[i]? with | some (.sv v) => some (.sv v) | some (.slv v) => some (.slv v) | _ => none

inductive VRes
  | vec (v : VecObj)
  | rows (l : List VecObj)         -- a new SparseArray of new rows
  deriving Repr, Inhabited, DecidableEq

def arithOf : BinOp → Option Arith
  | .add => some .add | .sub => some .sub | .mul => some .mul | .truediv => some .truediv
  | _ => none

def cmpOf : BinOp → Option Cmp
  | .eq => some .eq | .ne => some .ne | .gt => some .gt | .lt => some .lt | .ge => some .ge | .le => some .le
  | _ => none

/-- the logical kernel family an operator of a SparseLogicalVector belongs to (`-` has none) -/
def lopOf : BinOp → Option LOp
  | .add => some .add | .mul => some .mul | .truediv => some .truediv
  | .and => some .and | .xor => some .xor | .or => some .or
  | _ => none

namespace SV

/-- `self._<op>_sparse(other)` for a float `self` -/
def opSparse (op : BinOp) (a b : SV) : Except Err VecObj :=
  match arithOf op, cmpOf op with
  | some ar, _ => (arithSparse ar false a b).map (fun v => .sv v.copy)
  | _, some c => (cmpSparse c a b).map .slv
  | _, _ => .error .type           -- `self.to_array() & other.to_array()`: NumPy refuses floats

def opScalar (op : BinOp) (a : SV) (x : Rat) : Except Err VecObj :=
  match arithOf op, cmpOf op with
  | some ar, _ => (arithScalar ar a x).map (fun v => .sv v.copy)
  | _, some c => .ok (.slv (cmpScalar c a x))
  | _, _ => .error .type

def opArray (op : BinOp) (a : SV) (l : Vec) : Except Err VecObj :=
  match arithOf op, cmpOf op with
  | some ar, _ => (arithArray ar a l).map (fun v => .sv v.copy)
  | _, some c => (cmpArray c a l).map .slv
  | _, _ => .error .type

end SV

namespace VecObj

/-- `self._<op>_sparse(other)`, dispatched on the class of `self`; operands of different dtype meet
as float vectors (the templates convert the boolean one first) -/
def opSparse (op : BinOp) (self other : VecObj) : Except Err VecObj :=
  match self, other with
  | .slv a, .slv b =>
    match cmpOf op, lopOf op with
    | some c, _ => (SLV.cmpSparse c a b).map .slv
    | _, some l => (SLV.iopSparse l a.copy b).map .slv
    | _, _ => SV.opSparse op a.toSV b.toSV            -- `__sub__`: `SparseVector(...) - other`
  | a, b => SV.opSparse op a.toSV b.toSV

/-- `self._<op>_scalar(other)`; `isBool`: `other.__class__ in bools` -/
def opScalar (op : BinOp) (self : VecObj) (x : Rat) (isBool : Bool) : Except Err VecObj :=
  match self with
  | .sv a => SV.opScalar op a x
  | .slv a =>
    match cmpOf op, lopOf op with
    | some c, _ => .ok (.slv (SLV.cmpScalar c a x))
    | _, some l => if isBool then (SLV.iopScalar l a.copy x).map .slv else SV.opScalar op a.toSV x
    | _, _ => SV.opScalar op a.toSV x

/-- `self._<op>_array(other)`; `isBool`: the first element of `other` is a boolean -/
def opArray (op : BinOp) (self : VecObj) (l : Vec) (isBool : Bool) : Except Err VecObj :=
  match self with
  | .sv a => SV.opArray op a l
  | .slv a =>
    match cmpOf op, lopOf op with
    | some c, _ => (SLV.cmpArray c a l).map .slv
    | _, some lo => if isBool && !l.isEmpty then (SLV.iopArray lo a.copy l).map .slv else SV.opArray op a.toSV l
    | _, _ =>      -- `_sub_array = __sub__`: the whole dispatch again, `reduce_ndim` turns a length-1 array into a number
      match l with
      | [x] => SV.opScalar op a.toSV x
      | _ => SV.opArray op a.toSV l

/-- `self._i<op>_sparse(other)` -/
def iopSparse (op : BinOp) (self other : VecObj) : Except Err VecObj :=
  match self with
  | .sv a =>
    match arithOf op with
    | some ar => (SV.arithSparse ar true a other.toSV).map .sv
    | none => .error .type
  | .slv a =>
    match lopOf op with
    | some l => (SLV.iopSparse l a other.toSet).map .slv
    | none => .error .type              -- `__isub__` raises TypeError

def iopScalar (op : BinOp) (self : VecObj) (x : Rat) : Except Err VecObj :=
  match self with
  | .sv a =>
    match arithOf op with
    | some ar => (SV.arithScalar ar a x).map .sv
    | none => .error .type
  | .slv a =>
    match lopOf op with
    | some l => (SLV.iopScalar l a x).map .slv
    | none => .error .type

def iopArray (op : BinOp) (self : VecObj) (l : Vec) : Except Err VecObj :=
  match self with
  | .sv a =>
    match arithOf op with
    | some ar => (SV.arithArray ar a l).map .sv
    | none => .error .type
  | .slv a =>
    match lopOf op with
    | some lo => (SLV.iopArray lo a l).map .slv
    | none => .error .type

end VecObj

def Store.rowsVec (s : Store) (rows : List Nat) : Option (List VecObj) := rows.mapM s.getVec

def rowsBool (rows : List VecObj) : Bool := match rows with | r :: _ => r.isBool | [] => false

/-- dtype coercion of the templates: a boolean side becomes float when the other side is float -/
def coerce (selfBool otherBool : Bool) (v : VecObj) (isSelf : Bool) : VecObj :=
  if isSelf then (if selfBool && !otherBool then .sv v.toSV else v)
  else (if !selfBool && otherBool then .sv v.toSV else v)

/-- `SparseLogicalVector.__sub__` is overridden: `SparseVector.from_dict({i: 1. …}) - other` -/
def subOverride (self : VecObj) (op : BinOp) : VecObj :=
  match self, op with | .slv a, .sub => .sv a.toSV | x, _ => x

/-- template `sparse_vector_math` (`SparseVector.__and__/__or__/__xor__` are overridden: NumPy) -/
def binVecCore (s : Store) (op : BinOp) (self : VecObj) (b : Operand) : Except Err VRes :=
  if !self.isBool && op.isLogic then .error .type else
  match b with
  | .ref j =>
    match s[j]? with
    | some (.sv v) => (self.opSparse op (.sv v)).map .vec
    | some (.slv v) => (self.opSparse op (.slv v)).map .vec
    | some (.sa rows) =>
      match s.rowsVec rows with
      | some rs =>
        let ob := rowsBool rs
        let me := coerce self.isBool ob self true
        (rs.mapM (fun r => me.opSparse op (coerce self.isBool ob r false))).map .rows
      | none => .error .type
    | none => .error .type
  | .lit l =>
    match l.reduce with
    | .scalar x => (self.opScalar op x l.isBool).map .vec
    | .vec v => (self.opArray op v l.isBool).map .vec
    | .mat rows => (rows.mapM (fun r => self.opArray op r l.isBool)).map .rows
    | .deep => .error .type

/-- `v <op> other` -/
def binVec (s : Store) (op : BinOp) (self : VecObj) (b : Operand) : Except Err VRes :=
  binVecCore s op (subOverride self op) b

/-- `v <op>= other` (template `sparse_vector_imath`) -/
def ibinVec (s : Store) (op : BinOp) (self : VecObj) (b : Operand) : Except Err VecObj :=
  if op.isCmp then .error .type else
  if !self.isBool && op.isLogic then .error .type else        -- `self[:] = self.to_array() & other`
  if self.readOnly then .error .readOnly else
  match b with
  | .ref j =>
    match s[j]? with
    | some (.sv v) => self.iopSparse op (.sv v)
    | some (.slv v) => self.iopSparse op (.slv v)
    | some (.sa [r]) =>
      match s.getVec r with
      | some v => self.iopSparse op v
      | none => .error .type
    | some (.sa _) => .error .shape
    | none => .error .type
  | .lit l =>
    match l.reduce with
    | .scalar x => self.iopScalar op x
    | .vec v => self.iopArray op v
    | _ => .error .shape

/-- zip that refuses different lengths is **not** what the code does: `zip` truncates -/
def zipTrunc {α β : Type} (l : List α) (m : List β) : List (α × β) := List.zip l m

/-- which row meets which: a one-row side is broadcast, otherwise the rows are zipped -/
def pairRows (rs os : List VecObj) : List (VecObj × VecObj) :=
  match rs, os with
  | [r], _ => os.map (fun o => (r, o))
  | _, [o] => rs.map (fun r => (r, o))
  | _, _ => zipTrunc rs os

/-- `sa <op> other` (template `sparse_array_math`) -/
def binSA (s : Store) (op : BinOp) (rows : List VecObj) (b : Operand) : Except Err VRes :=
  let sb := rowsBool rows
  match b with
  | .ref j =>
    match s[j]? with
    | some (.sa orows) =>
      match s.rowsVec orows with
      | some ors =>
        let ob := rowsBool ors
        let rs := rows.map (fun r => coerce sb ob r true)
        let os := ors.map (fun r => coerce sb ob r false)
        ((pairRows rs os).mapM (fun (p : VecObj × VecObj) => p.1.opSparse op p.2)).map .rows
      | none => .error .type
    | _ =>
      match s.getVec j with
      | some ov =>
        let ob := ov.isBool
        ((rows.map (fun r => coerce sb ob r true)).mapM (fun (r : VecObj) => r.opSparse op (coerce sb ob ov false))).map .rows
      | none => .error .type
  | .lit l =>
    match l.reduce with
    | .scalar x => (rows.mapM (fun (r : VecObj) => r.opScalar op x l.isBool)).map .rows
    | .vec v => (rows.mapM (fun (r : VecObj) => r.opArray op v l.isBool)).map .rows
    | .mat m => ((zipTrunc rows m).mapM (fun (p : VecObj × Vec) => p.1.opArray op p.2 l.isBool)).map .rows
    | .deep => .error .type

/-- apply an in-place kernel to the row object `rid` -/
def updRow (s : Store) (rid : Nat) (f : VecObj → Except Err VecObj) : Except Err Store :=
  match s.getVec rid with
  | some r => (f r).map (fun r' => s.set rid r'.toObj)
  | none => .error .type

/-- `sa <op>= other` (template `sparse_array_imath`); the rows are updated one after the other.  A
vector operand (or the single row of a one-row array) is read once, before the loop (C09-10: the code
copies it when it is one of the target's rows); the rows of a multi-row array operand are read when
their turn comes. -/
def ibinSA (s : Store) (op : BinOp) (rowIds : List Nat) (b : Operand) : Except Err Store :=
  if op.isCmp then .error .type else
  match s.rowsVec rowIds with
  | none => .error .type
  | some rows =>
    if rows.any (·.readOnly) then .error .readOnly else
    let sb := rowsBool rows
    match b with
    | .ref j =>
      let ob := s.isBoolObj j
      let conv (v : VecObj) : VecObj := if !sb && ob then .sv v.toSV else v
      match s[j]? with
      | some (.sa orows) =>
        if sb && !ob && !orows.isEmpty then .error .value else
        match orows with
        | [o] =>
          match s.getVec o with
          | some ov => rowIds.foldlM (fun s rid => updRow s rid (fun r => r.iopSparse op (conv ov))) s
          | none => .error .type
        | _ => (zipTrunc rowIds orows).foldlM (fun s p => match s.getVec p.2 with
                    | some ov => updRow s p.1 (fun r => r.iopSparse op (conv ov))
                    | none => .error .type) s
      | _ =>
        if sb && !ob then .error .value else
        match s.getVec j with
        | some ov => rowIds.foldlM (fun s rid => updRow s rid (fun r => r.iopSparse op (conv ov))) s
        | none => .error .type
    | .lit l =>
      match l.reduce with
      | .scalar x => rowIds.foldlM (fun s rid => updRow s rid (fun r => r.iopScalar op x)) s
      | .vec v => rowIds.foldlM (fun s rid => updRow s rid (fun r => r.iopArray op v)) s
      | .mat m => (zipTrunc rowIds m).foldlM (fun s p => updRow s p.1 (fun r => r.iopArray op p.2)) s
      | .deep => .error .value

/-! ### the operations of the protocol -/

/-- an index expression: one index, or a `(row, column)` pair -/
inductive Idx2
  | one (i : Idx)
  | two (m n : Idx)
  deriving Repr, Inhabited, DecidableEq

inductive Op
  | new (l : Lit)                                  -- `sparse(lit)`
  | newSV (l : Lit) (size : Option Nat)            -- `SparseVector(lit, size)`
  | newDict (items : List (Nat × Rat)) (size : Nat) -- `SparseVector({..}, size)`
  | newSize (n : Nat)                              -- `SparseVector.from_size(n)`
  | newSA (rows : List Nat)                        -- `SparseArray([row objects])`: shares the rows
  | copyCtor (a : Nat)                             -- `SparseVector(sv)` / `SparseLogicalVector(slv)`
  | bin (op : BinOp) (a : Nat) (b : Operand)       -- `a op b`
  | rbin (op : BinOp) (b : Lit) (a : Nat)          -- `b op a`, `b` a number or a list
  | ibin (op : BinOp) (a : Nat) (b : Operand)      -- `a op= b`
  | neg (a : Nat) | abs (a : Nat) | invert (a : Nat)
  | get (a : Nat) (i : Idx2)
  | set (a : Nat) (i : Idx2) (v : Operand)
  | reduce (r : Red) (a : Nat) (axis : Option Nat) (keepdims : Bool)
  | copy (a : Nat) | toArray (a : Nat) | clear (a : Nat)
  | removeNegatives (a : Nat) | hasNegatives (a : Nat)
  | nonzeroKeys (a : Nat) | nonzeroItems (a : Nat) | negativeKeys (a : Nat) | positiveKeys (a : Nat)
  | setflags (a : Nat) | setRO (a : Nat) (b : Bool)
  | mixFrom (a : Nat) (others : List Nat)
  | sumOf (a : Nat) (idx : List Nat)
  | copyLike (a b : Nat)
  | sparseEqual (a : Nat) (b : Operand)
  deriving Repr, Inhabited

/-- allocate the objects of a result: rows first (in order), then the array -/
def allocRows (s : Store) : List VecObj → Store × List Nat
  | [] => (s, [])
  | r :: rest =>
    let (s1, i) := s.alloc r.toObj
    let (s2, ids) := allocRows s1 rest
    (s2, i :: ids)

def allocRes (s : Store) : VRes → Store × Nat
  | .vec v => s.alloc v.toObj
  | .rows l =>
    let (s', ids) := allocRows s l
    s'.alloc (.sa ids)

def okObj (p : Store × Nat) : Except Err (Store × Res) := .ok (p.1, .obj p.2)
def okRes (s : Store) (r : Except Err VRes) : Except Err (Store × Res) := r.map (fun r => let p := allocRes s r; (p.1, .obj p.2))

/-- the value of an assignment, as `reduce_ndim` and the class tests of `__setitem__` see it -/
def setVal (s : Store) (v : Operand) : Option SV.Val :=
  match v with
  | .lit l =>
    match l.reduce with
    | .scalar x => some (.scalar x)
    | .vec v => some (.seq v)
    | _ => some .deep
  | .ref j =>
    match s[j]? with
    | some (.sv b) => some (if b.size = 1 then .scalar (b.get 0) else .sv b)
    | some (.slv b) => some (if b.size = 1 then .scalar (b2r (b.mem 0)) else .seq b.toDense)
    | _ => none

def numOfBool (b : Bool) : Res := .num (b2r b)

def sortKeys (l : List Nat) : List Nat := l.mergeSort (· ≤ ·)
def sortItems (l : List (Nat × Rat)) : List (Nat × Rat) := l.mergeSort (fun p q => p.1 ≤ q.1)

/-- reflected comparison -/
def BinOp.swap : BinOp → BinOp
  | .gt => .lt | .lt => .gt | .ge => .le | .le => .ge | op => op

/-- `b op a` for a number or list `b` on the left (`__radd__` … ; comparisons are reflected by Python) -/
def rbinVec (s : Store) (op : BinOp) (b : Lit) (v : VecObj) : Except Err (Store × Res) :=
  match op with
  | .add | .mul | .and | .or | .xor => okRes s (binVec s op v (.lit b))
  | .eq | .ne | .gt | .lt | .ge | .le => okRes s (binVec s (BinOp.swap op) v (.lit b))
  | .sub =>           -- `-self + other`
    let nv : VecObj := match v with | .sv a => .sv a.neg | .slv a => .sv a.neg
    okRes s (binVec s .add nv (.lit b))
  | .truediv =>
    match b.shape with
    | [] =>
      let x := b.data.getD 0 0
      match v with
      | .sv a => (a.rdivScalar x).map (fun r => let p := s.alloc (.sv r); (p.1, .obj p.2))
      | .slv a =>
        if !b.isBool then          -- `SparseVector(other / self.to_array())`
          if x ≠ 0 ∧ a.set.length ≠ a.size then .error .zeroDiv
          else if x = 0 ∧ a.set.length ≠ a.size then .error .zeroDiv     -- 0/0: invalid value raises
          else okObj (s.alloc (.sv (SV.ofList (a.toDense.map (fun y => x / y)))))
        else if x ≠ 0 then
          if a.set.length ≠ a.size then .error .zeroDiv else okObj (s.alloc (.slv a.copy))
        else okObj (s.alloc (.slv ⟨a.size, []⟩))
    | _ =>       -- `other / self.to_array()`: NumPy
      match b.toND with
      | some nb =>
        match npBin .truediv nb (ND.vec v.toDense v.isBool) with
        | .ok r => .ok (s, match r.shape with | .m => .mat r.data | _ => .vec r.row0)
        | .error .nonFinite => .error .zeroDiv
        | .error _ => .error .shape
      | none => .error .type

/-- one operation whose target is a vector object -/
def stepVec (s : Store) (a : Nat) (v : VecObj) : Op → Except Err (Store × Res)
  | .copyCtor _ => match v with | .sv x => okObj (s.alloc (.sv x.copy)) | .slv x => okObj (s.alloc (.slv x.copy))
  | .bin op _ b => okRes s (binVec s op v b)
  | .rbin op b _ => rbinVec s op b v
  | .ibin op _ b => (ibinVec s op v b).map (fun r => (s.set a r.toObj, .obj a))
  | .neg _ => match v with | .sv x => okObj (s.alloc (.sv x.neg)) | .slv x => okObj (s.alloc (.sv x.neg))
  | .abs _ => match v with | .sv x => okObj (s.alloc (.sv x.abs)) | .slv x => okObj (s.alloc (.slv x.copy))
  | .invert _ => match v with | .sv _ => .error .type | .slv x => okObj (s.alloc (.slv x.invert))
  | .get _ (.two _ _) => .error .index
  | .get _ (.one i) =>
    let r := match v with | .sv x => x.getItem i | .slv x => x.getItem i
    match r with
    | .self => .ok (s, .obj a)
    | .scalar x => .ok (s, .num x)
    | .dense l => .ok (s, .vec l)
  | .set _ idx val =>
    if v.readOnly then .error .readOnly else          -- the first statement of `__setitem__`
    match idx with
    | .two _ _ => .error .index
    | .one i =>
      match setVal s val with
      | none => .error .type
      | some x =>
        let same := match val with | .ref j => j == a | _ => false
        -- `value is self` is tested after `reduce_ndim`, which turns a size-1 vector into a number
        match v with
        | .sv t => (t.setItem i x (same && t.size != 1)).map (fun r => (s.set a (.sv r), .none))
        | .slv t =>
          let keys : Option (List Nat) := match val with
            | .ref j => (match s.getVec j with | some o => if o.size = 1 then none else some o.toSet.set | none => none)
            | _ => none
          (t.setItem i x (same && t.size != 1) keys).map (fun r => (s.set a (.slv r), .none))
  | .reduce r _ axis keepdims =>
    match axis with
    | some (_ + 1) => .error .value
    | _ =>
      let num (x : Rat) : Except Err (Store × Res) :=
        if keepdims then okObj (s.alloc (.sv (SV.keep x))) else .ok (s, .num x)
      let bool (b : Bool) : Except Err (Store × Res) :=
        if keepdims then okObj (s.alloc (.slv (SLV.keep b))) else .ok (s, numOfBool b)
      match v, r with
      | .sv x, .sum => num x.sum
      | .sv x, .any => bool x.any
      | .sv x, .all => bool x.all
      | .sv x, .mean => num x.mean
      | .sv x, .max => x.max.bind num
      | .sv x, .min => x.min.bind num
      | .slv x, .sum => num x.count
      | .slv x, .any => bool x.any
      | .slv x, .all => bool x.allTrue
      | .slv x, .mean => num x.mean
      | .slv x, .max => x.max.bind num
      | .slv x, .min => x.min.bind num
  | .copy _ => match v with | .sv x => okObj (s.alloc (.sv x.copy)) | .slv x => okObj (s.alloc (.slv x.copy))
  | .toArray _ => if v.wfb then .ok (s, .vec v.toDense) else .error .index
  | .clear _ =>
    match v with
    | .sv x => if x.readOnly then .error .readOnly else .ok (s.set a (.sv x.clear), .none)
    | .slv _ => .error .type              -- SparseLogicalVector has no `clear`
  | .removeNegatives _ =>
    match v with
    | .sv x => if x.readOnly then .error .readOnly else .ok (s.set a (.sv x.removeNegatives), .none)
    | .slv _ => .ok (s, .none)
  | .hasNegatives _ => match v with | .sv x => .ok (s, numOfBool x.hasNegatives) | .slv _ => .ok (s, numOfBool false)
  | .nonzeroKeys _ => match v with | .sv x => .ok (s, .keys (sortKeys x.dct.keys)) | .slv x => .ok (s, .keys (sortKeys x.set))
  | .nonzeroItems _ =>
    match v with
    | .sv x => .ok (s, .items (sortItems x.dct))
    | .slv x => .ok (s, .items (sortItems (x.set.map (fun i => (i, 1)))))
  | .negativeKeys _ => match v with | .sv x => .ok (s, .keys (sortKeys x.negativeKeys)) | .slv _ => .error .type
  | .positiveKeys _ => match v with | .sv x => .ok (s, .keys (sortKeys x.positiveKeys)) | .slv x => .ok (s, .keys (sortKeys x.set))
  | .setflags _ => match v with | .sv x => .ok (s.set a (.sv { x with readOnly := true }), .none) | .slv _ => .error .type
  | .setRO _ b => match v with | .sv x => .ok (s.set a (.sv { x with readOnly := b }), .none) | .slv _ => .error .type
  | .mixFrom _ others =>
    match v with
    | .sv x =>
      if x.readOnly then .error .readOnly else
      match (others.filter (· != a)).mapM s.asSV with
      | some os => .ok (s.set a (.sv (x.mixFrom os (others.filter (· == a)).length)), .none)
      | none => .error .type
    | .slv _ => .error .type
  | .sumOf _ idx =>
    match v with
    | .sv x => .ok (s, .num (x.sumOf idx))
    | .slv x => .ok (s, .num ((idx.filter x.mem).length : Nat))
  | .copyLike _ b =>
    match v with
    | .sv x =>
      if x.readOnly then .error .readOnly else
      match s.getSV b with
      | some w => .ok (s.set a (.sv { x with dct := w.dct }), .none)
      | none => .error .type
    | .slv _ => .error .type
  | .sparseEqual _ b =>
    let mine : List (Nat × Rat) := match v with | .sv x => sortItems x.dct | .slv x => sortItems (x.set.map (fun i => (i, 1)))
    let other : Option (List (Nat × Rat)) := match b with
      | .ref j => (s.asSV j).map (fun o => sortItems o.dct)
      | .lit l => match l.shape with | [_] => some (sortItems (Dct.ofList l.data)) | _ => none
    match other with
    | some d => .ok (s, numOfBool ((mine.map (·.1)) == (d.map (·.1)) && (v.isBool || mine == d)))
    | none => .error .type
  | _ => .error .type

end ThermoVerif.Sparse
