/-
Model of the vapour–liquid flash of thermosteam (thermosteam/equilibrium/vle.py,
binary_phase_fraction.py).  Core Lean only (this file is compiled into the driver).

What is modelled, and where the external numerics enter as parameters:

* `dispatch`        – `VLE.__call__` + the head of every `set_XY`: which of the stream's
                      `T`, `P` is written from which source for every specification pair,
                      every `N` case (no equilibrium chemicals / one / several) and the
                      `NoEquilibrium` handlers.  Sources that are numerical solves
                      (bubble/dew point, IQ interpolation, `xsolve_T_at_HP`) are the
                      parameter `sol`; `Psat(T)` / `Tsat(P)` of the single chemical are the
                      parameters `psat` / `tsat`.
                      `dispatch` is the REPAIRED table (fixes_proposed/C04-1.md, C04-2.md);
                      `dispatchAsFound` mirrors the code as found.
* `chemTP`, `chemSplit`, `leverV`, `moveFraction`
                    – the single-component setters and the H/S correction step.
* `rr`, `rrFull`, `rr2N`, `rrPrecheck`
                    – the Rachford–Rice objective (with non-partitioning light/heavy
                      fractions), `compute_phase_fraction_2N`, and the decision logic of
                      `solve_phase_fraction_Rashford_Rice` in front of its numerical solve.
* `xyNorm`, `newK`, `xOfV`, `iterStep`, `iterMap`
                    – `xy` and `xVlogK_iter` / `xVlogK_iter_2n` as a pure function; the
                      activity coefficients `γ`, fugacity coefficients `φ`,
                      `c = pcf·Psat/P` and (for N > 2 or light/heavy present) the
                      Rachford–Rice solve are parameters.  The state carries `K`, not
                      `ln K`; the driver converts.
* `setupZ`, `writeBack`
                    – `_setup`'s composition and `_solve_v`'s `v = F·V·x·K` + clipping.
* `tpBranch`        – `set_thermal_condition`'s bubble/dew comparison.

Everything is written once over an arbitrary scalar type with `+ − × ÷ < ≤`; the driver
instantiates it with `Float`, the theorems (Props/C04.lean) with any linearly ordered field.
Vectors are functions `Fin n → α`.
-/
namespace ThermoVerif.Flash

/-! ## 1. Specification dispatch -/

/-- The specification pairs `VLE.__call__` accepts (name order = argument order of `set_XY`). -/
inductive Pair where
  | TP | TV | TH | TS | Tx | Ty | PV | PH | PS | Px | Py
  deriving DecidableEq, Repr

/-- What `_setup` found.  `noEq`: it raised `NoEquilibrium` (nothing, or nothing volatile, in the
stream).  `one`: exactly one chemical in equilibrium and no light/heavy non-partitioning
material (`_N == 1`).  `many`: `_N ≥ 2`. -/
inductive NCase where
  | noEq | one | many
  deriving DecidableEq, Repr

inductive Err where
  | noEquilibrium | notImplemented | assertion
  deriving DecidableEq, Repr

def Pair.hasT : Pair → Bool
  | .TP | .TV | .TH | .TS | .Tx | .Ty => true
  | _ => false

def Pair.hasP : Pair → Bool
  | .TP | .PV | .PH | .PS | .Px | .Py => true
  | _ => false

/-- One call `vle(a=…, b=…)`. -/
structure Call (α : Type) where
  pair : Pair
  ncase : NCase
  /-- the result has both phases (selects the lever-rule branch of the single-component
  H/S setters; for `TH`/`TS` the other branches raise `NotImplementedError`) -/
  twoPhase : Bool
  /-- thermal condition before the call -/
  T0 : α
  P0 : α
  /-- the two specified values, in the order of the pair's name -/
  a : α
  b : α
  /-- `chemical.Psat(T_spec)` (single-chemical branches with `T` specified) -/
  psat : α
  /-- `chemical.Tsat(P_spec)` (single-chemical branches with `P` specified) -/
  tsat : α
  /-- what the numerical solver delivered for the unspecified one of `T`, `P` -/
  sol : α

variable {α : Type}

/-- Final `(T, P)` of the stream — the repaired table. -/
def dispatch (c : Call α) : Except Err (α × α) :=
  match c.pair, c.ncase with
  | .TP, _ => .ok (c.a, c.b)
  | .TV, .noEq => .ok (c.a, c.P0)
  | .TV, .one => .ok (c.a, c.psat)
  | .TV, .many => .ok (c.a, c.sol)
  | .TH, .noEq | .TS, .noEq => .error .noEquilibrium
  | .TH, .one | .TS, .one => if c.twoPhase then .ok (c.a, c.psat) else .error .notImplemented
  | .TH, .many | .TS, .many => if c.twoPhase then .ok (c.a, c.sol) else .error .notImplemented
  | .Tx, .many | .Ty, .many => .ok (c.a, c.sol)
  | .Tx, .noEq | .Ty, .noEq | .Px, .noEq | .Py, .noEq => .error .noEquilibrium
  | .Tx, .one | .Ty, .one | .Px, .one | .Py, .one => .error .assertion
  | .PV, .noEq | .PH, .noEq | .PS, .noEq => .ok (c.T0, c.a)
  | .PV, .one => .ok (c.tsat, c.a)
  | .PV, .many => .ok (c.sol, c.a)
  | .PH, .one | .PS, .one => if c.twoPhase then .ok (c.tsat, c.a) else .ok (c.sol, c.a)
  | .PH, .many | .PS, .many => .ok (c.sol, c.a)
  | .Px, .many | .Py, .many => .ok (c.sol, c.a)

/-- Final `(T, P)` of the stream — the code as found: `_set_TV_chemical` writes `Psat(T)` into
`T` and leaves `P`; `_set_TH_chemical` / `_set_TS_chemical` never write `T`; `set_Tx`/`set_Ty`
never write `T`, `set_Px`/`set_Py` never write `P`. -/
def dispatchAsFound (c : Call α) : Except Err (α × α) :=
  match c.pair, c.ncase with
  | .TV, .one => .ok (c.psat, c.P0)
  | .TH, .one | .TS, .one => if c.twoPhase then .ok (c.T0, c.psat) else .error .notImplemented
  | .Tx, .many | .Ty, .many => .ok (c.T0, c.sol)
  | .Px, .many | .Py, .many => .ok (c.sol, c.P0)
  | _, _ => dispatch c

section Arith
variable [Add α] [Sub α] [Mul α] [Div α] [OfNat α 0] [OfNat α 1] [LT α] [LE α]
  [DecidableLT α] [DecidableLE α]

/-! ## 2. Single-component setters -/

/-- `_set_thermal_condition_chemical`: new `(liquid, vapour)` of the one chemical; `l0 g0` are the
flows before (kept inside the `±tol` band around `Psat`). -/
def chemTP (T P Tc psat tol mol l0 g0 : α) : α × α :=
  if Tc ≤ T then (0, mol)
  else if P < psat - tol then (0, mol)
  else if psat + tol < P then (mol, 0)
  else (l0, g0)

/-- `_set_TV_chemical` / `_set_PV_chemical`: `(liquid, vapour)`. -/
def chemSplit (mol V : α) : α × α := (mol - V * mol, V * mol)

/-- lever rule of `_set_PH_chemical`, `_set_TH_chemical`, `_set_PS_chemical`, `_set_TS_chemical` -/
def leverV (H Hbub Hdew : α) : α := (H - Hbub) / (Hdew - Hbub)

/-- The correction at the end of `set_PH` / `set_PS`: fraction of the liquid to vaporise
(or of the vapour to condense) so that the balance closes; clipped into [0, 1]. -/
def moveFraction (H Hcur Hmove : α) : α :=
  let f := (H - Hcur) / Hmove
  if f < 0 then 0 else if 1 < f then 1 else f

/-! ## 3. Vectors and sums -/

/-- `Σ_{i<n} f i`, by recursion on `n` (core Lean; `Lemmas/Flash.lean` relates it to `Finset.sum`). -/
def sumF : (n : Nat) → (Fin n → α) → α
  | 0, _ => 0
  | n + 1, f => f 0 + sumF n (fun i => f i.succ)

/-! ## 4. Rachford–Rice -/

/-- one term `z (K − 1) / (1 + V (K − 1))` -/
def rrTerm (z K V : α) : α := z * (K - 1) / (1 + V * (K - 1))

/-- `Σ z_i (K_i − 1)/(1 + V (K_i − 1))` (the sign convention of the literature; the code's
`phase_fraction_objective_function` is the negative). -/
def rr {n : Nat} (z K : Fin n → α) (V : α) : α := sumF n (fun i => rrTerm (z i) (K i) V)

/-- with non-partitioning light (`zl`, all vapour) and heavy (`zh`, all liquid) fractions -/
def rrFull {n : Nat} (z K : Fin n → α) (zl zh V : α) : α :=
  rr z K V + (if 0 < zl then zl / V else 0) - (if 0 < zh then zh / (1 - V) else 0)

/-- `compute_phase_fraction_2N`, operation by operation. -/
def rr2N (z1 z2 K1 K2 : α) : α :=
  let K1z1 := K1 * z1
  let K1z2 := K1 * z2
  let K2z1 := K2 * z1
  let K2z2 := K2 * z2
  let K1K2 := K1 * K2
  let K1K2z1 := K1K2 * z1
  let K1K2z2 := K1K2 * z2
  let z1_z2 := z1 + z2
  let K1z1_K2z2 := K1z1 + K2z2
  (z1_z2 - K1z1_K2z2) / (K1K2z1 + K1K2z2 - K1z2 - K1z1_K2z2 - K2z1 + z1_z2)

/-- What `solve_phase_fraction_Rashford_Rice` decides before it starts its numerical solve. -/
inductive Pre (α : Type) where
  | value (V : α)
  | solve
  deriving Repr

/-- `Kmax`, `Kmin` are `Ks.max()`, `Ks.min()`; `y0`, `y1` are the CODE's objective (= `−rrFull`)
at `x0`, `x1`; `onePlus = 1 + 1e-9`, `oneMinus = 1 − 1e-9`. -/
def rrPrecheck (Kmax Kmin zl zh y0 y1 onePlus oneMinus : α) : Pre α :=
  if Kmax ≤ onePlus ∧ ¬ (0 < zl ∨ zl < 0) then .value 0
  else if oneMinus ≤ Kmin ∧ ¬ (0 < zh ∨ zh < 0) then .value 1
  else if y1 < y0 ∧ 0 < y1 then .value 1
  else if y0 < y1 ∧ 0 < y0 then .value 0
  else if y0 < y1 ∧ y1 < 0 then .value 1
  else if y1 < y0 ∧ y0 < 0 then .value 0
  else .solve


/-! ## 4b. The decision in front of the numerical Rachford–Rice solve, on vectors -/

/-- fold over a vector, left to right -/
def foldF (op : α → α → α) : (n : Nat) → (Fin n → α) → α → α
  | 0, _, a => a
  | n + 1, f, a => foldF op n (fun i => f i.succ) (op a (f 0))

def maxOp (a b : α) : α := if a < b then b else a
def minOp (a b : α) : α := if b < a then b else a

/-- `Ks.max()` / `Ks.min()` (of a non-empty vector) -/
def maxF {n : Nat} (f : Fin (n + 1) → α) : α := foldF maxOp n (fun i => f i.succ) (f 0)
def minF {n : Nat} (f : Fin (n + 1) → α) : α := foldF minOp n (fun i => f i.succ) (f 0)

def allF : (n : Nat) → (Fin n → Bool) → Bool
  | 0, _ => true
  | n + 1, p => p 0 && allF n (fun i => p i.succ)

/-- `solve_phase_fraction_Rashford_Rice(zs, Ks, guess, za, zb)`: the pre-checks decide, or the
numerical solver's answer `Vsolved` is taken.  `tiny = 1e-16` (the end points move off 0 / 1
when non-partitioning material is present), `onePlus = 1 + 1e-9`, `oneMinus = 1 − 1e-9`. -/
def rrDecide {n : Nat} (z K : Fin (n + 1) → α) (zl zh tiny onePlus oneMinus Vsolved : α) : α :=
  let x0 : α := if 0 < zl ∨ zl < 0 then tiny else 0
  let x1 : α := if 0 < zh ∨ zh < 0 then 1 - tiny else 1
  let y0 := 0 - rrFull z K zl zh x0
  let y1 := 0 - rrFull z K zl zh x1
  match rrPrecheck (maxF K) (minF K) zl zh y0 y1 onePlus oneMinus with
  | .value v => v
  | .solve => Vsolved

/-- The exit test of `flexsolve.aitken`: every component of `|in − out|` below `tol`
(`d` is the vector of absolute differences of `x`, `V`, `ln K`). -/
def exitTest {m : Nat} (d : Fin m → α) (tol : α) : Bool := allF m (fun i => decide (d i < tol))

/-! ## 5. The fixed-point map -/

/-- `xy(x, Ks)`: negative entries of `x` become `eps`, `x` is normalised, `y = normalise(x·K)`. -/
def xyNorm {n : Nat} (eps : α) (x K : Fin n → α) : (Fin n → α) × (Fin n → α) :=
  let x1 : Fin n → α := fun i => if x i < 0 then eps else x i
  let sx := sumF n x1
  let xh : Fin n → α := fun i => x1 i / sx
  let y1 : Fin n → α := fun i => xh i * K i
  let sy := sumF n y1
  (xh, fun i => y1 i / sy)

/-- `Ks[:] = pcf_Psat_over_P * gamma / phi; Ks[Ks < 1e-16] = 1e-16` for one chemical -/
def newK1 (eps c γ φ : α) : α :=
  let k := c * γ / φ
  if k < eps then eps else k

def newK {n : Nat} (eps : α) (c γ φ : Fin n → α) : Fin n → α :=
  fun i => newK1 eps (c i) (γ i) (φ i)

/-- `z / (1 + V (K − 1))` -/
def xOfV {n : Nat} (z K : Fin n → α) (V : α) : Fin n → α :=
  fun i => z i / (1 + V * (K i - 1))

structure St (n : Nat) (α : Type) where
  x : Fin n → α
  V : α
  K : Fin n → α

/-- the two-component closed form applied to vectors (`n = 2` in the code) -/
def rr2Nv {n : Nat} (z K : Fin n → α) : α :=
  if h : 2 ≤ n then rr2N (z ⟨0, by omega⟩) (z ⟨1, by omega⟩) (K ⟨0, by omega⟩) (K ⟨1, by omega⟩) else 0

/-- One call of `xVlogK_iter` (`twoN = false`) / `xVlogK_iter_2n` (`twoN = true`) given the
values `γ`, `φ` the property package returned at the normalised compositions of the incoming
state, and `Vsolved`, what `solve_phase_fraction_Rashford_Rice` returned. -/
def iterStep {n : Nat} (twoN : Bool) (eps : α) (z c γ φ : Fin n → α) (Vsolved : α) : St n α :=
  let K' := newK eps c γ φ
  let V' := if twoN then rr2Nv z K' else Vsolved
  { x := xOfV z K' V', V := V', K := K' }

/-- The map that is iterated, with the property package and the Rachford–Rice solver as
functions: `γf x̂`, `φf ŷ`, `solveV K' Vguess`. -/
def iterMap {n : Nat} (twoN : Bool) (eps : α) (z c : Fin n → α)
    (γf φf : (Fin n → α) → (Fin n → α)) (solveV : (Fin n → α) → α → α) (s : St n α) : St n α :=
  let xy := xyNorm eps s.x s.K
  let γ := γf xy.1
  let φ := φf xy.2
  let Vc := if s.V < 0 then 0 else if 1 < s.V then 1 else s.V
  iterStep twoN eps z c γ φ (solveV (newK eps c γ φ) Vc)

/-! ## 6. Set-up and write-back -/

/-- `_setup`: `z = mol_vle / F_mol`, `F_mol = Σ mol_vle + F_light + F_heavy` -/
def setupF {n : Nat} (mol : Fin n → α) (Fl Fh : α) : α := sumF n mol + Fl + Fh

def setupZ {n : Nat} (mol : Fin n → α) (Fl Fh : α) : Fin n → α :=
  fun i => mol i / setupF mol Fl Fh

/-- `_solve_v_fixed_point`'s `v = F_mol · V · x̂ · K` followed by `_solve_v`'s clipping
`v[v > mol] = mol; v[v < 0] = 0`. -/
def writeBack1 (F V xh K mol : α) : α :=
  let v := F * V * xh * K
  let v := if mol < v then mol else v
  if v < 0 then 0 else v

def writeBack {n : Nat} (F V : α) (xh K mol : Fin n → α) : Fin n → α :=
  fun i => writeBack1 F V (xh i) (K i) (mol i)

/-! ## 7. `set_thermal_condition`'s bubble/dew comparison -/

inductive TPBranch where
  | allGas | allLiq | solve
  deriving DecidableEq, Repr

/-- `heavy` / `light`: non-volatile solute / non-condensable gas present. -/
def tpBranch (P Pdew Pbub : α) (heavy light : Bool) : TPBranch :=
  if P ≤ Pdew ∧ heavy = false then .allGas
  else if Pbub ≤ P ∧ light = false then .allLiq
  else .solve

end Arith

end ThermoVerif.Flash
