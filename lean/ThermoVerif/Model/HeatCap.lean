/-
C07 — the two structures the translated free-energy functors are written over.
Core Lean only (this file is compiled into the driver executable).

`HeatCap α` stands for one heat-capacity object `Cn` of thermosteam (a `thermo` `TDependentProperty`):
  `I a b` = `Cn.T_dependent_property_integral(a, b)`         (∫ₐᵇ Cn dT)
  `J a b` = `Cn.T_dependent_property_integral_over_T(a, b)`  (∫ₐᵇ Cn/T dT)
Nothing is assumed about them here; the laws (additivity, derivative) are the explicit hypotheses
`ThermoVerif.Props.C07.Lawful` of the theorems.

`Env α` carries what the functors take from their module: `math.log`, the gas constant `R`, and the
truth value Python gives a number (`if Tm`: `None` and `0.0` are false).
-/
namespace ThermoVerif.FreeEnergy

structure HeatCap (α : Type) where
  I : α → α → α
  J : α → α → α

structure Env (α : Type) where
  log : α → α
  R : α
  /-- `x == 0` : a number is falsy in Python exactly when it is zero -/
  isZero : α → Bool
  /-- `a <= b` -/
  le : α → α → Bool

end ThermoVerif.FreeEnergy
