import ThermoVerif.Model.Chemicals
/-
Model of key resolution and data access of `thermosteam/indexer.py`
(`CompiledChemicals._get_index_and_kind` without its memo, `MaterialIndexer._get_index_data`
/ `_get_index_and_kind` without their memo, `get_sparse_chemical_data`,
`set_sparse_chemical_data`, `reset_sparse_chemical_data`, `MaterialIndexer.__getitem__`
/ `__setitem__`, `PhaseIndexer`).  Core Lean only.

Flow data are dense rows (`List Rat`); the sparse dictionary behind them is the
subject of C09 and is observed here only through `to_array()`.

Written to the *fixed* behaviour for `[phase, ...]` keys (fixes_proposed/C10-3.md).
-/
namespace ThermoVerif.Indexer
open ThermoVerif.Chemicals

/-! ### Python keys (depth ≤ 2) -/

inductive Leaf where
  | str (s : String)
  | ell
  /-- a sequence nested deeper than a key can meaningfully be (depth ≥ 3); all that matters
  about it is whether it can be hashed (no list inside) -/
  | deep (hashable : Bool)
  deriving Repr, DecidableEq, Inhabited

/-- An element of a top-level sequence. -/
inductive Item where
  | leaf (a : Leaf)
  | tup (l : List Leaf)
  | lst (l : List Leaf)
  deriving Repr, DecidableEq, Inhabited

/-- A key as the user writes it. -/
inductive PyKey where
  | leaf (a : Leaf)
  | tup (l : List Item)
  | lst (l : List Item)
  deriving Repr, DecidableEq, Inhabited

/-- Hashable element. -/
inductive HItem where
  | leaf (a : Leaf)
  | tup (l : List Leaf)
  deriving Repr, DecidableEq, Inhabited

/-- Hashable key: what the memo dictionaries are keyed by. -/
inductive HKey where
  | leaf (a : Leaf)
  | tup (l : List HItem)
  deriving Repr, DecidableEq, Inhabited

def Leaf.unhashable : Leaf → Bool
  | .deep false => true
  | _ => false

/-- the element cannot be hashed as it stands (a list, or a list somewhere inside) -/
def Item.isLst : Item → Bool
  | .lst _ => true
  | .tup l => l.any Leaf.unhashable
  | .leaf a => a.unhashable

def HItem.unhashable : HItem → Bool
  | .leaf a => a.unhashable
  | .tup l => l.any Leaf.unhashable

def Item.toH : Item → HItem
  | .leaf a => .leaf a
  | .tup l => .tup l
  | .lst l => .tup l

def Item.items : PyKey → List Item
  | .leaf _ => []
  | .tup l => l
  | .lst l => l

/-- `CompiledChemicals._get_index_and_kind`: a list becomes a tuple; a sequence that
contains a list cannot be hashed (`TypeError`). -/
def normC : PyKey → Except Err HKey
  | .leaf a => .ok (.leaf a)
  | .tup l => if l.any Item.isLst then .error .typeError else .ok (.tup (l.map Item.toH))
  | .lst l => if l.any Item.isLst then .error .typeError else .ok (.tup (l.map Item.toH))

/-- `MaterialIndexer._get_index_data`: unhashable keys are retried with every inner
list turned into a tuple (one level); a list further down still cannot be hashed (`TypeError`). -/
def normM : PyKey → Except Err HKey
  | .leaf a => .ok (.leaf a)
  | .tup l => if (l.map Item.toH).any HItem.unhashable then .error .typeError else .ok (.tup (l.map Item.toH))
  | .lst l => if (l.map Item.toH).any HItem.unhashable then .error .typeError else .ok (.tup (l.map Item.toH))

/-- `IDs` part of a `(phase, IDs)` key, as a key of its own. -/
def HItem.toKey : HItem → HKey
  | .leaf a => .leaf a
  | .tup l => .tup (l.map HItem.leaf)

/-! ### Index and kind -/

/-- `(index, kind)`: kind 0 `one`, 1 `grp`, 2 `nested`, 3 `arr`, `None` `all`. -/
inductive Ix where
  | one (i : Nat)
  | grp (is : List Nat)
  | nested (es : List Ent)
  | arr (is : List Nat)
  | all
  deriving Repr, DecidableEq, Inhabited

/-- `dct[i]` inside `indices(key)` for one element of a tuple key. -/
def lookupItem (c : Chem) : HItem → Except Err Ent
  | .leaf (.str s) => c.lookup s
  | _ => .error .undefinedAlias

def lookupItems (c : Chem) : List HItem → Except Err (List Ent)
  | [] => .ok []
  | it :: t => do
    let e ← lookupItem c it
    let es ← lookupItems c t
    pure (e :: es)

def entsPos : List Ent → List Nat
  | [] => []
  | .pos i :: t => i :: entsPos t
  | .grp _ :: t => entsPos t

/-- The un-memoised body of `CompiledChemicals._get_index_and_kind`. -/
def resolveC (c : Chem) : HKey → Except Err Ix
  | .leaf (.str s) => do
    match ← c.lookup s with
    | .pos i => pure (.one i)
    | .grp is => pure (.grp is)
  | .leaf .ell => .ok .all
  | .leaf (.deep _) => .error .undefinedAlias
  | .tup l => do
    let es ← lookupItems c l
    if es.any Ent.isGrp then pure (.nested es) else pure (.arr (entsPos es))

/-! ### Phases -/

/-- Case variant of a phase label (`'l' ↔ 'L'`, …).  Only the letters of valid
phases matter: every other label is absent from a `PhaseIndexer` either way. -/
def swapCase : Char → Char
  | 's' => 'S' | 'S' => 's'
  | 'l' => 'L' | 'L' => 'l'
  | 'g' => 'G' | 'G' => 'g'
  | c => c

def idxOf (c : Char) : List Char → Option Nat
  | [] => none
  | x :: t => if x = c then some 0 else (idxOf c t).map (· + 1)

/-- `PhaseIndexer.__call__`: the exact label if present, otherwise its case variant. -/
def phaseIndex (phases : List Char) (c : Char) : Option Nat :=
  match idxOf c phases with
  | some i => some i
  | none => idxOf (swapCase c) phases

/-- Order of `sorted` on the five valid labels. -/
def validPhases : List Char := ['L', 'S', 'g', 'l', 's']

/-- `phase_tuple`: sorted set; `none` when a label is invalid (`RuntimeError`). -/
def phaseTuple (ps : List Char) : Option (List Char) :=
  if ps.all (· ∈ validPhases) then some (validPhases.filter (· ∈ ps)) else none

/-- `(index, kind, sum_across_phases)` of a `MaterialIndexer`. -/
inductive MIx where
  /-- chemical key without phase: summed across phases -/
  | sum (ix : Ix)
  /-- one phase, all chemicals -/
  | row (p : Nat)
  /-- all phases, all chemicals -/
  | whole
  /-- `(phase, IDs)`; `p = none` for the ellipsis -/
  | sub (p : Option Nat) (ix : Ix)
  deriving Repr, DecidableEq, Inhabited

def phaseOfStr (phases : List Char) (s : String) (undefinedChemical : Err) : Except Err Nat :=
  match s.toList with
  | [ch] => match phaseIndex phases ch with
    | some p => .ok p
    | none => .error .undefinedPhase
  | _ => .error undefinedChemical

/-- The phase part of a `(phase, IDs)` key: a one-letter label, or the ellipsis (`none`). -/
def phaseOfFirst (phases : List Char) : HItem → Except Err (Option Nat)
  | .leaf (.str s) =>
    match phaseOfStr phases s .undefinedAlias with
    | .ok p => .ok (some p)
    | .error e => .error e
  | .leaf .ell => .ok none
  | .leaf (.deep _) => .error .indexError
  | .tup _ => .error .indexError

/-- `(phase_index, chemical_index)`; with the ellipsis for `IDs` the phase alone
(fix C10-3: the unfixed code builds `(phase_index, None)` and fails on it). -/
def pairIx : Option Nat → Ix → MIx
  | none, .all => .whole
  | some p, .all => .row p
  | p, ix => .sub p ix

/-- `MaterialIndexer._get_index_and_kind(phase_IDs, error)`: the key did not resolve as
chemicals, so it is a phase or a `(phase, IDs)` pair. -/
def resolvePhase (c : Chem) (phases : List Char) : HKey → Except Err MIx
  | .leaf (.str s) =>
    match phaseOfStr phases s .undefinedAlias with
    | .ok p => .ok (.row p)
    | .error e => .error e
  | .leaf .ell => .ok .whole
  | .leaf (.deep _) => .error .indexError
  | .tup [] => .error .indexError
  | .tup [first, ids] =>
    match phaseOfFirst phases first with
    | .error e => .error e
    | .ok p =>
      match resolveC c ids.toKey with
      | .ok ix => .ok (pairIx p ix)
      | .error e => .error e
  | .tup (first :: _) =>
    match phaseOfFirst phases first with
    | .error e => .error e
    | .ok _ => .error .indexError

/-- The un-memoised body of `MaterialIndexer._get_index_data`. -/
def resolveM (c : Chem) (phases : List Char) (k : HKey) : Except Err MIx :=
  match resolveC c k with
  | .ok ix => .ok (.sum ix)
  | .error .undefinedAlias => resolvePhase c phases k
  | .error e => .error e

/-! ### Reading -/

inductive Val where
  | scalar (x : Rat)
  | vec (xs : List Rat)
  | mat (rows : List (List Rat))
  /-- object array of a `SplitIndexer` read through a nested key: scalars and member vectors -/
  | nest (items : List (Sum Rat (List Rat)))
  deriving Repr, DecidableEq, Inhabited

abbrev Row := List Rat

def getAt (row : Row) (i : Nat) : Rat := row.getD i 0

def getEnt (row : Row) : Ent → Rat
  | .pos i => getAt row i
  | .grp is => sumRat (is.map (getAt row))

/-- `get_sparse_chemical_data`. -/
def getIx (row : Row) : Ix → Val
  | .one i => .scalar (getAt row i)
  | .grp is => .scalar (sumRat (is.map (getAt row)))
  | .nested es => .vec (es.map (getEnt row))
  | .arr is => .vec (is.map (getAt row))
  | .all => .vec row

def addRows : Row → Row → Row
  | [], b => b
  | a, [] => a
  | x :: a, y :: b => (x + y) :: addRows a b

/-- `data.sum(0)`. -/
def colSums : List Row → Row
  | [] => []
  | [r] => r
  | r :: t => addRows r (colSums t)

def stack : List Val → Val
  | vs =>
    if vs.all (fun v => match v with | .scalar _ => true | _ => false) then
      .vec (vs.map fun v => match v with | .scalar x => x | _ => 0)
    else
      .mat (vs.map fun v => match v with | .vec xs => xs | _ => [])

/-- `MaterialIndexer.__getitem__` after key resolution. -/
def getM (data : List Row) : MIx → Val
  | .sum ix => getIx (colSums data) ix
  | .row p => .vec (data.getD p [])
  | .whole => .mat data
  | .sub (some p) ix => getIx (data.getD p []) ix
  | .sub none ix => stack (data.map fun r => getIx r ix)

/-! ### Writing -/

inductive Data where
  | scalar (x : Rat)
  | vec (xs : List Rat)
  /-- 2-d data (`ndim ≥ 2`) -/
  | mat (rows : List (List Rat))
  deriving Repr, DecidableEq, Inhabited

def setAt (row : Row) (i : Nat) (x : Rat) : Row := row.set i x

/-- `for i, j in zip(index, data): …` on the dense image. -/
def writeZip (row : Row) : List Nat → List Rat → Row
  | i :: is, x :: xs => writeZip (setAt row i x) is xs
  | _, _ => row

def writeAll (row : Row) (is : List Nat) (x : Rat) : Row :=
  is.foldl (fun r i => setAt r i x) row

/-- `reset_sparse_chemical_data`. -/
def resetRow (row : Row) : Data → Except Err Row
  | .scalar x => .ok (row.map fun _ => x)
  | .vec xs => .ok ((List.range row.length).map fun i => xs.getD i 0)
  | .mat _ => .error .indexError

/-- `parent.group_compositions[name]`. -/
def compOf (c : Chem) (name : Option String) : Except Err (List Rat) :=
  match name with
  | none => .error .typeError
  | some n => match alookup n c.comps with
    | some comp => .ok comp
    | none => .error .keyError

def itemName : Option HItem → Option String
  | some (.leaf (.str s)) => some s
  | _ => none

def keyName : HKey → Option String
  | .leaf (.str s) => some s
  | _ => none

def keyItem (k : HKey) (n : Nat) : Option HItem :=
  match k with
  | .tup l => l[n]?
  | _ => none

/-- kind 2, scalar data ≠ 0. -/
def writeNestedScalar (c : Chem) (k : HKey) (x : Rat) : Row → Nat → List Ent → Except Err Row
  | row, _, [] => .ok row
  | row, n, .pos i :: t => writeNestedScalar c k x (setAt row i x) (n + 1) t
  | row, n, .grp is :: t => do
    let comp ← compOf c (itemName (keyItem k n))
    writeNestedScalar c k x (writeZip row is (comp.map (x * ·))) (n + 1) t

/-- kind 2, 1-d data. -/
def writeNestedVec (c : Chem) (k : HKey) (xs : List Rat) : Row → Nat → List Ent → Except Err Row
  | row, _, [] => .ok row
  | row, n, .pos i :: t =>
    match xs[n]? with
    | none => .error .indexError
    | some x => writeNestedVec c k xs (setAt row i x) (n + 1) t
  | row, n, .grp is :: t =>
    match xs[n]? with
    | none => .error .indexError
    | some x => do
      let comp ← compOf c (itemName (keyItem k n))
      writeNestedVec c k xs (writeZip row is (comp.map (x * ·))) (n + 1) t

def writeZero (row : Row) : List Ent → Row
  | [] => row
  | .pos i :: t => writeZero (setAt row i 0) t
  | .grp is :: t => writeZero (writeAll row is 0) t

/-- `set_sparse_chemical_data(sparse, index, kind, data, key, parent)`. -/
def setIx (c : Chem) (row : Row) (ix : Ix) (k : HKey) (d : Data) : Except Err Row :=
  match ix, d with
  | .all, d => resetRow row d
  | _, .mat _ => .error .indexError
  | .one i, .scalar x => .ok (setAt row i x)
  | .one _, .vec _ => .error .indexError
  | .grp is, .scalar x => do
    let comp ← compOf c (keyName k)
    pure (writeZip row is (comp.map (x * ·)))
  | .grp is, .vec xs => .ok (writeZip row is xs)
  | .nested es, .scalar x =>
    if x = 0 then .ok (writeZero row es) else writeNestedScalar c k x row 0 es
  | .nested es, .vec xs => writeNestedVec c k xs row 0 es
  | .arr is, .scalar x => .ok (writeAll row is x)
  | .arr is, .vec xs => .ok (writeZip row is xs)

/-- kind 2 with 1-d data that is too short: the elements before the missing one have been
written when `data[n]` raises. -/
def nestedPrefix (c : Chem) (k : HKey) (xs : List Rat) : Row → Nat → List Ent → Row
  | row, _, [] => row
  | row, n, .pos i :: t =>
    match xs[n]? with
    | none => row
    | some x => nestedPrefix c k xs (setAt row i x) (n + 1) t
  | row, n, .grp is :: t =>
    match xs[n]? with
    | none => row
    | some x =>
      match compOf c (itemName (keyItem k n)) with
      | .error _ => row
      | .ok comp => nestedPrefix c k xs (writeZip row is (comp.map (x * ·))) (n + 1) t

/-- kind 2 with a scalar: the elements before a group element without composition (a second
name of a group entered by a failed `set_alias`) have been written when the `KeyError` comes. -/
def nestedScalarPrefix (c : Chem) (k : HKey) (x : Rat) : Row → Nat → List Ent → Row
  | row, _, [] => row
  | row, n, .pos i :: t => nestedScalarPrefix c k x (setAt row i x) (n + 1) t
  | row, n, .grp is :: t =>
    match compOf c (itemName (keyItem k n)) with
    | .error _ => row
    | .ok comp => nestedScalarPrefix c k x (writeZip row is (comp.map (x * ·))) (n + 1) t

/-- State of the row after a *failed* `setIx`: `reset_sparse_chemical_data` clears the
row before it looks at the shape of the data; a nested key with too few data has written a
prefix; every other failure happens before any write. -/
def setIxFail (c : Chem) (row : Row) (ix : Ix) (k : HKey) (d : Data) : Row :=
  match ix, d with
  | .all, .mat _ => row.map fun _ => 0
  | .nested es, .vec xs => nestedPrefix c k xs row 0 es
  | .nested es, .scalar x => if x = 0 then row else nestedScalarPrefix c k x row 0 es
  | _, _ => row

def setRowAt (data : List Row) (p : Nat) (r : Row) : List Row := data.set p r

def mapRowsM (f : Row → Except Err Row) : List Row → Except Err (List Row)
  | [] => .ok []
  | r :: t => do
    let r' ← f r
    let t' ← mapRowsM f t
    pure (r' :: t')

/-- `self.data[:, i] = [x_phase0, x_phase1, …]`. -/
def writeColumn (i : Nat) : List Row → List Rat → Except Err (List Row)
  | [], [] => .ok []
  | r :: t, x :: xs => do
    let t' ← writeColumn i t xs
    pure (setAt r i x :: t')
  | _, _ => .error .valueError

def mulZip : List Rat → List Rat → Except Err (List Rat)
  | [], [] => .ok []
  | x :: xs, y :: ys => do let t ← mulZip xs ys; pure (x * y :: t)
  | _, _ => .error .valueError

/-- `[..., nested] = data`, element `n`. -/
def writeNestedAllPhases (c : Chem) (k : HKey) (xs : List Rat) :
    List Row → Nat → List Ent → Except Err (List Row)
  | data, _, [] => .ok data
  | data, n, .pos i :: t =>
    match xs[n]? with
    | none => .error .indexError
    | some x => writeNestedAllPhases c k xs (data.map fun r => setAt r i x) (n + 1) t
  | data, n, .grp is :: t =>
    match xs[n]? with
    | none => .error .indexError
    | some x => do
      let comp ← compOf c (itemName (keyItem k n))
      if comp.length ≠ is.length then .error .valueError else
      writeNestedAllPhases c k xs (data.map fun r => writeZip r is (comp.map (x * ·))) (n + 1) t

/-- `self.data[:, index] = rows` with one data row per phase, each as long as the index. -/
def writeRowsZip (is : List Nat) : List Row → List (List Rat) → Except Err (List Row)
  | [], [] => .ok []
  | r :: t, xs :: xss =>
    if xs.length ≠ is.length then .error .valueError else
    match writeRowsZip is t xss with
    | .ok t' => .ok (writeZip r is xs :: t')
    | .error e => .error e
  | _, _ => .error .valueError

def scaleRows (comp : List Rat) : List (List Rat) → Except Err (List (List Rat))
  | [] => .ok []
  | xs :: t =>
    match mulZip xs comp, scaleRows comp t with
    | .ok v, .ok t' => .ok (v :: t')
    | .error e, _ => .error e
    | _, .error e => .error e

/-- `MaterialIndexer.__setitem__` after key resolution; `k` is the `IDs` part of the key.
(For the all-phases forms only scalars and 1-d data of the matching length are in the
modelled domain; other shapes answer `valueError`.) -/
def setM (c : Chem) (data : List Row) (mix : MIx) (k : HKey) (d : Data) : Except Err (List Row) :=
  match mix with
  | .sum _ => .error .indexError
  | .whole =>
    match d with
    | .scalar x => .ok (data.map fun r => r.map fun _ => x)
    | .vec xs => if data.all (fun r => r.length = xs.length) then .ok (data.map fun _ => xs)
                 else .error .valueError
    | .mat rows =>
      if rows.length = data.length ∧ data.all (fun r => rows.all fun xs => xs.length = r.length) then .ok rows
      else .error .valueError
  | .row p =>
    match data[p]? with
    | none => .error .indexError
    | some r => do
      let r' ← resetRow r d
      pure (setRowAt data p r')
  | .sub (some p) ix =>
    match data[p]? with
    | none => .error .indexError
    | some r => do
      let r' ← setIx c r ix k d
      pure (setRowAt data p r')
  | .sub none ix =>
    match ix, d with
    | .arr is, .mat rows => writeRowsZip is data rows
    | .one i, .mat rows => writeRowsZip [i] data rows
    | .grp is, .mat rows => do
      let comp ← compOf c (keyName k)
      let scaled ← scaleRows comp rows
      writeRowsZip is data scaled
    | _, .mat _ => .error .valueError
    | .all, _ => .error .typeError
    | .one i, .scalar x => .ok (data.map fun r => setAt r i x)
    | .one i, .vec xs => writeColumn i data xs
    | .arr is, .scalar x => .ok (data.map fun r => writeAll r is x)
    | .arr is, .vec xs =>
      if xs.length = is.length then .ok (data.map fun r => writeZip r is xs) else .error .valueError
    | .grp is, .scalar x => do
      let comp ← compOf c (keyName k)
      if comp.length ≠ is.length then .error .valueError else
      pure (data.map fun r => writeZip r is (comp.map (x * ·)))
    | .grp is, .vec xs => do
      let comp ← compOf c (keyName k)
      let v ← mulZip xs comp
      if v.length ≠ is.length then .error .valueError else
      pure (data.map fun r => writeZip r is v)
    | .nested _, .scalar _ => .error .typeError
    | .nested es, .vec xs => writeNestedAllPhases c k xs data 0 es

/-- `[..., nested] = data` with too few data: prefix written in every phase. -/
def nestedAllPrefix (c : Chem) (k : HKey) (xs : List Rat) : List Row → Nat → List Ent → List Row
  | data, _, [] => data
  | data, n, .pos i :: t =>
    match xs[n]? with
    | none => data
    | some x => nestedAllPrefix c k xs (data.map fun r => setAt r i x) (n + 1) t
  | data, n, .grp is :: t =>
    match xs[n]? with
    | none => data
    | some x =>
      match compOf c (itemName (keyItem k n)) with
      | .error _ => data
      | .ok comp =>
        if comp.length ≠ is.length then data else
        nestedAllPrefix c k xs (data.map fun r => writeZip r is (comp.map (x * ·))) (n + 1) t

/-- State of the data after a *failed* `setM` (see `setIxFail`). -/
def setMFail (c : Chem) (data : List Row) (mix : MIx) (k : HKey) (d : Data) : List Row :=
  match mix, d with
  | .row p, .mat _ => setRowAt data p ((data.getD p []).map fun _ => 0)
  | .sub (some p) ix, d => setRowAt data p (setIxFail c (data.getD p []) ix k d)
  | .sub none (.nested es), .vec xs => nestedAllPrefix c k xs data 0 es
  | _, _ => data

/-! ### `SplitIndexer`: the same keys, but a group stands for its members (no composition) -/

/-- `SplitIndexer.__getitem__` after key resolution. -/
def getSplit (row : Row) : Ix → Val
  | .one i => .scalar (getAt row i)
  | .grp is => .vec (is.map (getAt row))
  | .nested es => .nest (es.map fun e => match e with
      | .pos i => .inl (getAt row i)
      | .grp is => .inr (is.map (getAt row)))
  | .arr is => .vec (is.map (getAt row))
  | .all => .vec row

def splitNestedScalar (row : Row) (x : Rat) : List Ent → Row
  | [] => row
  | .pos i :: t => splitNestedScalar (setAt row i x) x t
  | .grp is :: t => splitNestedScalar (writeAll row is x) x t

/-- kind 2 with 1-d data: element `n` of the data goes to element `n` of the key (to every member
of a group); `(row, false)` when the data ran out (`data[n]` raises after a prefix was written). -/
def splitNestedVec (xs : List Rat) : Row → Nat → List Ent → Row × Bool
  | row, _, [] => (row, true)
  | row, n, .pos i :: t =>
    match xs[n]? with
    | none => (row, false)
    | some x => splitNestedVec xs (setAt row i x) (n + 1) t
  | row, n, .grp is :: t =>
    match xs[n]? with
    | none => (row, false)
    | some x => splitNestedVec xs (writeAll row is x) (n + 1) t

/-- `SplitIndexer.__setitem__` after key resolution: the new row, and the error if it raised
(the row then shows what had been written before). -/
def setSplit (row : Row) (ix : Ix) (d : Data) : Row × Option Err :=
  match ix, d with
  | .all, .mat _ => (row.map fun _ => 0, some .indexError)
  | .all, .scalar x => (row.map fun _ => x, none)
  | .all, .vec xs => ((List.range row.length).map fun i => xs.getD i 0, none)
  | .one i, .scalar x => (setAt row i x, none)
  | .one _, _ => (row, some .indexError)
  | .grp is, .scalar x => (writeAll row is x, none)
  | .grp is, .vec xs => (writeZip row is xs, none)
  | .grp _, .mat _ => (row, some .indexError)
  | .nested es, .scalar x => (splitNestedScalar row x es, none)
  | .nested es, .vec xs =>
    match splitNestedVec xs row 0 es with
    | (r, true) => (r, none)
    | (r, false) => (r, some .indexError)
  | .nested _, .mat _ => (row, some .typeError)
  | .arr is, .scalar x => (writeAll row is x, none)
  | .arr is, .vec xs => (writeZip row is xs, none)
  | .arr _, .mat _ => (row, some .indexError)

/-! ### Name-keyed construction of arrays, and views in other units -/

def zeroRow (size : Nat) : Row := List.replicate size 0

/-- `array[index] = data` of NumPy for a list index: a scalar or a one-element sequence is
broadcast, otherwise the lengths must agree. -/
def fancyAssign (row : Row) (is : List Nat) : Data → Except Err Row
  | .scalar x => .ok (writeAll row is x)
  | .vec [x] => .ok (writeAll row is x)
  | .vec xs => if xs.length = is.length then .ok (writeZip row is xs) else .error .valueError
  | .mat _ => .error .valueError

/-- `chemicals.array(IDs, data)` / `kwarray` after resolution of `tuple(IDs)`. -/
def arrayOf (size : Nat) (ix : Ix) (d : Data) : Except Err Row :=
  match ix with
  | .arr is => fancyAssign (zeroRow size) is d
  | .one i => fancyAssign (zeroRow size) [i] d
  | .grp _ => .error .valueError
  | .nested _ => .error .valueError
  | .all => .error .indexError

def splitNested (row : Row) : List Ent → List Rat → Row
  | .pos i :: t, x :: xs => splitNested (setAt row i x) t xs
  | .grp is :: t, x :: xs => splitNested (writeAll row is x) t xs
  | _, _ => row

/-- `chemicals.split(IDs, data)` / `kwsplit`: as `array`, but a group name stands for all its
members (each gets the group's datum). -/
def splitOf (size : Nat) (ix : Ix) (d : Data) : Except Err Row :=
  match ix, d with
  | .nested es, .vec xs => .ok (splitNested (zeroRow size) es xs)
  | .nested _, _ => .error .typeError
  | .grp is, d => fancyAssign (zeroRow size) is d
  | .all, _ => .error .indexError
  | ix, d => arrayOf size ix d

/-- A mass (or any per-chemical factor) view of molar data: `MassFlowDict`. -/
def scaleRow (f : List Rat) (row : Row) : Row := mulList row f
def unscaleRow (f : List Rat) (row : Row) : Row := divList row f

end ThermoVerif.Indexer
