/-
Model of the docking bookkeeping of `thermosteam/network.py`
(`StreamSequence`, `AbstractInlets`, `AbstractOutlets`, `AbstractStream.disconnect_*`,
pipe notation, `AbstractUnit.disconnect / insert / take_place_of / replace_with`,
`Connection.reconnect` incl. its `_owner` branch, `InletPort / OutletPort / StreamPorts`,
unit construction with `ins=None`, `()`, a list, a single stream or a single ID).  Core Lean only (no Mathlib) so that it can be compiled
into the line-protocol driver.

Objects are ids (`Nat`).  A *side* is either the inlet side (port lists are the
`ins` of units, `loc` is `stream._sink`) or the outlet side (`outs`, `_source`).
Streams and placeholders (`AbstractMissingStream` objects) share one id space;
`World.real s` tells which is which.  Python `is`-identity is equality of ids.

Placeholders are first-class objects: every `_create_missing_stream()` /
`_as_stream(None)` of the code allocates a fresh id whose pointer on the creating
side names the unit of the port list (`MissingStream(None, sink)` /
`MissingStream(source, None)`), the pointer on the other side is `None`; from then
on a placeholder is docked, undocked, moved between units and disconnected by
exactly the same code paths as a stream (`_dock`, `_undock`, `_redock`, `remove`,
`disconnect_source/sink` are shared or duck-typed in the code).  The docking
bookkeeping never looks at whether an object is a placeholder; only
`AbstractUnit.disconnect` (`[i for i in ins if i]`), the `isinstance(…, AbstractStream)`
tests of `AbstractUnit.disconnect/insert` and the constructors do.
-/
namespace ThermoVerif.Network

inductive Err where
  | indexError | fixedSize | valueError | typeError
  deriving Repr, DecidableEq, Inhabited

def Err.toString : Err → String
  | .indexError => "IndexError"
  | .fixedSize => "RuntimeError"
  | .valueError => "ValueError"
  | .typeError => "TypeError"

/-- One side (inlet or outlet) of every unit and stream of the flowsheet. -/
structure Side where
  /-- `stream._sink` (inlet side) / `stream._source` (outlet side). -/
  loc : Nat → Option Nat
  /-- `unit._ins._streams` / `unit._outs._streams`. -/
  lst : Nat → List Nat
  /-- `_fixed_size` of the port list. -/
  fixed : Nat → Bool
  /-- `_size` of the port list. -/
  size : Nat → Nat

/-- A side together with the allocation counter for fresh object ids. -/
structure SW where
  sd : Side
  next : Nat
  /-- sticky monitor: every primitive list operation so far was used within the
  precondition the property states for it (for streams and placeholders alike) -/
  pre : Bool

def Side.setLoc (sd : Side) (s : Nat) (v : Option Nat) : Side :=
  { sd with loc := fun x => if x = s then v else sd.loc x }

def Side.setLst (sd : Side) (u : Nat) (l : List Nat) : Side :=
  { sd with lst := fun x => if x = u then l else sd.lst x }

/-- `_undock`. -/
def SW.undock (w : SW) (s : Nat) : SW := { w with sd := w.sd.setLoc s none }

/-- `_dock`. -/
def SW.dock (w : SW) (u s : Nat) : SW := { w with sd := w.sd.setLoc s (some u) }

/-- `self._create_missing_stream()` of the port list of unit `u`. -/
def SW.newMissing (w : SW) (u : Nat) : SW × Nat :=
  ({ w with sd := w.sd.setLoc w.next (some u), next := w.next + 1 }, w.next)

/-- `n` fresh placeholders of unit `u`. -/
def SW.newMissings (w : SW) (u : Nat) : Nat → SW × List Nat
  | 0 => (w, [])
  | n + 1 =>
    let (w1, m) := w.newMissing u
    let (w2, ms) := w1.newMissings u n
    (w2, m :: ms)

/-- `ins.remove(stream)` as reached from `_redock` and `disconnect_*`:
`replace(stream, missing)` → `_set_stream(index, missing)`. -/
def SW.removeFrom (w : SW) (v s : Nat) : Except Err SW :=
  let (w1, m) := w.newMissing v
  let l := w1.sd.lst v
  match l.idxOf? s with
  | none => .error .valueError
  | some i =>
    let w2 := w1.undock s
    -- `_redock(missing)`: the placeholder was created with `loc = v`, so nothing to do
    .ok { w2 with sd := w2.sd.setLst v (l.set i m) }

/-- `_redock(stream)` of the port list of unit `u`. -/
def SW.redock (w : SW) (u s : Nat) : Except Err SW :=
  match w.sd.loc s with
  | none => .ok (w.dock u s)
  | some v =>
    if v = u then .ok w
    else if s ∈ w.sd.lst v then do
      let w1 ← w.removeFrom v s
      .ok (w1.dock u s)
    else .ok (w.dock u s)

def SW.redockAll (w : SW) (u : Nat) : List Nat → Except Err SW
  | [] => .ok w
  | s :: ss => do
    let w1 ← w.redock u s
    w1.redockAll u ss

def SW.undockAll (w : SW) : List Nat → SW
  | [] => w
  | s :: ss => (w.undock s).undockAll ss

/-- `_set_stream(i, stream)` (`seq[i] = stream`, non-negative `i`). -/
def SW.setStream (w : SW) (u i s : Nat) : Except Err SW :=
  -- precondition: a stream (or placeholder) assigned to a port is not already in the same port list
  let w := { w with pre := w.pre && !(w.sd.lst u).contains s }
  let l := w.sd.lst u
  if h : i < l.length then do
    let w1 := w.undock l[i]
    let w2 ← w1.redock u s
    .ok { w2 with sd := w2.sd.setLst u ((w2.sd.lst u).set i s) }
  else if w.sd.fixed u then .error .indexError
  else do
    let w2 ← w.redock u s
    .ok { w2 with sd := w2.sd.setLst u (w2.sd.lst u ++ [s]) }

/-- `_as_stream` over the supplied items: `none` becomes a fresh placeholder. -/
def SW.asStreams (w : SW) (u : Nat) : List (Option Nat) → SW × List Nat
  | [] => (w, [])
  | none :: r =>
    let (w1, m) := w.newMissing u
    let (w2, ms) := w1.asStreams u r
    (w2, m :: ms)
  | some s :: r =>
    let (w2, ms) := w.asStreams u r
    (w2, s :: ms)

/-- `_set_streams(slice(a, b), streams)` for `0 ≤ a`, `0 ≤ b`, unit step. -/
def SW.setStreams (w : SW) (u a b : Nat) (items : List (Option Nat)) : Except Err SW := do
  let (w0, ss) := w.asStreams u items
  let l := w0.sd.lst u
  let b' := max a b
  -- precondition: the supplied objects (streams and placeholders) are distinct, none is in the
  -- part of the list that is kept, and a fixed-size list is not overfilled
  let kept := l.take a ++ l.drop b'
  let w0 := { w0 with pre := w0.pre && ss.Nodup && ss.all (fun s => !kept.contains s)
                        && (!w0.sd.fixed u || (kept.length + ss.length ≤ w0.sd.size u)) }
  let w1 := w0.undockAll ((l.drop a).take (b' - a))
  let l' := l.take a ++ ss ++ l.drop b'
  let w2 := { w1 with sd := w1.sd.setLst u l' }
  let w3 ← w2.redockAll u l'
  if w3.sd.fixed u && l'.length < w3.sd.size u then
    let (w4, ms) := w3.newMissings u (w3.sd.size u - l'.length)
    .ok { w4 with sd := w4.sd.setLst u (l' ++ ms) }
  else .ok w3

/-- `seq.insert(index, stream)`; Python clamps the index. -/
def SW.insertAt (w : SW) (u i s : Nat) : Except Err SW :=
  if w.sd.fixed u then .error .fixedSize
  else
    -- precondition: an inserted stream (or placeholder) is not docked on this side of any unit
    let w := { w with pre := w.pre && (w.sd.loc s).isNone }
    let w1 := (w.undock s).dock u s
    let l := w1.sd.lst u
    .ok { w1 with sd := w1.sd.setLst u (l.take i ++ s :: l.drop i) }

/-- `seq.append(stream)`. -/
def SW.append (w : SW) (u s : Nat) : Except Err SW :=
  if w.sd.fixed u then .error .fixedSize
  else
    let w := { w with pre := w.pre && (w.sd.loc s).isNone }
    let w1 := (w.undock s).dock u s
    .ok { w1 with sd := w1.sd.setLst u (w1.sd.lst u ++ [s]) }

def SW.extendGo (w : SW) (u : Nat) : List Nat → SW
  | [] => w
  | s :: ss =>
    let w := { w with pre := w.pre && (w.sd.loc s).isNone }
    let w1 := (w.undock s).dock u s
    SW.extendGo { w1 with sd := w1.sd.setLst u (w1.sd.lst u ++ [s]) } u ss

/-- `seq.extend(streams)`. -/
def SW.extend (w : SW) (u : Nat) (ss : List Nat) : Except Err SW :=
  if w.sd.fixed u then .error .fixedSize else .ok (w.extendGo u ss)

/-- `seq.replace(stream, other)`. -/
def SW.replace (w : SW) (u s t : Nat) : Except Err SW :=
  match (w.sd.lst u).idxOf? s with
  | none => .error .valueError
  | some i => w.setStream u i t

/-- `seq.remove(stream)`. -/
def SW.remove (w : SW) (u s : Nat) : Except Err SW :=
  let (w1, m) := w.newMissing u
  w1.replace u s m

/-- `seq.pop(index)`; returns the popped object (stream or placeholder), undocked. -/
def SW.pop (w : SW) (u i : Nat) : Except Err (SW × Nat) :=
  let l := w.sd.lst u
  if h : i < l.length then
    let s := l[i]
    if w.sd.fixed u then do
      let (w1, m) := w.newMissing u
      let w2 ← w1.replace u s m
      .ok (w2, s)
    else
      let w1 := w.undock s
      .ok ({ w1 with sd := w1.sd.setLst u (l.eraseIdx i) }, s)
  else .error .indexError

/-- `seq.clear()`: every object leaving the list is undocked. -/
def SW.clear (w : SW) (u : Nat) : SW :=
  let w1 := w.undockAll (w.sd.lst u)
  if w1.sd.fixed u then
    let (w2, ms) := w1.newMissings u (w1.sd.size u)
    { w2 with sd := w2.sd.setLst u ms }
  else { w1 with sd := w1.sd.setLst u [] }

/-- `seq.empty()`. -/
def SW.empty (w : SW) (u : Nat) : SW :=
  let w1 := w.undockAll (w.sd.lst u)
  let (w2, ms) := w1.newMissings u (w1.sd.size u)
  { w2 with sd := w2.sd.setLst u ms }

/-- `stream.disconnect_source()` / `disconnect_sink()` on this side. -/
def SW.disconnect (w : SW) (s : Nat) : Except Err SW :=
  match w.sd.loc s with
  | none => .ok w
  | some v => do
    let (w1, m) := w.newMissing v
    w1.replace v s m

/-! ## The whole flowsheet -/

structure World where
  ins : Side
  outs : Side
  real : Nat → Bool
  nS : Nat
  nU : Nat
  pre : Bool
  /-- `unit._owner` (an auxiliary unit's owner; only `Connection.reconnect` looks at it) -/
  owner : Nat → Option Nat := fun _ => none

def Side.init : Side :=
  { loc := fun _ => none, lst := fun _ => [], fixed := fun _ => false, size := fun _ => 0 }

def World.init : World :=
  { ins := Side.init, outs := Side.init, real := fun _ => false, nS := 0, nU := 0, pre := true }

inductive Which where | i | o
  deriving DecidableEq, Repr

def World.get (w : World) : Which → SW
  | .i => ⟨w.ins, w.nS, w.pre⟩
  | .o => ⟨w.outs, w.nS, w.pre⟩

def World.side (w : World) : Which → Side
  | .i => w.ins | .o => w.outs

def World.put (w : World) : Which → SW → World
  | .i, r => { w with ins := r.sd, nS := r.next, pre := r.pre }
  | .o, r => { w with outs := r.sd, nS := r.next, pre := r.pre }

def World.on (w : World) (k : Which) (f : SW → Except Err SW) : Except Err World := do
  let r ← f (w.get k)
  .ok (w.put k r)

/-- `AbstractStream()`: a new real stream, docked nowhere. -/
def World.newStream (w : World) : World × Nat :=
  ({ w with real := fun x => if x = w.nS then true else w.real x, nS := w.nS + 1 }, w.nS)

/-- One element of a constructor's `ins=` / `outs=` list. -/
inductive Item where
  /-- an existing stream object -/
  | strm (s : Nat)
  /-- a string ID: a new stream is created and docked -/
  | new
  /-- `None`: a new stream for fixed-size lists, a placeholder for variable-size ones -/
  | none

/-- Constructor argument for one port list. -/
inductive PortsArg where
  /-- `ins=None`: all placeholders (fixed size) / placeholders up to `_N` (variable size). -/
  | missing
  /-- `outs=()`: `_N` new streams. -/
  | fresh
  /-- an explicit list of items. -/
  | given (l : List Item)
  /-- a single stream object (or placeholder object) or a single string ID: `ins=feed`, `ins='ID'`. -/
  | single (it : Item)

/-- `[dock(Stream()) for i in range(size)]` -/
def World.freshStreams (w : World) (k : Which) (u : Nat) (acc : List Nat) : Nat → World × List Nat
  | 0 => (w, acc.reverse)
  | j + 1 =>
    let (w1, s) := w.newStream
    let w2 := w1.put k ((w1.get k).dock u s)
    World.freshStreams w2 k u (s :: acc) j

/-- The per-item loop of `StreamSequence.__init__` for an explicit list. -/
def World.loadItems (w : World) (k : Which) (u : Nat) (fx : Bool) (acc : List Nat) :
    List Item → Except Err (World × List Nat)
  | [] => .ok (w, acc.reverse)
  | .strm s :: r => do
    let sw1 ← (w.get k).redock u s
    World.loadItems (w.put k sw1) k u fx (s :: acc) r
  | .none :: r =>
    if fx then
      let (w1, s) := w.newStream
      World.loadItems (w1.put k ((w1.get k).dock u s)) k u fx (s :: acc) r
    else
      let (sw1, m) := (w.get k).newMissing u
      World.loadItems (w.put k sw1) k u fx (m :: acc) r
  | .new :: r =>
    let (w1, s) := w.newStream
    World.loadItems (w1.put k ((w1.get k).dock u s)) k u fx (s :: acc) r

/-- The part of `StreamSequence.__init__` that loads an explicit list of items. -/
def World.loadGiven (w : World) (k : Which) (u n : Nat) (fx : Bool) (l : List Item) :
    Except Err World :=
  if fx then
    if n < l.length then .error .fixedSize
    else do
      -- `_initialize_missing_streams(); _streams[:N] = [redock(i) | dock(Stream(i)) ...]`
      let sw := w.get k
      let (sw1, ms) := sw.newMissings u n
      let w := w.put k { sw1 with sd := sw1.sd.setLst u ms }
      let (w1, ss) ← w.loadItems k u true [] l
      -- the first `N` placeholders are overwritten: from here on they are unreachable (no port
      -- list holds them and nobody was handed one), so their stale pointer is unobservable; the
      -- model clears it, which lets the invariant speak about every allocated id
      let sw := (w1.get k).undockAll (((w1.get k).sd.lst u).take ss.length)
      .ok (w1.put k { sw with sd := sw.sd.setLst u (ss ++ (sw.sd.lst u).drop ss.length) })
  else do
    let (w1, ss) ← w.loadItems k u false [] l
    let sw := w1.get k
    .ok (w1.put k { sw with sd := sw.sd.setLst u ss })

/-- `StreamSequence.__init__`. -/
def World.initSeq (w : World) (k : Which) (u n : Nat) (fx : Bool) (arg : PortsArg) :
    Except Err World := do
  -- register size/fixedness
  let sw := w.get k
  let sd := sw.sd
  let sd' : Side := { sd with fixed := fun x => if x = u then fx else sd.fixed x
                              size := fun x => if x = u then n else sd.size x }
  let w := w.put k { sw with sd := sd' }
  match arg with
  | .fresh =>
    let (w1, ss) := w.freshStreams k u [] n
    let sw := w1.get k
    .ok (w1.put k { sw with sd := sw.sd.setLst u ss })
  | .missing =>
    let sw := w.get k
    let (sw1, ms) := sw.newMissings u n
    .ok (w.put k { sw1 with sd := sw1.sd.setLst u ms })
  | .given l =>
    -- precondition: the objects given are distinct streams (a placeholder object inside a
    -- constructor list is outside the documented use: the code would take it for an ID)
    let given := l.filterMap fun | .strm s => some s | _ => none
    let w := { w with pre := w.pre && given.Nodup && given.all w.real }
    w.loadGiven k u n fx l
  | .single it =>
    -- `_initialize_missing_streams(); _streams[0] = redock(stream) | dock(Stream(ID))` (fixed size:
    -- an empty list has no port 0) / `_streams = [redock(stream) | dock(Stream(ID))]`: from there on
    -- exactly the list form with one item.  Placeholder objects are accepted here (`stream_types`).
    if fx && n == 0 then .error .indexError
    else w.loadGiven k u n fx [it]

/-- `AbstractUnit(ID, ins, outs)` for a class with `_N_ins = ni`, … -/
def World.newUnit (w : World) (ni : Nat) (fi : Bool) (ai : PortsArg)
    (no : Nat) (fo : Bool) (ao : PortsArg) : Except Err (World × Nat) := do
  let u := w.nU
  let w := { w with nU := w.nU + 1 }
  let w1 ← w.initSeq .i u ni fi ai
  let w2 ← w1.initSeq .o u no fo ao
  .ok (w2, u)

/-- `AbstractStream.disconnect()`. -/
def World.disconnectStream (w : World) (s : Nat) : Except Err World := do
  let w1 ← w.on .o (·.disconnect s)
  w1.on .i (·.disconnect s)

/-- the real (truthy) streams of a list -/
def World.reals (w : World) (l : List Nat) : List Nat := l.filter w.real

/-- Target of `unit.disconnect(inlets=…)`: an index or a stream. -/
inductive PortRef where
  | idx (i : Nat)
  | strm (s : Nat)

/-- `ins.index(i) if isinstance(i, AbstractStream) else i`; a placeholder object is not an
`AbstractStream`, so it is used as the index itself and `__setitem__` rejects it (`IndexError`). -/
def SW.resolve (real : Nat → Bool) (w : SW) (u : Nat) : PortRef → Except Err Nat
  | .idx i => .ok i
  | .strm s =>
    if real s then
      match (w.sd.lst u).idxOf? s with
      | some i => .ok i
      | none => .error .valueError
    else .error .indexError

def SW.setNones (real : Nat → Bool) (w : SW) (u : Nat) : List PortRef → Except Err SW
  | [] => .ok w
  | r :: rs => do
    let i ← w.resolve real u r
    let (w1, m) := w.newMissing u
    let w2 ← w1.setStream u i m
    SW.setNones real w2 u rs

/-- `outs[ins.index(o) if isinstance(o, AbstractStream) else o] = None` for each given outlet:
the code looks a stream up in the *inlet* list (mirrored as it is; the docking
invariant is not affected by which port is vacated). -/
def World.setNonesOut (w : World) (u : Nat) : List PortRef → Except Err World
  | [] => .ok w
  | r :: rs => do
    let i ← (w.get .i).resolve w.real u r
    let w1 ← w.on .o fun sw => let (sw1, m) := sw.newMissing u; sw1.setStream u i m
    w1.setNonesOut u rs

/-- `AbstractUnit.disconnect(inlets=…, outlets=…, join_ends=…)`. -/
def World.disconnectUnit (w : World) (u : Nat) (inl outl : Option (List PortRef))
    (join : Bool) : Except Err World := do
  let (w1, inS) ← match inl with
    | none => do
      let rs := w.reals (w.ins.lst u)
      let w1 ← w.on .i (·.setStreams u 0 (w.ins.lst u).length [])
      pure (w1, rs.map some)
    | some l => do
      let w1 ← w.on .i (SW.setNones w.real · u l)
      pure (w1, l.map fun | .strm s => some s | .idx _ => none)
  let (w2, outS) ← match outl with
    | none => do
      let rs := w1.reals (w1.outs.lst u)
      let w2 ← w1.on .o (·.setStreams u 0 (w1.outs.lst u).length [])
      pure (w2, rs.map some)
    | some l => do
      let w2 ← w1.setNonesOut u l
      pure (w2, l.map fun | .strm s => some s | .idx _ => none)
  if join then
    if inS.length ≠ outS.length then .error .valueError
    else
      let rec go (w : World) : List (Option Nat × Option Nat) → Except Err World
        | [] => .ok w
        | (a, some b) :: r => do
          match w.ins.loc b with
          | some v =>
            match a with
            | some a =>
              let w' ← w.on .i (·.replace v b a)
              go w' r
            | none =>
              -- `replace(outlet, <int>)`: `index` may raise first, then `_as_stream` rejects the int
              if (w.ins.lst v).contains b then .error .typeError else .error .valueError
          | none => go w r
        | (_, none) :: _ => .error .typeError     -- `<int>.sink`
      go w2 (inS.zip outS)
  else .ok w2

/-- `unit.take_place_of(other)`. -/
def World.takePlaceOf (w : World) (u o : Nat) : Except Err World := do
  let w1 ← w.on .i (·.setStreams u 0 (w.ins.lst u).length ((w.ins.lst o).map some))
  w1.on .o (·.setStreams u 0 (w1.outs.lst u).length ((w1.outs.lst o).map some))

/-- `unit.replace_with(None)`. -/
def World.replaceWithNone (w : World) (u : Nat) : Except Err World := do
  let rec go (w : World) : List (Nat × Nat) → Except Err World
    | [] => .ok w
    | (a, b) :: r => do
      match w.outs.loc a with
      | some src =>
        let w' ← w.on .o (·.replace src a b)
        go w' r
      | none =>
        match w.ins.loc b with
        | some snk =>
          let w' ← w.on .i (·.replace snk b a)
          go w' r
        | none => go w r
  let w1 ← go w ((w.ins.lst u).zip (w.outs.lst u))
  let w2 := w1.put .i ((w1.get .i).empty u)
  .ok (w2.put .o ((w2.get .o).empty u))

/-- `getattr(b, '_owner', None) is a`: the (auxiliary) unit of port `b` is owned by the unit of port `a`. -/
def World.owns (w : World) (a b : Option (Nat × Nat)) : Bool :=
  match a, b with
  | some (ua, _), some (ub, _) => w.owner ub == some ua
  | _, _ => false

/-- one end of `Connection.reconnect`: assign the stream to the recorded port (unless the connection
is one between an auxiliary unit and its owner: `skip`), or disconnect that end if there was no unit -/
def World.reconHalf (w : World) (k : Which) (p : Option (Nat × Nat)) (skip : Bool) (s : Nat) :
    Except Err World :=
  match p with
  | some (u, i) => if skip then .ok w else w.on k (·.setStream u i s)
  | none => w.on k (·.disconnect s)

/-- `Connection(source, source_index, stream, sink_index, sink).reconnect()`. -/
def World.reconnect (w : World) (src : Option (Nat × Nat)) (s : Nat) (snk : Option (Nat × Nat)) :
    Except Err World := do
  let w1 ← w.reconHalf .o src (w.owns src snk) s
  w1.reconHalf .i snk (w.owns snk src) s

/-- `InletPort.from_inlet(x).set_stream(s)` / `OutletPort.from_outlet(x).set_stream(s)`: the port
that holds `x` now gets `s`. -/
def World.portFrom (w : World) (k : Which) (x s : Nat) : Except Err World :=
  match (w.side k).loc x with
  | none => .error .valueError      -- "stream … is not an inlet to any unit"
  | some v => w.on k (·.replace v x s)

/-- the ports of `StreamPorts.from_inlets(xs)` / `from_outlets(xs)`: (unit, index) of every `x`, all
resolved before anything is assigned -/
def World.resolvePorts (w : World) (k : Which) : List Nat → Except Err (List (Nat × Nat))
  | [] => .ok []
  | x :: xs =>
    match (w.side k).loc x with
    | none => .error .valueError
    | some v =>
      match ((w.side k).lst v).idxOf? x with
      | none => .error .valueError
      | some i => do
        let r ← w.resolvePorts k xs
        .ok ((v, i) :: r)

/-- `for port, s in zip(ports, streams): port.set_stream(s)` -/
def World.setPorts (w : World) (k : Which) : List ((Nat × Nat) × Nat) → Except Err World
  | [] => .ok w
  | ((v, i), s) :: r => do
    let w1 ← w.on k (·.setStream v i s)
    w1.setPorts k r

/-- `StreamPorts.from_inlets(xs)[i] = s` (`from_outlets` on the outlet side). -/
def World.streamPort (w : World) (k : Which) (xs : List Nat) (i s : Nat) : Except Err World := do
  let ports ← w.resolvePorts k xs
  match ports[i]? with
  | none => .error .indexError
  | some (v, j) => w.on k (·.setStream v j s)

/-- A Python slice bound against a list of length `n`: `None` is the default, a negative bound counts
from the back, everything is clamped to `[0, n]`. -/
def sliceBound (x : Option Int) (dflt n : Nat) : Nat :=
  match x with
  | none => dflt
  | some i => if i < 0 then n - min n i.natAbs else min n i.natAbs

/-- `StreamPorts.from_inlets(xs)[:] = ss` (`from_outlets` on the outlet side). -/
def World.streamPorts (w : World) (k : Which) (xs ss : List Nat) : Except Err World := do
  let ports ← w.resolvePorts k xs
  if ss.length ≠ ports.length then .error .indexError
  else w.setPorts k (ports.zip ss)

/-- `unit.insert(stream, inlet=…, outlet=…)`.  An inlet given as an index is looked
up in `outs` (`inlet = self.outs[inlet]`), mirrored as the code has it. -/
def World.insertUnit (w : World) (u s : Nat) (inlet outlet : Option PortRef) :
    Except Err World := do
  let source := w.outs.loc s
  let sink := w.ins.loc s
  let replaceIn (w : World) (k : Which) (v : Option Nat) (a b : Nat) : Except Err World :=
    match v with
    | some v => w.on k (·.replace v a b)
    | none => .error .typeError   -- `None.ins` → AttributeError
  let (w1, added) ← match outlet with
    | none =>
      if w.outs.fixed u then
        if w.outs.size u = 1 then
          match (w.outs.lst u)[0]? with
          | some o => do pure (← replaceIn w .i sink s o, false)
          | none => .error .indexError
        else .error .valueError
      else pure (w, true)     -- `stream` becomes the new outlet: appended at the end
    | some (.strm o) =>
      -- a placeholder object is not an `AbstractStream`: `self.outs[outlet]` → TypeError
      if !w.real o then .error .typeError
      else if w.outs.loc o ≠ some u then .error .valueError
      else do pure (← replaceIn w .i sink s o, false)
    | some (.idx i) =>
      match (w.outs.lst u)[i]? with
      | some o => do pure (← replaceIn w .i sink s o, false)
      | none => .error .indexError
  let w2 ← match inlet with
    | none =>
      if w1.ins.fixed u || added then
        if w1.ins.size u = 1 then
          match (w1.ins.lst u)[0]? with
          | some a => replaceIn w1 .o source s a
          | none => .error .indexError
        else .error .valueError
      else w1.on .i (·.append u s)
    | some (.strm a) =>
      if !w1.real a then .error .typeError
      else if w1.ins.loc a ≠ some u then .error .valueError
      else replaceIn w1 .o source s a
    | some (.idx i) =>
      match (w1.outs.lst u)[i]? with
      | some a => replaceIn w1 .o source s a
      | none => .error .indexError
  -- once the old source has let go of it, the stream is appended to the extendable outlets
  if added then w2.on .o (·.append u s) else .ok w2

/-! ## Operations as data -/

inductive Op where
  | newStream
  | newUnit (ni : Nat) (fi : Bool) (ai : PortsArg) (no : Nat) (fo : Bool) (ao : PortsArg)
  | set (k : Which) (u i : Nat) (s : Option Nat)
  | slice (k : Which) (u a b : Nat) (items : List (Option Nat))
  | sliceAll (k : Which) (u : Nat) (items : List (Option Nat))
  | insert (k : Which) (u i s : Nat)
  | append (k : Which) (u s : Nat)
  | extend (k : Which) (u : Nat) (ss : List Nat)
  | replace (k : Which) (u s : Nat) (t : Option Nat)
  | pop (k : Which) (u i : Nat)
  | remove (k : Which) (u s : Nat)
  | clear (k : Which) (u : Nat)
  | empty (k : Which) (u : Nat)
  | dsrc (s : Nat)
  | dsnk (s : Nat)
  | disc (s : Nat)
  | udisc (u : Nat) (inl outl : Option (List PortRef)) (join : Bool)
  | takePlaceOf (u o : Nat)
  | replaceWithNone (u : Nat)
  | reconnect (src : Option (Nat × Nat)) (s : Nat) (snk : Option (Nat × Nat))
  | insertUnit (u s : Nat) (inlet outlet : Option PortRef)
  /-- `U - V`: `V.ins[:] = U.outs` -/
  | pipeUU (u v : Nat)
  /-- `seq[-j] = s` (`j ≥ 1`) -/
  | setBack (k : Which) (u j : Nat) (s : Option Nat)
  /-- `seq.pop(-j)` (`j ≥ 1`) -/
  | popBack (k : Which) (u j : Nat)
  /-- `unit._owner = v` -/
  | setOwner (u : Nat) (v : Option Nat)
  /-- `InletPort.from_inlet(x).set_stream(s)` / `OutletPort.from_outlet(x).set_stream(s)` -/
  | portFrom (k : Which) (x s : Nat)
  /-- `StreamPorts.from_inlets(xs)[:] = ss` / `from_outlets` -/
  | streamPorts (k : Which) (xs ss : List Nat)
  /-- `StreamPorts.from_inlets(xs)[i] = s` / `from_outlets` -/
  | streamPort (k : Which) (xs : List Nat) (i s : Nat)
  /-- `seq[a:b] = items` with arbitrary Python bounds (`None`, negative, beyond the end) -/
  | sliceI (k : Which) (u : Nat) (a b : Option Int) (items : List (Option Nat))
  /-- `seq.insert(-j, s)` (`j ≥ 1`): Python clamps to the front -/
  | insertBack (k : Which) (u j s : Nat)

def PortRef.ids : PortRef → List Nat
  | .idx _ => [] | .strm s => [s]

def PortsArg.ids : PortsArg → List Nat
  | .given l => l.filterMap fun | .strm s => some s | _ => none
  | .single (.strm s) => [s]
  | _ => []

/-- The stream objects an operation mentions. -/
def Op.ids : Op → List Nat
  | .newStream => []
  | .newUnit _ _ ai _ _ ao => ai.ids ++ ao.ids
  | .set _ _ _ s => s.toList
  | .slice _ _ _ _ items => items.filterMap id
  | .sliceAll _ _ items => items.filterMap id
  | .insert _ _ _ s => [s]
  | .append _ _ s => [s]
  | .extend _ _ ss => ss
  | .replace _ _ s t => s :: t.toList
  | .pop _ _ _ => []
  | .remove _ _ s => [s]
  | .clear _ _ => []
  | .empty _ _ => []
  | .dsrc s => [s]
  | .dsnk s => [s]
  | .disc s => [s]
  | .udisc _ inl outl _ =>
    ((inl.getD []).map PortRef.ids).flatten ++ ((outl.getD []).map PortRef.ids).flatten
  | .takePlaceOf _ _ => []
  | .replaceWithNone _ => []
  | .reconnect _ s _ => [s]
  | .insertUnit _ s inlet outlet =>
    s :: ((inlet.map PortRef.ids).getD [] ++ (outlet.map PortRef.ids).getD [])
  | .pipeUU _ _ => []
  | .setBack _ _ _ s => s.toList
  | .popBack _ _ _ => []
  | .setOwner _ _ => []
  | .portFrom _ x s => [x, s]
  | .streamPorts _ xs ss => xs ++ ss
  | .streamPort _ xs _ s => s :: xs
  | .sliceI _ _ _ _ items => items.filterMap id
  | .insertBack _ _ _ s => [s]

/-- The unit objects an operation mentions (a unit cannot be referred to before it is constructed). -/
def Op.units : Op → List Nat
  | .newStream => []
  | .newUnit _ _ _ _ _ _ => []
  | .set _ u _ _ => [u]
  | .slice _ u _ _ _ => [u]
  | .sliceAll _ u _ => [u]
  | .insert _ u _ _ => [u]
  | .append _ u _ => [u]
  | .extend _ u _ => [u]
  | .replace _ u _ _ => [u]
  | .pop _ u _ => [u]
  | .remove _ u _ => [u]
  | .clear _ u => [u]
  | .empty _ u => [u]
  | .dsrc _ => []
  | .dsnk _ => []
  | .disc _ => []
  | .udisc u _ _ _ => [u]
  | .takePlaceOf u o => [u, o]
  | .replaceWithNone u => [u]
  | .reconnect src _ snk => (src.map (·.1)).toList ++ (snk.map (·.1)).toList
  | .insertUnit u _ _ _ => [u]
  | .pipeUU u v => [u, v]
  | .setBack _ u _ _ => [u]
  | .popBack _ u _ => [u]
  | .setOwner u v => u :: v.toList
  | .portFrom _ _ _ => []
  | .streamPorts _ _ _ => []
  | .streamPort _ _ _ _ => []
  | .sliceI _ u _ _ _ => [u]
  | .insertBack _ u _ _ => [u]

def World.exec (w : World) : Op → Except Err World
  | .newStream => .ok w.newStream.1
  | .newUnit ni fi ai no fo ao => (w.newUnit ni fi ai no fo ao).map (·.1)
  | .set k u i (some s) => w.on k (·.setStream u i s)
  | .set k u i none => w.on k fun sw => let (sw1, m) := sw.newMissing u; sw1.setStream u i m
  | .slice k u a b items => w.on k (·.setStreams u a b items)
  | .sliceAll k u items => w.on k (·.setStreams u 0 ((w.side k).lst u).length items)
  | .insert k u i s => w.on k (·.insertAt u i s)
  | .append k u s => w.on k (·.append u s)
  | .extend k u ss => w.on k (·.extend u ss)
  | .replace k u s (some t) => w.on k (·.replace u s t)
  | .replace k u s none =>
    -- `replace(s, None)`: `index` first, then `_as_stream(None)` inside `_set_stream`
    w.on k fun sw =>
      match (sw.sd.lst u).idxOf? s with
      | none => .error .valueError
      | some i => let (sw1, m) := sw.newMissing u; sw1.setStream u i m
  | .pop k u i => do
    let (sw, _) ← (w.get k).pop u i
    .ok (w.put k sw)
  | .remove k u s => w.on k (·.remove u s)
  | .clear k u => w.on k (fun sw => .ok (sw.clear u))
  | .empty k u => w.on k (fun sw => .ok (sw.empty u))
  | .dsrc s => w.on .o (·.disconnect s)
  | .dsnk s => w.on .i (·.disconnect s)
  | .disc s => w.disconnectStream s
  | .udisc u inl outl join => w.disconnectUnit u inl outl join
  | .takePlaceOf u o => w.takePlaceOf u o
  | .replaceWithNone u => w.replaceWithNone u
  | .reconnect src s snk => w.reconnect src s snk
  | .insertUnit u s inlet outlet => w.insertUnit u s inlet outlet
  | .pipeUU u v => w.on .i (·.setStreams v 0 (w.ins.lst v).length ((w.outs.lst u).map some))
  | .setBack k u j (some s) =>
    -- a negative index inside the list addresses from the back; outside it is an IndexError
    -- (only an index `>= len` extends a variable-size list)
    if 0 < j ∧ j ≤ ((w.side k).lst u).length then
      w.on k (·.setStream u (((w.side k).lst u).length - j) s)
    else .error .indexError
  | .setBack k u j none =>
    if 0 < j ∧ j ≤ ((w.side k).lst u).length then
      w.on k fun sw => let (sw1, m) := sw.newMissing u
                       sw1.setStream u (((w.side k).lst u).length - j) m
    else .error .indexError
  | .popBack k u j =>
    if 0 < j ∧ j ≤ ((w.side k).lst u).length then do
      let (sw, _) ← (w.get k).pop u (((w.side k).lst u).length - j)
      .ok (w.put k sw)
    else .error .indexError
  | .setOwner u v => .ok { w with owner := fun x => if x = u then v else w.owner x }
  | .portFrom k x s => w.portFrom k x s
  | .streamPorts k xs ss => w.streamPorts k xs ss
  | .streamPort k xs i s => w.streamPort k xs i s
  | .sliceI k u a b items =>
    let n := ((w.side k).lst u).length
    w.on k (·.setStreams u (sliceBound a 0 n) (sliceBound b n n) items)
  | .insertBack k u j s =>
    w.on k (·.insertAt u (((w.side k).lst u).length - min ((w.side k).lst u).length j) s)

/-- One operation.  An operation can only mention stream and unit objects that exist
(ids below the allocation counters); anything else is outside the property's
preconditions. -/
def World.step (w : World) (op : Op) : Except Err World :=
  { w with pre := w.pre && op.ids.all (· < w.nS) && op.units.all (· < w.nU) }.exec op

/-- Run a history; an error ends it (the Python call raised). -/
def World.run (w : World) : List Op → World
  | [] => w
  | op :: ops =>
    match w.step op with
    | .ok w' => w'.run ops
    | .error _ => w

end ThermoVerif.Network
