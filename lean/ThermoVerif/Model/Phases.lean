/-
Model of the phase-representation machinery of thermosteam streams
(`Stream.phases` / `MultiStream.phases` / `MultiStream.phase` setters, `reduce_phases`, `as_stream`,
the `vle` / `lle` / `sle` accessors' phase-set extension, `MultiStream.__getitem__` phase views,
`Stream.get_data` / `set_data`, and the indexer conversions `ChemicalIndexer.to_material_indexer`,
`MaterialIndexer.to_material_indexer`, `MaterialIndexer.to_chemical_indexer`, `get_phase`).
Core Lean only (no Mathlib): this file is compiled into the line-protocol driver.

Store-based (DESIGN §3.2): row objects (the `SparseVector` of one phase), thermal-condition objects and
phase-view `Stream` objects are ids into a store; Python `is` is equality of ids, `x.copy_like(y)` writes
the store at the id of `x`, a constructor allocates a fresh id.  A row is its dense image `Nat → Rat`
(chemical index ↦ flow); only indices `< n` are looked at by the emptiness test (`SparseVector.any`).

The model describes the code WITH the patches of `fixes_proposed/C12-1 … C12-4` applied
(phase views rebound by the `MultiStream.phases` setter; `set_data` empties first; the `Stream.phases`
setter converts before switching class and accepts an empty stream; `Stream.sle` keeps `'S'`).
`World.mphasesLegacy` mirrors the unpatched `MultiStream.phases` setter for the counterexample in Props/C12.
-/
namespace ThermoVerif.Phases

/-- The five phase labels (`_phase.valid_phases`), constructor order = ASCII order = `phase_tuple` order. -/
inductive Ph where
  | L | S | g | l | s
  deriving DecidableEq, Repr, Inhabited

def Ph.all : List Ph := [.L, .S, .g, .l, .s]

def Ph.toString : Ph → String
  | .L => "L" | .S => "S" | .g => "g" | .l => "l" | .s => "s"

/-- The other-case label, `phase.lower() if phase.isupper() else phase.upper()`; `'G'` is not a phase
(looking it up raises `UndefinedPhase`). -/
def Ph.flip : Ph → Option Ph
  | .L => some .l | .l => some .L | .S => some .s | .s => some .S | .g => none

/-- `phase_tuple`: sorted, duplicates removed. -/
def phaseTuple (ps : List Ph) : List Ph := Ph.all.filter (fun p => ps.contains p)

inductive Err where
  | undefinedPhase | runtimeError | indexError | attributeError | undefinedChemicalAlias | valueError
  deriving DecidableEq, Repr, Inhabited

def Err.toString : Err → String
  | .undefinedPhase => "UndefinedPhase"
  | .runtimeError => "RuntimeError"
  | .indexError => "IndexError"
  | .attributeError => "AttributeError"
  | .undefinedChemicalAlias => "UndefinedChemicalAlias"
  | .valueError => "ValueError"

/-- A phase view: the `Stream` object built by `MultiStream.__getitem__`. -/
structure View where
  row : Nat          -- id of the row object its `_imol.data` is
  tc : Nat           -- id of its `_thermal_condition`
  phase : Ph         -- its `LockedPhase`
  deriving Inhabited

/-- `StreamData`: values copied at `get_data` time. -/
structure Snap where
  phases : List Ph
  vals : List (Nat → Rat)      -- one row of values per phase, in order
  T : Rat
  P : Rat

/-- The stream under test. -/
structure Strm where
  multi : Bool                 -- `type(stream) is MultiStream`
  pr : List (Ph × Nat)         -- (phase label, row id), in `_phases` order; one entry for a `Stream`
  tc : Nat                     -- id of `_thermal_condition`
  cache : List (Ph × Nat)      -- `_streams`: key ↦ view id
  deriving Inhabited

structure World where
  n : Nat                      -- number of chemicals
  row : Nat → Nat → Rat        -- row store
  nRow : Nat
  T : Nat → Rat                -- thermal-condition store
  P : Nat → Rat
  nTc : Nat
  view : Nat → View            -- view store
  nView : Nat
  s : Strm
  snaps : List Snap

def World.init : World :=
  { n := 3, row := fun _ _ => 0, nRow := 1, T := fun _ => 0, P := fun _ => 0, nTc := 1,
    view := fun _ => default, nView := 0,
    s := { multi := false, pr := [(.l, 0)], tc := 0, cache := [] }, snaps := [] }

def Strm.phases (s : Strm) : List Ph := s.pr.map (·.1)
def Strm.rows (s : Strm) : List Nat := s.pr.map (·.2)

/-- `SparseVector.any()` negated, on the first `n` entries. -/
def isEmptyVal (n : Nat) (v : Nat → Rat) : Bool := (List.range n).all (fun i => decide (v i = 0))

def World.isEmptyRow (w : World) (r : Nat) : Bool := isEmptyVal w.n (w.row r)

/-- `PhaseIndexer.__call__` on the rows of an indexer: exact label, else the other-case label. -/
def lookupRow (pr : List (Ph × Nat)) (p : Ph) : Option Nat :=
  match pr.find? (fun x => x.1 == p) with
  | some x => some x.2
  | none =>
    match p.flip with
    | some q => (pr.find? (fun x => x.1 == q)).map (·.2)
    | none => none

/-- Where `to_material_indexer` puts the material of phase `p`: the exact label if the target has it,
otherwise the other-case label (and nothing else). -/
def dest (target : List Ph) (p : Ph) : Option Ph :=
  if target.contains p then some p
  else match p.flip with
    | some q => if target.contains q then some q else none
    | none => none

/-- Allocate fresh row objects holding `vals`. -/
def World.allocRows (w : World) (vals : List (Nat → Rat)) : World × List Nat :=
  ({ w with row := fun r => if w.nRow ≤ r ∧ r < w.nRow + vals.length then vals.getD (r - w.nRow) (fun _ => 0)
                           else w.row r,
            nRow := w.nRow + vals.length },
   List.range' w.nRow vals.length)

/-- (label, values, non-empty?) of every row of the current indexer. -/
def World.sources (w : World) : List (Ph × (Nat → Rat) × Bool) :=
  w.s.pr.map (fun x => (x.1, w.row x.2, !w.isEmptyRow x.2))

/-- The values of the rows of the rebuilt indexer: row `q` receives every non-empty source row whose
destination is `q`. -/
def moveVals (srcs : List (Ph × (Nat → Rat) × Bool)) (target : List Ph) : List (Nat → Rat) :=
  target.map (fun q i => (srcs.map (fun s => if s.2.2 && dest target s.1 == some q then s.2.1 i else 0)).sum)

/-- Conversion to a multi-phase representation over the (sorted) phase tuple `target`:
`ChemicalIndexer.to_material_indexer` (from a `Stream`, whose `_streams` becomes a fresh dict) or
`MaterialIndexer.to_material_indexer` (from a `MultiStream`, whose cached views are rebound to the new
rows, those without a row dropped — patch C12-1).  Raises `UndefinedPhase`, changing nothing
(patch C12-3), when some non-empty phase has no place in `target`. -/
def World.toMulti (w : World) (target : List Ph) : Except Err World :=
  let srcs := w.sources
  if srcs.all (fun s => !s.2.2 || (dest target s.1).isSome) then
    let (w1, ids) := w.allocRows (moveVals srcs target)
    let pr' := target.zip ids
    if w.s.multi then
      let cached := w.s.cache.map (·.2)
      .ok { w1 with
        view := fun v => if cached.contains v then
                           match lookupRow pr' (w.view v).phase with
                           | some r => { w.view v with row := r }
                           | none => w.view v
                         else w.view v,
        s := { w.s with pr := pr', cache := w.s.cache.filter (fun c => (lookupRow pr' c.1).isSome) } }
    else
      .ok { w1 with s := { w.s with multi := true, pr := pr', cache := [] } }
  else .error .undefinedPhase

/-- The unpatched `MultiStream.phases` setter (for the counterexample only): the cache is left alone. -/
def World.toMultiLegacy (w : World) (target : List Ph) : Except Err World :=
  let srcs := w.sources
  if srcs.all (fun s => !s.2.2 || (dest target s.1).isSome) then
    let (w1, ids) := w.allocRows (moveVals srcs target)
    .ok { w1 with s := { w.s with multi := true, pr := target.zip ids } }
  else .error .undefinedPhase

/-- `MultiStream.phase = q` (one letter): `to_chemical_indexer` sums the rows into a fresh row. -/
def World.toSingle (w : World) (q : Ph) : World :=
  let vals := w.s.pr.map (fun x => w.row x.2)
  let (w1, ids) := w.allocRows [fun i => (vals.map (fun v => v i)).sum]
  { w1 with s := { w.s with multi := false, pr := [(q, ids.headD 0)], cache := [] } }

/-- `Stream.phase = q` on a single-phase stream: the label changes, the row object stays. -/
def World.relabel (w : World) (q : Ph) : World :=
  { w with s := { w.s with pr := w.s.pr.map (fun x => (q, x.2)) } }

/-- `stream.phases = ps` (either class). -/
def World.setPhases (w : World) (ps : List Ph) : Except Err World :=
  let t := phaseTuple ps
  match t with
  | [] => .error .valueError                    -- empty phase sets are outside the model
  | [q] => if w.s.multi then .ok (w.toSingle q) else .ok (w.relabel q)
  | _ => if w.s.multi && t == w.s.phases then .ok w else w.toMulti t

/-- `stream.phase = letters`. -/
def World.setPhase (w : World) (letters : List Ph) : Except Err World :=
  if w.s.multi then
    match letters with
    | [] => .ok (w.toSingle .l)
    | [q] => .ok (w.toSingle q)
    | _ => w.setPhases letters
  else
    match letters with
    | [q] => .ok (w.relabel q)
    | _ => .error .runtimeError                 -- `check_phase`

/-- `MultiStream.phase` (getter): one lower-case letter per non-empty group g, l/L, s/S. -/
def World.phaseString (w : World) : List Ph :=
  let nonEmptyGroup (grp : List Ph) : Bool :=
    w.s.pr.any (fun x => grp.contains x.1 && !w.isEmptyRow x.2)
  (if nonEmptyGroup [.g] then [Ph.g] else []) ++
  (if nonEmptyGroup [.l, .L] then [Ph.l] else []) ++
  (if nonEmptyGroup [.s, .S] then [Ph.s] else [])

def World.reduce (w : World) : Except Err World :=
  if w.s.multi then w.setPhase w.phaseString else .ok w

def World.asStream (w : World) : Except Err World :=
  if w.s.multi then
    match w.phaseString with
    | [q] => w.setPhase [q]
    | [] => w.setPhase [(w.s.phases.headD .l)]
    | _ => .error .runtimeError
  else .ok w

/-- The phase-set extension done by the `vle` / `lle` / `sle` accessors (`a`, `b` = the two phases the
solver needs, `keep` = single-phase labels that are not relabelled to `'l'` first). -/
def World.accessor (w : World) (a b : Ph) (relabelFrom : Ph → Bool) : Except Err World :=
  if w.s.multi then
    if w.s.phases.contains a && w.s.phases.contains b then .ok w
    else w.setPhases (w.s.phases ++ [a, b])
  else
    let w1 := match w.s.phases with
      | [p] => if relabelFrom p then w.relabel .l else w
      | _ => w
    w1.setPhases [a, b]

def World.vle (w : World) : Except Err World := w.accessor .l .g (fun p => p == .s)
def World.lle (w : World) : Except Err World := w.accessor .l .L (fun p => !(p == .l || p == .L))
/-- with patch C12-4 (`'S'` is not relabelled to `'l'`) -/
def World.sle (w : World) : Except Err World := w.accessor .s .l (fun p => !(p == .l || p == .s || p == .S))

/-- `stream.empty()`: every row cleared in place. -/
def World.emptyRows (w : World) : World :=
  { w with row := fun r => if w.s.rows.contains r then fun _ => 0 else w.row r }

/-- `stream[p]`. -/
def World.getView (w : World) (p : Ph) : Except Err World :=
  if w.s.multi then
    if w.s.cache.any (fun c => c.1 == p) then .ok w
    else match lookupRow w.s.pr p with
      | some r =>
        .ok { w with view := fun v => if v = w.nView then { row := r, tc := w.s.tc, phase := p } else w.view v,
                     nView := w.nView + 1,
                     s := { w.s with cache := w.s.cache ++ [(p, w.nView)] } }
      | none => .error .undefinedPhase
  else
    match w.s.phases with
    | [q] => if q == p || q.flip == some p then .ok w else .error .attributeError
    | _ => .error .attributeError

def World.writeRow (w : World) (r i : Nat) (x : Rat) : World :=
  { w with row := fun r' => if r' = r then fun j => if j = i then x else w.row r j else w.row r' }

/-- `handle.imol[chem_i] = x`. -/
def World.writeView (w : World) (h i : Nat) (x : Rat) : Except Err World :=
  if h < w.nView then .ok (w.writeRow (w.view h).row i x) else .error .indexError

/-- `stream.imol[p, chem_i] = x` (multi) / `stream.imol[chem_i] = x` (single). -/
def World.writePar (w : World) (p : Option Ph) (i : Nat) (x : Rat) : Except Err World :=
  if w.s.multi then
    match p with
    | none => .error .indexError
    | some p =>
      match lookupRow w.s.pr p with
      | some r => .ok (w.writeRow r i x)
      | none => .error .undefinedPhase
  else
    match p with
    | some _ => .error .undefinedChemicalAlias
    | none => .ok (w.writeRow (w.s.rows.headD 0) i x)

def World.setT (w : World) (tc : Nat) (x : Rat) : World :=
  { w with T := fun t => if t = tc then x else w.T t }
def World.setP (w : World) (tc : Nat) (x : Rat) : World :=
  { w with P := fun t => if t = tc then x else w.P t }

/-- `get_data`. -/
def World.snapshot (w : World) : Snap :=
  { phases := w.s.phases, vals := w.s.pr.map (fun x => w.row x.2), T := w.T w.s.tc, P := w.P w.s.tc }

def World.save (w : World) : World := { w with snaps := w.snaps ++ [w.snapshot] }

/-- `indexer.copy_like(snapshot indexer)`: values written into the existing row objects, pairwise. -/
def World.copyRows (w : World) (vals : List (Nat → Rat)) : World :=
  let tgt := w.s.rows.zip vals
  { w with row := fun r => match tgt.find? (fun x => x.1 == r) with
                           | some x => x.2
                           | none => w.row r }

/-- `set_data` (patch C12-2: the current material is dropped first). -/
def World.restore (w : World) (k : Nat) : Except Err World :=
  match w.snaps[k]? with
  | none => .error .indexError
  | some d => do
    let w1 := w.emptyRows
    let w2 ← w1.setPhases d.phases
    let w3 := w2.copyRows d.vals
    .ok ((w3.setT w3.s.tc d.T).setP w3.s.tc d.P)

/-- A fresh single-phase `Stream`. -/
def World.newSingle (w : World) (p : Ph) (T P : Rat) (f : Nat → Rat) : World :=
  let (w1, ids) := w.allocRows [f]
  { w1 with T := fun t => if t = w.nTc then T else w.T t,
            P := fun t => if t = w.nTc then P else w.P t,
            nTc := w.nTc + 1,
            s := { multi := false, pr := [(p, ids.headD 0)], tc := w.nTc, cache := [] } }

/-- A fresh `MultiStream` over `phaseTuple phases` (at least two). -/
def World.newMulti (w : World) (phases : List Ph) (T P : Rat) (flows : List (Ph × (Nat → Rat))) : World :=
  let t := phaseTuple phases
  let vals := t.map (fun q => match flows.find? (fun x => x.1 == q) with
                              | some x => x.2 | none => fun _ => 0)
  let (w1, ids) := w.allocRows vals
  { w1 with T := fun t => if t = w.nTc then T else w.T t,
            P := fun t => if t = w.nTc then P else w.P t,
            nTc := w.nTc + 1,
            s := { multi := true, pr := t.zip ids, tc := w.nTc, cache := [] } }

inductive Op where
  | newS (p : Ph) (T P : Rat) (f : Nat → Rat)
  | newM (phases : List Ph) (T P : Rat) (flows : List (Ph × (Nat → Rat)))
  | setPhases (ps : List Ph)
  | setPhase (letters : List Ph)
  | reduce | asStream | vle | lle | sle
  | empty
  | view (p : Ph)
  | wView (h i : Nat) (x : Rat)
  | wPar (p : Option Ph) (i : Nat) (x : Rat)
  | wT (x : Rat) | wP (x : Rat)
  | wvT (h : Nat) (x : Rat) | wvP (h : Nat) (x : Rat)
  | vPhase (h : Nat) (p : Ph)
  | save
  | restore (k : Nat)

/-- One operation.  An error leaves the world as it was. -/
def World.step (w : World) : Op → Except Err World
  | .newS p T P f => .ok (w.newSingle p T P f)
  | .newM ps T P fl => if 2 ≤ (phaseTuple ps).length then .ok (w.newMulti ps T P fl) else .error .valueError
  | .setPhases ps => w.setPhases ps
  | .setPhase ls => w.setPhase ls
  | .reduce => w.reduce
  | .asStream => w.asStream
  | .vle => w.vle
  | .lle => w.lle
  | .sle => w.sle
  | .empty => .ok w.emptyRows
  | .view p => w.getView p
  | .wView h i x => w.writeView h i x
  | .wPar p i x => w.writePar p i x
  | .wT x => .ok (w.setT w.s.tc x)
  | .wP x => .ok (w.setP w.s.tc x)
  | .wvT h x => if h < w.nView then .ok (w.setT (w.view h).tc x) else .error .indexError
  | .wvP h x => if h < w.nView then .ok (w.setP (w.view h).tc x) else .error .indexError
  | .vPhase h p =>
    -- `handle.phase = p`: the phase of a view is a `LockedPhase`
    if h < w.nView then (if (w.view h).phase == p then .ok w else .error .attributeError)
    else .error .indexError
  | .save => .ok w.save
  | .restore k => w.restore k

/-- One operation of a history: a raising operation changes nothing. -/
def World.apply (w : World) (op : Op) : World :=
  match w.step op with
  | .ok w' => w'
  | .error _ => w

def World.run (w : World) : List Op → World
  | [] => w
  | op :: ops => (w.apply op).run ops

/-- The operations that only change the representation of phases. -/
def Op.isConversion : Op → Bool
  | .setPhases _ | .setPhase _ | .reduce | .asStream | .vle | .lle | .sle => true
  | _ => false

/-! ### Observables -/

/-- total flow of chemical `i` -/
def World.total (w : World) (i : Nat) : Rat := (w.s.pr.map (fun x => w.row x.2 i)).sum

/-- flow of chemical `i` in the phase labelled `q` (0 when the stream has no such phase) -/
def World.rowAt (w : World) (q : Ph) (i : Nat) : Rat :=
  ((w.s.pr.filter (fun x => x.1 == q)).map (fun x => w.row x.2 i)).sum

def World.temp (w : World) : Rat := w.T w.s.tc
def World.pres (w : World) : Rat := w.P w.s.tc

end ThermoVerif.Phases
