/-
Model of the phase-representation machinery of thermosteam streams
(`Stream.phases` / `MultiStream.phases` / `MultiStream.phase` setters, `reduce_phases`, `as_stream`,
the `vle` / `lle` / `sle` accessors' phase-set extension, `MultiStream.__getitem__` phase views,
`Stream.get_data` / `set_data`, the indexer conversions `ChemicalIndexer.to_material_indexer`,
`MaterialIndexer.to_material_indexer`, `MaterialIndexer.to_chemical_indexer`, `get_phase`)
and of the operations that re-seat or grow the flow data of a stream that has phase views:
`unlink`, `link_with`, `copy_like`, `mix_from` (with `MaterialIndexer._expand_phases`), `_reset_thermo`
to an equal-order package, `proxy`.
Core Lean only (no Mathlib): this file is compiled into the line-protocol driver.

Store-based (DESIGN §3.2).  Objects with identity are ids into stores:
  row objects (the `SparseVector` of one phase), thermal-condition objects, indexer objects
  (`stream._imol`: its phase labels and its row objects), `_streams` dict objects, phase-view `Stream`
  objects, and the streams of the universe.
Python `is` is equality of ids, `x.copy_like(y)` writes the store at the id of `x`, a constructor allocates
a fresh id.  A row is its dense image `Nat → Rat` (chemical index ↦ flow); only indices `< n` are looked at
by the emptiness test (`SparseVector.any`).  Two indexers that share their `SparseArray` (`link_with`)
hold the same row ids; growing the phases of such an indexer in place is outside the model (`outOfModel`).

`World.toMultiLegacy` / `World.linkLegacy` mirror the setters before commits bab44aa / d9738d9 for the
counterexamples in Props/C12.
-/
namespace ThermoVerif.Phases

/-- The five phase labels (`_phase.valid_phases`), constructor order = ASCII order = `phase_tuple` order. -/
inductive Ph where
  | L | S | g | l | s
  deriving DecidableEq, Repr, Inhabited

def Ph.all : List Ph := [.L, .S, .g, .l, .s]

def Ph.toString : Ph → String
  | .L => "L" | .S => "S" | .g => "g" | .l => "l" | .s => "s"

/-- The other-case label, `phase.lower() if phase.isupper() else phase.upper()`; `'G'` is not a phase
(looking it up raises `UndefinedPhase`). -/
def Ph.flip : Ph → Option Ph
  | .L => some .l | .l => some .L | .S => some .s | .s => some .S | .g => none

/-- lower-case letter of a label (`PhaseIndexer._compatibility`) -/
def Ph.lower : Ph → Ph
  | .L => .l | .l => .l | .S => .s | .s => .s | .g => .g

/-- `phase_tuple`: sorted, duplicates removed. -/
def phaseTuple (ps : List Ph) : List Ph := Ph.all.filter (fun p => ps.contains p)

inductive Err where
  | undefinedPhase | runtimeError | indexError | attributeError | undefinedChemicalAlias | valueError
  | outOfModel
  deriving DecidableEq, Repr, Inhabited

def Err.toString : Err → String
  | .undefinedPhase => "UndefinedPhase"
  | .runtimeError => "RuntimeError"
  | .indexError => "IndexError"
  | .attributeError => "AttributeError"
  | .undefinedChemicalAlias => "UndefinedChemicalAlias"
  | .valueError => "ValueError"
  | .outOfModel => "OutOfModel"

/-- A phase view: the `Stream` object built by `MultiStream.__getitem__`. -/
structure View where
  row : Nat          -- id of the row object its `_imol.data` is
  tc : Nat           -- id of its `_thermal_condition`
  phase : Ph         -- its `LockedPhase`
  deriving Inhabited

/-- `StreamData`: values copied at `get_data` time. -/
structure Snap where
  phases : List Ph
  vals : List (Nat → Rat)      -- one row of values per phase, in order
  T : Rat
  P : Rat

/-- A stream of the universe. -/
structure Strm where
  multi : Bool                 -- `type(stream) is MultiStream`
  imol : Nat                   -- id of `stream._imol`
  tc : Nat                     -- id of `stream._thermal_condition`
  cache : Nat                  -- id of the dict `stream._streams`
  thermo : Nat                 -- which (equal-order) property package `stream._thermo` is
  deriving Inhabited

structure World where
  n : Nat                      -- number of chemicals
  row : Nat → Nat → Rat        -- row store
  nRow : Nat
  T : Nat → Rat                -- thermal-condition store
  P : Nat → Rat
  nTc : Nat
  view : Nat → View            -- view store
  nView : Nat
  ipr : Nat → List (Ph × Nat)  -- indexer store: (phase label, row id) in `_phases` order; one entry for a `Stream`
  nImol : Nat
  cache : Nat → List (Ph × Nat) -- `_streams` dict store: key ↦ view id
  nCache : Nat
  str : Nat → Strm             -- the streams, by index
  nStr : Nat
  snaps : List Snap

/-- the empty universe over `n` chemicals -/
def World.init (n : Nat) : World :=
  { n := n, row := fun _ _ => 0, nRow := 0, T := fun _ => 0, P := fun _ => 0, nTc := 0,
    view := fun _ => default, nView := 0, ipr := fun _ => [], nImol := 0, cache := fun _ => [], nCache := 0,
    str := fun _ => default, nStr := 0, snaps := [] }

/-! ### reading -/

def World.pr (w : World) (k : Nat) : List (Ph × Nat) := w.ipr (w.str k).imol
def World.phases (w : World) (k : Nat) : List Ph := (w.pr k).map (·.1)
def World.rows (w : World) (k : Nat) : List Nat := (w.pr k).map (·.2)
def World.cacheOf (w : World) (k : Nat) : List (Ph × Nat) := w.cache (w.str k).cache

/-- `SparseVector.any()` negated, on the first `n` entries. -/
def isEmptyVal (n : Nat) (v : Nat → Rat) : Bool := (List.range n).all (fun i => decide (v i = 0))

def World.isEmptyRow (w : World) (r : Nat) : Bool := isEmptyVal w.n (w.row r)

/-- `PhaseIndexer.__call__` on the rows of an indexer: exact label, else the other-case label. -/
def lookupRow (pr : List (Ph × Nat)) (p : Ph) : Option Nat :=
  match pr.find? (fun x => x.1 == p) with
  | some x => some x.2
  | none =>
    match p.flip with
    | some q => (pr.find? (fun x => x.1 == q)).map (·.2)
    | none => none

/-- Where the material of phase `p` goes in a phase tuple: the exact label if the target has it,
otherwise the other-case label (and nothing else). -/
def dest (target : List Ph) (p : Ph) : Option Ph :=
  if target.contains p then some p
  else match p.flip with
    | some q => if target.contains q then some q else none
    | none => none

/-! ### store updates -/

def World.setStr (w : World) (k : Nat) (s : Strm) : World :=
  { w with str := fun j => if j = k then s else w.str j }

def World.setIpr (w : World) (i : Nat) (pr : List (Ph × Nat)) : World :=
  { w with ipr := fun j => if j = i then pr else w.ipr j }

def World.setCache (w : World) (c : Nat) (l : List (Ph × Nat)) : World :=
  { w with cache := fun j => if j = c then l else w.cache j }

/-- Allocate fresh row objects holding `vals`. -/
def World.allocRows (w : World) (vals : List (Nat → Rat)) : World × List Nat :=
  ({ w with row := fun r => if w.nRow ≤ r ∧ r < w.nRow + vals.length then vals.getD (r - w.nRow) (fun _ => 0)
                           else w.row r,
            nRow := w.nRow + vals.length },
   List.range' w.nRow vals.length)

/-- a new indexer object over the given rows -/
def World.allocImol (w : World) (pr : List (Ph × Nat)) : World × Nat :=
  ({ w with ipr := fun j => if j = w.nImol then pr else w.ipr j, nImol := w.nImol + 1 }, w.nImol)

/-- a new thermal-condition object -/
def World.allocTc (w : World) (T P : Rat) : World × Nat :=
  ({ w with T := fun t => if t = w.nTc then T else w.T t,
            P := fun t => if t = w.nTc then P else w.P t, nTc := w.nTc + 1 }, w.nTc)

/-- a new empty `_streams` dict -/
def World.allocCache (w : World) : World × Nat :=
  ({ w with cache := fun j => if j = w.nCache then [] else w.cache j, nCache := w.nCache + 1 }, w.nCache)

/-- Re-seat the cached phase views of stream `k` on its current rows (`view._imol = self._imol.get_phase(key)`)
and, when `withTc`, on its current thermal condition.  Keys without a row are dropped (`MultiStream.phases`
setter); the callers that would raise instead check `World.keysResolve` first. -/
def World.rebind (w : World) (k : Nat) (withTc : Bool) : World :=
  let s := w.str k
  let pr := w.pr k
  let cached := (w.cacheOf k).map (·.2)
  { w with
    view := fun v => if cached.contains v then
                       match lookupRow pr (w.view v).phase with
                       | some r => { row := r, tc := if withTc then s.tc else (w.view v).tc, phase := (w.view v).phase }
                       | none => w.view v
                     else w.view v,
    cache := fun c => if c = s.cache then (w.cache c).filter (fun e => (lookupRow pr e.1).isSome) else w.cache c }

/-- every key of the `_streams` dict of stream `k` has a row in its indexer -/
def World.keysResolve (w : World) (k : Nat) : Bool :=
  (w.cacheOf k).all (fun e => (lookupRow (w.pr k) e.1).isSome)

/-- another stream holds the same row objects through a different indexer object (`link_with`) -/
def World.rowsShared (w : World) (k : Nat) : Bool :=
  (List.range w.nStr).any (fun j => (w.str j).imol != (w.str k).imol &&
    (w.rows j).any (fun r => (w.rows k).contains r))

/-- stream `j` holds a row object of stream `k` but belongs to another property package
(`copy_like` / `mix_from` then take the by-CAS path, which empties the shared rows before reading them) -/
def World.foreignShare (w : World) (k j : Nat) : Bool :=
  (w.str j).thermo != (w.str k).thermo && (w.rows j).any (fun r => (w.rows k).contains r)

/-- another stream of the universe is the same indexer object (a proxy) -/
def World.aliased (w : World) (k : Nat) : Bool :=
  (List.range w.nStr).any (fun j => j != k && (w.str j).imol == (w.str k).imol)

/-- a cached key (of the stream or of a proxy of it) that is only a case-alias now would become a phase of its own -/
def World.aliasKeyClash (w : World) (k : Nat) (more : List Ph) : Bool :=
  (List.range w.nStr).any (fun j => (w.str j).imol == (w.str k).imol &&
    (w.cacheOf j).any (fun e => !(w.phases k).contains e.1 && more.contains e.1))

/-! ### conversions of stream `k` -/

/-- (label, values, non-empty?) of every row of the indexer of stream `k`. -/
def World.sources (w : World) (k : Nat) : List (Ph × (Nat → Rat) × Bool) :=
  (w.pr k).map (fun x => (x.1, w.row x.2, !w.isEmptyRow x.2))

/-- The values of the rows of a rebuilt indexer: row `q` receives every non-empty source row whose
destination is `q`. -/
def moveVals (srcs : List (Ph × (Nat → Rat) × Bool)) (target : List Ph) : List (Nat → Rat) :=
  target.map (fun q i => (srcs.map (fun s => if s.2.2 && dest target s.1 == some q then s.2.1 i else 0)).sum)

/-- Conversion to a multi-phase representation over the (sorted) phase tuple `target`:
`ChemicalIndexer.to_material_indexer` (from a `Stream`, whose `_streams` becomes a fresh dict) or
`MaterialIndexer.to_material_indexer` (from a `MultiStream`, whose cached views are re-seated on the new
rows, those without a row dropped).  Raises `UndefinedPhase`, changing nothing, when some non-empty phase
has no place in `target`. -/
def World.toMulti (w : World) (k : Nat) (target : List Ph) : Except Err World :=
  let srcs := w.sources k
  if srcs.all (fun s => !s.2.2 || (dest target s.1).isSome) then
    let (w1, ids) := w.allocRows (moveVals srcs target)
    let (w2, i) := w1.allocImol (target.zip ids)
    if (w.str k).multi then
      .ok ((w2.setStr k { w.str k with imol := i }).rebind k false)
    else
      let (w3, c) := w2.allocCache
      .ok (w3.setStr k { w.str k with multi := true, imol := i, cache := c })
  else .error .undefinedPhase

/-- The `MultiStream.phases` setter before commit bab44aa (for the counterexample only): the views are left alone. -/
def World.toMultiLegacy (w : World) (k : Nat) (target : List Ph) : Except Err World :=
  let srcs := w.sources k
  if srcs.all (fun s => !s.2.2 || (dest target s.1).isSome) then
    let (w1, ids) := w.allocRows (moveVals srcs target)
    let (w2, i) := w1.allocImol (target.zip ids)
    .ok (w2.setStr k { w.str k with multi := true, imol := i })
  else .error .undefinedPhase

/-- `MultiStream.phase = q` (one letter): `to_chemical_indexer` sums the rows into a fresh row of a fresh
indexer; `_streams.clear()`. -/
def World.toSingle (w : World) (k : Nat) (q : Ph) : World :=
  let vals := (w.pr k).map (fun x => w.row x.2)
  let (w1, ids) := w.allocRows [fun i => (vals.map (fun v => v i)).sum]
  let (w2, i) := w1.allocImol [(q, ids.headD 0)]
  (w2.setCache (w.str k).cache []).setStr k { w.str k with multi := false, imol := i }

/-- `Stream.phase = q` on a single-phase stream: the `Phase` object of the indexer is relabelled in place. -/
def World.relabel (w : World) (k : Nat) (q : Ph) : World :=
  w.setIpr (w.str k).imol ((w.pr k).map (fun x => (q, x.2)))

/-- `stream.phases = ps` (either class). -/
def World.setPhases (w : World) (k : Nat) (ps : List Ph) : Except Err World :=
  let t := phaseTuple ps
  match t with
  | [] => .error .valueError                    -- empty phase sets are outside the model
  | [q] => if (w.str k).multi then .ok (w.toSingle k q) else .ok (w.relabel k q)
  | _ => if (w.str k).multi && t == w.phases k then .ok w else w.toMulti k t

/-- `stream.phase = letters`. -/
def World.setPhase (w : World) (k : Nat) (letters : List Ph) : Except Err World :=
  if (w.str k).multi then
    match letters with
    | [] => .ok (w.toSingle k .l)
    | [q] => .ok (w.toSingle k q)
    | _ => w.setPhases k letters
  else
    match letters with
    | [q] => .ok (w.relabel k q)
    | _ => .error .runtimeError                 -- `check_phase`

/-- `MultiStream.phase` (getter): one lower-case letter per non-empty group g, l/L, s/S. -/
def World.phaseString (w : World) (k : Nat) : List Ph :=
  let nonEmptyGroup (grp : List Ph) : Bool :=
    (w.pr k).any (fun x => grp.contains x.1 && !w.isEmptyRow x.2)
  (if nonEmptyGroup [.g] then [Ph.g] else []) ++
  (if nonEmptyGroup [.l, .L] then [Ph.l] else []) ++
  (if nonEmptyGroup [.s, .S] then [Ph.s] else [])

def World.reduce (w : World) (k : Nat) : Except Err World :=
  if (w.str k).multi then w.setPhase k (w.phaseString k) else .ok w

def World.asStream (w : World) (k : Nat) : Except Err World :=
  if (w.str k).multi then
    match w.phaseString k with
    | [q] => w.setPhase k [q]
    | [] => w.setPhase k [((w.phases k).headD .l)]
    | _ => .error .runtimeError
  else .ok w

/-- The phase-set extension done by the `vle` / `lle` / `sle` accessors (`a`, `b` = the two phases the
solver needs, `relabelFrom` = single-phase labels that are relabelled to `'l'` first). -/
def World.accessor (w : World) (k : Nat) (a b : Ph) (relabelFrom : Ph → Bool) : Except Err World :=
  if (w.str k).multi then
    if (w.phases k).contains a && (w.phases k).contains b then .ok w
    else w.setPhases k (w.phases k ++ [a, b])
  else
    let w1 := match w.phases k with
      | [p] => if relabelFrom p then w.relabel k .l else w
      | _ => w
    w1.setPhases k [a, b]

def World.vle (w : World) (k : Nat) : Except Err World := w.accessor k .l .g (fun p => p == .s)
def World.lle (w : World) (k : Nat) : Except Err World := w.accessor k .l .L (fun p => !(p == .l || p == .L))
def World.sle (w : World) (k : Nat) : Except Err World :=
  w.accessor k .s .l (fun p => !(p == .l || p == .s || p == .S))

/-- `stream.empty()`: every row cleared in place. -/
def World.emptyRows (w : World) (k : Nat) : World :=
  { w with row := fun r => if (w.rows k).contains r then fun _ => 0 else w.row r }

/-- `stream[p]`. -/
def World.getView (w : World) (k : Nat) (p : Ph) : Except Err World :=
  if (w.str k).multi then
    if (w.cacheOf k).any (fun c => c.1 == p) then .ok w
    else match lookupRow (w.pr k) p with
      | some r =>
        .ok { w with view := fun v => if v = w.nView then { row := r, tc := (w.str k).tc, phase := p } else w.view v,
                     nView := w.nView + 1,
                     cache := fun c => if c = (w.str k).cache then w.cache c ++ [(p, w.nView)] else w.cache c }
      | none => .error .undefinedPhase
  else
    match w.phases k with
    | [q] => if q == p || q.flip == some p then .ok w else .error .attributeError
    | _ => .error .attributeError

def World.writeRow (w : World) (r i : Nat) (x : Rat) : World :=
  { w with row := fun r' => if r' = r then fun j => if j = i then x else w.row r j else w.row r' }

/-- `handle.imol[chem_i] = x`. -/
def World.writeView (w : World) (h i : Nat) (x : Rat) : Except Err World :=
  if h < w.nView then .ok (w.writeRow (w.view h).row i x) else .error .indexError

/-- `stream.imol[p, chem_i] = x` (multi) / `stream.imol[chem_i] = x` (single). -/
def World.writePar (w : World) (k : Nat) (p : Option Ph) (i : Nat) (x : Rat) : Except Err World :=
  if (w.str k).multi then
    match p with
    | none => .error .indexError
    | some p =>
      match lookupRow (w.pr k) p with
      | some r => .ok (w.writeRow r i x)
      | none => .error .undefinedPhase
  else
    match p with
    | some _ => .error .undefinedChemicalAlias
    | none => .ok (w.writeRow ((w.rows k).headD 0) i x)

def World.setT (w : World) (tc : Nat) (x : Rat) : World :=
  { w with T := fun t => if t = tc then x else w.T t }
def World.setP (w : World) (tc : Nat) (x : Rat) : World :=
  { w with P := fun t => if t = tc then x else w.P t }

/-- `get_data`. -/
def World.snapshot (w : World) (k : Nat) : Snap :=
  { phases := w.phases k, vals := (w.pr k).map (fun x => w.row x.2),
    T := w.T (w.str k).tc, P := w.P (w.str k).tc }

def World.save (w : World) (k : Nat) : World := { w with snaps := w.snaps ++ [w.snapshot k] }

/-- `indexer.copy_like(other indexer)` over the same phases: values written into the existing row objects,
pairwise (all values are read before any is written). -/
def World.copyRows (w : World) (k : Nat) (vals : List (Nat → Rat)) : World :=
  let tgt := (w.rows k).zip vals
  { w with row := fun r => match tgt.find? (fun x => x.1 == r) with
                           | some x => x.2
                           | none => w.row r }

/-- `set_data`. -/
def World.restore (w : World) (k : Nat) (idx : Nat) : Except Err World :=
  match w.snaps[idx]? with
  | none => .error .indexError
  | some d => do
    let w1 := w.emptyRows k
    let w2 ← w1.setPhases k d.phases
    let w3 := w2.copyRows k d.vals
    .ok ((w3.setT (w3.str k).tc d.T).setP (w3.str k).tc d.P)

/-! ### operations that re-seat or grow the flow data -/

/-- `stream.unlink()`: its own copy of the indexer (fresh row objects with the same values) and of the
thermal condition; cached views re-seated on both. -/
def World.unlink (w : World) (k : Nat) : Except Err World :=
  if !w.keysResolve k || (!(w.str k).multi && !(w.cacheOf k).isEmpty) then .error .outOfModel else
  let (w1, ids) := w.allocRows ((w.pr k).map (fun x => w.row x.2))
  let (w2, i) := w1.allocImol ((w.phases k).zip ids)
  let (w3, t) := w2.allocTc (w.T (w.str k).tc) (w.P (w.str k).tc)
  let w4 := w3.setStr k { w.str k with imol := i, tc := t }
  .ok (if (w.str k).multi then w4.rebind k true else w4)

/-- the view re-seating of `link_with` (commit d9738d9): every cached view takes the stream's thermal condition
and, when the flows were linked and its key has a row, that row -/
def World.rebindLink (w : World) (k : Nat) (flow : Bool) : World :=
  let s := w.str k
  let pr := w.pr k
  let cached := (w.cacheOf k).map (·.2)
  { w with
    view := fun v => if cached.contains v then
                       { row := if flow then (match lookupRow pr (w.view v).phase with
                                              | some r => r | none => (w.view v).row) else (w.view v).row,
                         tc := s.tc, phase := (w.view v).phase }
                     else w.view v }

/-- `a.link_with(b, flow, TP)` between two MultiStreams (over the same phase tuple when `flow`; a stream that
has a proxy, and single-phase streams, are outside the model; the class mismatch raises):
`a._imol.data = b._imol.data`, `a._thermal_condition = b._thermal_condition`, cached views re-seated. -/
def World.link (w : World) (k j : Nat) (flow tp : Bool) : Except Err World :=
  if (w.str k).multi != (w.str j).multi then .error .runtimeError
  else if !(w.str k).multi || (flow && !(w.phases k == w.phases j)) || w.aliased k then .error .outOfModel
  else
    let w1 := if flow then w.setIpr (w.str k).imol (w.pr j) else w
    let w2 := if tp then w1.setStr k { w1.str k with tc := (w.str j).tc } else w1
    .ok (if flow || tp then w2.rebindLink k flow else w2)

/-- `link_with` as it is in the code (for the counterexample only): the views are left alone. -/
def World.linkLegacy (w : World) (k j : Nat) (flow tp : Bool) : World :=
  let w1 := if flow then w.setIpr (w.str k).imol (w.pr j) else w
  if tp then w1.setStr k { w1.str k with tc := (w.str j).tc } else w1

/-- `MaterialIndexer._expand_phases`: the indexer of stream `k` gets a fresh empty row for every phase of
`more` it does not have under that exact label; the existing row objects stay. -/
def World.expand (w : World) (k : Nat) (more : List Ph) : World :=
  let new := Ph.all.filter (fun p => more.contains p && !(w.phases k).contains p)
  if new.isEmpty then w else
  let (w1, ids) := w.allocRows (new.map (fun _ _ => 0))
  let all := w.pr k ++ new.zip ids
  w1.setIpr (w.str k).imol (Ph.all.filterMap (fun p => all.find? (fun x => x.1 == p)))

/-- rows of an indexer by destination, as `MaterialIndexer.copy_like` / `mix_from` write them:
row `q` of `pr` receives the sum of the listed `(label, values)` whose destination in the labels of `pr` is `q` -/
def gathered (labels : List Ph) (srcs : List (Ph × (Nat → Rat))) (q : Ph) (i : Nat) : Rat :=
  (srcs.map (fun s => if dest labels s.1 == some q then s.2 i else 0)).sum

/-- write `vals q` into the row object of every phase `q` of stream `k` (values were read beforehand) -/
def World.writeByPhase (w : World) (k : Nat) (vals : Ph → Nat → Rat) : World :=
  let pr := w.pr k
  { w with row := fun r => match pr.find? (fun x => x.2 == r) with
                           | some x => vals x.1
                           | none => w.row r }

/-- `''.join(p.lower() for p in phases)` -/
def compat (a b : List Ph) : Bool := a.map Ph.lower == b.map Ph.lower

/-- does `MaterialIndexer.copy_like` have to grow the phases of stream `k` to take stream `j`? -/
def World.copyNeed (w : World) (k j : Nat) : Bool :=
  if (w.str j).multi then !(w.phases k == w.phases j) && !compat (w.phases k) (w.phases j)
  else (w.phases j).any (fun p => (lookupRow (w.pr k) p).isNone)

/-- `self.P = min(P of the non-empty inlets)` when there are two or more of them -/
def World.mixP (w : World) (k : Nat) (live : List Nat) : World :=
  if live.length ≥ 2 then
    w.setP (w.str k).tc ((live.map (fun j => w.P (w.str j).tc)).foldl min (w.P (w.str (live.headD 0)).tc))
  else w

/-- `a.copy_like(b)`. -/
def World.copyLike (w : World) (k j : Nat) : Except Err World :=
  let sj := w.str j
  let srcs : List (Ph × (Nat → Rat)) := (w.pr j).map (fun x => (x.1, w.row x.2))
  let Tj := w.T sj.tc
  let Pj := w.P sj.tc
  let finish (w' : World) : World := (w'.setT (w'.str k).tc Tj).setP (w'.str k).tc Pj
  if (w.str k).imol = sj.imol then .ok (finish w)       -- `if self is other: return`
  else if (w.str k).multi then
    -- `MaterialIndexer.copy_like`
    let need : Bool := w.copyNeed k j
    if (need && (w.rowsShared k || w.aliasKeyClash k (w.phases j))) || w.foreignShare k j then .error .outOfModel else
    let w1 := if need then w.expand k (w.phases j) else w
    let labels := w1.phases k
    .ok (finish (w1.writeByPhase k (gathered labels srcs)))
  else if sj.multi then
    -- `Stream.copy_like` from a MultiStream: becomes a MultiStream over the phases of `b`
    let (w1, ids) := w.allocRows (srcs.map (·.2))
    let (w2, i) := w1.allocImol ((w.phases j).zip ids)
    let (w3, c) := w2.allocCache
    .ok (finish (w3.setStr k { w.str k with multi := true, imol := i, cache := c }))
  else
    -- `ChemicalIndexer.copy_like`: values and phase
    match w.pr j with
    | [(q, _)] => .ok (finish ((w.relabel k q).copyRows k (srcs.map (·.2))))
    | _ => .error .outOfModel

/-- `a.mix_from(inlets, energy_balance=False)`. -/
def World.mixFrom (w : World) (k : Nat) (inlets : List Nat) : Except Err World :=
  let live := inlets.filter (fun j => !(w.pr j).all (fun x => w.isEmptyRow x.2))   -- `not i.isempty()`
  match live with
  | [] => .ok (w.emptyRows k)
  | _ =>
    let srcs : List (Ph × (Nat → Rat)) := live.flatMap (fun j => (w.pr j).map (fun x => (x.1, w.row x.2)))
    let wP := w.mixP k live
    if (w.str k).multi then
      let other := phaseTuple (srcs.map (·.1))
      let need := other.any (fun p => (lookupRow (w.pr k) p).isNone)
      if (need && (w.rowsShared k || w.aliasKeyClash k other)) || live.any (w.foreignShare k) then .error .outOfModel else
      let w1 := if need then wP.expand k other else wP
      .ok (w1.writeByPhase k (gathered (w1.phases k) srcs))
    else
      -- `ChemicalIndexer.mix_from`: everything into the one row; `set_main_phase`
      let total : Nat → Rat := fun i => (srcs.map (fun s => s.2 i)).sum
      let allSingle := live.all (fun j => !(w.str j).multi)
      if live.any (w.foreignShare k) then .error .outOfModel else
      let w1 := match srcs with
        | (q, _) :: rest => if allSingle && rest.all (fun s => s.1 == q) then wP.relabel k q else wP
        | [] => wP
      .ok (w1.copyRows k [total])

/-- `stream._reset_thermo(thermo)` to another property package with the same chemicals in the same order:
`reset_chemicals` gives the indexer fresh row objects holding the same values; cached views re-seated. -/
def World.resetThermo (w : World) (k : Nat) (t : Nat) : Except Err World :=
  if (w.str k).thermo = t then .ok w
  else if w.aliased k || !w.keysResolve k || (!(w.str k).multi && !(w.cacheOf k).isEmpty) then .error .outOfModel else
  let (w1, ids) := w.allocRows ((w.pr k).map (fun x => w.row x.2))
  let w2 := (w1.setIpr (w.str k).imol ((w.phases k).zip ids)).setStr k { w.str k with thermo := t }
  .ok (if (w.str k).multi then w2.rebind k false else w2)

/-- `b = a.proxy()`: a new stream object with the same indexer and thermal condition and (commit db10e94) its
own `_streams` dict. -/
def World.proxy (w : World) (k : Nat) : Except Err World :=
  let (w1, c) := w.allocCache
  .ok { w1.setStr w.nStr { w.str k with cache := c } with nStr := w.nStr + 1 }

/-- A fresh single-phase `Stream`. -/
def World.newSingle (w : World) (p : Ph) (T P : Rat) (f : Nat → Rat) : World :=
  let (w1, ids) := w.allocRows [f]
  let (w2, i) := w1.allocImol [(p, ids.headD 0)]
  let (w3, t) := w2.allocTc T P
  let (w4, c) := w3.allocCache
  { w4.setStr w.nStr { multi := false, imol := i, tc := t, cache := c, thermo := 0 } with nStr := w.nStr + 1 }

/-- A fresh `MultiStream` over `phaseTuple phases` (at least two). -/
def World.newMulti (w : World) (phases : List Ph) (T P : Rat) (flows : List (Ph × (Nat → Rat))) : World :=
  let t := phaseTuple phases
  let vals := t.map (fun q => match flows.find? (fun x => x.1 == q) with
                              | some x => x.2 | none => fun _ => 0)
  let (w1, ids) := w.allocRows vals
  let (w2, i) := w1.allocImol (t.zip ids)
  let (w3, tc) := w2.allocTc T P
  let (w4, c) := w3.allocCache
  { w4.setStr w.nStr { multi := true, imol := i, tc := tc, cache := c, thermo := 0 } with nStr := w.nStr + 1 }

inductive Op where
  | newS (p : Ph) (T P : Rat) (f : Nat → Rat)
  | newM (phases : List Ph) (T P : Rat) (flows : List (Ph × (Nat → Rat)))
  | setPhases (k : Nat) (ps : List Ph)
  | setPhase (k : Nat) (letters : List Ph)
  | reduce (k : Nat) | asStream (k : Nat) | vle (k : Nat) | lle (k : Nat) | sle (k : Nat)
  | empty (k : Nat)
  | view (k : Nat) (p : Ph)
  | wView (h i : Nat) (x : Rat)
  | wPar (k : Nat) (p : Option Ph) (i : Nat) (x : Rat)
  | wT (k : Nat) (x : Rat) | wP (k : Nat) (x : Rat)
  | wvT (h : Nat) (x : Rat) | wvP (h : Nat) (x : Rat)
  | vPhase (h : Nat) (p : Ph)
  | hPhases (h : Nat) (ps : List Ph)       -- `handle.phases = ps` on a phase view
  | hAccessor (h : Nat)                    -- `handle.vle` / `.lle` / `.sle` on a phase view
  | save (k : Nat)
  | restore (k : Nat) (idx : Nat)
  | unlink (k : Nat)
  | link (k j : Nat) (flow tp : Bool)
  | copyLike (k j : Nat)
  | mixFrom (k : Nat) (inlets : List Nat)
  | resetThermo (k : Nat) (t : Nat)
  | proxy (k : Nat)

/-- the stream an operation acts on -/
def Op.target : Op → Option Nat
  | .setPhases k _ | .setPhase k _ | .reduce k | .asStream k | .vle k | .lle k | .sle k | .empty k
  | .view k _ | .wPar k .. | .wT k _ | .wP k _ | .save k | .restore k _ | .unlink k | .link k ..
  | .copyLike k _ | .mixFrom k _ | .resetThermo k _ | .proxy k => some k
  | _ => none

/-- the other streams an operation reads -/
def Op.reads : Op → List Nat
  | .link _ j .. | .copyLike _ j => [j]
  | .mixFrom _ js => js
  | _ => []

/-- the streams an operation names exist -/
def Op.inBounds (op : Op) (n : Nat) : Bool :=
  (match op.target with | some k => decide (k < n) | none => true) && op.reads.all (fun j => decide (j < n))

/-- One operation on existing streams. -/
def World.body (w : World) : Op → Except Err World
  | .newS p T P f => .ok (w.newSingle p T P f)
  | .newM ps T P fl => if 2 ≤ (phaseTuple ps).length then .ok (w.newMulti ps T P fl) else .error .valueError
  | .setPhases k ps => w.setPhases k ps
  | .setPhase k ls => w.setPhase k ls
  | .reduce k => w.reduce k
  | .asStream k => w.asStream k
  | .vle k => w.vle k
  | .lle k => w.lle k
  | .sle k => w.sle k
  | .empty k => .ok (w.emptyRows k)
  | .view k p => w.getView k p
  | .wView h i x => w.writeView h i x
  | .wPar k p i x => w.writePar k p i x
  | .wT k x => .ok (w.setT (w.str k).tc x)
  | .wP k x => .ok (w.setP (w.str k).tc x)
  | .wvT h x => if h < w.nView then .ok (w.setT (w.view h).tc x) else .error .indexError
  | .wvP h x => if h < w.nView then .ok (w.setP (w.view h).tc x) else .error .indexError
  | .vPhase h p =>
    -- `handle.phase = p`: the phase of a view is a `LockedPhase`
    if h < w.nView then (if (w.view h).phase == p then .ok w else .error .attributeError)
    else .error .indexError
  | .hPhases h ps =>
    -- a phase view is a single-phase stream whose phase is locked: it accepts its own label and refuses
    -- everything else (with patch C12-10 also a multi-phase target, which used to detach the view)
    if h < w.nView then
      match phaseTuple ps with
      | [] => .error .valueError
      | [q] => if (w.view h).phase == q then .ok w else .error .attributeError
      | _ => .error .attributeError
    else .error .indexError
  | .hAccessor h => if h < w.nView then .error .attributeError else .error .indexError
  | .save k => .ok (w.save k)
  | .restore k idx => w.restore k idx
  | .unlink k => w.unlink k
  | .link k j flow tp => w.link k j flow tp
  | .copyLike k j => w.copyLike k j
  | .mixFrom k js => w.mixFrom k js
  | .resetThermo k t => w.resetThermo k t
  | .proxy k => w.proxy k

/-- One operation.  An error leaves the world as it was. -/
def World.step (w : World) (op : Op) : Except Err World :=
  if op.inBounds w.nStr then w.body op else .error .indexError

/-- One operation of a history: a raising operation changes nothing. -/
def World.apply (w : World) (op : Op) : World :=
  match w.step op with
  | .ok w' => w'
  | .error _ => w

def World.run (w : World) : List Op → World
  | [] => w
  | op :: ops => (w.apply op).run ops

/-- The operations that only change the representation of phases. -/
def Op.isConversion : Op → Bool
  | .setPhases .. | .setPhase .. | .reduce _ | .asStream _ | .vle _ | .lle _ | .sle _ => true
  | _ => false

/-- the operation is inside the model: the model does not refuse it as `outOfModel` (linking single-phase or
proxied streams, `_reset_thermo` of a proxied stream, in-place phase growth of an indexer whose rows are linked
elsewhere or under a cached case-alias key, `copy_like`/`mix_from` between row-sharing streams of different
packages).  A refused operation is a no-op of `World.apply`; the real code executes it. -/
def World.accepts (w : World) (op : Op) : Bool :=
  match w.step op with
  | .error .outOfModel => false
  | _ => true

/-- every operation of the history was inside the model when it was applied -/
def World.inModelB (w : World) : List Op → Bool
  | [] => true
  | op :: ops => w.accepts op && (w.apply op).inModelB ops

def World.InModel (w : World) (ops : List Op) : Prop := w.inModelB ops = true

def Op.isProxy : Op → Bool
  | .proxy _ => true
  | _ => false

/-! ### Observables of stream `k` -/

/-- total flow of chemical `i` -/
def World.total (w : World) (k : Nat) (i : Nat) : Rat := ((w.pr k).map (fun x => w.row x.2 i)).sum

/-- flow of chemical `i` in the phase labelled `q` (0 when the stream has no such phase) -/
def World.rowAt (w : World) (k : Nat) (q : Ph) (i : Nat) : Rat :=
  (((w.pr k).filter (fun x => x.1 == q)).map (fun x => w.row x.2 i)).sum

def World.temp (w : World) (k : Nat) : Rat := w.T (w.str k).tc
def World.pres (w : World) (k : Nat) : Rat := w.P (w.str k).tc

end ThermoVerif.Phases
