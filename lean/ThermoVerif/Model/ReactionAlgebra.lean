/-
C17 — executable model of the arithmetic of `thermosteam.Reaction` objects
(thermosteam/reaction/_reaction.py): `__add__`, `__sub__`, `__iadd__`, `__isub__`,
`__mul__`, `__truediv__`, `__imul__`, `__itruediv__`, `__neg__`, `copy`, `backwards`,
the `basis` setter (`set_reaction_basis`), `ReactionItem` (shares the parent set's `X`
array and stoichiometry row), `ReactionSet.__init__` (copies the stoichiometry arrays of
the reactions it is built from), `ParallelReaction.reduce`.

Core Lean only.  The scalar type is a parameter (`Rat` in the driver, any ordered field in
the theorems).  Python object identity is modelled by ids into an explicit store:

  * `Store.arrs`  — stoichiometry arrays (`SparseVector` / `SparseArray`, flattened
                    row-major `phase*nchem + chemical`), by array id;
  * `Store.xarrs` — the numpy `X` arrays of reaction sets, by id;
  * `Store.objs`  — `Reaction` / `ReactionItem` / `ParallelReaction` objects, by object id.

"allocates" = appends; "mutates in place" = overwrites an existing slot; "rebinds" =
changes an id held by an object.  Nothing is ever removed, so ids are stable.

The model is written to the REPAIRED behaviour of the defects since fixed in /repo
(fixes_proposed/C17-1..7 and commit 8900795): `__isub__` subtracts, `backwards()` sets the new reactant on
the copy, `__sub__` returns a copy when there is nothing to subtract, `backwards` works for phase-tagged
reactions, `ReactionItem.copy` does not raise, `ReactionSet.copy` and `ReactionSet.__init__` give the set its own
stoichiometry and conversion arrays, `item += b` / `item -= b` write the set's row.
-/
namespace ThermoVerif.ReactionAlgebra

inductive Err
  | valueError | zeroDiv | runtimeError | typeError | indexError
  | undefinedChemical   -- `UndefinedChemicalAlias`: a chemical that is needed is missing from the package
  | badRef      -- protocol error: the id does not name an object of the required kind
  | badParam    -- an external parameter (set iteration order of `reduce`) fails its hypothesis
  deriving DecidableEq, Repr

def Err.toString : Err → String
  | .valueError => "ValueError" | .zeroDiv => "ZeroDivisionError" | .runtimeError => "RuntimeError"
  | .typeError => "TypeError" | .indexError => "IndexError" | .undefinedChemical => "UndefinedChemicalAlias" | .badRef => "badRef" | .badParam => "badParam"

inductive Basis | mol | wt
  deriving DecidableEq, Repr

/-- the `basis` argument as Python passes it: `None`, `'mol'`, `'wt'`, anything else -/
inductive BArg | none | mol | wt | bad
  deriving DecidableEq, Repr

def BArg.ofBasis : Basis → BArg
  | .mol => .mol | .wt => .wt

section Values
variable {α : Type} [Add α] [Sub α] [Mul α] [Div α] [Neg α] [OfNat α 0] [OfNat α 1]
  [DecidableEq α] [LT α] [DecidableLT α]

/-! ### Pure vector arithmetic -/

/-- number of rows of a stoichiometry array: 1 for a phase-less reaction -/
def nrows (ph : Nat) : Nat := if ph = 0 then 1 else ph

/-- `chemicals.MW` broadcast over the phase rows -/
def mwFlat (mw : List α) (ph : Nat) : List α := (List.replicate (nrows ph) mw).flatten

/-- `Reaction._reaction`: `material += material[r] * X * stoichiometry` -/
def react (v : List α) (r : Nat) (x : α) (n : List α) : List α :=
  List.zipWith (fun ni vi => ni + n.getD r 0 * x * vi) n v

/-- `ParallelReaction._reaction`: all extents are taken from the feed `n`, then added one by one -/
def parallel (rs : List (List α × Nat × α)) (n : List α) : List α :=
  rs.foldl (fun acc (q : List α × Nat × α) =>
    List.zipWith (fun ai vi => ai + q.2.2 * n.getD q.2.1 0 * vi) acc q.1) n

/-- `Reaction._rescale`: divide by minus the reactant's coefficient -/
def rescale (v : List α) (r : Nat) : Except Err (List α) :=
  let sc := -(v.getD r 0)
  if sc = 0 then .error .runtimeError else .ok (v.map (· / sc))

/-- `stoichiometry *= MWs` / `stoichiometry /= MWs`, then `_rescale` -/
def rebaseV (mwf : List α) (v : List α) (r : Nat) (to : Basis) : Except Err (List α) :=
  let v' := match to with
    | .wt => List.zipWith (· * ·) v mwf
    | .mol => List.zipWith (· / ·) v mwf
  rescale v' r

def allZero (v : List α) : Bool := v.all (fun x => decide (x = 0))

/-- The combination rule shared by `+`, `-`, `+=`, `-=`:
`s = ν_a·X_a ± ν_b·X_b`, result `s / -(s[r])`.  Sparse arithmetic stores no zeros, so an
all-zero `s` is "divided" without touching any entry (no `ZeroDivisionError`). -/
def combineV (sub : Bool) (va : List α) (xa : α) (vb : List α) (xb : α) (r : Nat) : Except Err (List α) :=
  let s := List.zipWith (fun p q => if sub then p * xa - q * xb else p * xa + q * xb) va vb
  if allZero s then .ok s
  else
    let d := -(s.getD r 0)
    if d = 0 then .error .zeroDiv else .ok (s.map (· / d))

/-- indices of the strictly positive entries (`positive_index`) -/
def positives (v : List α) : List Nat :=
  (List.range v.length).filter (fun i => decide ((0 : α) < v.getD i 0))

/-- first phase row whose entry in column `c` is nonzero, else the last row
(`for phase_index, x in enumerate(stoichiometry[:, c]): if x: break`) -/
def findRow (v : List α) (nchem ph c : Nat) : Nat :=
  match (List.range (nrows ph)).find? (fun p => decide (v.getD (p * nchem + c) 0 ≠ 0)) with
  | some p => p
  | none => nrows ph - 1

def flatIdx (v : List α) (nchem ph c : Nat) : Nat :=
  if ph = 0 then c else findRow v nchem ph c * nchem + c

/-! ### Reactions as values -/

/-- What a `Reaction` *is*, apart from its identity: the contents of its fields. -/
@[ext] structure RVal (α : Type) where
  v : List α          -- stoichiometry, flattened
  ridx : Nat          -- flattened index of the reactant
  x : α               -- conversion
  basis : Basis
  ph : Nat            -- number of phases (0 = phase-less)

/-- `has_reaction` -/
def RVal.hasReaction (a : RVal α) : Bool := decide (a.x ≠ 0) && !allZero a.v

/-- `copy(basis)` at value level: `if basis: set_reaction_basis(copy, basis)` -/
def RVal.copyB (mw : List α) (a : RVal α) : BArg → Except Err (RVal α)
  | .none => .ok a
  | .bad => .error .valueError
  | .mol => if a.basis = .mol then .ok a else
      match rebaseV (mwFlat mw a.ph) a.v a.ridx .mol with
      | .error e => .error e
      | .ok v' => .ok { a with v := v', basis := .mol }
  | .wt => if a.basis = .wt then .ok a else
      match rebaseV (mwFlat mw a.ph) a.v a.ridx .wt with
      | .error e => .error e
      | .ok v' => .ok { a with v := v', basis := .wt }

/-- `_math_compatible_reaction`: bring `b` to `a`'s basis, then check phases and reactant -/
def RVal.compat (mw : List α) (a b : RVal α) : Except Err (RVal α) :=
  match b.copyB mw (BArg.ofBasis a.basis) with
  | .error e => .error e
  | .ok b' =>
    if a.ph ≠ b'.ph then .error .valueError
    else if a.ridx ≠ b'.ridx then .error .valueError
    else .ok b'

/-- `a + b` (`sub = false`) and `a - b` (`sub = true`) at value level.  `b = none` stands for
`0` / `None`. -/
def RVal.addSub (mw : List α) (sub : Bool) (a : RVal α) (b : Option (RVal α)) : Except Err (RVal α) :=
  match b with
  | none => .ok a
  | some b =>
    if !b.hasReaction then .ok a else
      match a.compat mw b with
      | .error e => .error e
      | .ok b' =>
        match combineV sub a.v a.x b'.v b'.x b'.ridx with
        | .error e => .error e
        | .ok v => .ok { a with v := v, x := if sub then a.x - b'.x else a.x + b'.x }

/-- `a * k` -/
def RVal.smul (a : RVal α) (k : α) : RVal α := { a with x := a.x * k }

/-- `a / k` is `a * (1./k)` -/
def RVal.sdiv (a : RVal α) (k : α) : Except Err (RVal α) :=
  if k = 0 then .error .zeroDiv else .ok (a.smul (1 / k))

def RVal.neg (a : RVal α) : RVal α := { a with x := a.x * (-1) }

/-- the reactant of the reversed reaction: the only product, or the given chemical -/
def RVal.newReactant (nchem : Nat) (a : RVal α) : Option Nat → Except Err Nat
  | none => match positives a.v with
    | [i] => .ok i
    | _ => .error .valueError
  | some c => .ok (flatIdx a.v nchem a.ph c)

/-- `backwards(reactant, X)` (repaired): the new reactant is the only product (or the given
chemical), the copy is rescaled on it -/
def RVal.backwards (nchem : Nat) (a : RVal α) (reactant : Option Nat) (x : Option α) : Except Err (RVal α) :=
  match a.newReactant nchem reactant with
  | .error e => .error e
  | .ok ridx =>
    match rescale a.v ridx with
    | .error e => .error e
    | .ok v' => .ok { a with v := v', ridx := ridx, x := x.getD a.x }

/-- fold of `rxn = first.copy(); for i in rest: rxn += i` in `ParallelReaction.reduce` -/
def reduceGroup (mw : List α) : RVal α → List (RVal α) → Except Err (RVal α)
  | acc, [] => .ok acc
  | acc, b :: rest =>
    match acc.addSub mw false (some b) with
    | .error e => .error e
    | .ok acc' => reduceGroup mw acc' rest

/-- a reaction applied to the molar flows of a stream: by mass if the basis is `wt` -/
def applyStream (mwf : List α) (basis : Basis) (f : List α → List α) (n : List α) : List α :=
  match basis with
  | .mol => f n
  | .wt => List.zipWith (· / ·) (f (List.zipWith (· * ·) n mwf)) mwf

/-! ### Another property package: `reset_chemicals` -/

/-- position in package `idsB` of the chemical at position `j` of package `idsA` (packages are lists of global
chemical ids) -/
def remap (idsA idsB : List Nat) (j : Nat) : Option Nat :=
  match idsA[j]? with
  | none => none
  | some g => idsB.idxOf? g

/-- the same for flattened `phase*nchem + chemical` indices -/
def flatMap (idsA idsB : List Nat) (q : Nat) : Option Nat :=
  if idsA.length = 0 then none
  else (remap idsA idsB (q % idsA.length)).map (fun k => (q / idsA.length) * idsB.length + k)

/-- entry `t` of the result is entry `τ t` of `v` (0 where `τ` is undefined) -/
def gatherV (τ : Nat → Option Nat) (len : Nat) (v : List α) : List α :=
  (List.range len).map fun t => match τ t with
    | some j => v.getD j 0
    | none => 0

/-- some nonzero entry of `v` has no image under `σ` -/
def missing (σ : Nat → Option Nat) (v : List α) : Bool :=
  (List.range v.length).any fun j => decide (v.getD j 0 ≠ 0) && (σ j).isNone

/-- `Reaction.reset_chemicals`: every nonzero coefficient is re-indexed (`σ`: old → new, `τ`: new → old), and so
is the reactant; raises if a chemical that takes part, or the reactant, is missing from the new package -/
def RVal.reindex (σ τ : Nat → Option Nat) (lenB : Nat) (a : RVal α) : Except Err (RVal α) :=
  if missing σ a.v then .error .undefinedChemical
  else match σ a.ridx with
    | none => .error .undefinedChemical
    | some r => .ok { a with v := gatherV τ lenB a.v, ridx := r }

/-- `obj(stream)` when the stream is defined over another package: the molar flows are re-indexed onto the
reaction's package (`reset_chemicals` of the indexer; raises if material of a missing chemical is present),
reacted there by `f`, and re-indexed back -/
def applyVia (σ τ : Nat → Option Nat) (lenA : Nat) (f : List α → List α) (nB : List α) : Except Err (List α) :=
  if missing τ nB then .error .undefinedChemical
  else if missing σ (f (gatherV σ lenA nB)) then .error .undefinedChemical
  else .ok (gatherV τ nB.length (f (gatherV σ lenA nB)))

end Values

/-! ### The object store -/

inductive XRef (α : Type)
  | own (x : α)                 -- `Reaction._X`: a Python float owned by the object
  | shared (xa : Nat) (i : Nat) -- `ReactionItem`: element `i` of the set's numpy array `xa`

structure Rxn (α : Type) where
  nu : Nat            -- id of the stoichiometry array
  ridx : Nat
  x : XRef α
  basis : Basis
  ph : Nat
  pkg : Nat := 0      -- the property package (`_chemicals`) the object is defined over: 0 = the home package

structure RSet where
  rows : List Nat     -- ids of the row arrays (`_stoichiometry` is a list of the members' arrays)
  xa : Nat            -- id of the numpy array that `_X` is (a view of)
  ridxs : List Nat
  basis : Basis
  ph : Nat
  xoff : Nat := 0     -- `set[i:j]` holds the numpy view `_X[i:j]`: cell `k` of the slice is cell `xoff + k` of `xa`
  series : Bool := false   -- `SeriesReaction` (else `ParallelReaction`)
  pkg : Nat := 0

inductive Obj (α : Type)
  | rxn (r : Rxn α)
  | set (s : RSet)

/-- another property package: the global ids of its chemicals, in order, and their molecular weights -/
structure Pkg (α : Type) where
  ids : List Nat
  mw : List α

structure Store (α : Type) where
  nchem : Nat := 0        -- the home package (package 0) has the chemicals with global ids `0 … nchem-1`
  mw : List α := []
  alts : List (Pkg α) := []   -- package `p ≥ 1` is `alts[p-1]`
  arrs : List (List α) := []
  xarrs : List (List α) := []
  objs : List (Obj α) := []

inductive Op (α : Type)
  | new (ph : Nat) (basis : Basis) (c : Nat) (x : α) (v : List α)   -- `Reaction(str, reactant, X, basis, phases)`
  | empty (basis : Basis) (c : Nat) (x : α)                          -- `Reaction('', reactant, X, basis)`
  | copy (a : Nat) (b : BArg)
  | add (a : Nat) (b : Option Nat) | sub (a : Nat) (b : Option Nat)
  | iadd (a : Nat) (b : Option Nat) | isub (a : Nat) (b : Option Nat)
  | mul (a : Nat) (k : α) | div (a : Nat) (k : α) | neg (a : Nat)
  | imul (a : Nat) (k : α) | idiv (a : Nat) (k : α)
  | backwards (a : Nat) (reactant : Option Nat) (x : Option α)
  | setBasis (a : Nat) (b : BArg)
  | setX (a : Nat) (x : α)
  | mkSet (series : Bool) (ms : List Nat)
  | setCopy (s : Nat) (b : BArg)                  -- `set.copy(basis)`
  | slice (s : Nat) (i : Nat) (j : Nat)           -- `set[i:j]`
  | item (s : Nat) (i : Nat)
  | setSetX (s : Nat) (i : Nat) (x : α)
  | setYield (a : Nat) (c : Nat) (y : α) (b : BArg)   -- `a.product_yield(chemical c, basis, product_yield=y)` (setter form)
  | setSetXAll (s : Nat) (xs : List α)            -- `set.X = xs` (whole-array assignment: `self._X[:] = xs`)
  | reduce (s : Nat) (order : List Nat)
  | reset (a : Nat) (p : Nat)                     -- `a.reset_chemicals(package p)`

/-- the in-place forms (`+= -= *= /=`, the `X` and `basis` setters, writing the set's `X`) -/
def Op.inPlace {α : Type} : Op α → Bool
  | .iadd .. | .isub .. | .imul .. | .idiv .. | .setBasis .. | .setX .. | .setYield .. | .setSetX .. | .setSetXAll .. | .reset .. => true
  | _ => false

section StoreOps
variable {α : Type} [Add α] [Sub α] [Mul α] [Div α] [Neg α] [OfNat α 0] [OfNat α 1]
  [DecidableEq α] [LT α] [DecidableLT α]

def Store.arr (s : Store α) (id : Nat) : List α := s.arrs.getD id []

/-- global chemical ids of package `p` -/
def Store.idsOf (s : Store α) (p : Nat) : List Nat :=
  if p = 0 then List.range s.nchem else ((s.alts[p - 1]?).map (·.ids)).getD []

def Store.mwOf (s : Store α) (p : Nat) : List α :=
  if p = 0 then s.mw else ((s.alts[p - 1]?).map (·.mw)).getD []

def Store.nchemOf (s : Store α) (p : Nat) : Nat := (s.idsOf p).length

/-- package of the reaction object `id` (0 if there is none) -/
def Store.pkgOf (s : Store α) (id : Nat) : Nat :=
  match s.objs[id]? with
  | some (.rxn r) => r.pkg
  | some (.set t) => t.pkg
  | none => 0

def Store.getX (s : Store α) : XRef α → α
  | .own x => x
  | .shared xa i => (s.xarrs.getD xa []).getD i 0

def Store.rxn? (s : Store α) (id : Nat) : Except Err (Rxn α) :=
  match s.objs[id]? with
  | some (.rxn r) => .ok r
  | _ => .error .badRef

def Store.set? (s : Store α) (id : Nat) : Except Err RSet :=
  match s.objs[id]? with
  | some (.set r) => .ok r
  | _ => .error .badRef

/-- the value of a reaction object in a store -/
def Store.val (s : Store α) (r : Rxn α) : RVal α :=
  { v := s.arr r.nu, ridx := r.ridx, x := s.getX r.x, basis := r.basis, ph := r.ph }

def Store.valOf (s : Store α) (id : Nat) : Except Err (RVal α) := do
  let r ← s.rxn? id
  pure (s.val r)

def Store.optVal (s : Store α) : Option Nat → Except Err (Option (RVal α))
  | none => .ok none
  | some b => do let v ← s.valOf b; pure (some v)

/-- the right operand of `a ± b`, with the `chemicals must be the same` check of `_math_compatible_reaction`
(reached only when `b` has a reaction) -/
def Store.optValFor (s : Store α) (a : Nat) : Option Nat → Except Err (Option (RVal α))
  | none => .ok none
  | some b =>
    match s.valOf b with
    | .error e => .error e
    | .ok v => if v.hasReaction && decide (s.pkgOf a ≠ s.pkgOf b) then .error .valueError else .ok (some v)

/-- package of the result of a reaction-valued operation: that of its left operand (the constructors build
over the home package) -/
def Store.opPkg (s : Store α) : Op α → Nat
  | .copy a _ | .add a _ | .sub a _ | .mul a _ | .div a _ | .neg a | .backwards a _ _ => s.pkgOf a
  | _ => 0

/-- A fresh `Reaction` object holding a fresh array: every non-in-place operation ends here. -/
def Store.newRxn (s : Store α) (p : Nat) (a : RVal α) : Store α × Nat :=
  ({ s with arrs := s.arrs ++ [a.v],
            objs := s.objs ++ [.rxn { nu := s.arrs.length, ridx := a.ridx, x := .own a.x,
                                      basis := a.basis, ph := a.ph, pkg := p }] },
   s.objs.length)

/-- the `X` setter: a plain reaction stores the float, an item writes the set's array -/
def Store.writeX (s : Store α) (id : Nat) (r : Rxn α) (x : α) : Store α :=
  match r.x with
  | .own _ => { s with objs := s.objs.set id (.rxn { r with x := .own x }) }
  | .shared xa i => { s with xarrs := s.xarrs.set xa ((s.xarrs.getD xa []).set i x),
                             objs := s.objs.set id (.rxn r) }

/-- `self._stoichiometry = <new array>; self.X = x`: rebinds the array id, writes X -/
def Store.rebind (s : Store α) (id : Nat) (r : Rxn α) (v : List α) (x : α) : Store α :=
  let s1 := { s with arrs := s.arrs ++ [v] }
  s1.writeX id { r with nu := s.arrs.length } x

/-- where the result of an in-place sum goes: a plain `Reaction` is bound to a new array; a `ReactionItem`
(repair C17-7, `_keep_row`) has the result written into the set's own row array, which it keeps referring to, so
the set, its slices and every item of that row go on describing the same reaction -/
def Store.assign (s : Store α) (id : Nat) (r : Rxn α) (v : List α) (x : α) : Store α :=
  match r.x with
  | .own _ => s.rebind id r v x
  | .shared _ _ => Store.writeX { s with arrs := s.arrs.set r.nu v } id r x

/-- value of the reaction-valued, non-in-place operations (the operands are only read) -/
def Store.pureOp (s : Store α) : Op α → Option (Except Err (RVal α))
  | .new ph basis c x v => some (do
      let r := flatIdx v s.nchem ph c
      let v' ← rescale v r
      pure { v := v', ridx := r, x := x, basis := basis, ph := ph })
  | .empty basis c x => some (.ok { v := List.replicate s.nchem 0, ridx := c, x := x, basis := basis, ph := 0 })
  | .copy a b => some (do (← s.valOf a).copyB (s.mwOf (s.pkgOf a)) b)
  | .add a b => some (do (← s.valOf a).addSub (s.mwOf (s.pkgOf a)) false (← s.optValFor a b))
  | .sub a b => some (do (← s.valOf a).addSub (s.mwOf (s.pkgOf a)) true (← s.optValFor a b))
  | .mul a k => some (do pure ((← s.valOf a).smul k))
  | .div a k => some (do (← s.valOf a).sdiv k)
  | .neg a => some (do pure (← s.valOf a).neg)
  | .backwards a r x => some (do (← s.valOf a).backwards (s.nchemOf (s.pkgOf a)) r x)
  | _ => none

/-- members of a set as values (through the set's own arrays) -/
def Store.setVals (s : Store α) (t : RSet) : List (RVal α) :=
  (List.range t.rows.length).map fun i =>
    { v := s.arr (t.rows.getD i 0), ridx := t.ridxs.getD i 0, x := (s.xarrs.getD t.xa []).getD (t.xoff + i) 0,
      basis := t.basis, ph := t.ph }

def allEq {β : Type} [DecidableEq β] : List β → Bool
  | [] => true
  | b :: rest => rest.all (fun c => decide (c = b))

/-- one reduced reaction per reactant key, in the given key order -/
def reduceVals (mw : List α) (ms : List (RVal α)) : List Nat → Except Err (List (RVal α))
  | [] => .ok []
  | k :: ks =>
    match ms.filter (fun m => decide (m.ridx = k)) with
    | [] => .error .badParam
    | m :: rest =>
      match reduceGroup mw m rest with
      | .error e => .error e
      | .ok r =>
        match reduceVals mw ms ks with
        | .error e => .error e
        | .ok rs => .ok (r :: rs)

/-- `a += b` (`sub = false`), `a -= b` (`sub = true`): nothing happens if there is nothing to combine;
otherwise the sum is stored (`Store.assign`: new array for a plain reaction, the set's row for an item) and `a.X` is
written through the setter -/
def Store.iaddSubOp (s : Store α) (sub : Bool) (a : Nat) (b : Option Nat) : Except Err (Store α × Nat) :=
  match s.rxn? a with
  | .error e => .error e
  | .ok ra =>
    match s.optValFor a b with
    | .error e => .error e
    | .ok none => .ok (s, a)
    | .ok (some vb) =>
      if !vb.hasReaction then .ok (s, a)
      else match (s.val ra).addSub (s.mwOf (s.pkgOf a)) sub (some vb) with
        | .error e => .error e
        | .ok r => .ok (s.assign a ra r.v r.x, a)

/-- `a *= k` -/
def Store.imulOp (s : Store α) (a : Nat) (k : α) : Except Err (Store α × Nat) :=
  match s.rxn? a with
  | .error e => .error e
  | .ok ra => .ok (s.writeX a ra ((s.val ra).smul k).x, a)

/-- `a /= k` -/
def Store.idivOp (s : Store α) (a : Nat) (k : α) : Except Err (Store α × Nat) :=
  match s.rxn? a with
  | .error e => .error e
  | .ok ra =>
    match (s.val ra).sdiv k with
    | .error e => .error e
    | .ok r => .ok (s.writeX a ra r.x, a)

/-- the conversion that the setter form of `product_yield` / `reactant_demand` computes: the yield divided by the
chemical's coefficient (summed over the phase rows), converted between bases by the molecular-weight ratio of
reactant and chemical when a basis other than the reaction's is given; more than 100 % is refused -/
def yieldX (mw : List α) (nchem : Nat) (a : RVal α) (c : Nat) (y : α) (b : BArg) : Except Err α :=
  if (List.range (nrows a.ph)).foldl (fun acc p => acc + a.v.getD (p * nchem + c) 0) 0 = 0 then .error .zeroDiv
  else
    match (match b with
           | .none => Except.ok (1 : α)
           | .bad => Except.error Err.valueError
           | .wt => Except.ok (if a.basis = Basis.wt then 1 else mw.getD (a.ridx % nchem) 0 / mw.getD c 0)
           | .mol => Except.ok (if a.basis = Basis.mol then 1 else mw.getD c 0 / mw.getD (a.ridx % nchem) 0)) with
    | .error e => .error e
    | .ok ratio =>
      if 1 < (if y / (List.range (nrows a.ph)).foldl (fun acc p => acc + a.v.getD (p * nchem + c) 0) 0 * ratio < 0
              then -(y / (List.range (nrows a.ph)).foldl (fun acc p => acc + a.v.getD (p * nchem + c) 0) 0 * ratio)
              else y / (List.range (nrows a.ph)).foldl (fun acc p => acc + a.v.getD (p * nchem + c) 0) 0 * ratio)
      then .error .valueError
      else .ok (y / (List.range (nrows a.ph)).foldl (fun acc p => acc + a.v.getD (p * nchem + c) 0) 0 * ratio)

/-- `a.product_yield(c, basis, product_yield=y)`: the computed conversion goes through the `X` setter (`self.X = X`),
so on a `ReactionItem` it is written into the set's array -/
def Store.setYieldOp (s : Store α) (a c : Nat) (y : α) (b : BArg) : Except Err (Store α × Nat) :=
  match s.rxn? a with
  | .error e => .error e
  | .ok ra =>
    match yieldX (s.mwOf ra.pkg) (s.nchemOf ra.pkg) (s.val ra) c y b with
    | .error e => .error e
    | .ok x => .ok (s.writeX a ra x, a)

/-- `a.X = x` -/
def Store.setXOp (s : Store α) (a : Nat) (x : α) : Except Err (Store α × Nat) :=
  match s.rxn? a with
  | .error e => .error e
  | .ok ra => .ok (s.writeX a ra x, a)

/-- `a.basis = b`: `set_reaction_basis(self, basis)` modifies the array object in place;
items and sets refuse -/
def Store.setBasisOp (s : Store α) (a : Nat) (b : BArg) : Except Err (Store α × Nat) :=
  match s.objs[a]? with
  | none => .error .badRef
  | some (.set _) => .error .typeError
  | some (.rxn ra) =>
    match ra.x with
    | .shared _ _ => .error .typeError
    | .own _ =>
      match (s.val ra).copyB (s.mwOf ra.pkg) (match b with | .none => .bad | b => b) with
      | .error e => .error e
      | .ok r => .ok ({ s with arrs := s.arrs.set ra.nu r.v,
                               objs := s.objs.set a (.rxn { ra with basis := r.basis }) }, a)

def Store.rxns? (s : Store α) : List Nat → Except Err (List (Rxn α))
  | [] => .ok []
  | m :: ms =>
    match s.rxn? m with
    | .error e => .error e
    | .ok r =>
      match s.rxns? ms with
      | .error e => .error e
      | .ok rs => .ok (r :: rs)

/-- `ParallelReaction([...])` / `SeriesReaction([...])`: the set holds copies of the members' stoichiometry
arrays and a fresh X array (it shares nothing with the reactions it is built from) -/
def Store.mkSetOp (s : Store α) (series : Bool) (ms : List Nat) : Except Err (Store α × Nat) :=
  match s.rxns? ms with
  | .error e => .error e
  | .ok rs =>
    if rs.isEmpty then .error .valueError
    else if !allEq (rs.map (·.ph)) || !allEq (rs.map (·.pkg)) then .error .valueError   -- phases, chemicals
    else if !allEq (rs.map (·.basis)) then .error .valueError
    else
      -- (repair 8900795) the set takes COPIES of the members' stoichiometry arrays, and a fresh X array
      let t : RSet := { rows := (List.range rs.length).map (· + s.arrs.length), xa := s.xarrs.length,
                        ridxs := rs.map (·.ridx),
                        basis := (rs.map (·.basis)).headD .mol, ph := (rs.map (·.ph)).headD 0,
                        xoff := 0, series := series, pkg := (rs.map (·.pkg)).headD 0 }
      .ok ({ s with arrs := s.arrs ++ rs.map (fun r => s.arr r.nu),
                    xarrs := s.xarrs ++ [rs.map (fun r => s.getX r.x)],
                    objs := s.objs ++ [.set t] }, s.objs.length)

/-- `set[i]`: a `ReactionItem` that refers to the set's row array and to cell `i` of its X array -/
def Store.itemOp (s : Store α) (sid i : Nat) : Except Err (Store α × Nat) :=
  match s.set? sid with
  | .error e => .error e
  | .ok t =>
    if i < t.rows.length then
      .ok ({ s with objs := s.objs ++ [.rxn { nu := t.rows.getD i 0, ridx := t.ridxs.getD i 0,
                                              x := .shared t.xa (t.xoff + i), basis := t.basis, ph := t.ph,
                                              pkg := t.pkg }] },
           s.objs.length)
    else .error .indexError

/-- `set.X[i] = x` -/
def Store.setSetXOp (s : Store α) (sid i : Nat) (x : α) : Except Err (Store α × Nat) :=
  match s.set? sid with
  | .error e => .error e
  | .ok t =>
    if i < t.rows.length then
      .ok ({ s with xarrs := s.xarrs.set t.xa ((s.xarrs.getD t.xa []).set (t.xoff + i) x) }, sid)
    else .error .indexError

/-- `arr[off : off+len(xs)] = xs` -/
def writeWindow (arr : List α) (off : Nat) (xs : List α) : List α :=
  arr.zipIdx.map fun (p : α × Nat) =>
    if off ≤ p.2 ∧ p.2 < off + xs.length then xs.getD (p.2 - off) 0 else p.1

/-- `set.X = xs`: `if X is not self._X: self._X[:] = X` — the cells of the set's own X window are overwritten in
place (numpy broadcasts a single value; any other length mismatch raises `ValueError`), the array object stays -/
def Store.setSetXAllOp (s : Store α) (sid : Nat) (xs : List α) : Except Err (Store α × Nat) :=
  match s.set? sid with
  | .error e => .error e
  | .ok t =>
    if xs.length = t.rows.length then
      .ok ({ s with xarrs := s.xarrs.set t.xa (writeWindow (s.xarrs.getD t.xa []) t.xoff xs) }, sid)
    else if xs.length = 1 then
      .ok ({ s with xarrs := s.xarrs.set t.xa (writeWindow (s.xarrs.getD t.xa []) t.xoff (List.replicate t.rows.length (xs.getD 0 0))) }, sid)
    else .error .valueError

/-- `set.reduce()`; `order` is the iteration order of `set(self._reactant_index)` (external parameter,
hypothesis: it enumerates exactly the reactant keys, once each) -/
def Store.reduceOp (s : Store α) (sid : Nat) (order : List Nat) : Except Err (Store α × Nat) :=
  match s.set? sid with
  | .error e => .error e
  | .ok t =>
    if t.series then .error .typeError      -- `SeriesReaction.reduce` refuses
    else if !(order.all (fun k => decide (k ∈ t.ridxs)) && t.ridxs.all (fun k => decide (k ∈ order))
          && decide order.Nodup) then .error .badParam
    else match reduceVals (s.mwOf t.pkg) (s.setVals t) order with
      | .error e => .error e
      | .ok vs =>
        let t' : RSet := { rows := (List.range vs.length).map (· + s.arrs.length), xa := s.xarrs.length,
                           ridxs := vs.map (·.ridx), basis := t.basis, ph := t.ph, xoff := 0, series := false,
                           pkg := t.pkg }
        .ok ({ s with arrs := s.arrs ++ vs.map (·.v), xarrs := s.xarrs ++ [vs.map (·.x)],
                      objs := s.objs ++ [.set t'] }, s.objs.length)

/-- `ReactionSet._rescale` of one row: `row /= -row[index]` (sparse: an empty row is left alone) -/
def rescaleRow (v : List α) (r : Nat) : Except Err (List α) :=
  if allZero v then .ok v
  else if -(v.getD r 0) = 0 then .error .zeroDiv
  else .ok (v.map (· / -(v.getD r 0)))

/-- `set_reaction_basis` on the rows of a (copied) set -/
def rebaseRows (mwf : List α) (to : Basis) : List (RVal α) → Except Err (List (RVal α))
  | [] => .ok []
  | a :: rest =>
    match rescaleRow (match to with
                      | .wt => List.zipWith (· * ·) a.v mwf
                      | .mol => List.zipWith (· / ·) a.v mwf) a.ridx with
    | .error e => .error e
    | .ok v' =>
      match rebaseRows mwf to rest with
      | .error e => .error e
      | .ok vs => .ok ({ a with v := v', basis := to } :: vs)

/-- the basis a copy has to be brought to: `none` = leave as is -/
def copyTarget (cur : Basis) : BArg → Except Err (Option Basis)
  | .none => .ok none
  | .bad => .error .valueError
  | .mol => .ok (if cur = .mol then none else some .mol)
  | .wt => .ok (if cur = .wt then none else some .wt)

/-- `set.copy(basis)` (repaired, fixes_proposed/C17-6): a new set with its own row arrays and its own X array -/
def Store.setCopyOp (s : Store α) (sid : Nat) (b : BArg) : Except Err (Store α × Nat) :=
  match s.set? sid with
  | .error e => .error e
  | .ok t =>
    match copyTarget t.basis b with
    | .error e => .error e
    | .ok tgt =>
      match (match tgt with
             | none => Except.ok (s.setVals t)
             | some to => rebaseRows (mwFlat (s.mwOf t.pkg) t.ph) to (s.setVals t)) with
      | .error e => .error e
      | .ok vs =>
        let t' : RSet := { rows := (List.range vs.length).map (· + s.arrs.length), xa := s.xarrs.length,
                           ridxs := vs.map (·.ridx), basis := tgt.getD t.basis, ph := t.ph, xoff := 0,
                           series := t.series, pkg := t.pkg }
        .ok ({ s with arrs := s.arrs ++ vs.map (·.v), xarrs := s.xarrs ++ [vs.map (·.x)],
                      objs := s.objs ++ [.set t'] }, s.objs.length)

/-- `set[i:j]` (Python slice clipping): the same row arrays, a view of the same X array -/
def Store.sliceOp (s : Store α) (sid i j : Nat) : Except Err (Store α × Nat) :=
  match s.set? sid with
  | .error e => .error e
  | .ok t =>
    let t' : RSet := { rows := (t.rows.take j).drop i, xa := t.xa, ridxs := (t.ridxs.take j).drop i,
                       basis := t.basis, ph := t.ph, xoff := t.xoff + min i t.rows.length, series := t.series,
                       pkg := t.pkg }
    .ok ({ s with objs := s.objs ++ [.set t'] }, s.objs.length)

/-- `a.reset_chemicals(package p)` on a plain reaction: nothing if `a` is already over `p`; otherwise a new
stoichiometry array (re-indexed) is bound to `a`, and its reactant index and package change.  (Items and sets
re-index their whole set; that is not modelled.) -/
def Store.resetOp (s : Store α) (a p : Nat) : Except Err (Store α × Nat) :=
  match s.objs[a]? with
  | some (.rxn ra) =>
    match ra.x with
    | .shared _ _ => .error .badRef
    | .own _ =>
      if ra.pkg = p then .ok (s, a)
      else if p ≠ 0 ∧ s.alts.length < p then .error .badRef
      else
        match (s.val ra).reindex (flatMap (s.idsOf ra.pkg) (s.idsOf p)) (flatMap (s.idsOf p) (s.idsOf ra.pkg))
                (nrows ra.ph * (s.idsOf p).length) with
        | .error e => .error e
        | .ok r => .ok ({ s with arrs := s.arrs ++ [r.v],
                                 objs := s.objs.set a (.rxn { ra with nu := s.arrs.length, ridx := r.ridx, pkg := p }) }, a)
  | _ => .error .badRef

/-- `SeriesReaction._reaction`: one reaction after the other on the running material -/
def series (rs : List (List α × Nat × α)) (n : List α) : List α :=
  rs.foldl (fun acc (q : List α × Nat × α) => react q.1 q.2.1 q.2.2 acc) n

/-- what calling a set on an array does -/
def setAct (ser : Bool) (rs : List (List α × Nat × α)) (n : List α) : List α :=
  if ser then series rs n else parallel rs n

/-- One operation.  Returns the new store and the id of the object the Python expression
evaluates to (`self` for the in-place forms). -/
def Store.step (s : Store α) (op : Op α) : Except Err (Store α × Nat) :=
  match s.pureOp op with
  | some r =>
    match r with
    | .error e => .error e
    | .ok a => .ok (s.newRxn (s.opPkg op) a)
  | none =>
    match op with
    | .iadd a b => s.iaddSubOp false a b
    | .isub a b => s.iaddSubOp true a b
    | .imul a k => s.imulOp a k
    | .idiv a k => s.idivOp a k
    | .setX a x => s.setXOp a x
    | .setYield a c y b => s.setYieldOp a c y b
    | .setBasis a b => s.setBasisOp a b
    | .mkSet ser ms => s.mkSetOp ser ms
    | .setCopy sid b => s.setCopyOp sid b
    | .slice sid i j => s.sliceOp sid i j
    | .reset a p => s.resetOp a p
    | .item sid i => s.itemOp sid i
    | .setSetX sid i x => s.setSetXOp sid i x
    | .setSetXAll sid xs => s.setSetXAllOp sid xs
    | .reduce sid order => s.reduceOp sid order
    | _ => .error .badRef

/-- `obj(array)`: the array elements are reacted whatever the basis label -/
def Store.applyArr (s : Store α) (id : Nat) (n : List α) : Except Err (List α) :=
  match s.objs[id]? with
  | some (.rxn r) => let a := s.val r; .ok (react a.v a.ridx a.x n)
  | some (.set t) => .ok (setAct t.series ((s.setVals t).map fun a => (a.v, a.ridx, a.x)) n)
  | none => .error .badRef

/-- `obj(stream)`: molar flows in, molar flows out; a `wt` reaction works on the mass flows -/
def Store.applyStr (s : Store α) (id : Nat) (n : List α) : Except Err (List α) :=
  match s.objs[id]? with
  | some (.rxn r) =>
    let a := s.val r
    .ok (applyStream (mwFlat (s.mwOf r.pkg) a.ph) a.basis (react a.v a.ridx a.x) n)
  | some (.set t) =>
    .ok (applyStream (mwFlat (s.mwOf t.pkg) t.ph) t.basis (setAct t.series ((s.setVals t).map fun a => (a.v, a.ridx, a.x))) n)
  | none => .error .badRef

/-- `obj(stream)` for a stream defined over package `p` (plain reactions): directly if that is the object's
package, else through re-indexing the flows there and back -/
def Store.applyStrPkg (s : Store α) (id p : Nat) (n : List α) : Except Err (List α) :=
  match s.objs[id]? with
  | some (.rxn r) =>
    let a := s.val r
    let f := applyStream (mwFlat (s.mwOf r.pkg) a.ph) a.basis (react a.v a.ridx a.x)
    if r.pkg = p then .ok (f n)
    else
      let idsA := s.idsOf r.pkg
      let idsB := s.idsOf p
      applyVia (flatMap idsA idsB) (flatMap idsB idsA) (nrows r.ph * idsA.length) f n
  | _ => .error .badRef

end StoreOps

end ThermoVerif.ReactionAlgebra
