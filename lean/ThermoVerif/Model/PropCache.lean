/-
Model of the memoisation of derived stream properties
(`Stream._get_property`, `MultiStream._get_property`, `reset_cache` and the places
that rebind `_property_cache` / `_property_cache_key`) in thermosteam/_stream.py and
thermosteam/_multi_stream.py.  Core Lean only.

The observable state a property value may depend on has two parts.  The part the
memo is keyed on — phase(s), T, P and the composition — is abstracted to a *key
id*: the adapter numbers the distinct (literal, composition) pairs it sees, equal
ids ⇔ equal keys.  The part the memo is NOT keyed on — the property package the
stream uses (`_thermo`, i.e. the mixture whose functions compute the value) — is an
explicit field of the model: it changes only through `_reset_thermo` / `copy(thermo=)`,
and the code's obligation is to reset the memo when it changes.  A stored value is
represented by the pair (key id, package id) at which it was computed, so "the
value returned is `calc package name (current state)`" becomes "the returned pair
is (current key id, current package id)".
-/
namespace ThermoVerif.PropCache

/-- One stream object's memo fields. -/
structure Obj where
  /-- `_property_cache_key`; `(None, None)` is `none` -/
  key : Option Nat
  /-- identity of the `_property_cache` dict the object holds -/
  dict : Nat
  /-- identity of the `_streams` dict (phase views `ms[phase]`) whose members' caches
  `MultiStream.reset_cache` also resets; a proxy of a MultiStream holds the same dict -/
  views : Nat
  /-- identity of the property package (`_thermo`) the object computes with -/
  pkg : Nat
  deriving Repr

structure World where
  objs : List Obj
  /-- dict id ↦ entries `name ↦ (key id, package id) at which the stored value was computed` -/
  dicts : List (List (String × (Nat × Nat)))
  /-- `_streams` dict id ↦ the view objects registered in it -/
  vlists : List (List Nat)
  deriving Repr

def World.init : World := { objs := [], dicts := [], vlists := [] }

def World.obj? (w : World) (o : Nat) : Option Obj := w.objs[o]?

def World.setObj (w : World) (o : Nat) (x : Obj) : World := { w with objs := w.objs.set o x }

def World.dictOf (w : World) (d : Nat) : List (String × (Nat × Nat)) := w.dicts.getD d []

def World.setDict (w : World) (d : Nat) (e : List (String × (Nat × Nat))) : World :=
  { w with dicts := w.dicts.set d e }

/-- `{}`: a brand-new dict object. -/
def World.newDict (w : World) : World × Nat :=
  ({ w with dicts := w.dicts ++ [[]] }, w.dicts.length)

/-- A stream object whose constructor ran `reset_cache()` (constructors, `copy`,
`flow_proxy`, `from_data`, unpickling), using package `p`. -/
def World.newObj (w : World) (p : Nat) : World × Nat :=
  let (w1, d) := w.newDict
  ({ w1 with objs := w1.objs ++ [{ key := none, dict := d, views := w1.vlists.length, pkg := p }],
             vlists := w1.vlists ++ [[]] }, w1.objs.length)

/-- the package an object currently computes with (`0` for an id that names no object) -/
def World.pkgOf (w : World) (o : Nat) : Nat := match w.obj? o with | some x => x.pkg | none => 0

def World.viewsOf (w : World) (x : Obj) : List Nat := w.vlists.getD x.views []

/-- `Stream.reset_cache()`: a *new* dict is bound and the key forgotten. -/
def World.resetOne (w : World) (o : Nat) : World :=
  match w.obj? o with
  | none => w
  | some x =>
    let (w1, d) := w.newDict
    w1.setObj o { x with key := none, dict := d }

/-- `MultiStream.reset_cache()`: also resets every phase view created so far. -/
def World.reset (w : World) (o : Nat) : World :=
  match w.obj? o with
  | none => w
  | some x => ((w.viewsOf x).foldl World.resetOne w).resetOne o

/-- `Stream.proxy()`: the proxy gets its own empty memo (the repaired behaviour; the
original code shared the dict but not the key) and, for a MultiStream, its own empty
`_streams` dict (repair db10e94).  It takes over the original's package (and keeps it: a later
package change of the original does not reach the proxy's `_thermo`). -/
def World.proxy (w : World) (o : Nat) : World × Nat := w.newObj (w.pkgOf o)

/-- `MultiStream.__getitem__(phase)` on first access: a view object with its own memo. -/
def World.view (w : World) (o : Nat) : World × Nat :=
  let (w1, v) := w.newObj (w.pkgOf o)
  match w1.obj? o with
  | none => (w1, v)
  | some x => ({ w1 with vlists := w1.vlists.set x.views (w1.viewsOf x ++ [v]) }, v)

/-- Mutators of the observable state.  Only some of them touch the memo. -/
inductive Mut where
  /-- T, P, phase, in-place flow edits, scaling, mixing, emptying, `link_with(flow=False, TP=False)`, writes
  through a view or a linked stream, `phases=` with an unchanged set, `_reset_thermo` with the same package:
  the memo is not touched (it is content-keyed) -/
  | state
  /-- `unlink`, `link_with(flow or TP)` (repair 9090df2), `MultiStream.phases = <different set>`: `reset_cache()` -/
  | resets
  /-- `MultiStream.phase = x` (collapse to single phase): `_streams.clear()` — the (possibly
  shared) view dict is emptied in place, memo untouched -/
  | collapse
  /-- `Stream.phases = <several>` (single → multi): a new empty `_streams` dict is bound, memo untouched -/
  | rebind
  /-- `_reset_thermo(p)`: nothing when `p` is the package in use; otherwise the object and (for a
  MultiStream) every phase view created so far take the new package and `reset_cache()` runs -/
  | thermo (p : Nat)
  deriving DecidableEq, Repr

/-- one object's share of `_reset_thermo(p)`: the package is rebound and `reset_cache()` binds a new
memo dict and forgets the key (the code does the two in this order per object; the model does both at once) -/
def World.resetPkgOne (p : Nat) (w : World) (o : Nat) : World :=
  match w.obj? o with
  | none => w
  | some x =>
    let (w1, d) := w.newDict
    w1.setObj o { x with key := none, dict := d, pkg := p }

def World.mut (w : World) (o : Nat) : Mut → World
  | .state => w
  | .resets => w.reset o
  | .collapse =>
    match w.obj? o with
    | none => w
    | some x => { w with vlists := w.vlists.set x.views [] }
  | .rebind =>
    match w.obj? o with
    | none => w
    | some x => { (w.setObj o { x with views := w.vlists.length }) with vlists := w.vlists ++ [[]] }
  | .thermo p =>
    match w.obj? o with
    | none => w
    | some x =>
      if x.pkg = p then w
      else ((w.viewsOf x).foldl (World.resetPkgOne p) w).resetPkgOne p o

inductive Outcome where
  | hit | miss
  deriving DecidableEq, Repr

/-- `_get_property(name)` on a non-empty stream whose current key id is `k`.
Returns the outcome and the (key id, package id) the returned value was computed at: a miss computes
with the functions of the object's current package. -/
def World.read (w : World) (o : Nat) (name : String) (k : Nat) : World × Outcome × (Nat × Nat) :=
  match w.obj? o with
  | none => (w, .miss, (k, 0))
  | some x =>
    let e := w.dictOf x.dict
    if x.key = some k then
      match e.lookup name with
      | some v => (w, .hit, v)
      | none =>
        -- same key, property not yet memoised: compute and add
        ((w.setObj o { x with key := some k }).setDict x.dict ((name, (k, x.pkg)) :: e), .miss, (k, x.pkg))
    else
      -- state changed since the memo was filled: `property_cache.clear()`, rebind key, compute
      ((w.setObj o { x with key := some k }).setDict x.dict [(name, (k, x.pkg))], .miss, (k, x.pkg))

/-- `_get_property(name)` when the mixture function raises (e.g. a chemical lacks the model for
this phase): the memo was already cleared and re-keyed if the state had changed, nothing is stored. -/
def World.readFail (w : World) (o : Nat) (k : Nat) : World :=
  match w.obj? o with
  | none => w
  | some x =>
    if x.key = some k then w
    else (w.setObj o { x with key := some k }).setDict x.dict []

/-- Operations of a history. -/
inductive Op where
  /-- a new stream on package `p`; also `copy()` / `copy(thermo=p)` / `flow_proxy()` of an existing one -/
  | new (p : Nat)
  | proxy (o : Nat)
  | view (o : Nat)
  | mutate (o : Nat) (m : Mut)
  | read (o : Nat) (name : String) (k : Nat)
  | readFail (o : Nat) (k : Nat)
  deriving Repr

def World.step (w : World) : Op → World
  | .new p => (w.newObj p).1
  | .proxy o => (w.proxy o).1
  | .view o => (w.view o).1
  | .mutate o m => w.mut o m
  | .read o n k => (w.read o n k).1
  | .readFail o k => w.readFail o k

def World.run (w : World) (ops : List Op) : World := ops.foldl World.step w

end ThermoVerif.PropCache
