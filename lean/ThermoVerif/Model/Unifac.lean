/-
Model of the activity-coefficient kernels of
thermosteam/equilibrium/activity_coefficients.py (and of the `ideal` decorator in
equilibrium/ideal.py, `IdealFugacityCoefficients`, `MockPoyintingCorrectionFactors`).
Core Lean only.

Mirrored functions
  * `group_activity_coefficients`              → `groupGamma`
  * `loggammacs_UNIFAC`                        → `lgcUnifac`
  * `loggammacs_modified_UNIFAC`               → `lgcModified`
  * `psi_UNIFAC`, `psi_modified_UNIFAC`        → `psi`
  * `fill_group_psis`                          → `fillGroupPsis`
  * `gamma_UNIFAC`, `gamma_modified_UNIFAC`    → `gammaF`  (gather / normalise / evaluate / scatter)
  * `GroupActivityCoefficients.__new__` (the derived tables) → `build`
  * `GroupActivityCoefficients.__call__`, `.f`, `.args`      → `World.call`, `World.fForm`
  * `ideal` / `_ideal_coefficient`, `IdealActivityCoefficients.__call__`,
    `IdealFugacityCoefficients.__call__`, `MockPoyintingCorrectionFactors.__call__`

The scalar type is a parameter: `Float` in the driver, `ℝ` in the proofs.  Only the
transcendental functions and the two tests the kernels perform on floats (`== 0`, `isnan`)
are abstracted (`Transc`); `+ - * /` are the ordinary operator classes so that for `ℝ` they
are Mathlib's own instances.

`gamma_UNIFAC` is modelled as REPAIRED (fixes_proposed/C16-1.md): as found, its gather loop
reads `for i, j in enumerate(index): x[j] = x_sub[i]`, i.e. it overwrites the caller's
composition with ones and evaluates the model at the equimolar point.  The repaired loop is
the one `gamma_modified_UNIFAC` already has.  Likewise the branch `xsum == 0` returns the
vector of ones (fixes_proposed/C16-2.md); as found, the scatter loop then reads a variable
that was never assigned (segmentation fault under numba).  `loggammacs_UNIFAC` is modelled with
the sign of `ln V` repaired (fixes_proposed/C16-3.md).
The behaviour as found is kept as `gammaFAsFound` for the counterexample theorems.
-/
namespace ThermoVerif.Unifac

/-- What the kernels need beyond field arithmetic. -/
class Transc (α : Type) where
  exp : α → α
  log : α → α
  /-- `x ** y` -/
  rpow : α → α → α
  ofNat : Nat → α
  /-- `x == 0` (IEEE: `-0.0 == 0`, `nan != 0`) -/
  isZero : α → Bool
  /-- `np.isnan` -/
  isNaN : α → Bool

instance : Transc Float where
  exp := Float.exp
  log := Float.log
  rpow := Float.pow
  ofNat := Float.ofNat
  isZero x := x == 0.0
  isNaN := Float.isNaN

open Transc

section
variable {α : Type} [Zero α] [One α] [Add α] [Sub α] [Mul α] [Div α] [Neg α] [Transc α]

/-- `Σ_{i<n} f i` (left fold, as a Python loop would do it). -/
def sumN (n : Nat) (f : Nat → α) : α :=
  match n with
  | 0 => 0
  | n + 1 => sumN n f + f n

/-- materialise `f 0 … f (n-1)` (a NumPy temporary) -/
def tabA (n : Nat) (f : Nat → α) : Array α := Array.ofFn (n := n) fun i => f i.val

def vget (a : Array α) (i : Nat) : α := a.getD i 0

def tabM (r c : Nat) (f : Nat → Nat → α) : Array (Array α) :=
  Array.ofFn (n := r) fun i => tabA c (f i.val)

def mget (a : Array (Array α)) (i k : Nat) : α := vget (a.getD i #[]) k

inductive Kind where
  /-- original UNIFAC: `loggammacs_UNIFAC`, `psi_UNIFAC` -/
  | unifac
  /-- Dortmund / NIST modified UNIFAC: `loggammacs_modified_UNIFAC`, `psi_modified_UNIFAC` -/
  | modified
  deriving DecidableEq, Repr

/-- `psi_UNIFAC(T, a) = exp(-a/T)`; `psi_modified_UNIFAC(T, abc) = exp(-(a/T + b + c*T))`.
`inter k m p` is `interactions[k, m, p]` (`p = 0` only for the original model). -/
def psi (kind : Kind) (T : α) (inter : Nat → Nat → Nat → α) (k m : Nat) : α :=
  match kind with
  | .unifac => exp ((- inter k m 0) / T)
  | .modified => exp (- (inter k m 0 / T + inter k m 1 + inter k m 2 * T))

/-- `loggammacs_UNIFAC(qs, rs, x)`, REPAIRED (fixes_proposed/C16-3.md): the combinatorial term is
`1 - V + ln V - 5 q (1 - V/F + ln(V/F))`; as found the code has `- np.log(Vs)`, which is not the
UNIFAC equation and breaks the Gibbs–Duhem relation (see `lgcUnifacAsFound`). -/
def lgcUnifac (nC : Nat) (qs rs x : Nat → α) : Array α :=
  let rnet := sumN nC fun i => x i * rs i
  let qnet := sumN nC fun i => x i * qs i
  tabA nC fun i =>
    let V := rs i / rnet
    let F := qs i / qnet
    let VF := V / F
    1 - V + log V - ofNat 5 * qs i * (1 - VF + log VF)

/-- `loggammacs_UNIFAC` AS FOUND (`1. - Vs - np.log(Vs) - …`), for the counterexample only. -/
def lgcUnifacAsFound (nC : Nat) (qs rs x : Nat → α) : Array α :=
  let rnet := sumN nC fun i => x i * rs i
  let qnet := sumN nC fun i => x i * qs i
  tabA nC fun i =>
    let V := rs i / rnet
    let F := qs i / qnet
    let VF := V / F
    1 - V - log V - ofNat 5 * qs i * (1 - VF + log VF)

/-- `loggammacs_modified_UNIFAC(qs, rs, x)` -/
def lgcModified (nC : Nat) (qs rs x : Nat → α) : Array α :=
  let rnet := sumN nC fun i => x i * rs i
  let qnet := sumN nC fun i => x i * qs i
  let rsp := tabA nC fun i => rpow (rs i) (ofNat 3 / ofNat 4)
  let rpnet := sumN nC fun i => vget rsp i * x i
  tabA nC fun i =>
    let V := rs i / rnet
    let F := qs i / qnet
    let VF := V / F
    let Vp := vget rsp i / rpnet
    1 - Vp + log Vp - ofNat 5 * qs i * (1 - VF + log VF)

def lgc (kind : Kind) (nC : Nat) (qs rs x : Nat → α) : Array α :=
  match kind with
  | .unifac => lgcUnifac nC qs rs x
  | .modified => lgcModified nC qs rs x

/-- `group_activity_coefficients(x, chemgroups, loggammacs, Qs, psis, cQfs, gpsis)` -/
def groupGamma (nC nG : Nat) (x : Nat → α) (cg : Nat → Nat → α) (lgcs : Nat → α) (Qs : Nat → α)
    (psis : Nat → Nat → α) (cQ : Nat → Nat → α) (gpsis : Nat → Nat → α) : Array α :=
  -- weighted_counts = chemgroups.transpose() @ x
  let wc := tabA nG fun k => sumN nC fun i => cg i k * x i
  -- Q_fractions = Qs * weighted_counts;  Q_fractions /= Q_fractions.sum()
  let qf0 := tabA nG fun k => Qs k * vget wc k
  let tot := sumN nG (vget qf0)
  let qf := tabA nG fun k => vget qf0 k / tot
  -- sum1 = (psis * Q_fractions).sum(1)
  let sum1 := tabA nG fun k => sumN nG fun m => psis k m * vget qf m
  -- sum2 = -(psis.transpose() / sum1) @ Q_fractions
  let sum2 := tabA nG fun m => - sumN nG fun k => psis k m / vget sum1 k * vget qf k
  -- loggamma_groups = Qs * (1. - np.log(sum1) + sum2)
  let lgg := tabA nG fun k => Qs k * (1 - log (vget sum1 k) + vget sum2 k)
  -- sum1 = cQfs @ gpsis.transpose();  sum1 = np.where(sum1==0, 1., sum1)
  let s1 := tabM nC nG fun i k =>
    let s := sumN nG fun m => cQ i m * gpsis k m
    if isZero s then 1 else s
  -- fracs = - cQfs / sum1;  sum2 = fracs @ gpsis
  let s2 := tabM nC nG fun i m => sumN nG fun k => (- cQ i k) / mget s1 i k * gpsis k m
  -- chem_loggamma_groups = Qs*(1. - np.log(sum1) + sum2)
  -- loggammars = ((loggamma_groups - chem_loggamma_groups) * chemgroups).sum(1)
  -- np.exp(loggammacs + loggammars)
  tabA nC fun i =>
    exp (lgcs i + sumN nG fun m =>
      (vget lgg m - Qs m * (1 - log (mget s1 i m) + mget s2 i m)) * cg i m)

/-- The arrays `GroupActivityCoefficients.args` hands to `f` (besides `interactions`, `group_psis`). -/
structure Tables (α : Type) where
  /-- `index.size`: chemicals that have groups -/
  nC : Nat
  /-- number of distinct subgroups -/
  nG : Nat
  /-- position of the i-th chemical-with-groups in the full chemical tuple -/
  index : Nat → Nat
  /-- `chemgroups[i, k]` -/
  cg : Nat → Nat → α
  Qs : Nat → α
  qs : Nat → α
  rs : Nat → α
  /-- `chem_Qfractions[i, k]` -/
  cQ : Nat → Nat → α
  /-- `group_mask[k, m]` -/
  mask : Nat → Nat → Bool

def anyN (n : Nat) (p : Nat → Bool) : Bool :=
  match n with
  | 0 => false
  | n + 1 => anyN n p || p n

/-- What `GroupActivityCoefficients.__new__` derives from the group counts and the subgroup
table: `rs = chemgroups @ Rs`, `qs = chemgroups @ Qs`,
`chem_Qfractions = Qs*chemgroups / (Qs*chemgroups).sum(1)`, and `group_mask[k, m]` true when some
chemical has a non-zero Q-fraction for both `k` and `m`. -/
def build (nC nG : Nat) (index : Nat → Nat) (cg : Nat → Nat → α) (Qs Rs : Nat → α) : Tables α :=
  let cQ : Nat → Nat → α := fun i k => Qs k * cg i k / sumN nG fun m => Qs m * cg i m
  { nC := nC, nG := nG, index := index, cg := cg, Qs := Qs
    qs := fun i => sumN nG fun k => cg i k * Qs k
    rs := fun i => sumN nG fun k => cg i k * Rs k
    cQ := cQ
    mask := fun k m => anyN nC fun i => !isZero (cQ i k) && !isZero (cQ i m) }

/-- `fill_group_psis(group_psis, psis, group_mask)` -/
def fillGroupPsis (nG : Nat) (psis : Array (Array α)) (mask : Nat → Nat → Bool) : Array (Array α) :=
  tabM nG nG fun k m => if mask k m then mget psis k m else 0

/-- The scatter loop `for i, j in enumerate(index): if isnan(g[i]): continue; gamma[j] = g[i]`
over an array of ones, read at position `j` (the last write wins). -/
def scatterAt (index : Nat → Nat) (g : Nat → α) : Nat → Nat → α
  | 0, _ => 1
  | c + 1, j => if index c = j && !isNaN (g c) then g c else scatterAt index g c j

/-- `gamma_sub`: the kernels evaluated on the normalised sub-composition `xs`;
also returns the contents written to `group_psis`. -/
def gammaSub (kind : Kind) (tb : Tables α) (inter : Nat → Nat → Nat → α) (T : α) (xs : Nat → α) :
    Array α × Array (Array α) :=
  let psis := tabM tb.nG tb.nG (psi kind T inter)
  let gp := fillGroupPsis tb.nG psis tb.mask
  (groupGamma tb.nC tb.nG xs tb.cg (vget (lgc kind tb.nC tb.qs tb.rs xs)) tb.Qs (mget psis) tb.cQ (mget gp),
   gp)

structure Result (α : Type) where
  gamma : Array α
  /-- new contents of the object's `_group_psis` array, if the call wrote it -/
  gpsis : Option (Array (Array α))
  /-- new contents of the caller's `x`, if the call wrote it -/
  xWritten : Option (Array α) := none

/-- `gamma_modified_UNIFAC(x, T, …)` and the repaired `gamma_UNIFAC(x, T, …)`. -/
def gammaF (kind : Kind) (tb : Tables α) (inter : Nat → Nat → Nat → α) (x : Array α) (T : α) :
    Result α :=
  let n := x.size
  if tb.nC > 1 then
    -- gather
    let xsub := tabA tb.nC fun i => vget x (tb.index i)
    let xsum := sumN tb.nC (vget xsub)
    if isZero xsum then { gamma := tabA n fun _ => 1, gpsis := none }
    else
      let xs := tabA tb.nC fun i => vget xsub i / xsum
      let (gs, gp) := gammaSub kind tb inter T (vget xs)
      { gamma := tabA n (scatterAt tb.index (vget gs) tb.nC), gpsis := some gp }
  else { gamma := tabA n fun _ => 1, gpsis := none }

/-- `gamma_UNIFAC` AS FOUND (for the counterexample only): the gather loop is reversed, so
`x_sub` stays all ones, the caller's `x` is overwritten at the indexed positions, and the
kernels are evaluated at the equimolar point whatever the composition. -/
def gammaFAsFound (tb : Tables α) (inter : Nat → Nat → Nat → α) (x : Array α) (T : α) : Result α :=
  let n := x.size
  if tb.nC > 1 then
    let xsub := tabA tb.nC fun _ => (1 : α)
    let x' := tabA n fun j => if anyN tb.nC (fun i => tb.index i == j) then 1 else vget x j
    let xsum := sumN tb.nC (vget xsub)
    let xs := tabA tb.nC fun i => vget xsub i / xsum
    let (gs, gp) := gammaSub .unifac tb inter T (vget xs)
    { gamma := tabA n (scatterAt tb.index (vget gs) tb.nC), gpsis := some gp, xWritten := some x' }
  else { gamma := tabA n fun _ => 1, gpsis := none }

/-! ### Objects, identity, and who writes what -/

/-- The mutable arrays of one session: every float ndarray that exists (id = position in
`heap`) and the model object's `_group_psis`. -/
structure World (α : Type) where
  heap : Array (Array α) := #[]
  gpsis : Array (Array α) := #[]

/-- What the caller passes as `x`: a float64 ndarray (by reference: `np.asarray(x, float)` is the
same object), an ndarray of another dtype (integer, float32, bool: `np.asarray(x, float)` makes a new
float array with the same values; `f` called directly reads it element by element, converting), or any
other sequence (a list, a tuple: `np.asarray` makes a new array).  The heap stores the *values* of an
array; the kernels allocate their result with `np.ones(x.size)`, a float array whatever `x.dtype` is. -/
inductive Arg (α : Type) where
  | nd (id : Nat)
  | seq (vals : Array α)
  | ndOther (id : Nat)

def World.alloc (w : World α) (a : Array α) : World α × Nat :=
  ({ w with heap := w.heap.push a }, w.heap.size)

def World.read (w : World α) (id : Nat) : Array α := w.heap.getD id #[]

/-- `Gamma.f(x, T, *Gamma.args)` on the ndarray with id `xid`: reads `heap[xid]`, may write
`_group_psis`, allocates the result.  Never writes `heap[xid]`. -/
def World.fForm (w : World α) (kind : Kind) (tb : Tables α) (inter : Nat → Nat → Nat → α)
    (xid : Nat) (T : α) : World α × Nat :=
  let r := gammaF kind tb inter (w.read xid) T
  let w1 : World α := match r.gpsis with
    | some g => { w with gpsis := g }
    | none => w
  w1.alloc r.gamma

/-- `Gamma(x, T)`: `x = np.asarray(x, float); return self.f(x, T, *self.args)`. -/
def World.call (w : World α) (kind : Kind) (tb : Tables α) (inter : Nat → Nat → Nat → α)
    (arg : Arg α) (T : α) : World α × Nat :=
  match arg with
  | .nd id => w.fForm kind tb inter id T
  | .seq v =>
    let (w1, id) := w.alloc v
    w1.fForm kind tb inter id T
  | .ndOther xid =>
    let (w1, id) := w.alloc (w.read xid)
    w1.fForm kind tb inter id T

/-- The caller overwrites one of its own arrays in place (`x[:] = …`, a solver reusing its buffer). -/
def World.write (w : World α) (id : Nat) (vals : Array α) : World α :=
  { w with heap := w.heap.setIfInBounds id vals }

/-- One step of a caller's history: an evaluation, or the caller rewriting one of its arrays. -/
inductive Step (α : Type) where
  | call (arg : Arg α) (T : α)
  | set (id : Nat) (vals : Array α)

/-- A history of evaluations of one model object interleaved with the caller's own writes; returns the final
store and the contents of the results. -/
def World.runSteps (w : World α) (kind : Kind) (tb : Tables α) (inter : Nat → Nat → Nat → α) :
    List (Step α) → World α × List (Array α)
  | [] => (w, [])
  | .call arg T :: rest =>
    let r := w.call kind tb inter arg T
    let out := r.1.runSteps kind tb inter rest
    (out.1, r.1.read r.2 :: out.2)
  | .set id vals :: rest => (w.write id vals).runSteps kind tb inter rest

/-! ### The `ideal` decorator and the ideal models -/

/-- `_ideal_coefficient(z=None, T=None, P=None)`: the `f` of every `@ideal` class. -/
def idealF (_z : Option (Array α)) (_T _P : Option α) : α := 1

/-- `IdealActivityCoefficients.__call__(xs, T) = np.ones(len(xs))` -/
def idealGammaCall (xs : Array α) (_T : α) : Array α := tabA xs.size fun _ => 1

/-- `IdealFugacityCoefficients.__call__(y, T, P) = 1.` -/
def idealPhiCall (_y : Array α) (_T _P : α) : α := 1

/-- `MockPoyintingCorrectionFactors.__call__(T, P, Psats=None) = 1.` -/
def mockPcfCall (_T _P : α) : α := 1

/-- `IdealActivityCoefficients(...)(x, T)` as a world step: a fresh array of ones. -/
def World.callIdeal (w : World α) (arg : Arg α) (T : α) : World α × Nat :=
  match arg with
  | .nd id => w.alloc (idealGammaCall (w.read id) T)
  | .seq v => w.alloc (idealGammaCall v T)
  | .ndOther id => w.alloc (idealGammaCall (w.read id) T)

end

end ThermoVerif.Unifac
