/-
Model of the molar / mass / volumetric flow views of a thermosteam stream and of the
unit-of-measure layer on top of them:

* `thermosteam/base/dictionary_view.py`  (`MassFlowDict`, `VolumetricFlowDict` and the
  per-chemical molar-volume cache of the latter),
* `thermosteam/indexer.py`  (`by_mass`, `by_volume`, the per-indexer `_data_cache`,
  `reset_chemicals`, `_expand_phases`, `to_material_indexer`, `to_chemical_indexer`),
* `thermosteam/_stream.py`, `_multi_stream.py`  (`imass`, `ivol`, `F_mol/F_mass/F_vol` and their
  setters, `get_flow/set_flow/get_total_flow/set_total_flow`, `_get_flow_name_and_factor`,
  `link_with`, `unlink`, `copy_like`, `_reset_thermo`, the `phase` / `phases` setters).

Core Lean only (compiled into the line-protocol driver).

Python objects are ids (`Nat`) into an explicit store; `is`-identity is equality of ids.  Stream objects
(originals, `proxy()`s, `flow_proxy()`s, phase views `ms[phase]`) hold an indexer object; a `proxy()` holds the *same*
indexer object as its original, a phase view an indexer of its own over one *row object* of its parent.
The store is split into a *structural* part (`Struct`: which stream holds which data object,
`_data_cache` dict, thermal-condition object, phase container; which row objects a data object
consists of; which view objects a `_data_cache` holds and what those views reference) and a
*content* part (`Content`: the numbers).  Arithmetic is exact (`Rat`); the implementation's
floats are compared with a relative tolerance.

Parameters (DESIGN §3.3), supplied by the adapter on the protocol line, never computed here:
* `V` – the molar volumes `1000·V_i(phase, T, P)` of the chemicals in the rows of the stream,
  evaluated freshly from the chemical objects;
* `R` – the molar contents of a stream after an operation whose *content* semantics is not this
  property's business (`copy_like`, property-package reset, phase-set changes).  Their *structural*
  effect (fresh rows / data / cache objects, phases) is modelled;
* the unit table (pint's factors) and the molecular weights.

The model mirrors the code with the repairs of fixes_proposed/C11-1..4 (committed in /repo as f61fcd4, a11de35,
f0492a1, cee4892) and the later C12/C13 repairs it depends on (58e0e04 `unlink` binds a copied indexer; 77165b5
`Stream.copy_like` from a multi-phase stream starts from a blank indexer; 5b09455 / 7d7173c `MaterialIndexer.copy_like`
and `mix_from` look phases up after `_expand_phases`): the molar-volume cache of a `VolumetricFlowDict` is keyed on
(T, P, phase); `unlink` and the non-sharing branch of `link_with` bind a *new* `_data_cache` dict; `_expand_phases`
clears the `_data_cache`.  The unrepaired variants are kept as `…Old` definitions for the counterexample theorems.
`ThermalCondition.in_equilibrium`'s 1e-12 tolerance is modelled as equality.
-/
namespace ThermoVerif.FlowViews

/-- function update -/
def upd {α : Type} (f : Nat → α) (i : Nat) (x : α) : Nat → α := fun j => if j = i then x else f j

/-- write the list `xs` at ids `start, start+1, …` -/
def updRange {α : Type} (f : Nat → α) (start : Nat) (xs : List α) : Nat → α :=
  fun j => if start ≤ j then (match xs[j - start]? with | some x => x | none => f j) else f j

inductive Err where
  | dimension             -- DimensionError
  | undefinedComposition  -- AttributeError("undefined composition; cannot set flow rate")
  | classMismatch         -- RuntimeError: streams must have the same class to link
  | undefinedPhase        -- UndefinedPhase
  | precondition          -- outside the modelled precondition of the operation (see BUILDING rule 2)
  | sharedData            -- `_expand_phases` on a data object another stream also holds (not modelled)
  | badKey                -- index outside the stream's rows / chemicals
  | shape                 -- the content parameter `R` does not have one row per phase
  | unknownUnit           -- unit string that is not in the table the adapter dumped
  deriving DecidableEq, Repr, Inhabited

def Err.toString : Err → String
  | .dimension => "DimensionError"
  | .undefinedComposition => "UndefinedComposition"
  | .classMismatch => "ClassMismatch"
  | .undefinedPhase => "UndefinedPhase"
  | .precondition => "Precondition"
  | .sharedData => "SharedData"
  | .badKey => "BadKey"
  | .shape => "Shape"
  | .unknownUnit => "UnknownUnit"

inductive Dim where
  | mol | mass | vol | other
  deriving DecidableEq, Repr, Inhabited

/-- pint's dimensionality of a unit as exponents over the base dimensions
[length, mass, time, substance, temperature, current, luminosity, anything else] -/
abbrev DimVec := List Int

def molDim : DimVec := [0, 0, -1, 1, 0, 0, 0, 0]      -- kmol/hr
def massDim : DimVec := [0, 1, -1, 0, 0, 0, 0, 0]     -- kg/hr
def volDim : DimVec := [3, 0, -1, 0, 0, 0, 0, 0]      -- m^3/hr

/-- `Stream._get_flow_name_and_factor`: the unit's dimensionality is compared with the dimensionalities of the three
base flow units, in this order; anything else is not a flow unit -/
def classify (v : DimVec) : Dim :=
  if v = molDim then .mol else if v = massDim then .mass else if v = volDim then .vol else .other

/-- One line of the unit table: pint's dimensionality vector of the unit, and `factor`, which converts the base unit of
its dimension (kmol/hr, kg/hr, m3/hr) to this unit (`AbsoluteUnitsOfMeasure.conversion_factor`; 0 for non-flow units). -/
structure UnitDef where
  name : String
  dimv : DimVec
  factor : Rat
  deriving DecidableEq, Repr, Inhabited

/-- the flow dimension of the unit, decided as the code decides it -/
def UnitDef.dim (d : UnitDef) : Dim := classify d.dimv

/-- key of the per-indexer `_data_cache`: `'mass'`, or `('vol', TP)` / `TP` -/
inductive Key where
  | mass
  | vol (tc : Nat)
  deriving DecidableEq, Repr, Inhabited

/-- A cached view indexer (`ChemicalMassFlowIndexer`, `MassFlowIndexer`, `ChemicalVolumetricFlowIndexer`,
`VolumetricFlowIndexer`): one `MassFlowDict` / `VolumetricFlowDict` per row. -/
structure View where
  /-- identity of the view object -/
  vid : Nat
  /-- the molar row objects (`i.dct`) the dictionary views wrap -/
  rows : List Nat
  /-- `VolumetricFlowDict.phase` of each row (multi-phase), `[]` for a single-phase indexer -/
  phases : List Char
  /-- `VolumetricFlowDict.phase_container` (single-phase) -/
  pc : Option Nat
  /-- `VolumetricFlowDict.TP` -/
  tc : Nat
  /-- the chemicals whose `MW` / `V` the view captured -/
  th : Nat
  deriving Repr, Inhabited

/-- A molar indexer object (`ChemicalMolarFlowIndexer` / `MolarFlowIndexer`).  `World.stream` returns the same record
for a stream, with `tc` filled in from the stream object (inside the indexer table `tc` is unused). -/
structure Stream where
  /-- material indexer (`MultiStream`) or chemical indexer (`Stream`) -/
  multi : Bool := false
  /-- `_imol.data` -/
  data : Nat := 0
  /-- `_imol._data_cache` -/
  cache : Nat := 0
  /-- `_imol._phase` (single-phase only) -/
  ph : Nat := 0
  /-- `_imol._phases` (multi-phase only) -/
  phases : List Char := []
  /-- `_thermal_condition` (a field of the stream object, not of the indexer) -/
  tc : Nat := 0
  /-- `_thermo` / `_imol._chemicals` -/
  th : Nat := 0
  /-- `_imol._phase` is a `LockedPhase` (the indexer of a phase view `ms[phase]`) -/
  locked : Bool := false
  deriving Repr, Inhabited

def Stream.viewPhases (s : Stream) : List Char := if s.multi then s.phases else []
def Stream.viewPc (s : Stream) : Option Nat := if s.multi then none else some s.ph

/-- A stream object: which indexer object it holds (`_imol`; a `proxy()` holds the *same* one), its
thermal-condition object, and its phase views (`_streams`: phase label ↦ stream object). -/
structure SRef where
  ix : Nat := 0
  tc : Nat := 0
  views : List (Char × Nat) := []
  deriving Repr, Inhabited

/-- identities -/
structure Struct where
  nstreams : Nat := 0
  streams : Nat → SRef := fun _ => {}
  nixs : Nat := 0
  /-- the molar indexer objects -/
  ixs : Nat → Stream := fun _ => {}
  ndatas : Nat := 0
  /-- data object ↦ its row objects (`SparseVector`: itself; `SparseArray.rows`) -/
  datas : Nat → List Nat := fun _ => []
  ncaches : Nat := 0
  caches : Nat → List (Key × View) := fun _ => []
  nrows : Nat := 0
  ntcs : Nat := 0
  nphs : Nat := 0
  nviews : Nat := 0

/-- the indexer object stream `sid` holds -/
def Struct.ixOf (z : Struct) (sid : Nat) : Stream := z.ixs (z.streams sid).ix

/-- one entry of `VolumetricFlowDict.cache` (of the dictionary view of row position `k`):
`idx ↦ (TP.copy(), phase, V)` -/
structure VEntry where
  k : Nat
  idx : Nat
  th : Nat
  T : Rat
  P : Rat
  ph : Char
  V : Rat
  deriving Repr, Inhabited

/-- numbers -/
structure Content where
  rows : Nat → List Rat := fun _ => []
  tcs : Nat → Rat × Rat := fun _ => (0, 0)
  phs : Nat → Char := fun _ => 'l'
  /-- view id ↦ the molar-volume caches of its dictionary views -/
  vcs : Nat → List VEntry := fun _ => []

structure World where
  s : Struct := {}
  c : Content := {}
  /-- molecular weights per property package -/
  thermos : List (List Rat) := []
  /-- pint's table -/
  units : List UnitDef := []

def World.init : World := {}

def World.stream (w : World) (sid : Nat) : Stream := { w.s.ixOf sid with tc := (w.s.streams sid).tc }
def World.views (w : World) (sid : Nat) : List (Char × Nat) := (w.s.streams sid).views
def World.MW (w : World) (th : Nat) : List Rat := w.thermos.getD th []
def World.rowsOf (w : World) (sid : Nat) : List Nat := w.s.datas (w.stream sid).data

/-! ### phases -/

def insertSorted (c : Char) : List Char → List Char
  | [] => [c]
  | d :: t => if c = d then d :: t else if c < d then c :: d :: t else d :: insertSorted c t

/-- `phase_tuple`: sorted, duplicates removed -/
def phaseTuple (l : List Char) : List Char := l.foldr insertSorted []

def swapCase (c : Char) : Char := if c.isUpper then c.toLower else c.toUpper

/-- `PhaseIndexer.__call__`: exact label first, else the other case of the same letter -/
def phaseIndex (phases : List Char) (c : Char) : Option Nat :=
  match phases.idxOf? c with
  | some i => some i
  | none => phases.idxOf? (swapCase c)

/-- `PhaseIndexer._compatibility` -/
def compat (phases : List Char) : List Char := phases.map Char.toLower

/-! ### allocation of fresh objects -/

/-- a brand-new data object consisting of the row objects `rowIds` -/
def Struct.allocData (z : Struct) (rowIds : List Nat) : Struct :=
  { z with ndatas := z.ndatas + 1, datas := upd z.datas z.ndatas rowIds }

/-- Stream `sid` is bound to a brand-new indexer object `rec` whose `_data_cache` is a brand-new empty dict. -/
def Struct.bindNew (z : Struct) (sid : Nat) (nix : Stream) : Struct :=
  { z with ixs := upd z.ixs z.nixs { nix with cache := z.ncaches }, nixs := z.nixs + 1,
           streams := upd z.streams sid { z.streams sid with ix := z.nixs },
           ncaches := z.ncaches + 1, caches := upd z.caches z.ncaches [] }

/-- Bind a brand-new molar indexer to stream `sid`: fresh row objects holding `contents`, a fresh
data object, a fresh empty `_data_cache`; `phSel = some c` also allocates a fresh (unlocked) phase container
holding `c` (what `to_material_indexer`, `to_chemical_indexer`, `imol.copy()` in `unlink`, `blank` produce, and — for an
indexer no other stream holds — `reset_chemicals` without container).  The thermal-condition object and the phase views
of the stream object are kept. -/
def World.rebind (w : World) (sid : Nat) (multi : Bool) (phases : List Char) (phSel : Option Char)
    (th : Nat) (contents : List (List Rat)) : World :=
  let z := w.s
  let s := w.stream sid
  let rowIds := List.range' z.nrows contents.length
  let nix : Stream := { multi := multi, data := z.ndatas,
                        ph := (match phSel with | some _ => z.nphs | none => s.ph),
                        phases := phases, th := th,
                        locked := (match phSel with | some _ => false | none => s.locked) }
  let z1 := (z.allocData rowIds).bindNew sid nix
  { w with
    s := { z1 with nrows := z.nrows + contents.length,
                   nphs := (match phSel with | some _ => z.nphs + 1 | none => z.nphs) },
    c := { w.c with rows := updRange w.c.rows z.nrows contents,
                    phs := (match phSel with | some c => upd w.c.phs z.nphs c | none => w.c.phs) } }

/-- A new stream object with everything fresh. -/
def World.newStream (w : World) (multi : Bool) (phases : List Char) (ph : Char) (th : Nat) (T P : Rat)
    (contents : List (List Rat)) : World × Nat :=
  let z := w.s
  let sid := z.nstreams
  let w1 : World := { w with s := { z with nstreams := z.nstreams + 1,
                                           streams := upd z.streams sid { tc := z.ntcs },
                                           ntcs := z.ntcs + 1 },
                             c := { w.c with tcs := upd w.c.tcs z.ntcs (T, P) } }
  (w1.rebind sid multi phases (some ph) th contents, sid)

/-- `parent._imol.get_phase(c)` bound to stream object `v`: a brand-new chemical indexer over the *row object* `r` of the
parent, with a `LockedPhase(c)` and a brand-new `_data_cache` (first access of `ms[c]`, and every re-attachment). -/
def World.attach (w : World) (v r : Nat) (c : Char) (th : Nat) : World :=
  let z := w.s
  let nix : Stream := { multi := false, data := z.ndatas, ph := z.nphs, phases := [], th := th, locked := true }
  { w with s := { (z.allocData [r]).bindNew v nix with nphs := z.nphs + 1 },
           c := { w.c with phs := upd w.c.phs z.nphs c } }

def World.setTc (w : World) (sid tc : Nat) : World :=
  { w with s := { w.s with streams := upd w.s.streams sid { w.s.streams sid with tc := tc } } }

def World.setViews (w : World) (sid : Nat) (vs : List (Char × Nat)) : World :=
  { w with s := { w.s with streams := upd w.s.streams sid { w.s.streams sid with views := vs } } }

/-- contents of row object `r` after the rows `rs` have been overwritten with `R` -/
def overwritten (rows : Nat → List Rat) (rs : List Nat) (R : List (List Rat)) (r : Nat) : List Rat :=
  match rs.idxOf? r with
  | some k => (match R[k]? with
               | some x => x
               | none => rows r)
  | none => rows r

/-- overwrite the molar contents of the rows of stream `sid` -/
def World.setContents (w : World) (sid : Nat) (R : List (List Rat)) : World :=
  { w with c := { w.c with rows := overwritten w.c.rows (w.rowsOf sid) R } }

/-! ### the cached views (`by_mass`, `by_volume`) -/

/-- `_data_cache[key]`, creating and caching the view on a miss. -/
def World.getView (w : World) (sid : Nat) (key : Key) : World × View :=
  let z := w.s
  let s := w.stream sid
  match (z.caches s.cache).lookup key with
  | some v => (w, v)
  | none =>
    let v : View := { vid := z.nviews, rows := z.datas s.data, phases := s.viewPhases, pc := s.viewPc,
                      tc := s.tc, th := s.th }
    ({ w with s := { z with nviews := z.nviews + 1,
                            caches := upd z.caches s.cache ((key, v) :: z.caches s.cache) } }, v)

/-- `imass` -/
def World.massView (w : World) (sid : Nat) : World × View := w.getView sid .mass
/-- `ivol` = `by_volume(self._thermal_condition)` -/
def World.volView (w : World) (sid : Nat) : World × View := w.getView sid (.vol (w.stream sid).tc)

/-- `self.phase or self.phase_container.phase` of the dictionary view of row position `k` -/
def World.viewPhase (w : World) (v : View) (k : Nat) : Char :=
  match v.pc with
  | some p => w.c.phs p
  | none => v.phases.getD k 'l'

/-- does a cached molar volume belong to the current key?  (`th` is a ghost: a dictionary view never
changes its chemicals, so in every reachable state the recorded `th` is the view's.) -/
def VEntry.hit (e : VEntry) (th : Nat) (T P : Rat) (ph : Char) : Bool :=
  e.th == th && e.T == T && e.P == P && e.ph == ph
/-- the test of the code as found: thermal condition only -/
def VEntry.hitOld (e : VEntry) (th : Nat) (T P : Rat) (_ph : Char) : Bool := e.th == th && e.T == T && e.P == P

def findEntry (l : List VEntry) (k i : Nat) : Option VEntry := l.find? (fun e => e.k == k && e.idx == i)

/-- The molar volume `VolumetricFlowDict.output/input` uses for chemical `i` of row position `k`, given the
dictionary view's cache `l`: the cached one if its key is the current (chemicals, T, P, phase), else the freshly
evaluated `vl`. -/
def pickV (l : List VEntry) (th : Nat) (T P : Rat) (ph : Char) (k i : Nat) (vl : Rat) : Rat :=
  match findEntry l k i with
  | some e => if e.hit th T P ph then e.V else vl
  | none => vl

/-- the code as found: the phase is not part of the key -/
def pickVOld (l : List VEntry) (th : Nat) (T P : Rat) (ph : Char) (k i : Nat) (vl : Rat) : Rat :=
  match findEntry l k i with
  | some e => if e.hitOld th T P ph then e.V else vl
  | none => vl

/-- the cache entry written when the molar volume of (k, i) is evaluated (nothing on a hit) -/
def pickNew (l : List VEntry) (th : Nat) (T P : Rat) (ph : Char) (k i : Nat) (vl : Rat) : List VEntry :=
  match findEntry l k i with
  | some e => if e.hit th T P ph then [] else [{ k := k, idx := i, th := th, T := T, P := P, ph := ph, V := vl }]
  | none => [{ k := k, idx := i, th := th, T := T, P := P, ph := ph, V := vl }]

def World.usedV (w : World) (v : View) (k i : Nat) (vl : Rat) : Rat :=
  pickV (w.c.vcs v.vid) v.th (w.c.tcs v.tc).1 (w.c.tcs v.tc).2 (w.viewPhase v k) k i vl

def World.usedVOld (w : World) (v : View) (k i : Nat) (vl : Rat) : Rat :=
  pickVOld (w.c.vcs v.vid) v.th (w.c.tcs v.tc).1 (w.c.tcs v.tc).2 (w.viewPhase v k) k i vl

def World.newEntry (w : World) (v : View) (k i : Nat) (vl : Rat) : List VEntry :=
  pickNew (w.c.vcs v.vid) v.th (w.c.tcs v.tc).1 (w.c.tcs v.tc).2 (w.viewPhase v k) k i vl

def World.addEntries (w : World) (v : View) (es : List VEntry) : World :=
  { w with c := { w.c with vcs := upd w.c.vcs v.vid (es ++ w.c.vcs v.vid) } }

def vAt (V : List (List Rat)) (k i : Nat) : Rat := (V.getD k []).getD i 0

/-! ### reads -/

/-- `imol.data` as a dense image -/
def World.readMol (w : World) (sid : Nat) : List (List Rat) := (w.rowsOf sid).map w.c.rows

def mulVec (a b : List Rat) : List Rat := List.zipWith (· * ·) a b

/-- `imass.data` as a dense image: every element goes through `MassFlowDict.output` -/
def World.readMass (w : World) (sid : Nat) : World × Nat × List (List Rat) :=
  let (w1, v) := w.massView sid
  (w1, v.vid, v.rows.map (fun r => mulVec (w1.c.rows r) (w1.MW v.th)))

/-- `ivol.data` as a dense image: every non-zero element goes through `VolumetricFlowDict.output` -/
def World.readVol (w : World) (sid : Nat) (V : List (List Rat)) : World × Nat × List (List Rat) :=
  let (w1, v) := w.volView sid
  let vals := v.rows.zipIdx.map (fun (r, k) =>
    (w1.c.rows r).zipIdx.map (fun (x, i) => x * w1.usedV v k i (vAt V k i)))
  let es := v.rows.zipIdx.flatMap (fun (r, k) =>
    (w1.c.rows r).zipIdx.flatMap (fun (x, i) => if x = 0 then [] else w1.newEntry v k i (vAt V k i)))
  (w1.addEntries v es, v.vid, vals)

def sumL (l : List Rat) : Rat := l.foldr (· + ·) 0
def sumLL (l : List (List Rat)) : Rat := sumL (l.map sumL)

/-- `F_mol = imol.data.sum()` -/
def World.Fmol (w : World) (sid : Nat) : Rat := sumLL (w.readMol sid)
/-- `F_mass = dot(MW, mol)`; for several phases `mol` is the sum over the rows, which is the same number -/
def World.Fmass (w : World) (sid : Nat) : Rat :=
  sumLL ((w.readMol sid).map (fun r => mulVec r (w.MW (w.stream sid).th)))
/-- `F_vol = 1000·V_mixture·F_mol` with the ideal mixing rule `V_mixture = Σ x_i V_i(phase, T, P)`
per phase; evaluated from the chemicals, never through the cached views -/
def World.Fvol (w : World) (sid : Nat) (V : List (List Rat)) : Rat :=
  sumLL ((w.readMol sid).zipIdx.map (fun (r, k) => r.zipIdx.map (fun (x, i) => x * vAt V k i)))

def World.F (w : World) (sid : Nat) (d : Dim) (V : List (List Rat)) : Rat :=
  match d with
  | .mol => w.Fmol sid
  | .mass => w.Fmass sid
  | .vol => w.Fvol sid V
  | .other => 0

def addVec (a b : List Rat) : List Rat := List.zipWith (· + ·) a b

/-- column sums: the per-chemical totals over the rows -/
def colSum : List (List Rat) → List Rat
  | [] => []
  | r :: t => t.foldl addVec r

/-- `stream.mol`, `stream.mass`, `stream.vol`.  Single-phase: the data of `imol` / `imass` / `ivol`.  Multi-phase:
`imol.data.sum(0)`, `self.mol * MW` (no view involved) and `ivol.data.sum(0)`. -/
def World.readAgg (w : World) (sid : Nat) (d : Dim) (V : List (List Rat)) : Except Err (World × Option Nat × List Rat) :=
  let s := w.stream sid
  match d with
  | .mol => .ok (w, none, colSum (w.readMol sid))
  | .mass =>
    if s.multi then .ok (w, none, mulVec (colSum (w.readMol sid)) (w.MW s.th))
    else let (w1, vid, vals) := w.readMass sid; .ok (w1, some vid, colSum vals)
  | .vol => let (w1, vid, vals) := w.readVol sid V; .ok (w1, some vid, colSum vals)
  | .other => .error .dimension

/-! ### writes -/

def World.scale (w : World) (sid : Nat) (q : Rat) : World :=
  let rs := w.rowsOf sid
  { w with c := { w.c with rows := fun r => if r ∈ rs then (w.c.rows r).map (· * q) else w.c.rows r } }

def World.empty (w : World) (sid : Nat) : World := w.scale sid 0

/-- `Stream.empty_negative_flows()` → `imol.data.remove_negatives()`: every negative molar flow of every row is deleted
*in place* (the row objects, hence everything the cached views wrap, stay the same objects) -/
def World.removeNegatives (w : World) (sid : Nat) : World :=
  let rs := w.rowsOf sid
  { w with c := { w.c with rows := fun r => if r ∈ rs then (w.c.rows r).map (fun x => if x < 0 then 0 else x)
                                           else w.c.rows r } }

/-- the setters of `F_mol`, `F_mass`, `F_vol` -/
def World.setF (w : World) (sid : Nat) (d : Dim) (x : Rat) (V : List (List Rat)) : Except Err World :=
  let F := w.F sid d V
  match d with
  | .mass => if F ≠ 0 then .ok (w.scale sid (x / F))
             else if x ≠ 0 then .error .undefinedComposition else .ok (w.empty sid)
  | .other => .error .dimension
  | _ => if F = 0 then .error .undefinedComposition else .ok (w.scale sid (x / F))

def World.setElem (w : World) (r i : Nat) (x : Rat) : World :=
  { w with c := { w.c with rows := upd w.c.rows r ((w.c.rows r).set i x) } }

/-- row position addressed by an optional phase label -/
def World.rowPos (w : World) (sid : Nat) (ph : Option Char) : Except Err Nat :=
  let s := w.stream sid
  match s.multi, ph with
  | false, none => .ok 0
  | true, some c => (match phaseIndex s.phases c with | some k => .ok k | none => .error .undefinedPhase)
  | _, _ => .error .badKey

/-- `imol[key]`, `imass[key]`, `ivol[key]` for one chemical (of one phase) -/
def World.getElem (w : World) (sid : Nat) (d : Dim) (ph : Option Char) (i : Nat) (V : List (List Rat)) :
    Except Err (World × Option Nat × Rat) :=
  match w.rowPos sid ph with
  | .error e => .error e
  | .ok k =>
    if i ≥ (w.MW (w.stream sid).th).length then .error .badKey else
    match d with
    | .mol =>
      (match (w.rowsOf sid)[k]? with
       | none => .error .badKey
       | some r => .ok (w, none, (w.c.rows r).getD i 0))
    | .mass =>
      let (w1, v) := w.massView sid
      (match v.rows[k]? with
       | none => .error .badKey
       | some r => .ok (w1, some v.vid, (w1.c.rows r).getD i 0 * (w1.MW v.th).getD i 0))
    | .vol =>
      let (w1, v) := w.volView sid
      (match v.rows[k]? with
       | none => .error .badKey
       | some r =>
         let x := (w1.c.rows r).getD i 0
         let es := if x = 0 then [] else w1.newEntry v k i (vAt V k i)
         .ok (w1.addEntries v es, some v.vid, x * w1.usedV v k i (vAt V k i)))
    | .other => .error .dimension

/-- `imol[key] = x`, `imass[key] = x`, `ivol[key] = x` for one chemical (of one phase) -/
def World.putElem (w : World) (sid : Nat) (d : Dim) (ph : Option Char) (i : Nat) (x : Rat) (V : List (List Rat)) :
    Except Err (World × Option Nat) :=
  match w.rowPos sid ph with
  | .error e => .error e
  | .ok k =>
    if i ≥ (w.MW (w.stream sid).th).length then .error .badKey else
    match d with
    | .mol =>
      (match (w.rowsOf sid)[k]? with
       | none => .error .badKey
       | some r => .ok (w.setElem r i x, none))
    | .mass =>
      let (w1, v) := w.massView sid
      (match v.rows[k]? with
       | none => .error .badKey
       | some r => .ok (w1.setElem r i (x / (w1.MW v.th).getD i 0), some v.vid))
    | .vol =>
      let (w1, v) := w.volView sid
      (match v.rows[k]? with
       | none => .error .badKey
       | some r =>
         -- a zero is stored by deleting the key: `input` is not called
         let es := if x = 0 then [] else w1.newEntry v k i (vAt V k i)
         .ok ((w1.addEntries v es).setElem r i (x / w1.usedV v k i (vAt V k i)), some v.vid))
    | .other => .error .dimension

def World.setRow (w : World) (r : Nat) (xs : List Rat) : World :=
  { w with c := { w.c with rows := upd w.c.rows r xs } }

def divVec (a b : List Rat) : List Rat := List.zipWith (· / ·) a b

/-- Whole-row assignment through a view: `s.mass = values`, `s.vol = other.vol`, `ivol.data.copy_like(other.vol)`,
`imass[phase] = values` (`values` = the dense image of what is assigned, an ndarray or another stream's view).  The
view's dict is cleared and every non-zero value goes through `input`: `mol_i = x_i / MW_i`, resp.
`x_i / (1000·V_i)` at the *receiver's* phase, T and P. -/
def World.putRow (w : World) (sid : Nat) (d : Dim) (ph : Option Char) (xs : List Rat) (V : List (List Rat)) :
    Except Err (World × Option Nat) :=
  match w.rowPos sid ph with
  | .error e => .error e
  | .ok k =>
    if xs.length ≠ (w.MW (w.stream sid).th).length then .error .shape else
    match d with
    | .mol =>
      (match (w.rowsOf sid)[k]? with
       | none => .error .badKey
       | some r => .ok (w.setRow r xs, none))
    | .mass =>
      let (w1, v) := w.massView sid
      (match v.rows[k]? with
       | none => .error .badKey
       | some r => .ok (w1.setRow r (divVec xs (w1.MW v.th)), some v.vid))
    | .vol =>
      let (w1, v) := w.volView sid
      (match v.rows[k]? with
       | none => .error .badKey
       | some r =>
         let es := xs.zipIdx.flatMap (fun (x, i) => if x = 0 then [] else w1.newEntry v k i (vAt V k i))
         let row := xs.zipIdx.map (fun (x, i) => x / w1.usedV v k i (vAt V k i))
         .ok ((w1.addEntries v es).setRow r row, some v.vid))
    | .other => .error .dimension

/-! ### units of measure -/

def findUnit (l : List UnitDef) (u : String) : Option UnitDef := l.find? (fun d => d.name == u)

/-- `Stream._get_flow_name_and_factor`: dimension and factor of a unit string, or `DimensionError`.
(The class-level memo `_flow_cache` and `AbsoluteUnitsOfMeasure.factor_cache` are not modelled: the table *is*
what they memoise, so a wrong memo shows up as a disagreement with the table.) -/
def World.flowUnit (w : World) (u : String) : Except Err (Dim × Rat) :=
  match findUnit w.units u with
  | none => .error .unknownUnit
  | some d => if d.dim = .other then .error .dimension else .ok (d.dim, d.factor)

/-- `get_flow(units, key)` -/
def World.getFlow (w : World) (sid : Nat) (u : String) (ph : Option Char) (i : Nat) (V : List (List Rat)) :
    Except Err (World × Option Nat × Rat) :=
  match w.flowUnit u with
  | .error e => .error e
  | .ok (d, f) =>
    match w.getElem sid d ph i V with
    | .error e => .error e
    | .ok (w2, vid, x) => .ok (w2, vid, f * x)

/-- `set_flow(x, units, key)` -/
def World.setFlow (w : World) (sid : Nat) (u : String) (ph : Option Char) (i : Nat) (x : Rat) (V : List (List Rat)) :
    Except Err (World × Option Nat) :=
  match w.flowUnit u with
  | .error e => .error e
  | .ok (d, f) => w.putElem sid d ph i (x / f) V

/-- `get_flow(units)` with the default key `...`: all chemicals, through the view of the unit's dimension; a multi-phase
stream answers with the sums over its phases (`indexer[...]` → `data.sum(0)`). -/
def World.getFlowAll (w : World) (sid : Nat) (u : String) (V : List (List Rat)) :
    Except Err (World × Option Nat × List Rat) :=
  match w.flowUnit u with
  | .error e => .error e
  | .ok (d, f) =>
    match d with
    | .mol => .ok (w, none, (colSum (w.readMol sid)).map (f * ·))
    | .mass => let (w1, vid, vals) := w.readMass sid; .ok (w1, some vid, (colSum vals).map (f * ·))
    | .vol => let (w1, vid, vals) := w.readVol sid V; .ok (w1, some vid, (colSum vals).map (f * ·))
    | .other => .error .dimension

/-- `get_total_flow(units)` -/
def World.getTotal (w : World) (sid : Nat) (u : String) (V : List (List Rat)) : Except Err Rat :=
  match w.flowUnit u with
  | .error e => .error e
  | .ok (d, f) => .ok (f * w.F sid d V)

/-- `set_total_flow(x, units)` -/
def World.setTotal (w : World) (sid : Nat) (u : String) (x : Rat) (V : List (List Rat)) : Except Err World :=
  match w.flowUnit u with
  | .error e => .error e
  | .ok (d, f) => w.setF sid d (x / f) V

/-! ### unit conversions on one view (`Indexer.get_data / set_data`, `get_property / set_property`, `units=`) -/

/-- `self.units.conversion_factor(units)` of the indexer / property of dimension `d` (base unit kmol/hr, kg/hr or
m3/hr): pint converts only within one dimension, anything else raises.  (The per-units-object memo `factor_cache` is not
modelled: the table *is* what it memoises, and it must never answer for a source unit of another dimension.) -/
def World.viewUnit (w : World) (d : Dim) (u : String) : Except Err Rat :=
  match findUnit w.units u with
  | none => .error .unknownUnit
  | some e => if e.dim = d && d != .other then .ok e.factor else .error .dimension

/-- `imol / imass / ivol .get_data(units, key)` -/
def World.getData (w : World) (sid : Nat) (d : Dim) (u : String) (ph : Option Char) (i : Nat) (V : List (List Rat)) :
    Except Err (World × Option Nat × Rat) :=
  match w.viewUnit d u with
  | .error e => .error e
  | .ok f =>
    match w.getElem sid d ph i V with
    | .error e => .error e
    | .ok (w2, vid, x) => .ok (w2, vid, f * x)

/-- `imol / imass / ivol .set_data(x, units, key)` -/
def World.setData (w : World) (sid : Nat) (d : Dim) (u : String) (ph : Option Char) (i : Nat) (x : Rat)
    (V : List (List Rat)) : Except Err (World × Option Nat) :=
  match w.viewUnit d u with
  | .error e => .error e
  | .ok f => w.putElem sid d ph i (x / f) V

/-- `get_property('F_mol' | 'F_mass' | 'F_vol', units)` -/
def World.getProp (w : World) (sid : Nat) (d : Dim) (u : String) (V : List (List Rat)) : Except Err Rat :=
  match w.viewUnit d u with
  | .error e => .error e
  | .ok f => .ok (f * w.F sid d V)

/-- `set_property('F_mol' | 'F_mass' | 'F_vol', x, units)` -/
def World.setProp (w : World) (sid : Nat) (d : Dim) (u : String) (x : Rat) (V : List (List Rat)) : Except Err World :=
  match w.viewUnit d u with
  | .error e => .error e
  | .ok f => w.setF sid d (x / f) V

/-! ### thermal condition and phase -/

def World.setT (w : World) (sid : Nat) (x : Rat) : World :=
  let t := (w.stream sid).tc
  { w with c := { w.c with tcs := upd w.c.tcs t (x, (w.c.tcs t).2) } }

def World.setP (w : World) (sid : Nat) (x : Rat) : World :=
  let t := (w.stream sid).tc
  { w with c := { w.c with tcs := upd w.c.tcs t ((w.c.tcs t).1, x) } }

/-- what the stream looks like afterwards: class and phase(s) -/
def World.shape (w : World) (sid : Nat) : Bool × List Char :=
  let s := w.stream sid
  if s.multi then (true, s.phases) else (false, [w.c.phs s.ph])

/-- can a single-phase indexer in phase `c` be re-filed under `phases`? (`to_material_indexer`, `get_phase`) -/
def fileable (phases : List Char) (c : Char) : Bool := (phaseIndex phases c).isSome

def nonzeroRow (r : List Rat) : Bool := r.any (· != 0)

/-! ### phase views `ms[phase]` -/

/-- the row object of stream `sid` a phase label addresses -/
def World.rowFor (w : World) (sid : Nat) (c : Char) : Option Nat :=
  match phaseIndex (w.stream sid).phases c with
  | some k => (w.rowsOf sid)[k]?
  | none => none

/-- Re-attachment of the phase views of stream `sid` after its indexer / data / thermal condition changed
(`link_with`, `unlink`, `_reset_thermo`, the `phases` setter): `rebindIx` ⇒ `view._imol = imol.get_phase(phase)` for
every phase that can be filed; `setTc` ⇒ `view._thermal_condition = self._thermal_condition`.  (One view.) -/
def World.reattachStep (sid : Nat) (rebindIx setTc : Bool) (w : World) (cv : Char × Nat) : World :=
  let w1 := if rebindIx then
      (match w.rowFor sid cv.1 with
       | some r => w.attach cv.2 r cv.1 (w.stream sid).th
       | none => w)
    else w
  if setTc then w1.setTc cv.2 (w1.s.streams sid).tc else w1

def World.reattach (w : World) (sid : Nat) (rebindIx setTc : Bool) : World :=
  (w.views sid).foldl (World.reattachStep sid rebindIx setTc) w

/-- `MultiStream.__getitem__(c)`: the cached phase view, or a new `Stream` object over the row of that phase which
shares the parent's thermal-condition object. -/
def World.phaseView (w : World) (sid : Nat) (c : Char) : Except Err (World × Nat) :=
  let s := w.stream sid
  if !s.multi then .error .precondition else
  match (w.views sid).lookup c with
  | some v => .ok (w, v)
  | none =>
    match w.rowFor sid c with
    | none => .error .undefinedPhase
    | some r =>
      let z := w.s
      let v := z.nstreams
      let w1 : World := { w with s := { z with nstreams := z.nstreams + 1,
                                               streams := upd z.streams v { tc := (z.streams sid).tc } } }
      let w2 := w1.attach v r c s.th
      .ok (w2.setViews sid (w.views sid ++ [(c, v)]), v)

/-! ### proxies -/

/-- `Stream.proxy()`: a new stream object holding the *same* indexer object and thermal-condition object
(its own, empty `_streams`). -/
def World.proxy (w : World) (sid : Nat) : World × Nat :=
  let z := w.s
  ({ w with s := { z with nstreams := z.nstreams + 1,
                          streams := upd z.streams z.nstreams { ix := (z.streams sid).ix, tc := (z.streams sid).tc } } },
   z.nstreams)

/-- `Stream.flow_proxy()`: a new stream object with its own indexer (`_copy_without_data`: copy of the phase container,
new `_data_cache`) over the *same* data object, and a copy of the thermal condition. -/
def World.flowProxy (w : World) (sid : Nat) : World × Nat :=
  let z := w.s
  let s := w.stream sid
  let v := z.nstreams
  let nix : Stream := { multi := s.multi, data := s.data, ph := z.nphs, phases := s.phases, th := s.th, locked := false }
  let z1 : Struct := { z with nstreams := z.nstreams + 1, streams := upd z.streams v { tc := z.ntcs },
                              ntcs := z.ntcs + 1 }
  ({ w with s := { z1.bindNew v nix with nphs := z.nphs + 1 },
            c := { w.c with tcs := upd w.c.tcs z.ntcs (w.c.tcs s.tc), phs := upd w.c.phs z.nphs (w.c.phs s.ph) } }, v)

/-- `Stream.copy(thermo=…)`: a new stream object with a copy of the indexer (copies of the data and of the phase container,
a new `_data_cache`) and a copy of the thermal condition; nothing is shared with the original.  With another property
package the copied indexer goes through `reset_chemicals` and the contents `R` (mapped by chemical) are a parameter. -/
def World.copyStream (w : World) (sid k : Nat) (R : List (List Rat)) : Except Err (World × Nat) :=
  let s := w.stream sid
  let (T, P) := w.c.tcs s.tc
  if k = s.th then .ok (w.newStream s.multi s.phases (w.c.phs s.ph) s.th T P (w.readMol sid))
  else if k ≥ w.thermos.length then .error .precondition
  else if R.length ≠ (w.rowsOf sid).length then .error .shape
  else .ok (w.newStream s.multi s.phases (w.c.phs s.ph) k T P R)

/-! ### phase(s) setters -/

/-- `stream.phase = c`.  Single-phase: the phase container is written in place (everything that
shares it sees the change; no cache is touched).  Multi-phase: `to_chemical_indexer`, a new indexer
whose contents are the column sums of the rows (computed here; `R` is only checked for its shape); `_streams.clear()`. -/
def World.setPhase (w : World) (sid : Nat) (c : Char) (R : List (List Rat)) : Except Err World :=
  let s := w.stream sid
  if s.multi then
    (if R.length ≠ 1 then .error .shape
     else .ok ((w.rebind sid false [] (some c) s.th [colSum (w.readMol sid)]).setViews sid []))
  else .ok { w with c := { w.c with phs := upd w.c.phs s.ph c } }

/-- `to_material_indexer(pt)`: every row is added to the row of the phase it is re-filed under (exact label, else the
other case of the letter); `n` = number of chemicals -/
def refile (n : Nat) (phases : List Char) (rows : List (List Rat)) (pt : List Char) : List (List Rat) :=
  pt.zipIdx.map (fun (_, k) =>
    ((phases.zip rows).filter (fun pr => phaseIndex pt pr.1 == some k)).foldl (fun acc pr => addVec acc pr.2)
      (List.replicate n 0))

/-- `stream.phases = ps` (`ps` non-empty).  `to_material_indexer` re-files every *non-empty* row under the new
phases and raises `UndefinedPhase` — before anything is rebound — when that is impossible.  The new contents are
computed here (`refile`); `R` is only checked for its shape.  Phase views whose label can still be filed are re-attached,
the others dropped. -/
def World.setPhases (w : World) (sid : Nat) (ps : List Char) (R : List (List Rat)) : Except Err World :=
  let s := w.stream sid
  let pt := phaseTuple ps
  let n := (w.MW s.th).length
  match pt with
  | [] => .error .precondition
  | [c] => w.setPhase sid c R
  | _ =>
    if s.multi then
      (if pt = s.phases then .ok w
       else if (s.phases.zip (w.readMol sid)).any (fun (p, r) => nonzeroRow r && !fileable pt p) then
         .error .undefinedPhase
       else if R.length ≠ pt.length then .error .shape
       else
         let w1 := w.rebind sid true pt none s.th (refile n s.phases (w.readMol sid) pt)
         .ok ((w1.setViews sid ((w.views sid).filter (fun cv => fileable pt cv.1))).reattach sid true false))
    else
      (if !fileable pt (w.c.phs s.ph) && (w.readMol sid).any nonzeroRow then .error .undefinedPhase
       else if R.length ≠ pt.length then .error .shape
       else .ok ((w.rebind sid true pt none s.th (refile n [w.c.phs s.ph] (w.readMol sid) pt)).setViews sid []))

/-! ### links -/

/-- `self._imol._data_cache = {}`: a brand-new empty dict bound to the indexer object of stream `sid` (every stream
object holding that indexer sees it) -/
def World.freshCache (w : World) (sid : Nat) : World :=
  let z := w.s
  let k := (z.streams sid).ix
  { w with s := { z with ncaches := z.ncaches + 1, caches := upd z.caches z.ncaches [],
                         ixs := upd z.ixs k { z.ixs k with cache := z.ncaches } } }

/-- `_data_cache.clear()`: the dict object stays, and stays shared -/
def World.clearCache (w : World) (sid : Nat) : World :=
  let z := w.s
  { w with s := { z with caches := upd z.caches (z.ixOf sid).cache [] } }

/-- the sharing branch of `link_with` (`TP and flow and (phase or ndim == 2)`): the `_data_cache` dict,
the data (and the phase container) of `other` are bound to the indexer object of `sid`, the thermal condition of
`other` to the stream object `sid` -/
def World.linkShare (w : World) (sid oid : Nat) (phase : Bool) : World :=
  let z := w.s
  let k := (z.streams sid).ix
  let s := z.ixs k
  let o := z.ixOf oid
  let s2 : Stream := { s with cache := o.cache, data := o.data,
                              ph := if phase && !s.multi then o.ph else s.ph,
                              locked := if phase && !s.multi then o.locked else s.locked }
  { w with s := { z with ixs := upd z.ixs k s2,
                         streams := upd z.streams sid { z.streams sid with tc := (z.streams oid).tc } } }

/-- the other branch of `link_with`: the `_data_cache` is dropped (`fixed = true`: a new dict is bound, the
repaired behaviour; `fixed = false`: the dict is cleared in place, as it was before a11de35) and whatever is requested is
taken over -/
def World.linkPlain (fixed : Bool) (w : World) (sid oid : Nat) (flow phase tp : Bool) : World :=
  let z := w.s
  let k := (z.streams sid).ix
  let s := z.ixOf sid
  let o := z.ixOf oid
  let s2 : Stream := { s with data := if flow then o.data else s.data,
                              ph := if phase && !s.multi then o.ph else s.ph,
                              locked := if phase && !s.multi then o.locked else s.locked }
  let streams' := upd z.streams sid { z.streams sid with tc := if tp then (z.streams oid).tc else (z.streams sid).tc }
  if fixed then
    { w with s := { z with ncaches := z.ncaches + 1, caches := upd z.caches z.ncaches [],
                           ixs := upd z.ixs k { s2 with cache := z.ncaches }, streams := streams' } }
  else
    { w with s := { z with caches := upd z.caches s.cache [], ixs := upd z.ixs k s2, streams := streams' } }

/-- `Stream.link_with(other, flow, phase, TP)`; for a MultiStream with `flow or TP` the phase views are re-attached
(d9738d9). -/
def World.linkWith (fixed : Bool) (w : World) (sid oid : Nat) (flow phase tp : Bool) : Except Err World :=
  let s := w.stream sid
  let o := w.stream oid
  if s.multi ≠ o.multi then .error .classMismatch
  else if flow && (s.th ≠ o.th || (s.multi && s.phases ≠ o.phases)) then .error .precondition
  else
    let w1 := if tp && flow && (phase || s.multi) then w.linkShare sid oid phase
              else w.linkPlain fixed sid oid flow phase tp
    .ok (if s.multi && (flow || tp) then w1.reattach sid flow true else w1)

def World.link := World.linkWith true
def World.linkOld := World.linkWith false

/-- `Stream.unlink()`: `self._imol = imol.copy()` (a new indexer object: copies of the phase container and of the data, a
new `_data_cache`), a copy of the thermal condition, phase views re-attached (58e0e04, 4329d3a).
`fixed = false`: the code before a11de35 (`_data_cache.clear()` on the indexer that stays). -/
def World.unlinkWith (fixed : Bool) (w : World) (sid : Nat) : World :=
  let s := w.stream sid
  let w0 := if fixed then w else w.clearCache sid
  let w1 := w0.rebind sid s.multi s.phases (if s.multi then none else some (w.c.phs s.ph)) s.th (w.readMol sid)
  let z := w1.s
  let w2 : World :=
    { w1 with s := { z with ntcs := z.ntcs + 1,
                            streams := upd z.streams sid { z.streams sid with tc := z.ntcs } },
              c := { w1.c with tcs := upd w1.c.tcs z.ntcs (w.c.tcs s.tc) } }
  let k := (w2.s.streams sid).ix
  let w3 : World := if fixed then w2
    else { w2 with s := { w2.s with ixs := upd w2.s.ixs k { w2.s.ixs k with cache := s.cache } } }
  w3.reattach sid true true

def World.unlink := World.unlinkWith true
def World.unlinkOld := World.unlinkWith false

/-! ### `_expand_phases`, `copy_like`, `_reset_thermo` -/

/-- does a stream object with *another* indexer hold the data object of stream `sid`? -/
def World.dataShared (w : World) (sid : Nat) : Bool :=
  (List.range w.s.nstreams).any (fun t => (w.s.streams t).ix != (w.s.streams sid).ix &&
                                          (w.s.ixOf t).data == (w.s.ixOf sid).data)

/-- does another stream object hold the indexer object of stream `sid` (a `proxy()`)? -/
def World.ixShared (w : World) (sid : Nat) : Bool :=
  (List.range w.s.nstreams).any (fun t => t != sid && (w.s.streams t).ix == (w.s.streams sid).ix)

/-- `MaterialIndexer._expand_phases(other_phases)`: the row list of the *same* data object is
replaced (old row objects kept, new ones added, sorted by phase) and the phases of the *same* indexer object change;
the `_data_cache` is cleared (`clear := true`; `false` = the code before f0492a1). -/
def World.expandPhases (clear : Bool) (w : World) (sid : Nat) (others : List Char) : Except Err World :=
  let s := w.stream sid
  let newPhases := (phaseTuple others).filter (fun p => !s.phases.contains p)
  if newPhases.isEmpty then .ok w
  else if w.dataShared sid then .error .sharedData
  else
    let z := w.s
    let k := (z.streams sid).ix
    let all := phaseTuple (s.phases ++ newPhases)
    let old := z.datas s.data
    let rowOf (p : Char) : Nat :=
      match s.phases.idxOf? p with
      | some k => old.getD k 0
      | none => z.nrows + (newPhases.idxOf p)
    let n := (w.MW s.th).length
    let w1 : World :=
      { w with s := { z with datas := upd z.datas s.data (all.map rowOf),
                             nrows := z.nrows + newPhases.length,
                             ixs := upd z.ixs k { z.ixs k with phases := all } },
               c := { w.c with rows := updRange w.c.rows z.nrows (newPhases.map (fun _ => List.replicate n 0)) } }
    .ok (if clear then w1.clearCache sid else w1)

def World.copyTC (w : World) (sid oid : Nat) : World :=
  { w with c := { w.c with tcs := upd w.c.tcs (w.stream sid).tc (w.c.tcs (w.stream oid).tc) } }

/-- `Stream.copy_like(other)` / `MultiStream.copy_like(other)`; `R` = the molar contents afterwards. -/
def World.copyLikeWith (clear : Bool) (w : World) (sid oid : Nat) (R : List (List Rat)) : Except Err World :=
  let s := w.stream sid
  let o := w.stream oid
  if sid = oid then .ok w else
  match s.multi, o.multi with
  | false, false =>
    if R.length ≠ 1 then .error .shape else
    -- contents copied in place, `self.phase = other.phase` written into the container, T and P copied
    let w1 := w.setContents sid R
    let w2 : World := { w1 with c := { w1.c with phs := upd w1.c.phs s.ph (w1.c.phs o.ph) } }
    .ok (w2.copyTC sid oid)
  | false, true =>
    (match o.phases with
     | [] => .error .precondition
     | [c] =>
       -- a MultiStream holding one phase: `self.phase = phase`, contents mapped by chemical, T and P copied
       if R.length ≠ 1 then .error .shape else
       let w1 := w.setContents sid R
       let w2 : World := { w1 with c := { w1.c with phs := upd w1.c.phs s.ph c } }
       .ok (w2.copyTC sid oid)
     | _ =>
       -- `self._imol = self._imol.blank(phases[0], …); self.phases = phases`: a brand-new (empty) indexer is
       -- re-filed under the source's phases, so the receiver's old phase never matters; then the rows are copied
       if R.length ≠ o.phases.length then .error .shape
       else .ok (((w.rebind sid true o.phases none s.th R).setViews sid []).copyTC sid oid))
  | true, false =>
    -- a phase the receiver cannot file makes `MaterialIndexer.copy_like` expand the phases first
    (match (if (phaseIndex s.phases (w.c.phs o.ph)).isSome then .ok w
            else World.expandPhases clear w sid [w.c.phs o.ph]) with
     | .error e => .error e
     | .ok w1 =>
       if R.length ≠ (w1.stream sid).phases.length then .error .shape
       else .ok ((w1.setContents sid R).copyTC sid oid))
  | true, true =>
    (match (if s.phases = o.phases || compat s.phases = compat o.phases then .ok w
            else World.expandPhases clear w sid o.phases) with
     | .error e => .error e
     | .ok w1 =>
       if R.length ≠ (w1.stream sid).phases.length then .error .shape
       else .ok ((w1.setContents sid R).copyTC sid oid))

def World.copyLike := World.copyLikeWith true
def World.copyLikeOld := World.copyLikeWith false

/-- `Stream._reset_thermo(thermo)`: `reset_chemicals` binds a fresh data object and a fresh `_data_cache` to the
indexer (phase container and phases stay) and the phase views are re-attached.  The indexer must not be held by another
stream object (a `proxy()` would keep its old `_thermo`: not modelled). -/
def World.resetThermo (w : World) (sid k : Nat) (R : List (List Rat)) : Except Err World :=
  let s := w.stream sid
  if k = s.th then .ok w
  else if k ≥ w.thermos.length || w.ixShared sid then .error .precondition
  else if R.length ≠ (w.rowsOf sid).length then .error .shape
  else .ok ((w.rebind sid s.multi s.phases none k R).reattach sid true false)

/-! ### in-place operations whose numbers are another property's business -/

/-- An operation that rebinds no object and whose effect on the numbers is not this property's business
(`scale`, `empty`, `mix_from` into a single-phase stream, a reaction — including one defined on another property
package, which goes through `reset_chemicals(chemicals, container)` twice and, with the repair of
fixes_proposed/C11-4, ends with the original data object and `_data_cache` bound again): the molar contents `R`,
T, P and the phase it left behind are written in place. -/
def World.sync (w : World) (sid : Nat) (T P : Rat) (ph : Option Char) (R : List (List Rat)) : Except Err World :=
  let s := w.stream sid
  if R.length ≠ (w.rowsOf sid).length then .error .shape
  else
    let w1 := w.setContents sid R
    let phs := match ph with
      | some c => if s.multi then w1.c.phs else upd w1.c.phs s.ph c
      | none => w1.c.phs
    .ok { w1 with c := { w1.c with tcs := upd w1.c.tcs s.tc (T, P), phs := phs } }

/-- `MultiStream.mix_from(others, energy_balance=False)` with at least two non-empty inlets whose phases are
`others`: `MaterialIndexer.mix_from` expands the phases if one of them cannot be filed, the pressure is set in place,
the contents become `R`. -/
def World.mixInto (w : World) (sid : Nat) (others : List Char) (P : Rat) (R : List (List Rat)) : Except Err World :=
  let s := w.stream sid
  if !s.multi then .error .precondition else
  match (if others.all (fun c => (phaseIndex s.phases c).isSome) then .ok w
         else World.expandPhases true w sid others) with
  | .error e => .error e
  | .ok w1 =>
    if R.length ≠ (w1.stream sid).phases.length then .error .shape
    else .ok ((w1.setContents sid R).setP sid P)

/-! ### operations of a history -/

abbrev Mat := List (List Rat)

inductive Op where
  | new1 (th : Nat) (ph : Char) (T P : Rat) (flows : List Rat)
  | newm (th : Nat) (phases : List Char) (T P : Rat) (rows : Mat)
  | setT (s : Nat) (x : Rat)
  | setP (s : Nat) (x : Rat)
  | setPhase (s : Nat) (c : Char) (R : Mat)
  | setPhases (s : Nat) (ps : List Char) (R : Mat)
  | link (s o : Nat) (flow phase tp : Bool)
  | unlink (s : Nat)
  | copyLike (s o : Nat) (R : Mat)
  | thermo (s k : Nat) (R : Mat)
  | sync (s : Nat) (T P : Rat) (ph : Option Char) (R : Mat)
  | mixInto (s : Nat) (others : List Char) (P : Rat) (R : Mat)
  | view (s : Nat) (c : Char)
  | proxy (s : Nat)
  | flowProxy (s : Nat)
  | copy (s k : Nat) (R : Mat)
  | readMol (s : Nat)
  | readMass (s : Nat)
  | readVol (s : Nat) (V : Mat)
  | readF (s : Nat) (d : Dim) (V : Mat)
  | writeF (s : Nat) (d : Dim) (x : Rat) (V : Mat)
  | get (s : Nat) (d : Dim) (ph : Option Char) (i : Nat) (V : Mat)
  | put (s : Nat) (d : Dim) (ph : Option Char) (i : Nat) (x : Rat) (V : Mat)
  | putRow (s : Nat) (d : Dim) (ph : Option Char) (xs : List Rat) (V : Mat)
  | getFlow (s : Nat) (u : String) (ph : Option Char) (i : Nat) (V : Mat)
  | setFlow (s : Nat) (u : String) (ph : Option Char) (i : Nat) (x : Rat) (V : Mat)
  | getTotal (s : Nat) (u : String) (V : Mat)
  | setTotal (s : Nat) (u : String) (x : Rat) (V : Mat)
  | getData (s : Nat) (d : Dim) (u : String) (ph : Option Char) (i : Nat) (V : Mat)
  | setData (s : Nat) (d : Dim) (u : String) (ph : Option Char) (i : Nat) (x : Rat) (V : Mat)
  | getProp (s : Nat) (d : Dim) (u : String) (V : Mat)
  | setProp (s : Nat) (d : Dim) (u : String) (x : Rat) (V : Mat)
  | unitFor (d : Dim) (u : String)
  | scale (s : Nat) (q : Rat)
  | empty (s : Nat)
  | removeNegatives (s : Nat)
  | readAgg (s : Nat) (d : Dim) (V : Mat)
  | getFlowAll (s : Nat) (u : String) (V : Mat)

inductive Out where
  | unit
  | sid (n : Nat)
  | shape (multi : Bool) (phases : List Char)
  | mat (vid : Option Nat) (vals : Mat)
  | num (vid : Option Nat) (x : Rat)
  | wrote (vid : Option Nat)

/-- stream ids an operation mentions -/
def Op.sids : Op → List Nat
  | .new1 .. | .newm .. | .unitFor .. => []
  | .setT s _ | .setP s _ | .setPhase s _ _ | .setPhases s _ _ | .unlink s | .thermo s _ _
  | .sync s _ _ _ _ | .mixInto s _ _ _ | .view s _ | .proxy s | .flowProxy s | .copy s _ _
  | .readMol s | .readMass s | .readVol s _ | .readF s _ _ | .writeF s _ _ _ | .get s _ _ _ _
  | .put s _ _ _ _ _ | .putRow s _ _ _ _ | .getFlow s _ _ _ _ | .setFlow s _ _ _ _ _ | .getTotal s _ _ | .setTotal s _ _ _
  | .getData s _ _ _ _ _ | .setData s _ _ _ _ _ _ | .getProp s _ _ _ | .setProp s _ _ _ _
  | .scale s _ | .empty s | .removeNegatives s | .readAgg s _ _ | .getFlowAll s _ _ => [s]
  | .link s o _ _ _ | .copyLike s o _ => [s, o]

/-- the stream an operation would rebind or re-class; refused for the indexer of a phase view (`LockedPhase`), which only
its parent may re-attach (the code lets a user detach a view this way; that is C12's subject) -/
def Op.restructures : Op → Option Nat
  | .setPhase s _ _ | .setPhases s _ _ | .link s _ _ _ _ | .unlink s | .copyLike s _ _ | .thermo s _ _
  | .view s _ | .proxy s | .flowProxy s => some s
  | _ => none

def World.lockedTarget (w : World) (op : Op) : Bool :=
  match op.restructures with
  | some s => (w.stream s).locked
  | none => false

def okShape (w : World) (sid : Nat) : Except Err (World × Out) :=
  let (m, p) := w.shape sid
  .ok (w, .shape m p)

/-- One operation.  An error leaves the world unchanged (see `World.step`). -/
def World.exec (w : World) (op : Op) : Except Err (World × Out) :=
  if op.sids.any (fun s => s ≥ w.s.nstreams) then .error .badKey else
  if w.lockedTarget op then .error .precondition else
  match op with
  | .new1 th ph T P flows =>
    if th ≥ w.thermos.length then .error .precondition else
    let (w1, sid) := w.newStream false [] ph th T P [flows]
    .ok (w1, .sid sid)
  | .newm th phases T P rows =>
    if th ≥ w.thermos.length then .error .precondition
    else if phaseTuple phases ≠ phases ∨ phases.length < 2 then .error .precondition
    else if rows.length ≠ phases.length then .error .shape
    else
      let (w1, sid) := w.newStream true phases 'l' th T P rows
      .ok (w1, .sid sid)
  | .setT s x => .ok (w.setT s x, .unit)
  | .setP s x => .ok (w.setP s x, .unit)
  | .setPhase s c R => (w.setPhase s c R).bind (okShape · s)
  | .setPhases s ps R => (w.setPhases s ps R).bind (okShape · s)
  | .link s o f p t => (w.link s o f p t).map (·, .unit)
  | .unlink s => .ok (w.unlink s, .unit)
  | .copyLike s o R => (w.copyLike s o R).bind (okShape · s)
  | .thermo s k R => (w.resetThermo s k R).bind (okShape · s)
  | .sync s T P ph R => (w.sync s T P ph R).bind (okShape · s)
  | .mixInto s others P R => (w.mixInto s others P R).bind (okShape · s)
  | .view s c => (w.phaseView s c).map (fun (w1, v) => (w1, .sid v))
  | .proxy s => let (w1, v) := w.proxy s; .ok (w1, .sid v)
  | .flowProxy s => let (w1, v) := w.flowProxy s; .ok (w1, .sid v)
  | .copy s k R => (w.copyStream s k R).map (fun (w1, v) => (w1, .sid v))
  | .readMol s => .ok (w, .mat none (w.readMol s))
  | .readMass s => let (w1, vid, vals) := w.readMass s; .ok (w1, .mat (some vid) vals)
  | .readVol s V => let (w1, vid, vals) := w.readVol s V; .ok (w1, .mat (some vid) vals)
  | .readF s d V => if d = .other then .error .dimension else .ok (w, .num none (w.F s d V))
  | .writeF s d x V => (w.setF s d x V).map (·, .unit)
  | .get s d ph i V => (w.getElem s d ph i V).map (fun (w1, vid, x) => (w1, .num vid x))
  | .put s d ph i x V => (w.putElem s d ph i x V).map (fun (w1, vid) => (w1, .wrote vid))
  | .putRow s d ph xs V => (w.putRow s d ph xs V).map (fun (w1, vid) => (w1, .wrote vid))
  | .getFlow s u ph i V => (w.getFlow s u ph i V).map (fun (w1, vid, x) => (w1, .num vid x))
  | .setFlow s u ph i x V => (w.setFlow s u ph i x V).map (fun (w1, vid) => (w1, .wrote vid))
  | .getTotal s u V => (w.getTotal s u V).map (fun x => (w, .num none x))
  | .setTotal s u x V => (w.setTotal s u x V).map (·, .unit)
  | .getData s d u ph i V => (w.getData s d u ph i V).map (fun (w1, vid, x) => (w1, .num vid x))
  | .setData s d u ph i x V => (w.setData s d u ph i x V).map (fun (w1, vid) => (w1, .wrote vid))
  | .getProp s d u V => (w.getProp s d u V).map (fun x => (w, .num none x))
  | .setProp s d u x V => (w.setProp s d u x V).map (·, .unit)
  | .unitFor d u => (w.viewUnit d u).map (fun f => (w, .num none f))
  | .scale s q => okShape (w.scale s q) s
  | .empty s => okShape (w.empty s) s
  | .removeNegatives s => okShape (w.removeNegatives s) s
  | .readAgg s d V => (w.readAgg s d V).map (fun (w1, vid, r) => (w1, .mat vid [r]))
  | .getFlowAll s u V => (w.getFlowAll s u V).map (fun (w1, vid, r) => (w1, .mat vid [r]))

def World.step (w : World) (op : Op) : World :=
  match w.exec op with
  | .ok (w1, _) => w1
  | .error _ => w

def World.run (w : World) (ops : List Op) : World := ops.foldl World.step w

/-! ### hypothesis monitors evaluated by the driver on the tables the adapter dumps -/

/-- every factor of the three flow dimensions is non-zero -/
def unitsNonzero (l : List UnitDef) : Bool := l.all (fun d => d.dim == .other || d.factor != 0)
def mwPositive (l : List Rat) : Bool := l.all (fun m => decide (0 < m))

end ThermoVerif.FlowViews
