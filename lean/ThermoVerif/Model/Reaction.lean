/-
Model of stoichiometric reactions of `thermosteam/reaction/_reaction.py`
(`Reaction._rescale`, `Reaction._reaction`, `ParallelReaction._reaction`,
`SeriesReaction._reaction`, `ReactionSystem._reaction`, `set_reaction_basis`,
`as_material_array`, the feasibility step of `Reaction.__call__`,
`ChemicalIndexer/MaterialIndexer.reset_chemicals` as used for streams of another
property package) and of the string / dict parsers `_parse.py`, `_xparse.py`.

Core Lean only (no Mathlib): the file is compiled into the line-protocol driver.
All arithmetic is exact, over `Rat`.

Conventions
* a flow vector is a `List Rat`; a multi-phase material (phases × chemicals) is
  handled *flattened* row after row (`List.flatten`), a phase-tagged 2-d
  stoichiometry likewise, and the reactant index `(phase, chemical)` becomes
  `phase * N + chemical`.  `tile` repeats a per-chemical row (a row of the formula
  matrix, the molecular weights) once per phase so that it lines up with the
  flattened material.
* chemicals have universal identities (`Nat`, think CAS number); a property package
  is the list of identities in package order.
-/
namespace ThermoVerif.Reaction

inductive Err where
  | infeasible          -- InfeasibleRegion
  | noReactant          -- RuntimeError: reactant does not participate in the reaction
  | valueError          -- ValueError (phase mismatch, several reactants, duplicates, bad arrow …)
  | undefinedChemical   -- UndefinedChemical / UndefinedChemicalAlias
  | undefinedPhase      -- UndefinedPhase
  | shape               -- sizes of material and stoichiometry differ
  | basisMix            -- RuntimeError / ValueError: members of a set/system differ in basis
  deriving Repr, DecidableEq, Inhabited

def Err.toString : Err → String
  | .infeasible => "Infeasible"
  | .noReactant => "NoReactant"
  | .valueError => "ValueError"
  | .undefinedChemical => "UndefinedChemical"
  | .undefinedPhase => "UndefinedPhase"
  | .shape => "Shape"
  | .basisMix => "BasisMix"

abbrev Vec := List Rat

/-- Σ aᵢ bᵢ -/
def dot (a b : Vec) : Rat := (List.zipWith (· * ·) a b).sum

/-- `y + c·x`, entry by entry (`material += c * stoichiometry`). -/
def axpy (c : Rat) (x y : Vec) : Vec := List.zipWith (fun yi xi => yi + c * xi) y x

/-- entry-wise product / quotient (`* MW`, `/ MW`). -/
def hmul (a b : Vec) : Vec := List.zipWith (· * ·) a b
def hdiv (a b : Vec) : Vec := List.zipWith (· / ·) a b

/-- a per-chemical row repeated once per phase -/
def tile : Nat → Vec → Vec
  | 0, _ => []
  | p + 1, a => a ++ tile p a

/-- cut a flattened material back into rows of `n` entries -/
def chunk (n : Nat) : Nat → Vec → List Vec
  | 0, _ => []
  | p + 1, v => v.take n :: chunk n p (v.drop n)

/-- `mᵀA`: the molecular weights implied by atomic masses `m` and the rows `A` of the
formula matrix (one row per element, `n` chemicals) -/
def mwOf (m : Vec) (A : List Vec) (n : Nat) : Vec :=
  (List.zip m A).foldr (fun (ma, row) acc => axpy ma row acc) (List.replicate n 0)

/-! ### a single reaction -/

/-- A reaction after `_rescale`: `nu[r] = -1`. -/
structure Rxn where
  nu : Vec
  r : Nat
  X : Rat
  deriving Repr, DecidableEq

/-- `Reaction._rescale`: divide the stoichiometry by `-nu[r]`; a reactant that does not
take part raises. -/
def rescale (nu : Vec) (r : Nat) : Except Err Vec :=
  let s := -(nu.getD r 0)
  if s = 0 then .error .noReactant else .ok (nu.map (· / s))

def Rxn.make (raw : Vec) (r : Nat) (X : Rat) : Except Err Rxn :=
  (rescale raw r).map fun nu => { nu, r, X }

/-- `Reaction._reaction`: `material += material[r] * X * stoichiometry`. -/
def Rxn.react (rx : Rxn) (n : Vec) : Vec := axpy (n.getD rx.r 0 * rx.X) rx.nu n

/-- `ParallelReaction._reaction`: every extent `X_k · n[r_k]` is read from the FEED
first, then the changes are added one after the other. -/
def extents (rxs : List Rxn) (n : Vec) : List Rat := rxs.map fun rx => rx.X * n.getD rx.r 0

def applyExtents : List Rat → List Rxn → Vec → Vec
  | e :: es, rx :: rxs, acc => applyExtents es rxs (axpy e rx.nu acc)
  | _, _, acc => acc

def reactParallel (rxs : List Rxn) (n : Vec) : Vec := applyExtents (extents rxs n) rxs n

/-- `SeriesReaction._reaction`: each reaction acts on the running composition. -/
def reactSeries (rxs : List Rxn) (n : Vec) : Vec := rxs.foldl (fun acc rx => rx.react acc) n

/-- A member of a `ReactionSystem` (or a reaction object on its own). -/
inductive Member where
  | single (rx : Rxn)
  | parallel (rxs : List Rxn)
  | series (rxs : List Rxn)
  deriving Repr

def Member.react : Member → Vec → Vec
  | .single rx, n => rx.react n
  | .parallel rxs, n => reactParallel rxs n
  | .series rxs, n => reactSeries rxs n

def Member.rxns : Member → List Rxn
  | .single rx => [rx]
  | .parallel rxs => rxs
  | .series rxs => rxs

/-- `ReactionSystem._reaction`: the members one after the other on the running composition. -/
def reactSystem (ms : List Member) (n : Vec) : Vec := ms.foldl (fun acc m => m.react acc) n

/-! ### the feasibility step of `__call__` -/

/-- the literal `1e-12` as the exact value of that double -/
def feasTol : Rat := (4951760157141521 : Rat) / (2 ^ 92 : Nat)

/-- `values[values.negative_index()].sum()` -/
def negSum (v : Vec) : Rat := (v.filter (· < 0)).sum

/-- `values[negative_index] = 0.` -/
def clamp (v : Vec) : Vec := v.map fun x => if x < 0 then 0 else x

/-- what the clamp removes: `max 0 (-x)` per entry -/
def clamped (v : Vec) : Vec := v.map fun x => if x < 0 then -x else 0

/-- raise `InfeasibleRegion` when the negatives sum below `-tol`, else zero them. -/
def feasibility (tol : Rat) (v : Vec) : Except Err Vec :=
  if negSum v < -tol then .error .infeasible else .ok (clamp v)

/-! ### basis change (`set_reaction_basis`) -/

inductive Basis where | mol | wt
  deriving Repr, DecidableEq, Inhabited

/-- `stoichiometry *= MWs; _rescale()` (`mw` already tiled to the shape of `nu`). -/
def Rxn.toWt (mw : Vec) (rx : Rxn) : Except Err Rxn :=
  (rescale (hmul rx.nu mw) rx.r).map fun nu => { rx with nu }

/-- `stoichiometry /= MWs; _rescale()` -/
def Rxn.toMol (mw : Vec) (rx : Rxn) : Except Err Rxn :=
  (rescale (hdiv rx.nu mw) rx.r).map fun nu => { rx with nu }

/-- `Reaction.correct_atomic_balance(constants)`: the coefficients that are not held constant are
replaced by the solution `x` of the linear atom balance (an external solve — `numpy.linalg.solve` /
`lstsq` — hence a parameter: the balanced stoichiometry by mol, in the layout of `nu`), written
back in the reaction's basis (`· MW` for a weight-basis reaction), and the stoichiometry is put on a
per-reactant basis again (`_rescale`). -/
def Rxn.rebalance (rx : Rxn) (basis : Basis) (mw x : Vec) : Except Err Rxn :=
  Rxn.make (match basis with | .mol => x | .wt => hmul x mw) rx.r rx.X

/-! ### package remap (`reset_chemicals` of the stream's indexer) -/

/-- flow of the chemical with identity `u` in a row laid out by package `pkg` -/
def lift (pkg : List Nat) (row : Vec) (u : Nat) : Rat :=
  match pkg.idxOf? u with
  | some i => row.getD i 0
  | none => 0

/-- the entries of `row` (package `src`) that are non-zero all exist in `dst` -/
def supported (src dst : List Nat) (row : Vec) : Bool :=
  (List.zip src row).all fun (u, x) => x == 0 || dst.contains u

/-- `reset_chemicals`: move a row from package `src` to package `dst`; a non-zero flow
of a chemical that `dst` does not have raises. -/
def remapRow (src dst : List Nat) (row : Vec) : Except Err Vec :=
  if supported src dst row then .ok (dst.map (lift src row)) else .error .undefinedChemical

def remapRows (src dst : List Nat) (rows : List Vec) : Except Err (List Vec) :=
  rows.mapM (remapRow src dst)

/-- `Reaction.reset_chemicals(chemicals)`: the same reaction expressed over another property package.
Every coefficient moves to the column of its chemical in the new package (a participating chemical the
new package lacks raises), and the reactant index is looked up again *by identity*: row `r / n`,
column of the chemical `src[r % n]` in `dst`. -/
def Rxn.repackage (src dst : List Nat) (nrows : Nat) (rx : Rxn) : Except Err Rxn := do
  let n := src.length
  let rows ← remapRows src dst (chunk n nrows rx.nu)
  match dst.idxOf? (src.getD (rx.r % n) 0) with
  | none => .error .undefinedChemical
  | some j => pure { rx with nu := rows.flatten, r := (rx.r / n) * dst.length + j }

/-! ### reaction objects and `__call__` -/

/-- what a reaction object reacts with -/
inductive Kind where
  | member (m : Member)
  | system (ms : List Member)
  deriving Repr

def Kind.react : Kind → Vec → Vec
  | .member m, n => m.react n
  | .system ms, n => reactSystem ms n

def Kind.rxns : Kind → List Rxn
  | .member m => m.rxns
  | .system ms => ms.flatMap Member.rxns

/-- a reaction object: the reactions, their basis, their phases (sorted phase codes;
`[]` = no phases), and the property package (identities and molecular weights). -/
structure RObj where
  kind : Kind
  basis : Basis
  phases : List Nat
  pkg : List Nat
  mw : Vec
  /-- `ReactionSystem` only: the bases its member `Reaction` objects have *now* (the system keeps
  references to them, and `member.basis = …` may have been used since the system was built) -/
  memberBases : List Basis := []
  deriving Repr

/-- `ReactionSystem._reaction` re-checks at every call that each member still has the system's basis
(`RuntimeError('not all reactions have the same basis')`) -/
def RObj.basesOk (o : RObj) : Bool := o.memberBases.all (· == o.basis)

def RObj.nRows (o : RObj) : Nat := if o.phases.isEmpty then 1 else o.phases.length

/-- the material handed to `__call__` -/
inductive Material where
  /-- a NumPy array, 1-d (one row) or 2-d (phases × chemicals) -/
  | array (rows : List Vec)
  /-- a `Stream` (one phase) or `MultiStream` (sorted phase codes), its package, `imol.data` -/
  | stream (phases : List Nat) (pkg : List Nat) (rows : List Vec)
  deriving Repr

/-- react a flattened array of the object's own shape and run the feasibility step -/
def RObj.core (o : RObj) (tol : Rat) (flat : Vec) : Except Err Vec :=
  if o.basesOk then
    if (o.kind.rxns.all fun rx => rx.nu.length == flat.length) then
      feasibility tol (o.kind.react flat)
    else .error .shape
  else .error .basisMix

/-- a NumPy array: react the entries as they are (whatever the basis of the object) -/
def RObj.callArray (o : RObj) (tol : Rat) (rows : List Vec) : Except Err (List Vec) :=
  (o.core tol rows.flatten).map (chunk (rows.headD []).length rows.length)

/-- a stream whose `imol.data` (`rows`) is laid out by the object's own package: molar flows
directly, or — weight basis — through the mass flows (`imass.data`, react, write back) -/
def RObj.callOwn (o : RObj) (tol : Rat) (rows : List Vec) : Except Err (List Vec) :=
  let n := o.pkg.length
  let p := rows.length
  match o.basis with
  | .mol => (o.core tol rows.flatten).map (chunk n p)
  | .wt =>
    let mwT := tile p o.mw
    (o.core tol (hmul rows.flatten mwT)).map fun out => chunk n p (hdiv out mwT)

/-- a `Stream` / `MultiStream` (`as_material_array`, then the way back).

Two places follow the *proposed fixes* `fixes_proposed/C05-1.md`, `C05-2.md` rather than the
code as found: a phase-less reaction object handed a multi-phase stream is rejected
(the code as found silently combines a phase row with the stoichiometry), and the way back
from the reaction's package to a multi-phase stream's package restores the stream's layout
(the code as found leaves `imol.data` in the reaction's layout). -/
def RObj.callStream (o : RObj) (tol : Rat) (phases pkg : List Nat) (rows : List Vec) :
    Except Err (List Vec) :=
  if !o.phases.isEmpty && phases != o.phases then .error .valueError
  else if o.phases.isEmpty && phases.length > 1 then .error .valueError
  else if pkg == o.pkg then o.callOwn tol rows
  else do
    let rows1 ← remapRows pkg o.pkg rows
    let rows2 ← o.callOwn tol rows1
    remapRows o.pkg pkg rows2

/-- `Reaction.__call__` / `ReactionSet.__call__` / `ReactionSystem.__call__`.
Returns the new rows of the array / of the stream's `imol.data` (in the stream's package).
(A `SparseArray` argument is updated in place like every other array: proposed fix `C05-3.md`;
the code as found reacts a copy and drops the result.) -/
def RObj.call (o : RObj) (tol : Rat) : Material → Except Err (List Vec)
  | .array rows => o.callArray tol rows
  | .stream phases pkg rows => o.callStream tol phases pkg rows

/-! ### `force_reaction`: react without the feasibility check, drop negligible negatives

`fn.remove_negligible_negative_values` as proposed in `fixes_proposed/C05-5.md` (the code as
found applies the mask computed over the negative entries to the whole array: it zeroes entry 0 /
row 0 and leaves the negative value). -/

/-- the literal `1e-16` as the exact value of that double -/
def negEps : Rat := (2028240960365167 : Rat) / (2 ^ 104 : Nat)

/-- `abs(material).sum()` -/
def absSum (v : Vec) : Rat := (v.map fun x => if x < 0 then -x else x).sum

/-- is the negative entry `x` negligible against the total `s`? -/
def negligible (eps s x : Rat) : Bool := x < 0 && (if s > eps then x / s > -eps else true)

/-- zero the negative entries that are negligible relative to `Σ|v|` (all negatives when that
sum itself is at most `eps`); every other entry — in particular every non-negative one — stays -/
def removeNegligible (eps : Rat) (v : Vec) : Vec :=
  let s := absSum v
  v.map fun x => if negligible eps s x then 0 else x

/-- what `removeNegligible` removes, per entry -/
def removedBy (eps : Rat) (v : Vec) : Vec :=
  let s := absSum v
  v.map fun x => if negligible eps s x then -x else 0

def RObj.coreForce (o : RObj) (eps : Rat) (flat : Vec) : Except Err Vec :=
  if o.basesOk then
    if (o.kind.rxns.all fun rx => rx.nu.length == flat.length) then
      .ok (removeNegligible eps (o.kind.react flat))
    else .error .shape
  else .error .basisMix

def RObj.forceArray (o : RObj) (eps : Rat) (rows : List Vec) : Except Err (List Vec) :=
  (o.coreForce eps rows.flatten).map (chunk (rows.headD []).length rows.length)

def RObj.forceOwn (o : RObj) (eps : Rat) (rows : List Vec) : Except Err (List Vec) :=
  let n := o.pkg.length
  let p := rows.length
  match o.basis with
  | .mol => (o.coreForce eps rows.flatten).map (chunk n p)
  | .wt =>
    let mwT := tile p o.mw
    (o.coreForce eps (hmul rows.flatten mwT)).map fun out => chunk n p (hdiv out mwT)

def RObj.forceStream (o : RObj) (eps : Rat) (phases pkg : List Nat) (rows : List Vec) :
    Except Err (List Vec) :=
  if !o.phases.isEmpty && phases != o.phases then .error .valueError
  else if o.phases.isEmpty && phases.length > 1 then .error .valueError
  else if pkg == o.pkg then o.forceOwn eps rows
  else do
    let rows1 ← remapRows pkg o.pkg rows
    let rows2 ← o.forceOwn eps rows1
    remapRows o.pkg pkg rows2

/-- `Reaction.force_reaction` (also of sets and systems) -/
def RObj.force (o : RObj) (eps : Rat) : Material → Except Err (List Vec)
  | .array rows => o.forceArray eps rows
  | .stream phases pkg rows => o.forceStream eps phases pkg rows

/-! ### construction of reaction objects (`Reaction.__init__`, `ReactionSet.__init__`) -/

/-- `reactant=None`: the only negative coefficient, else `ValueError`. -/
def autoReactant (raw : Vec) : Except Err Nat :=
  match (List.range raw.length).filter (fun i => raw.getD i 0 < 0) with
  | [i] => .ok i
  | _ => .error .valueError

/-- phase-tagged reaction, reactant given by chemical: the first phase row in which the
chemical has a non-zero coefficient (the last row if there is none; `_rescale` then raises). -/
def reactantFlat (rawRows : List Vec) (n j : Nat) : Nat :=
  let p := rawRows.length
  match (List.range p).find? (fun i => (rawRows.getD i []).getD j 0 != 0) with
  | some i => i * n + j
  | none => (p - 1) * n + j

/-- phase-tagged reaction, `reactant=None`: the only chemical column with a negative entry -/
def autoReactantCol (rawRows : List Vec) (n : Nat) : Except Err Nat :=
  -- `SparseArray.negative_index()` lists (row, col) pairs; exactly one pair is required
  let pairs := (List.range rawRows.length).flatMap fun i =>
    ((List.range n).filter fun j => (rawRows.getD i []).getD j 0 < 0).map fun j => (i, j)
  match pairs with
  | [(_, j)] => .ok j
  | _ => .error .valueError

/-! ### the parsers (`_parse.str2dct`, `_xparse.str2dct`, `dct2arr`) -/

def isAlphaC (c : Char) : Bool := c.isAlpha

/-- split a list of characters at every occurrence of the two-character separator `->` -/
def splitArrow : List Char → List (List Char)
  | [] => [[]]
  | '-' :: '>' :: rest => [] :: splitArrow rest
  | c :: rest =>
    match splitArrow rest with
    | [] => [[c]]
    | h :: t => (c :: h) :: t

def splitChar (sep : Char) : List Char → List (List Char)
  | [] => [[]]
  | c :: rest =>
    if c == sep then [] :: splitChar sep rest
    else match splitChar sep rest with
      | [] => [[c]]
      | h :: t => (c :: h) :: t

def digitsVal (cs : List Char) : Option Nat :=
  if cs.isEmpty then none
  else cs.foldl (fun acc c => acc.bind fun a => if c.isDigit then some (a * 10 + (c.toNat - 48)) else none) (some 0)

/-- a decimal literal `ddd[.ddd][e[-]ddd]` (also `.5`, `2.`) as an exact rational;
this is what Python's `float(...)` returns whenever the value is a double. -/
def parseDecimal (cs : List Char) : Option Rat :=
  let (mant, ex) := match splitChar 'e' cs with
    | [m] => (m, some (0 : Int))
    | [m, '-' :: e] => (m, (digitsVal e).map fun k => -(k : Int))
    | [m, e] => (m, (digitsVal e).map fun k => (k : Int))
    | _ => ([], none)
  match ex with
  | none => none
  | some ex =>
    let (ip, fp) := match splitChar '.' mant with
      | [i] => (i, some [])
      | [i, f] => (i, some f)
      | _ => ([], none)
    match fp with
    | none => none
    | some fp =>
      if ip.isEmpty && fp.isEmpty then none else
      match digitsVal (if (ip ++ fp).isEmpty then ['x'] else ip ++ fp) with
      | none => none
      | some d =>
        let e10 : Int := ex - fp.length
        some (if e10 ≥ 0 then (d : Rat) * ((10 ^ e10.toNat : Nat) : Rat)
              else (d : Rat) / ((10 ^ e10.natAbs : Nat) : Rat))

/-- `_parse.split_coefficient`: index at which the chemical ID starts. -/
def coefEnd : List Char → Nat
  | [] => 0
  | c :: rest =>
    if c == 'e' then
      match rest with
      | [] => 0
      | d :: _ => if isAlphaC d then 0 else 1 + coefEnd rest
    else if isAlphaC c || "()[]{}".toList.contains c then 0
    else 1 + coefEnd rest

/-- `_xparse.split_coefficient`: index at which the chemical ID starts. -/
def xcoefEnd : List Char → Nat
  | [] => 0
  | c :: rest => if c != 'e' && isAlphaC c then 0 else 1 + xcoefEnd rest

/-- one term `2.5Ethanol` → (coefficient · sign, ID); `none` = malformed (outside what the
model covers) -/
def splitTerm (x : Bool) (sign : Rat) (t : List Char) : Option (Rat × String) :=
  let i := if x then xcoefEnd t else coefEnd t
  if i ≥ t.length then none
  else if i = 0 then some (sign, String.ofList t)
  else (parseDecimal (t.take i)).map fun c => (sign * c, String.ofList (t.drop i))

/-- outcome of parsing a definition: the list of (ID, phase?, coefficient) in source order -/
abbrev Terms := List (String × Option Char × Rat)

def phaseCode : Char → Option Nat
  | 'L' => some 0 | 'S' => some 1 | 'g' => some 2 | 'l' => some 3 | 's' => some 4 | _ => none
-- codes follow Python's string order 'L' < 'S' < 'g' < 'l' < 's' (`phase_tuple` sorts)

/-- `extract_coefficients` for one term `t` (spaces already removed): split the coefficient off,
(phase-tagged grammar: split the `,phase` off and check it), reject a repeated chemical, append.
`none` = a malformed string the model does not cover. -/
def termStep (x : Bool) (sign : Rat) (acc : Option (Except Err Terms)) (t : List Char) :
    Option (Except Err Terms) :=
  match acc with
  | none => none
  | some (.error e) => some (.error e)
  | some (.ok terms) =>
    match splitTerm x sign t with
    | none => none
    | some (c, id) =>
      if x then
        let ic := id.toList
        if ic.length < 2 then none
        else if ic.getD (ic.length - 2) ' ' == ',' then
          let ph := ic.getD (ic.length - 1) ' '
          if (phaseCode ph).isNone then some (.error .valueError) else
          let id' := String.ofList (ic.take (ic.length - 2))
          if terms.any (·.1 == id') then some (.error .valueError)
          else some (.ok (terms ++ [(id', some ph, c)]))
        else some (.error .valueError)
      else
        if terms.any (·.1 == id) then some (.error .valueError)
        else some (.ok (terms ++ [(id, none, c)]))

/-- one side of the arrow: `side.split('+')`, term by term -/
def sideTerms (x : Bool) (sign : Rat) (side : List Char) (acc : Option (Except Err Terms)) :
    Option (Except Err Terms) :=
  (splitChar '+' side).foldl (termStep x sign) acc

/-- `str2dct` of `_parse.py` (`x = false`) or `_xparse.py` (`x = true`).
`none` = a malformed string the model does not cover. -/
def str2terms (x : Bool) (s : String) : Option (Except Err Terms) :=
  let cs := s.toList.filter (· != ' ')
  match splitArrow cs with
  | [left, right] => sideTerms x 1 right (sideTerms x (-1) left (some (.ok [])))
  | _ => some (.error .valueError)

/-- `get_phases` of `_xparse.py` on a string: the character after every comma. -/
def stringPhases (s : String) : List Char :=
  let rec go : List Char → List Char
    | ',' :: p :: rest => p :: go (p :: rest)
    | _ :: rest => go rest
    | [] => []
  go s.toList

/-- sorted, de-duplicated phase codes (`phase_tuple`); an invalid phase raises -/
def phaseTuple (ps : List Char) : Except Err (List Nat) :=
  match ps.mapM phaseCode with
  | none => .error .valueError
  | some codes => .ok ((List.range 5).filter codes.contains)

/-- alias table of a package: per chemical the accepted names (ID first) -/
abbrev Names := List (List String)

def Names.index (names : Names) (id : String) : Option Nat :=
  (List.range names.length).find? fun i => (names.getD i []).contains id

def setAt (v : Vec) (i : Nat) (x : Rat) : Vec := v.set i x

/-- `_parse.dct2arr`: later entries overwrite earlier ones that resolve to the same index. -/
def terms2vec (names : Names) (terms : Terms) : Except Err Vec :=
  terms.foldlM (fun v (id, _, c) =>
    match names.index id with
    | none => .error .undefinedChemical
    | some i => .ok (setAt v i c)) (List.replicate names.length 0)

/-- `_xparse.dct2arr`: rows by phase. -/
def terms2rows (names : Names) (phases : List Nat) (terms : Terms) : Except Err (List Vec) :=
  terms.foldlM (fun rows (id, ph, c) =>
    match ph.bind phaseCode with
    | none => .error .valueError
    | some code =>
      match phases.idxOf? code with
      | none => .error .undefinedPhase
      | some p =>
        match names.index id with
        | none => .error .undefinedChemical
        | some i => .ok (rows.set p (setAt (rows.getD p []) i c)))
    (List.replicate phases.length (List.replicate names.length 0))

end ThermoVerif.Reaction
