import ThermoVerif.Model.SparseStore
/-
C09 model, SparseArray operations, the combined `step`, and `npSide`: what the NumPy reference
semantics (`Model/Dense.lean`) computes for the same operation on the dense images.
-/
namespace ThermoVerif.Sparse
open ThermoVerif.Dense

/-! ### reductions of a SparseArray -/

def VecObj.keys : VecObj → List Nat | .sv v => v.dct.keys | .slv v => v.set
def VecObj.get (v : VecObj) (i : Nat) : Rat := match v with | .sv x => x.get i | .slv x => b2r (x.mem i)
def VecObj.sum : VecObj → Rat | .sv v => v.sum | .slv v => v.count
def VecObj.anyB : VecObj → Bool | .sv v => v.any | .slv v => v.any
def VecObj.allB : VecObj → Bool | .sv v => v.all | .slv v => v.allTrue
def VecObj.max : VecObj → Except Err Rat | .sv v => v.max | .slv v => v.max
def VecObj.min : VecObj → Except Err Rat | .sv v => v.min | .slv v => v.min
def VecObj.copy : VecObj → VecObj | .sv v => .sv v.copy | .slv v => .slv v.copy

def vectorSize (rows : List VecObj) : Nat := match rows with | r :: _ => r.size | [] => 0

/-- `{j for i in rows for j in i.set}` (keys of well-formed rows are `< n`) -/
def unionKeys (n : Nat) (rows : List VecObj) : List Nat := (List.range n).filter (fun i => rows.any (fun r => r.keys.contains i))

/-- result of a reduction: a number, a vector, or an array of new rows -/
inductive RRes
  | num (x : Rat)
  | vec (v : VecObj)
  | rows (l : List VecObj)

def keepB (b : Bool) : VecObj := .slv (SLV.keep b)
def keepN (x : Rat) : VecObj := .sv (SV.keep x)

def reduceSA (r : Red) (rows : List VecObj) (axis : Option Nat) (kd : Bool) : Except Err RRes :=
  let n := vectorSize rows
  match r, axis with
  | _, some (_ + 2) => .error .value
  -- all / any
  | .all, none => let b := rows.all (·.allB); .ok (if kd then .rows [keepB b] else .num (b2r b))
  | .any, none => let b := rows.any (·.anyB); .ok (if kd then .rows [keepB b] else .num (b2r b))
  | .all, some 0 =>
    let v : VecObj := match rows with
      | [] => .slv ⟨0, []⟩
      | _ :: _ => .slv (SLV.ofPred n (fun i => rows.all (fun r => r.keys.contains i)))
    .ok (if kd then .rows [v] else .vec v)
  | .any, some 0 => let v : VecObj := .slv ⟨n, unionKeys n rows⟩; .ok (if kd then .rows [v] else .vec v)
  | .all, some 1 =>
    .ok (if kd then .rows (rows.map (fun r => keepB r.allB))
         else .vec (.slv (SLV.ofPred rows.length (fun i => match rows[i]? with | some r => r.allB | none => false))))
  | .any, some 1 =>
    .ok (if kd then .rows (rows.map (fun r => keepB r.anyB))
         else .vec (.slv (SLV.ofPred rows.length (fun i => match rows[i]? with | some r => r.anyB | none => false))))
  -- sum / mean
  | .sum, none => let x := (rows.map (·.sum)).foldl (· + ·) 0; .ok (if kd then .rows [keepN x] else .num x)
  | .mean, none =>
    let tot : Nat := (rows.map (·.size)).foldl (· + ·) 0
    if tot = 0 then .error .zeroDiv else
    let x := (rows.map (·.sum)).foldl (· + ·) 0 / (tot : Rat)
    .ok (if kd then .rows [keepN x] else .num x)
  | .sum, some 0 =>
    let v : VecObj := .sv ⟨n, Dct.tabulate n (fun i => (rows.map (·.get i)).foldl (· + ·) 0), false⟩
    -- `sum_sparse_vectors`: for booleans the count is stored without a test (never zero for a key)
    .ok (if kd then .rows [v] else .vec v)
  | .mean, some 0 =>
    if rows.isEmpty then .error .zeroDiv else
    let v : VecObj := .sv ⟨n, (Dct.tabulate n (fun i => (rows.map (·.get i)).foldl (· + ·) 0)).mapVals (· / rows.length), false⟩
    .ok (if kd then .rows [v] else .vec v)
  | .sum, some 1 =>
    .ok (if kd then .rows (rows.map (fun r => keepN r.sum))
         else .vec (.sv ⟨rows.length, Dct.tabulate rows.length (fun i => match rows[i]? with | some r => r.sum | none => 0), false⟩))
  | .mean, some 1 =>
    let m (r : VecObj) : Rat := if r.sum = 0 then 0 else r.sum / r.size
    .ok (if kd then .rows (rows.map (fun r => keepN (m r)))
         else .vec (.sv ⟨rows.length, Dct.tabulate rows.length (fun i => match rows[i]? with | some r => m r | none => 0), false⟩))
  -- max / min
  | .max, none =>
    match rows.mapM (·.max) with
    | .error e => .error e
    | .ok l => match vmax l with
      | none => .error .value
      | some x => .ok (if kd then .rows [keepN x] else .num x)     -- (C09-7: the code stores `{0: x}` even for x = 0)
  | .min, none =>
    match rows.mapM (·.min) with
    | .error e => .error e
    | .ok l => match vmin l with
      | none => .error .value
      | some x => .ok (if kd then .rows [keepN x] else .num x)
  | .max, some 0 =>
    -- `for i in keys: x = max([j[i] if i in j else 0. for j in dcts]); if x: dct[i] = x`
    let v : VecObj := .sv ⟨n, Dct.tabulate n (fun i => (vmax (rows.map (·.get i))).getD 0), false⟩
    .ok (if kd then .rows [v] else .vec v)
  | .min, some 0 =>
    let v : VecObj := .sv ⟨n, Dct.tabulate n (fun i => (vmin (rows.map (·.get i))).getD 0), false⟩
    .ok (if kd then .rows [v] else .vec v)
  | .max, some 1 =>
    match rows.mapM (·.max) with
    | .error e => .error e
    | .ok l => .ok (if kd then .rows (l.map keepN) else .vec (.sv ⟨rows.length, Dct.ofList l, false⟩))
  | .min, some 1 =>
    match rows.mapM (·.min) with
    | .error e => .error e
    | .ok l => .ok (if kd then .rows (l.map keepN) else .vec (.sv ⟨rows.length, Dct.ofList l, false⟩))

/-! ### indexing of a SparseArray -/

/-- row positions selected by a row index (rows are a Python list: out of range raises) -/
def rowSel (nrows : Nat) : Idx → Except Err (List Nat)
  | .int i => if i < nrows then .ok [i] else .error .index
  | .slice s e st => .ok ((defaultRange nrows s e st).filter (· < nrows))     -- list slicing / `default_range` then `rows[i]`
  | .fancy l => if l.all (· < nrows) then .ok l else .error .index
  | .mask m => let sel := maskIdx m; if sel.all (· < nrows) then .ok sel else .error .index

def vecGetDense (v : VecObj) (i : Idx) : GetRes :=
  match v with | .sv x => x.getItem i | .slv x => x.getItem i

inductive SAGet
  | self
  | row (id : Nat)               -- the row object itself
  | share (ids : List Nat)       -- a new SparseArray over existing rows
  | num (x : Rat)
  | vec (l : Vec)
  | mat (l : Mat)

def denseOf : GetRes → Vec
  | .dense l => l | .scalar x => [x] | .self => []

def getSA (s : Store) (rowIds : List Nat) (i : Idx2) : Except Err SAGet :=
  match s.rowsVec rowIds with
  | none => .error .type
  | some rows =>
    let nr := rows.length
    let pick (k : Nat) : Option (Nat × VecObj) := match rowIds[k]?, rows[k]? with | some a, some b => some (a, b) | _, _ => none
    match i with
    | .one (.int k) => match rowIds[k]? with | some r => .ok (.row r) | none => .error .index
    | .one (.slice a b c) =>
      if (Idx.slice a b c).isOpen then .ok .self
      else .ok (.share ((npSlice nr a b c).filterMap (rowIds[·]?)))       -- Python list slicing clips
    | .one m => (rowSel nr m).map (fun sel => .share (sel.filterMap (rowIds[·]?)))
    | .two m n =>
      match m, n with
      | .slice a b c, n =>
        if (Idx.slice a b c).isOpen && n.isOpen then .ok .self else
        let sel := if (Idx.slice a b c).isOpen then List.range nr else defaultRange nr a b c
        if sel.any (· ≥ nr) then .error .index else
        let parts := sel.filterMap (fun k => (rows[k]?).map (fun r => vecGetDense r n))
        (match n with
         | .int _ => .ok (.vec (parts.map (fun p => match p with | .scalar x => x | _ => 0)))
         | .slice _ _ _ => if n.isOpen then .ok (.mat (sel.filterMap (fun k => (rows[k]?).map (·.toDense)))) else .ok (.mat (parts.map denseOf))
         | _ => .ok (.mat (parts.map denseOf)))
      | .int k, n =>
        match pick k with
        | none => .error .index
        | some (rid, r) =>
          match vecGetDense r n with
          | .self => .ok (.row rid)
          | .scalar x => .ok (.num x)
          | .dense l => .ok (.vec l)
      | m, .slice a b c =>
        match rowSel nr m with
        | .error e => .error e
        | .ok sel =>
          if (Idx.slice a b c).isOpen then .ok (.share (sel.filterMap (rowIds[·]?)))
          else .ok (.mat (sel.filterMap (fun k => (rows[k]?).map (fun r => denseOf (vecGetDense r (.slice a b c))))))
      | .fancy ms, .int j =>
        if ms.all (· < nr) then .ok (.vec (ms.filterMap (fun k => (rows[k]?).map (·.get j)))) else .error .index
      | .fancy ms, .fancy ns =>
        if ms.all (· < nr) then .ok (.vec ((List.zip ms ns).filterMap (fun p => (rows[p.1]?).map (·.get p.2)))) else .error .index
      | _, _ => .error .index

/-- `row[idx] = value` for one row object in the store -/
def setRow (s : Store) (rid : Nat) (i : Idx) (x : SV.Val) (keys : Option (List Nat) := none) : Except Err Store :=
  match s.getVec rid with
  | some (.sv t) => (t.setItem i x false).map (fun r => s.set rid (.sv r))
  | some (.slv t) => (t.setItem i x false keys).map (fun r => s.set rid (.slv r))
  | none => .error .type

/-- the value of `sa[...] = value` after `reduce_ndim` -/
inductive SAVal
  | scalar (x : Rat)
  | vec (l : Vec)                  -- 1-d literal
  | obj (v : VecObj)               -- a vector object of size ≠ 1
  | mat (rows : Mat)
  | rowsOf (l : List VecObj)       -- a SparseArray with more than one row
  | deep

def saVal (s : Store) : Operand → Option SAVal
  | .lit l => some (match l.reduce with | .scalar x => .scalar x | .vec v => .vec v | .mat m => .mat m | .deep => .deep)
  | .ref j =>
    match s[j]? with
    | some (.sv b) => some (if b.size = 1 then .scalar (b.get 0) else .obj (.sv b))
    | some (.slv b) => some (if b.size = 1 then .scalar (b2r (b.mem 0)) else .obj (.slv b))
    | some (.sa [r]) =>
      match s.getVec r with
      | some v => some (if v.size = 1 then .scalar (v.get 0) else .obj v)
      | none => none
    | some (.sa rows) => (s.rowsVec rows).map .rowsOf
    | none => none

def SAVal.vd : SAVal → Nat
  | .scalar _ => 0 | .vec _ => 1 | .obj _ => 1 | .mat _ => 2 | .rowsOf _ => 2 | .deep => 3

/-- as the value of a row assignment -/
def SAVal.rowVal : SAVal → SV.Val × Option (List Nat)
  | .scalar x => (.scalar x, none)
  | .vec l => (.seq l, none)
  | .obj (.sv b) => (.sv b, some b.dct.keys)
  | .obj (.slv b) => (.seq b.toDense, some b.set)
  | _ => (.deep, none)

def SAVal.nth (v : SAVal) (k : Nat) : Option SAVal :=
  match v with
  | .vec l => (l[k]?).map .scalar
  | .obj o => if k < o.size then some (.scalar (o.get k)) else none
  | .mat m => (m[k]?).map .vec
  | .rowsOf l => (l[k]?).map .obj
  | _ => none

def SAVal.len : SAVal → Nat
  | .vec l => l.length | .obj o => o.size | .mat m => m.length | .rowsOf l => l.length | _ => 0

def assignRows (s : Store) (rids : List Nat) (i : Idx) (v : SAVal) : Except Err Store :=
  let (x, ks) := v.rowVal
  rids.foldlM (fun s rid => setRow s rid i x ks) s

/-- one value per row: the code's `zip(rows, value)` truncates to the shorter of the two -/
def assignZip (s : Store) (rids : List Nat) (i : Idx) (v : SAVal) : Except Err Store :=
  (List.range (min rids.length v.len)).foldlM (fun s k =>
    match rids[k]?, v.nth k with
    | some rid, some w => let (x, ks) := w.rowVal; setRow s rid i x ks
    | _, _ => .error .index) s

def setSA (s : Store) (rowIds : List Nat) (i : Idx2) (val : Operand) : Except Err Store :=
  if rowIds.any (fun r => match s.getVec r with | some v => v.readOnly | none => false) then .error .readOnly else
  match saVal s val with
  | none => .error .type
  | some v =>
    let nr := rowIds.length
    let allIdx : Idx := .slice none none none
    let whole (rids : List Nat) : Except Err Store :=
      if v.vd ≤ 1 then assignRows s rids allIdx v
      else if v.vd = 2 then assignZip s rids allIdx v
      else .error .index
    match i with
    | .one (.int k) => match rowIds[k]? with
        | some rid => assignRows s [rid] allIdx v          -- `rows[index][:] = value`
        | none => .error .index
    | .one (.mask m) =>
      -- 1-d boolean row index (C09-9: a vector value is broadcast to every selected row)
      match rowSel nr (.mask m) with
      | .error e => .error e
      | .ok sel => whole (sel.filterMap (rowIds[·]?))
    | .one m =>
      match (match m with | .slice a b c => (if (Idx.slice a b c).isOpen then Except.ok (List.range nr) else rowSel nr m) | _ => rowSel nr m) with
      | .error e => .error e
      | .ok sel => whole (sel.filterMap (rowIds[·]?))
    | .two m n =>
      match m with
      | .slice a b c =>
        let opn := (Idx.slice a b c).isOpen
        let sel := if opn then List.range nr else defaultRange nr a b c
        if sel.any (· ≥ nr) then .error .index else
        let rids := sel.filterMap (rowIds[·]?)
        if n.isOpen then
          whole rids          -- `sa[a:b, :] = value` pairs a 2-d value with the selected rows, like `sa[a:b] = value` (repair a011765)
        else
          if v.vd = 0 then assignRows s rids n v
          else if v.vd = 1 then
            (match n with
             | .int _ => assignZip s rids n v          -- one scalar per row
             | _ => assignRows s rids n v)
          else if v.vd = 2 then assignZip s rids n v
          else .error .index
      | .int k =>
        match rowIds[k]? with
        | some rid => assignRows s [rid] n v
        | none => .error .index
      | m =>
        match rowSel nr m with
        | .error e => .error e
        | .ok sel =>
          let rids := sel.filterMap (rowIds[·]?)
          match n with
          | .slice _ _ _ =>
            if v.vd ≤ 1 then assignRows s rids n v
            else if v.vd = 2 then assignZip s rids n v
            else .error .index
          | .int j =>
            (match m with
             | .fancy _ =>
               if v.vd = 0 then assignRows s rids (.int j) v
               else if v.vd = 1 then assignZip s rids (.int j) v
               else .error .index
             | _ => .error .index)
          | .fancy ns =>
            (match m with
             | .fancy _ =>
               if v.vd = 0 then
                 (List.zip rids ns).foldlM (fun s p => assignRows s [p.1] (.int p.2) v) s
               else if v.vd = 1 then
                 (List.range (min rids.length ns.length)).foldlM (fun s k =>
                   match rids[k]?, ns[k]?, v.nth k with
                   | some rid, some j, some w => assignRows s [rid] (.int j) w
                   | _, _, _ => .ok s) s
               else .error .index
             | _ => .error .index)
          | _ => .error .index

/-! ### operations whose target is a SparseArray -/

def allocRRes (s : Store) : RRes → Store × Res
  | .num x => (s, .num x)
  | .vec v => let p := s.alloc v.toObj; (p.1, .obj p.2)
  | .rows l => let p := allocRes s (.rows l); (p.1, .obj p.2)

def stepSA (s : Store) (a : Nat) (rowIds : List Nat) (rows : List VecObj) : Op → Except Err (Store × Res)
  | .bin op _ b => okRes s (binSA s op rows b)
  | .ibin op _ b => (ibinSA s op rowIds b).map (fun s' => (s', .obj a))
  | .rbin op b _ =>
    match op with
    | .add | .mul | .and | .or | .xor => okRes s (binSA s op rows (.lit b))
    | .eq | .ne | .gt | .lt | .ge | .le => okRes s (binSA s (BinOp.swap op) rows (.lit b))
    | .sub =>
      let neg := rows.map (fun r => match r with | .sv x => VecObj.sv x.neg | .slv x => VecObj.sv x.neg)
      okRes s (binSA s .add neg (.lit b))
    | .truediv =>
      match b.shape with
      | [] =>
        -- `[i.__rtruediv__(other) for i in rows]`
        let x := b.data.getD 0 0
        (rows.mapM (fun (r : VecObj) => match r with
          | .sv v => (v.rdivScalar x).map VecObj.sv
          | .slv _ => Except.error Err.type)).bind (fun l => okRes s (.ok (.rows l)))
      | _ =>
        match b.toND, s.toND a with
        | some nb, some na =>
          match npBin .truediv nb na with
          | .ok r => .ok (s, match r.shape with | .m => .mat r.data | _ => .vec r.row0)
          | .error .nonFinite => .error .zeroDiv
          | .error _ => .error .shape
        | _, _ => .error .type
  | .neg _ => okRes s (.ok (.rows (rows.map (fun r => match r with | .sv x => VecObj.sv x.neg | .slv x => VecObj.sv x.neg))))
  | .abs _ => okRes s (.ok (.rows (rows.map (fun r => match r with | .sv x => VecObj.sv x.abs | .slv x => VecObj.slv x.copy))))
  | .invert _ =>
    if rows.all (·.isBool) then okRes s (.ok (.rows (rows.map (fun r => match r with | .slv x => VecObj.slv x.invert | x => x))))
    else .error .type
  | .get _ i =>
    match getSA s rowIds i with
    | .error e => .error e
    | .ok .self => .ok (s, .obj a)
    | .ok (.row r) => .ok (s, .obj r)
    | .ok (.share ids) => okObj (s.alloc (.sa ids))
    | .ok (.num x) => .ok (s, .num x)
    | .ok (.vec l) => .ok (s, .vec l)
    | .ok (.mat l) => .ok (s, .mat l)
  | .set _ i v => (setSA s rowIds i v).map (fun s' => (s', .none))
  | .reduce r _ axis kd => (reduceSA r rows axis kd).map (allocRRes s)
  | .copy _ => okRes s (.ok (.rows (rows.map (·.copy))))
  | .toArray _ =>
    if rows.all (·.wfb) then .ok (s, .mat (rows.map (·.toDense))) else .error .index
  | .clear _ =>
    if rows.any (·.readOnly) then .error .readOnly else
    .ok (rowIds.foldl (fun s rid => match s.getVec rid with
      | some (.sv v) => s.set rid (.sv v.clear)
      | some (.slv v) => s.set rid (.slv ⟨v.size, []⟩)
      | none => s) s, .none)
  | .removeNegatives _ =>
    if rows.any (·.readOnly) then .error .readOnly else
    .ok (rowIds.foldl (fun s rid => match s.getVec rid with
      | some (.sv v) => s.set rid (.sv v.removeNegatives)
      | _ => s) s, .none)
  | .hasNegatives _ => .ok (s, numOfBool (rows.any (fun r => match r with | .sv v => v.hasNegatives | _ => false)))
  | .nonzeroKeys _ => .ok (s, .keys (sortKeys (unionKeys (vectorSize rows) rows)))
  | .negativeKeys _ =>
    .ok (s, .keys ((List.range (vectorSize rows)).filter (fun i => rows.any (fun r => match r with | .sv v => v.negativeKeys.contains i | _ => false))))
  | .setflags _ =>
    if rows.all (fun r => !r.isBool) then
      .ok (rowIds.foldl (fun s rid => match s.getVec rid with
        | some (.sv v) => s.set rid (.sv { v with readOnly := true })
        | _ => s) s, .none)
    else .error .type
  | _ => .error .type

/-! ### constructors and the combined step -/

def step (s : Store) : Op → Except Err (Store × Res)
  | .new l =>
    match l.shape with
    | [_] => if l.isBool then okObj (s.alloc (.slv (SLV.ofList l.data))) else okObj (s.alloc (.sv (SV.ofList l.data)))
    | [m, n] =>
      let rows := (chunks n l.data m).map (fun r => if l.isBool then VecObj.slv (SLV.ofList r) else VecObj.sv (SV.ofList r))
      okRes s (.ok (.rows rows))
    | _ => .error .value
  | .newSV l size =>
    match l.shape with
    | [_] => okObj (s.alloc (.sv (SV.ofList l.data size)))
    | _ => .error .type
  | .newDict items size =>
    okObj (s.alloc (.sv ⟨size, items.foldl (fun d p => if p.2 = 0 then d else d.put p.1 p.2) [], false⟩))
  | .newSize n => okObj (s.alloc (.sv ⟨n, [], false⟩))
  | .newSA rows =>
    if rows.all (fun r => (s.getVec r).isSome) then okObj (s.alloc (.sa rows)) else .error .type
  | op =>
    match opTarget op with
    | none => .error .type
    | some a =>
      match s[a]? with
      | some (.sv v) => stepVec s a (.sv v) op
      | some (.slv v) => stepVec s a (.slv v) op
      | some (.sa rowIds) =>
        match s.rowsVec rowIds with
        | some rows => stepSA s a rowIds rows op
        | none => .error .type
      | none => .error .type
where
  opTarget : Op → Option Nat
    | .copyCtor a | .bin _ a _ | .rbin _ _ a | .ibin _ a _ | .neg a | .abs a | .invert a | .get a _ | .set a _ _
    | .reduce _ a _ _ | .copy a | .toArray a | .clear a | .removeNegatives a | .hasNegatives a | .nonzeroKeys a
    | .nonzeroItems a | .negativeKeys a | .positiveKeys a | .setflags a | .setRO a _ | .mixFrom a _ | .sumOf a _
    | .copyLike a _ | .sparseEqual a _ => some a
    | _ => none

/-! ### the NumPy side -/

/-- an operand without dense image (its representation is broken) -/
def undef : Option (Except NpErr ND) := some (.error .index)

def Idx.npPositions (n : Nat) : Idx → Except NpErr (List Nat)
  | .int i => if i < n then .ok [i] else .error .index
  | .slice s e st => .ok (npSlice n s e st)
  | .fancy l => if l.any (fun i => decide (n ≤ i)) then .error .index else .ok l
  | .mask m => if m.length = n then .ok (maskIdx m) else .error .index

def Idx.isInt : Idx → Bool | .int _ => true | _ => false
def Idx.isAdvanced : Idx → Bool | .fancy _ | .mask _ => true | _ => false

/-- `a[idx]` -/
def npGetIdx (a : ND) : Idx2 → Except NpErr ND
  | .one i =>
    match a.shape with
    | .v =>
      match i.npPositions a.row0.length with
      | .error e => .error e
      | .ok ps => .ok (if i.isInt then ND.scalar (a.row0.getD (ps.getD 0 0) 0) a.isBool
                       else ND.vec (ps.map (fun k => a.row0.getD k 0)) a.isBool)
    | .m =>
      match i.npPositions a.data.length with
      | .error e => .error e
      | .ok ps => .ok (if i.isInt then ND.vec (a.data.getD (ps.getD 0 0) []) a.isBool
                       else ND.mat (ps.map (fun k => a.data.getD k [])) a.isBool)
    | .s => .error .index
  | .two m n =>
    match a.shape with
    | .m =>
      match m.npPositions a.data.length, n.npPositions (shapeOf a.data).2 with
      | .ok ms, .ok ns =>
        let el (r c : Nat) : Rat := (a.data.getD r []).getD c 0
        if m.isAdvanced && n.isAdvanced then
          -- both advanced: paired (broadcast when one has length 1)
          if ms.length = ns.length then .ok (ND.vec ((List.zip ms ns).map (fun p => el p.1 p.2)) a.isBool)
          else if ms.length = 1 then .ok (ND.vec (ns.map (fun c => el (ms.getD 0 0) c)) a.isBool)
          else if ns.length = 1 then .ok (ND.vec (ms.map (fun r => el r (ns.getD 0 0))) a.isBool)
          else .error .shape
        else if m.isInt && n.isInt then .ok (ND.scalar (el (ms.getD 0 0) (ns.getD 0 0)) a.isBool)
        else if m.isInt then .ok (ND.vec (ns.map (fun c => el (ms.getD 0 0) c)) a.isBool)
        else if n.isInt then .ok (ND.vec (ms.map (fun r => el r (ns.getD 0 0))) a.isBool)
        else .ok (ND.mat (ms.map (fun r => ns.map (fun c => el r c))) a.isBool)
      | .error e, _ => .error e
      | _, .error e => .error e
    | _ => .error .index

def castTo (isBool : Bool) (x : Rat) : Rat := if isBool then b2r (x != 0) else x

def setEl (A : Mat) (r c : Nat) (x : Rat) : Mat := A.set r ((A.getD r []).set c x)

/-- `a[idx] = v`; the result is the new array.  `v` has been stripped of leading axes of length 1. -/
def npSetIdx (a : ND) (i : Idx2) (v : ND) : Except NpErr ND :=
  let cast := castTo a.isBool
  match a.shape, i with
  | .v, .one i =>
    match i.npPositions a.row0.length with
    | .error e => .error e
    | .ok ps =>
      match v.shape with
      | .m => .error .shape
      | _ =>
        let vals := v.row0.map cast
        if i.isInt && v.shape != .s then .error .shape else
        match npSetMany a.row0 ps vals false with
        | .error e => .error e
        | .ok r => .ok { a with data := [r] }
  | .m, idx =>
    let nr := a.data.length
    let nc := (shapeOf a.data).2
    -- the selection as a list of rows of (r, c) positions (1 × k for a 1-d selection)
    let sel : Except NpErr (List (List (Nat × Nat)) × Bool) :=   -- Bool: the selection is 1-d
      match idx with
      | .one m =>
        match m.npPositions nr with
        | .error e => .error e
        | .ok ms => .ok (ms.map (fun r => (List.range nc).map (fun c => (r, c))), m.isInt)
      | .two m n =>
        match m.npPositions nr, n.npPositions nc with
        | .ok ms, .ok ns =>
          if m.isAdvanced && n.isAdvanced then
            if ms.length = ns.length then .ok ([List.zip ms ns], true)
            else if ms.length = 1 then .ok ([ns.map (fun c => (ms.getD 0 0, c))], true)
            else if ns.length = 1 then .ok ([ms.map (fun r => (r, ns.getD 0 0))], true)
            else .error .shape
          else if m.isInt then .ok ([ns.map (fun c => (ms.getD 0 0, c))], true)
          else if n.isInt then .ok ([ms.map (fun r => (r, ns.getD 0 0))], true)
          else .ok (ms.map (fun r => ns.map (fun c => (r, c))), false)
        | .error e, _ => .error e
        | _, .error e => .error e
    match sel with
    | .error e => .error e
    | .ok (grid, oneD) =>
      let isScalarSel := match idx with | .two m n => m.isInt && n.isInt | _ => false
      let h := grid.length
      let w := (grid.getD 0 []).length
      -- broadcast the value to h × w
      let vm : Except NpErr Mat :=
        match v.shape with
        | .s => .ok (List.replicate h (List.replicate w (cast v.x0)))
        | .v =>
          if isScalarSel then .error .shape
          else if v.row0.length = w then .ok (List.replicate h (v.row0.map cast))
          else if v.row0.length = 1 then .ok (List.replicate h (List.replicate w (cast v.x0)))
          else .error .shape
        | .m =>
          if oneD then .error .shape else
          let rowsOK := v.data.all (fun r => r.length == w || r.length == 1)
          if !rowsOK then .error .shape
          else if v.data.length = h then .ok (v.data.map (fun r => if r.length = w then r.map cast else List.replicate w (cast (r.getD 0 0))))
          else if v.data.length = 1 then .ok (List.replicate h ((v.data.getD 0 []).map cast))
          else .error .shape
      match vm with
      | .error e => .error e
      | .ok vm =>
        .ok { a with data :=
          (List.zip grid vm).foldl (fun A p => (List.zip p.1 p.2).foldl (fun A q => setEl A q.1.1 q.1.2 q.2) A) a.data }
  | _, _ => .error .index

def Operand.toNDr (s : Store) (inplace : Bool) : Operand → Option ND
  | .lit l => l.toND.map ND.strip
  | .ref i => (s.toND i).map (fun a => if inplace then a.strip else a)

/-- the objects an operation mentions -/
def opRefs : Op → List Nat
  | .new _ | .newSV _ _ | .newDict _ _ | .newSize _ => []
  | .newSA rows => rows
  | .copyCtor a | .neg a | .abs a | .invert a | .get a _ | .reduce _ a _ _ | .copy a | .toArray a | .clear a
  | .removeNegatives a | .hasNegatives a | .nonzeroKeys a | .nonzeroItems a | .negativeKeys a | .positiveKeys a
  | .setflags a | .setRO a _ | .sumOf a _ | .rbin _ _ a => [a]
  | .bin _ a b | .ibin _ a b | .set a _ b | .sparseEqual a b => a :: (match b with | .ref j => [j] | _ => [])
  | .mixFrom a os => a :: os
  | .copyLike a b => [a, b]

def npSide (s : Store) : Op → Option (Except NpErr ND)
  | .new l => l.toND.map .ok
  | .newSV l none => l.toND.map .ok
  | .newSA rows =>
    match rows.mapM s.toND with
    | some l => some (.ok (ND.mat (l.map (·.row0)) (match l with | x :: _ => x.isBool | [] => false)))
    | none => undef
  | .bin op a b =>
    match s.toND a, b.toNDr s false with
    | some x, some y => some (npBin op x y)
    | _, _ => undef
  | .rbin op b a =>
    match b.toND, s.toND a with
    | some x, some y => some (npBin op x y)
    | _, _ => undef
  | .ibin op a b =>
    match s.toND a, b.toNDr s true with
    | some x, some y => some (npIBin op x y)
    | _, _ => undef
  | .neg a => match s.toND a with | some x => some (npNeg x) | none => undef
  | .abs a => match s.toND a with | some x => some (.ok (npAbs x)) | none => undef
  | .invert a => match s.toND a with | some x => some (npInvert x) | none => undef
  | .get a i => match s.toND a with | some x => some (npGetIdx x i) | none => undef
  | .set a i v =>
    match s.toND a, v.toNDr s true with
    | some x, some y => some (npSetIdx x i y)
    | _, _ => undef
  | .reduce r a axis kd => match s.toND a with | some x => some (npReduce r x axis kd) | none => undef
  | .copy a | .toArray a => match s.toND a with | some x => some (.ok x) | none => undef
  | .clear a => match s.toND a with | some x => some (.ok { x with data := x.data.map (·.map (fun _ => 0)) }) | none => undef
  | .removeNegatives a =>
    match s.toND a with
    | some x => some (.ok { x with data := x.data.map (·.map (fun y => if y < 0 then 0 else y)) })
    | none => undef
  | .copyLike _ b => match s.toND b with | some x => some (.ok x) | none => undef
  | .mixFrom _ others =>
    match others.mapM s.toND with
    | some (x :: rest) =>
      some (rest.foldl (fun acc y => acc.bind (fun z => npBin .add { z with isBool := false } { y with isBool := false })) (.ok { x with isBool := false }))
    | _ => none
  | _ => none

end ThermoVerif.Sparse
