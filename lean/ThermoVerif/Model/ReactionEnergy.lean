/-
Executable model of the energy bookkeeping of thermosteam reactions (property C06).

Mirrors, as the code is:
  * `Reaction.dH`                      (thermosteam/reaction/_reaction.py:749-798)
  * `Reaction._reaction`, `ParallelReaction._reaction`, `SeriesReaction._reaction`,
    `ReactionSystem._reaction`, the feasibility step of `Reaction.__call__`
  * the mol / wt routing of `as_material_array` for streams
  * `Stream.Hf`, `Stream.Hnet`         (thermosteam/_stream.py:1166-1177)
  * `Reaction.adiabatic_reaction`      (thermosteam/reaction/_reaction.py:726-730)

Conventions.  A material array is a flat vector over *species* `s = p * N + i`
(phase row `p`, chemical column `i`, `N` chemicals); an untagged reaction on a single-phase
stream has one row.  Vectors are lists read through `get` (0 outside), every operation is
tabulated over the `S = rows * N` species, so no shape side conditions are needed.
The mixture enthalpy `H(n, T)` is *not* modelled: its recorded values enter as numbers.

Core Lean only (compiled into the driver); polymorphic in the scalar type so that the
same definitions run over `Rat` in the driver and are reasoned about over any ordered field.
-/
namespace ThermoVerif.ReactionEnergy

inductive Err
  | invalidPhase      -- RuntimeError("invalid phase ...") in Reaction.dH
  | invalidRef        -- RuntimeError("invalid reference phase ...") in Reaction.dH
  | infeasible        -- InfeasibleRegion in Reaction.__call__
  deriving DecidableEq, Repr

/-- thermosteam's phase labels -/
inductive Phase
  | s | l | g | S | L
  deriving DecidableEq, Repr

inductive Basis
  | mol | wt
  deriving DecidableEq, Repr

section Vec
variable {α : Type}

/-- `Σ_{i<n} f i` (left to right) -/
def sumN [Zero α] [Add α] (f : Nat → α) : Nat → α
  | 0 => 0
  | n + 1 => sumN f n + f n

def get [Zero α] (v : List α) (i : Nat) : α := v.getD i 0

def tab (n : Nat) (f : Nat → α) : List α := (List.range n).map f

def dotN [Zero α] [Add α] [Mul α] (n : Nat) (a b : List α) : α :=
  sumN (fun i => get a i * get b i) n

/-- `y + s • x`, tabulated over `n` entries -/
def axpy [Zero α] [Add α] [Mul α] (n : Nat) (s : α) (x y : List α) : List α :=
  tab n (fun i => get y i + s * get x i)

/-- collect `f 0 … f (n-1)`; the first failing index decides the error (row-major loop of the code) -/
def collect (f : Nat → Except Err α) : Nat → Except Err (List α)
  | 0 => .ok []
  | n + 1 =>
    match collect f n with
    | .error e => .error e
    | .ok l =>
      match f n with
      | .error e => .error e
      | .ok v => .ok (l ++ [v])

end Vec

/-! ### Chemicals package and the latent-heat table -/

/-- What the code reads from the compiled chemicals: `Hf`, `MW`, `Hvap(298.15)`, `Hfus`, `phase_ref`. -/
structure Pkg (α : Type) where
  N : Nat
  hf : List α
  mw : List α
  hvap : List α
  hfus : List α
  ref : List Phase

/-- The `if phase_ref == … / elif phase == …` table of `Reaction.dH`
(reference phase `ref`, reaction phase `ph`); no entry is looked up when `ref = ph`. -/
def latent {α : Type} [Zero α] [Add α] [Neg α] (hvap hfus : α) (ref ph : Phase) : Except Err α :=
  if ref = ph then .ok 0 else
  match ref, ph with
  | .l, .g => .ok hvap
  | .l, .s => .ok (-hfus)
  | .l, _ => .error .invalidPhase
  | .g, .l => .ok (-hvap)
  | .g, .s => .ok (-(hvap + hfus))
  | .g, _ => .error .invalidPhase
  | .s, .l => .ok hfus
  | .s, .g => .ok (hfus + hvap)
  | .s, _ => .error .invalidPhase
  | _, _ => .error .invalidRef

/-- One stoichiometric reaction: flat stoichiometry (already rescaled by the code), flat reactant index, conversion. -/
structure Rxn (α : Type) where
  nu : List α
  r : Nat
  X : α

section Model
variable {α : Type} [Zero α] [Add α] [Mul α] [Sub α] [Neg α] [Div α] [DecidableEq α] [LT α] [DecidableLT α]

/-- number of species: `N` for an untagged reaction, `rows * N` for a phase-tagged one -/
def nSpecies (pkg : Pkg α) (phases : List Phase) : Nat :=
  if phases.isEmpty then pkg.N else phases.length * pkg.N

def refOf (pkg : Pkg α) (c : Nat) : Phase := pkg.ref.getD c .l

/-- `H_latent[i, j]` of `Reaction.dH` for species `s` (zero when the reaction is untagged, when the chemical is
in its reference phase, or when its coefficient is zero). -/
def latS (pkg : Pkg α) (phases : List Phase) (nu : List α) (s : Nat) : Except Err α :=
  match phases[s / pkg.N]? with
  | none => .ok 0
  | some ph =>
    if get nu s = 0 then .ok 0
    else latent (get pkg.hvap (s % pkg.N)) (get pkg.hfus (s % pkg.N)) (refOf pkg (s % pkg.N)) ph

def latVec (pkg : Pkg α) (phases : List Phase) (nu : List α) : Except Err (List α) :=
  collect (latS pkg phases nu) (nSpecies pkg phases)

/-- `Hfs` (+ `H_latent`), divided by `MWs` on the weight basis: the per-species coefficient of `Reaction.dH` -/
def coef (pkg : Pkg α) (basis : Basis) (lat : List α) (s : Nat) : α :=
  match basis with
  | .mol => get pkg.hf (s % pkg.N) + get lat s
  | .wt => (get pkg.hf (s % pkg.N) + get lat s) / get pkg.mw (s % pkg.N)

/-- `self._X * (Hfs * stoichiometry).sum()` -/
def dHcore (pkg : Pkg α) (basis : Basis) (S : Nat) (lat : List α) (r : Rxn α) : α :=
  r.X * sumN (fun s => coef pkg basis lat s * get r.nu s) S

/-- `Reaction.dH` -/
def dH (pkg : Pkg α) (basis : Basis) (phases : List Phase) (r : Rxn α) : Except Err α :=
  match latVec pkg phases r.nu with
  | .error e => .error e
  | .ok lat => .ok (dHcore pkg basis (nSpecies pkg phases) lat r)

/-! ### Material update -/

/-- `Reaction._reaction`: `m += m[r] * X * ν` -/
def applyOne (S : Nat) (r : Rxn α) (m : List α) : List α :=
  axpy S (get m r.r * r.X) r.nu m

/-- `ParallelReaction._reaction`: every extent is taken from the feed `m0` -/
def applyPar (S : Nat) (m0 : List α) : List (Rxn α) → List α → List α
  | [], acc => acc
  | r :: t, acc => applyPar S m0 t (axpy S (get m0 r.r * r.X) r.nu acc)

/-- `SeriesReaction._reaction`: every extent is taken from the running material -/
def applySer (S : Nat) : List (Rxn α) → List α → List α
  | [], m => m
  | r :: t, m => applySer S t (applyOne S r m)

/-- the three reaction classes a `ReactionSystem` may hold -/
inductive Block (α : Type)
  | single (r : Rxn α)
  | par (rs : List (Rxn α))
  | ser (rs : List (Rxn α))

def applyBlock (S : Nat) : Block α → List α → List α
  | .single r, m => applyOne S r m
  | .par rs, m => applyPar S m rs m
  | .ser rs, m => applySer S rs m

/-- `ReactionSystem._reaction` -/
def applySys (S : Nat) : List (Block α) → List α → List α
  | [], m => m
  | b :: t, m => applySys S t (applyBlock S b m)

/-! ### Heat released: `Σ_k d_k · (reactant seen by reaction k)`, `d` any per-reaction coefficient -/

def heatPar (d : Rxn α → α) (m0 : List α) : List (Rxn α) → α
  | [] => 0
  | r :: t => d r * get m0 r.r + heatPar d m0 t

def heatSer (d : Rxn α → α) (S : Nat) : List (Rxn α) → List α → α
  | [], _ => 0
  | r :: t, m => d r * get m r.r + heatSer d S t (applyOne S r m)

def heatBlock (d : Rxn α → α) (S : Nat) : Block α → List α → α
  | .single r, m => d r * get m r.r
  | .par rs, m => heatPar d m rs
  | .ser rs, m => heatSer d S rs m

def heatSys (d : Rxn α → α) (S : Nat) : List (Block α) → List α → α
  | [], _ => 0
  | b :: t, m => heatBlock d S b m + heatSys d S t (applyBlock S b m)

/-! ### Feasibility step of `Reaction.__call__` -/

def negSum (S : Nat) (m : List α) : α :=
  sumN (fun s => if get m s < 0 then get m s else 0) S

def clamp (S : Nat) (m : List α) : List α :=
  tab S (fun s => if get m s < 0 then 0 else get m s)

/-- raise when the negative entries sum below `-tol` (`tol` = 1e-12 in the code), otherwise zero them -/
def feas (tol : α) (S : Nat) (m : List α) : Except Err (List α) :=
  if negSum S m < -tol then .error .infeasible else .ok (clamp S m)

/-! ### Streams: molar flows `n`, routed through mass flows on the weight basis -/

def weight (pkg : Pkg α) (s : Nat) : α := get pkg.mw (s % pkg.N)

def toBasis (pkg : Pkg α) (basis : Basis) (S : Nat) (n : List α) : List α :=
  match basis with
  | .mol => tab S (fun s => get n s)
  | .wt => tab S (fun s => get n s * weight pkg s)

def fromBasis (pkg : Pkg α) (basis : Basis) (S : Nat) (m : List α) : List α :=
  match basis with
  | .mol => tab S (fun s => get m s)
  | .wt => tab S (fun s => get m s / weight pkg s)

/-- `rxn(stream)` for a reaction system given as blocks (a single / parallel / series reaction is a one-block system) -/
def reactStream (tol : α) (pkg : Pkg α) (basis : Basis) (S : Nat) (bs : List (Block α)) (n : List α) :
    Except Err (List α) :=
  match feas tol S (applySys S bs (toBasis pkg basis S n)) with
  | .error e => .error e
  | .ok m' => .ok (fromBasis pkg basis S m')

/-- `Stream.Hf = (chemicals.Hf * mol).sum()` -/
def hfStream (pkg : Pkg α) (S : Nat) (n : List α) : α :=
  sumN (fun s => get pkg.hf (s % pkg.N) * get n s) S

/-- `Stream.Hnet = H + Hf` -/
def hnet (pkg : Pkg α) (S : Nat) (H : α) (n : List α) : α := H + hfStream pkg S n

/-- `adiabatic_reaction`: `Hnet = stream.Hnet + Q; self(stream); stream.H = Hnet - stream.Hf`.
Returns the reacted flows and the value handed to the `H` setter. -/
def adiabatic (tol : α) (pkg : Pkg α) (basis : Basis) (S : Nat) (bs : List (Block α))
    (H0 Q : α) (n : List α) : Except Err (List α × α) :=
  match reactStream tol pkg basis S bs n with
  | .error e => .error e
  | .ok n' => .ok (n', (hnet pkg S H0 n + Q) - hfStream pkg S n')

/-- `Stream.Hnet = value` (the setter: `self.H = Hnet - self.Hf`): the value handed to the `H` setter -/
def setHnetTarget (pkg : Pkg α) (S : Nat) (V : α) (n : List α) : α := V - hfStream pkg S n

end Model

end ThermoVerif.ReactionEnergy
