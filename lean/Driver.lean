import Driver.Main
