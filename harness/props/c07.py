"""
C07 — pure-component and mixture enthalpy/entropy are thermodynamically consistent.

Lean side
  Generated/FreeEnergy.lean   the 21 enthalpy/entropy functors of thermosteam/free_energy.py, TRANSLATED from the
                              source on every run by harness/translate_free_energy.py (`prebuild()` below)
  Model/FreeEnergy.lean       hand model of Chemical._init_energies (wiring for the 3 reference phases and for
                              phase-locked chemicals), PhaseTPHandle dispatch, `_init_data`'s Sfus, `_set_phase_ref`, the three
                              ideal mixture models, Mixture.S / xH / xS
  Props/C07.lean              the theorems (ℝ, arbitrary heat-capacity functions)
  Driver/C07.lean             the same definitions evaluated in Float

Adapter (this file) drives the real code through its public API:
  chem …     real `Chemical` objects: ~45 bundled chemicals × 3 reference phases, the same with Hfus/Tm given to
             the constructor, with Tm/Tb moved through the public setters, phase-locked chemicals through every
             public route (Chemical(phase=), at_state in place, at_state(copy=True), Chemical.copy of a locked one),
             Chemical.copy_models_from (explicit name lists and automatic mode), Chemical.copy histories (another Cn method selected for the original or the copy, with/without reset_free_energies), and blank chemicals with arbitrary Tm, Tb, Hfus, Sfus, Hvap and polynomial heat capacities.
             `wiring` reads the functor class and the constants actually stored in chemical.H.s/.l/.g, chemical.S.*
             and compares them with the model's `_init_energies` fed the integrals measured on the real Cn objects
             (table `tab`); `H`/`S` compare values.
             H/S/Cn and mixtures are also called with the alias phase labels 'L' (second liquid phase) and 'S'.
  fn …       every translated functor against the Python functor on random parameters (fake Cn with closed-form integrals)
  mix …      IdealTPMixtureModel / IdealTMixtureModel / IdealEntropyModel through `IdealMixture` and real streams
  mixupd …   the same mixture object evaluated at one (phase, T, P), before and after a member chemical's data is updated
             in place through the public API (Hfus / Sfus / S0 setters, Cn.<phase>.add_method): it must follow the current pure values
Oracle (real objects only): reference values, finite-difference derivatives, pressure term, jumps at Tb and Tm,
mixture linearity/extensivity, the ideal mixing term and "mixing never lowers S" on real streams.
"""
from __future__ import annotations
import math, random, warnings
from harness import core
from harness.core import Case, ImplResult, close, fbits, from_fbits

PID = 'C07'
LEAN_MODULES = ['ThermoVerif.Props.C07']
RULE = ('three case families. chem: a real Chemical (bundled × reference phase s/l/g; constructor-given Hfus,Tm; Tm/Tb moved '
        'by the setters; phase-locked; blank chemicals with random Tm, Tb, Hfus, Sfus|None, Hvap, S0 and polynomial Cn) — '
        'its wiring (functor class + every stored constant of H.s/l/g, S.s/l/g) and H/S values at random (phase, T, P) are '
        'compared with the model; fn: each of the 21 translated functors on random parameters; mix: mixture H/S/Cn on '
        'random compositions (zeros included) of 2–6 chemicals, single- and multi-phase; mixupd: the same mixture re-evaluated at the '
        'same (phase, T, P) after an in-place update of one member chemical (Hfus/Sfus/S0 setter, Cn.add_method). non-trivial = at least one compared '
        'value or wiring line and one oracle evaluation; distinct = distinct op lists')
ASSUMPTIONS = [
    'HeatCap laws on the real Cn objects (additivity of both integrals; d/dT I = Cn, d/dT J = Cn/T) are hypotheses of the '
    'theorems; monitored by finite differences on the Cn objects themselves (tags monitor:*): thermo 0.6.1 violates the J-law '
    'numerically for several liquid polynomial fits (catastrophic cancellation), see known finding dS/dT:external-J-precision',
    'the integrals the model wires are the values measured by the adapter on the same Cn objects (table, exact bit patterns)',
    'inputs of the model taken from the real chemical (parameters, not recomputed): Tm, Tb, Hfus, S0 (database values), Hvap(Tb) '
    '(external correlation), bool(Cn.<phase>); Sfus is DERIVED by the model (`init … auto` = initSfus Hfus Tm) for every chemical built by '
    '_init_data and not modified since (db, ctor, lock, copy, set without Tm) and is an input only for blank chemicals and after the Tm setter',
    'mix / mixS / xsum lines carry the real pure-component values as parameters; the model re-adds them. The independent check is the '
    'oracle (mixture value vs the chemicals\' own H/S/Cn called separately, per phase for the multi-phase functions)',
    'the excess functors themselves (equation of state) are not modelled: with include_excess_energies the per-chemical excess values are parameters recorded from the real chemicals; force_gas_critical_phase is modelled as the phase override it is',
    'universe of bundled chemicals = those of a fixed candidate list whose Cn (s, l, g), Tm, Tb, Hvap(Tb), Hfus are all available',
    'Python float arithmetic vs Lean Float: same IEEE operations in the same order; values compared with rtol 1e-9 (sum() is compensated in 3.12)',
]
TRUSTED = ['Lean 4.33 kernel', 'harness/translate_free_energy.py (its output is cross-checked numerically against the Python functors, '
           'and its signature/builder tables against the real classes, on every run)',
           'harness/props/c07.py + Driver/C07.lean', 'generator reach (see histogram)']

CANDIDATES = ['Water', 'Ethanol', 'Methanol', 'Propanol', 'Butanol', 'Benzene', 'Toluene', 'Acetone', 'Hexane', 'Heptane',
              'Octane', 'Pentane', 'Butane', 'Propane', 'Ethane', 'Methane', 'CO2', 'N2', 'O2', 'Ammonia', 'Glycerol',
              'AceticAcid', 'FormicAcid', 'Ethylene', 'Propylene', 'Cyclohexane', 'Phenol', 'Furfural', 'EthylAcetate',
              'DiethylEther', 'Chloroform', 'Acetaldehyde', 'LacticAcid', 'Octanol', 'Decane', 'Dodecane', 'o-Xylene',
              'Styrene', 'Isopropanol', 'Isobutanol', 'SO2', 'H2S', 'Argon', 'CO', 'H2', 'HCl', 'Acetonitrile',
              'Tetrahydrofuran', 'DMSO', 'EthyleneGlycol',
              # complete Cn / Tm / Tb / Hvap data but NO heat of fusion in the database (Hfus = Sfus = 0.0): the falsy-zero corner
              # of every `Hfus` test (setters, _init_data)
              'HMF', 'Vanillin', 'TributylPhosphate']
XPHASES = [('l', 'g'), ('s', 'l'), ('s', 'l', 'g'), ('l', 'L'), ('L', 'g', 's'), ('g', 's'), ('l', 'L', 'g'), ('S', 'l')]
RESET_KINDS = ('Tb', 'Tm', 'phase_ref', 'reset', 'cmf', 'methodR')
LOCK_ROUTES = ['ctor', 'inplace', 'copy', 'copy', 'copyof', 'copyof-inplace', 'relock']
LOCK_GRID_IDS = ['Water', 'Ethanol', 'CO2', 'Benzene', 'Glycerol']
MIX_IDS = ['Water', 'Ethanol', 'Methanol', 'Glycerol', 'Propane', 'N2', 'Octanol', 'Benzene', 'CO2', 'AceticAcid', 'Hexane', 'Ammonia']

tmo = None
TDP = None
FE = None
UNIVERSE = []            # IDs with complete data
_CHEMS = {}              # cache of real chemicals by spec
_MIX = {}
_OLD_METHOD = {}
_EDITS = {}           # id(chemical) -> (chemical, [(Sfus, Hfus, Tm before, Hfus, Tm, Sfus after), …]) for `set` chemicals
_DEFAULT_REF = {}
R = None


# --------------------------------------------------------------------------
# translator hook
# --------------------------------------------------------------------------
GEN = core.LEAN / 'ThermoVerif' / 'Generated' / 'FreeEnergy.lean'
_RESTORE = {}


def _sync_generated(build_driver):
    """Translate the CURRENT thermosteam/free_energy.py (core.REPO honours VERIF_REPO) into Generated/FreeEnergy.lean and
    make sure the compiled driver is the one of that text.  When the run is against another tree than /repo
    (VERIF_REPO) the previous text of the shared file is put back when the process exits (lake notices the changed
    hash and rebuilds on the next run)."""
    import atexit, os, subprocess
    from harness import translate_free_energy as tr
    before = GEN.read_text(encoding='utf-8') if GEN.exists() else None
    changed = tr.translate(core.REPO, GEN)
    if changed and before is not None and os.environ.get('VERIF_REPO') and 'text' not in _RESTORE:
        _RESTORE.update(text=before, pid=os.getpid())
        def restore():
            if os.getpid() == _RESTORE['pid']:
                tmp = GEN.with_suffix('.lean.tmp'); tmp.write_text(_RESTORE['text'], encoding='utf-8'); tmp.replace(GEN)
        atexit.register(restore)
    # the driver is rebuilt only when it is not the one of this text (stamp written after our own build): an unchanged
    # tree costs nothing and concurrent checks of the same tree do not touch the executable
    import hashlib
    stamp = core.LEAN / '.lake' / 'c07_driver_generated.sha256'
    sha = hashlib.sha256(GEN.read_bytes()).hexdigest()
    if build_driver and not changed and stamp.exists() and stamp.read_text().strip() == sha and core.DRIVER.exists():
        build_driver = False
    if build_driver:
        r = subprocess.run(['lake', 'build', 'driver'], cwd=core.LEAN, stdout=subprocess.PIPE, stderr=subprocess.STDOUT, text=True)
        if r.returncode != 0:
            raise RuntimeError('lake build driver failed after translating free_energy.py: ' + r.stdout[-800:])
        try: stamp.write_text(sha)
        except OSError: pass
    return changed


def prebuild():
    """Regenerate lean/ThermoVerif/Generated/FreeEnergy.lean from the CURRENT thermosteam/free_energy.py
    (core.REPO honours VERIF_REPO).  Raises on anything outside the accepted grammar → broken obligation."""
    _sync_generated(build_driver=False)


def setup():
    global tmo, TDP, FE, R
    import thermosteam as tmo_
    from thermo import TDependentProperty
    from thermosteam import free_energy
    tmo, TDP, FE = tmo_, TDependentProperty, free_energy
    R = tmo.constants.R
    warnings.simplefilter('ignore')
    # also on the paths of main.py that do not call prebuild() or do not rebuild the driver (--replay, --no-lean): the
    # generated definitions and the driver executable are those of the tree under test.  A translation failure is
    # reported by prebuild() as a broken obligation; here it must not stop the run.
    import multiprocessing
    if multiprocessing.current_process().name == 'MainProcess':
        try:
            _sync_generated(build_driver=True)
        except Exception:
            pass
    UNIVERSE[:] = []
    for ID in CANDIDATES:
        try:
            c = tmo.Chemical(ID, cache=False)
        except Exception:
            continue
        if complete(c): UNIVERSE.append(ID)
        _CHEMS[('db', ID, c.phase_ref)] = c
        _DEFAULT_REF[ID] = c.phase_ref


def complete(c):
    try:
        if c.locked_state or not isinstance(c.Cn, tmo.base.PhaseHandle): return False
        if not (c.Tm and c.Tb and c.Hfus is not None and c.Hvap and c.H is not None): return False
        if not all(bool(getattr(c.Cn, p)) for p in 'slg'): return False
        hv = c.Hvap(c.Tb)
        if not hv or not math.isfinite(hv): return False
        for p in 'slg':
            Cn = getattr(c.Cn, p)
            for a, b in ((c.T_ref, c.Tm), (c.Tm, c.Tb), (c.Tb, c.T_ref)):
                for m in (Cn.T_dependent_property_integral, Cn.T_dependent_property_integral_over_T):
                    v = m(a, b)
                    if v is None or not math.isfinite(v): return False
        return True
    except Exception:
        return False


def budget(tier):
    return {'quick': dict(seconds=45, cases=5000, shrink_s=15, search_s=5),
            'thorough': dict(seconds=400, cases=60000, shrink_s=40, search_s=20)}[tier]


# --------------------------------------------------------------------------
# real chemicals
# --------------------------------------------------------------------------
class FakeCn:
    """heat capacity a0 + a1 T + a2 T² with closed-form integrals (used only for the `fn` functor tests)"""
    def __init__(self, a0, a1, a2): self.a = (a0, a1, a2)
    def T_dependent_property_integral(self, x, y):
        a0, a1, a2 = self.a
        return a0 * (y - x) + a1 * (y * y - x * x) / 2.0 + a2 * (y * y * y - x * x * x) / 3.0
    def T_dependent_property_integral_over_T(self, x, y):
        a0, a1, a2 = self.a
        return a0 * math.log(y / x) + a1 * (y - x) + a2 * (y * y - x * x) / 2.0


def poly_fn(a):
    a0, a1, a2 = a
    return lambda T: a0 + a1 * T + a2 * T * T


def ftok(x):
    return 'none' if x is None else fbits(float(x))


def ptok(t):
    return None if t == 'none' else float(t)


def get_chem(spec):
    """spec: tuple of tokens after `chem`."""
    nocache = any(tok.startswith(('Tref=', 'Href=')) for tok in spec)      # built under temporary reference conditions
    spec = tuple(tok for tok in spec if not tok.startswith(('Tref=', 'Href=')))
    # a chemical whose spec ends with "evaluate, then switch": what is examined is the FIRST call afterwards → always fresh
    nocache = nocache or spec[0] == 'switch' or any(tok.startswith('T0=') for tok in spec)
    key = tuple(spec)
    if key in _CHEMS and not nocache: return _CHEMS[key]
    kind = spec[0]
    if kind == 'db':
        c = tmo.Chemical(spec[1], phase_ref=spec[2], cache=False)
    elif kind == 'ctor':
        base = get_chem(('db', spec[1], 'l'))
        c = tmo.Chemical(spec[1], phase_ref=spec[2], Hfus=base.Hfus, Tm=base.Tm, cache=False)
    elif kind == 'set':
        base = get_chem(('db', spec[1], spec[2]))
        c = base.copy(base.ID + '_set')
        # set <ID> <ref> <Tm|-> <Tb|-> [Sfus=<x>] [Hfus=<y>]: public setters, in this order: Sfus (a value of the user's own),
        # Tm, Tb, Hfus.  The stored (Sfus, Hfus, Tm) around every Tm / Hfus edit are recorded for the `sfusedit` lines.
        extra = dict(tok.split('=') for tok in spec[5:])
        edits = []
        if 'Sfus' in extra: c.Sfus = float(extra['Sfus'])
        if spec[3] != '-':
            before = (c.Sfus, c.Hfus, c.Tm); c.Tm = float(spec[3]); edits.append(before + (c.Hfus, c.Tm, c.Sfus))
        if spec[4] != '-': c.Tb = float(spec[4])
        if 'Hfus' in extra:
            before = (c.Sfus, c.Hfus, c.Tm); c.Hfus = float(extra['Hfus']); edits.append(before + (c.Hfus, c.Tm, c.Sfus))
        if 'S0' in extra: c.S0 = float(extra['S0'])
        _EDITS[id(c)] = (c, edits)
    elif kind == 'lock':
        # lock <ID> <phase> [route [reference phase of the chemical before locking]] — every public route to a locked chemical
        extra = dict(tok.split('=') for tok in spec if '=' in tok)       # S0=<x>: the public setter, AFTER locking
        spec = tuple(tok for tok in spec if '=' not in tok)
        ID, ph = spec[1], spec[2]
        route = spec[3] if len(spec) > 3 else 'ctor'
        ref = spec[4] if len(spec) > 4 else None
        fresh = lambda: tmo.Chemical(ID, cache=False) if ref is None else tmo.Chemical(ID, phase_ref=ref, cache=False)
        if route == 'ctor':                       # Chemical(ID, phase=…)
            c = tmo.Chemical(ID, phase=ph, cache=False)
        elif route == 'inplace':                  # chemical.at_state(phase)
            c = fresh(); c.at_state(ph)
        elif route == 'copy':                     # chemical.at_state(phase, copy=True)
            c = fresh().at_state(ph, copy=True)
        elif route == 'copyof':                   # Chemical.copy of a locked chemical
            c = tmo.Chemical(ID, phase=ph, cache=False).copy(ID + '_copy')
        elif route == 'copyof-inplace':           # … of a chemical locked in place
            b = fresh(); b.at_state(ph); c = b.copy(ID + '_copy')
        elif route == 'relock':                   # at_state on an already locked chemical (same phase: no-op)
            c = fresh(); c.at_state(ph); c.at_state(ph)
        else:
            raise ValueError('unknown lock route ' + route)
        if 'S0' in extra: c.S0 = float(extra['S0'])
    elif kind == 'copy':
        # copy <ID> <ref> <variant> <subject A|B> <phase> <k>: B = A.copy(); then another heat-capacity method is selected for
        # ONE of the two (variant: none | orig-reset | copy-reset | copy-noreset); the subject is the chemical examined
        ID, ref, variant, subject, ph, k = spec[1], spec[2], spec[3], spec[4], spec[5], int(spec[6])
        T0 = float(spec[7][3:]) if len(spec) > 7 and spec[7].startswith('T0=') else None
        A = tmo.Chemical(ID, phase_ref=ref, cache=False)
        B = A.copy(ID + '_copy')
        who = {'none': None, 'orig-reset': A, 'copy-reset': B, 'copy-noreset': B}[variant]
        if who is not None:
            switch_cn_method(getattr(who.Cn, ph), k, who, T0)
            if variant != 'copy-noreset': who.reset_free_energies()
        c = A if subject == 'A' else B
    elif kind == 'switch':
        # switch <ID> <ref> <phase> <k> <T0> <reset|noreset>: Cn(phase, T0) is evaluated, another Cn method is selected through
        # the `method` setter, [reset_free_energies()]; the chemical is then examined at exactly T0
        ID, ref, ph, k, T0, how = spec[1], spec[2], spec[3], int(spec[4]), float(spec[5]), spec[6]
        c = tmo.Chemical(ID, phase_ref=ref, cache=False)
        try: c.Cn(ph, T0)
        except Exception: pass
        switch_cn_method(getattr(c.Cn, ph), k, c, T0)
        if how == 'reset': c.reset_free_energies()
    elif kind == 'cmf':
        # cmf <ID> <ref> <OtherID> <names|auto>: Chemical.copy_models_from.  With an explicit name list (e.g. Cn, Hvap, Cn+Hvap,
        # V+Cn, V) the models of a bundled chemical are replaced by those of another one; `auto` fills a blank chemical that
        # has the data of <ID> but no models at all with every model of <OtherID>.
        ID, ref, other_ID, names = spec[1], spec[2], spec[3], spec[4]
        other = tmo.Chemical(other_ID, cache=False)
        if names == 'auto':
            base = get_chem(('db', ID, ref))
            # (no Tc, Pc, omega: the blank chemical must not estimate models of its own, or `auto` has nothing to fill)
            c = tmo.Chemical.blank('Synth', phase_ref=ref, MW=base.MW, Tm=base.Tm, Tb=base.Tb, Hfus=base.Hfus)
            c.copy_models_from(other)
            c.Sfus = base.Hfus / base.Tm
            c.S0 = 50.0
        else:
            c = tmo.Chemical(ID, phase_ref=ref, cache=False)
            c.copy_models_from(other, names.split('+'))
    elif kind == 'synth':
        ref, Tm, Tb, Hfus, Sfus, Hvap, S0 = spec[1], ptok(spec[2]), ptok(spec[3]), ptok(spec[4]), ptok(spec[5]), ptok(spec[6]), float(spec[7])
        data = dict(phase_ref=ref, MW=50.)
        if Tm is not None: data['Tm'] = Tm
        if Tb is not None: data['Tb'] = Tb
        if Hfus is not None: data['Hfus'] = Hfus
        c = tmo.Chemical.blank('Synth', **data)
        for ph, tok in zip('slg', spec[8:11]):
            if tok == 'none': continue
            a = [float(x) for x in tok.split(',')]
            Cn = getattr(c.Cn, ph)
            if a[1] == 0 and a[2] == 0: Cn.add_method(a[0])
            else: Cn.add_method(poly_fn(a), 1.0, 5000.0, 'USER')
        if Hvap is not None: c.Hvap.add_method(Hvap)
        c.reset_free_energies()
        if Sfus is not None: c.Sfus = Sfus
        c.S0 = S0
    else:
        raise ValueError('unknown chem spec ' + ' '.join(spec))
    if nocache: return c
    if len(_CHEMS) > 400: _CHEMS.clear(); _EDITS.clear()
    _CHEMS[key] = c
    return c


def canon(ph):
    """the phase a label stands for: 'L' (second liquid phase) is the liquid, 'S' the solid (PhaseHandle.L / .S)"""
    return {'L': 'l', 'S': 's'}.get(ph, ph)


def switch_cn_method(Cn, k, chem, T0=None):
    """select another method of the heat-capacity object through the public `method` setter: the k-th (cyclically) of the
    other available methods that evaluates and integrates between the reference temperatures; returns its name or None.
    With T0: the history is  Cn(T0) under the old method → `Cn.method = new`  with nothing in between, so that a later
    call at exactly T0 is the first call after the switch."""
    if T0 is not None:
        m = switch_cn_method(Cn, k, chem)
        if m is None: return None
        Cn.method = chem_old = _OLD_METHOD.pop(id(Cn))
        try: Cn(T0)
        except Exception: pass
        Cn.method = m
        return m
    cur = Cn.method
    _OLD_METHOD[id(Cn)] = cur
    others = sorted(m for m in Cn.all_methods if m != cur)
    bounds = [chem.T_ref] + [float(x) for x in (chem.Tm, chem.Tb) if x]
    for j in range(len(others)):
        m = others[(k + j) % len(others)]
        try:
            Cn.method = m
            ok = all(math.isfinite(float(Cn(t))) and float(Cn(t)) > 0 for t in bounds)
            for a in bounds:
                for b in bounds:
                    for f in (Cn.T_dependent_property_integral, Cn.T_dependent_property_integral_over_T):
                        v = safe_int(f, a, b)
                        ok = ok and v is not None and math.isfinite(v)
            if ok: return m
        except Exception:
            pass
    Cn.method = cur
    return None


def cn_objects(c):
    """{phase: Cn object} as `_init_energies` sees them"""
    if c.locked_state: return {c.locked_state: c.Cn}
    return {p: getattr(c.Cn, p) for p in 'slg'}


def safe_int(m, a, b):
    old = TDP.RAISE_PROPERTY_CALCULATION_ERROR
    TDP.RAISE_PROPERTY_CALCULATION_ERROR = False
    try:
        v = m(a, b)
    except Exception:
        v = None
    finally:
        TDP.RAISE_PROPERTY_CALCULATION_ERROR = old
    if v is None: return None
    v = float(v)
    return v


def hvap_at_tb(c):
    if not (c.Hvap and c.Tb): return None
    old = TDP.RAISE_PROPERTY_CALCULATION_ERROR
    TDP.RAISE_PROPERTY_CALCULATION_ERROR = False
    try:
        v = c.Hvap(c.Tb)
    except Exception:
        v = None
    finally:
        TDP.RAISE_PROPERTY_CALCULATION_ERROR = old
    return v


class Session:
    """one real chemical and the protocol lines describing it"""
    def __init__(self, c, spec=()):
        self.c = c
        # was the chemical built by `_init_data` and were Tm / Hfus / Sfus left alone since?  Then Sfus must be Hfus/Tm
        # and the MODEL derives it (`init … auto`); otherwise (Tm moved by the setter, blank chemical with its own Sfus)
        # the stored value is the user's and is passed as an input
        kind = spec[0] if spec else ''
        # (since fix C07-5 the Tm / Hfus setters keep a derived Sfus consistent: `set` chemicals are `auto` too unless the
        # user gave them an Sfus of their own first)
        self.sfus_auto = kind in ('db', 'ctor', 'lock', 'copy', 'switch') or (kind == 'cmf' and spec[4] != 'auto') or (kind == 'set' and not any(t.startswith('Sfus=') for t in spec))
        self.cns = cn_objects(c)
        self.sent = set()
        self.cnname = {id(o): 'Cn.' + p for p, o in self.cns.items()}

    def bounds(self):
        c = self.c
        return [c.T_ref] + [float(x) for x in (c.Tm, c.Tb) if x]

    def head(self):
        c = self.c
        return [f'env {fbits(R)} {fbits(c.T_ref)} {fbits(c.P_ref)} {fbits(c.H_ref)}']

    def tabs(self, temps=()):
        """table lines for all integrals between the reference temperatures (and up to `temps`)"""
        out = []
        bs = self.bounds()
        for p, Cn in self.cns.items():
            if not Cn: continue
            for a in bs:
                for b in list(bs) + list(temps):
                    for k, m in (('I', Cn.T_dependent_property_integral), ('J', Cn.T_dependent_property_integral_over_T)):
                        key = (p, k, a, b)
                        if key in self.sent: continue
                        self.sent.add(key)
                        v = safe_int(m, a, b)
                        if v is None: continue
                        out.append(f'tab {p} {k} {fbits(a)} {fbits(b)} {fbits(v)}')
        return out

    def init_line(self):
        c = self.c
        if c.locked_state:
            has = [bool(c.Cn)] * 3
        else:
            has = [bool(getattr(c.Cn, p)) for p in 'slg']
        return ('init %s %s %d %d %d %s %s %s %s %s %s' % (
            c.phase_ref, c.locked_state or '-', has[0], has[1], has[2], ftok(c.Tm), ftok(c.Tb), ftok(c.Hfus),
            'auto' if self.sfus_auto else ftok(c.Sfus), ftok(hvap_at_tb(c)), ftok(c.S0)))

    def init_answer(self):
        c = self.c
        if c.H is None: return 'none'
        return 'locked' if c.locked_state else 'handles'

    def show_inst(self, f):
        if f is None: return 'none'
        toks = [type(f).__name__]
        for k, v in f.__dict__.items():
            if id(v) in self.cnname: s = self.cnname[id(v)]
            elif v is None: s = 'none'
            elif isinstance(v, (int, float)): s = fbits(float(v))
            else: s = 'obj:' + type(v).__name__
            toks.append(f'{k}={s}')
        return ' '.join(toks)

    def functor(self, kind, ph):
        c = self.c
        h = c.H if kind == 'H' else c.S
        if h is None: return None
        if c.locked_state: return h
        return getattr(h, ph)

    def value(self, kind, ph, T, P):
        c = self.c
        h = c.H if kind == 'H' else c.S
        if c.locked_state: return h(T, P)
        return h(ph, T, P)

    def value_tok(self, kind, ph, T, P):
        try:
            return fbits(self.value(kind, ph, T, P))
        except TypeError:
            return 'err:TypeError'
        except Exception as e:
            return 'err:' + type(e).__name__


# --------------------------------------------------------------------------
# oracle on real chemicals
# --------------------------------------------------------------------------
def rel_ok(a, b, scale, rtol):
    return abs(a - b) <= rtol * max(abs(scale), abs(a), abs(b), 1e-30)


def fd(f, T, h):
    # central difference with one Richardson step (error O(h^4)), so that strongly curved heat capacities
    # near the critical point do not show up as a truncation error
    d1 = (f(T + h) - f(T - h)) / (2 * h)
    d2 = (f(T + h / 2) - f(T - h / 2)) / h
    return (4 * d2 - d1) / 3


def deriv_check(f, g, T, h, rtol):
    """is f'(T) = g(T)?  A kink of a piecewise correlation inside [T-h, T+h] is not a failure: the test is repeated at
    two shifted temperatures and fails only if it fails at all three.  Returns (ok, observed, expected)."""
    last = None
    for Tk in (T, T + 7 * h, T - 7 * h):
        d, e = fd(f, Tk, h), g(Tk)
        if rel_ok(d, e, e, rtol): return True, d, e
        if last is None: last = (d, e)
    return False, last[0], last[1]


def sfus_none_case(c, kind, ph):
    """is a TypeError of chemical.S(ph, …) explained by a missing entropy of fusion (Sfus is None)?
    (DESIGN.md §8 #21, fixed in /repo by 7c3427a: a database chemical must not get here any more)"""
    if kind != 'S' or c.Sfus is not None or c.locked_state: return False
    ref, ph = c.phase_ref, canon(ph)
    return (ph == 's' and ref in 'lg') or (ph in 'lg' and ref == 's')


class Oracle:
    def __init__(self, sess, failures, tags, idx):
        self.s, self.c, self.failures, self.tags, self.idx = sess, sess.c, failures, tags, idx
        self.count = 0

    def fail(self, sig, what):
        self.failures.append({'signature': sig, 'op_index': self.idx(), 'what': f'{describe(self.c)}: {what}'})

    def val(self, kind, ph, T, P):
        """value, or None after recording why not"""
        self.count += 1
        try:
            v = self.s.value(kind, ph, T, P)
        except TypeError as e:
            if sfus_none_case(self.c, kind, ph) and self.c.ID == 'Synth':
                # a blank chemical built without an entropy of fusion: outside the property's quantifier
                self.tags.append('oracle-skip:blank-chemical-without-Sfus')
            elif sfus_none_case(self.c, kind, ph):
                self.fail('solid-entropy:Sfus-None',
                          f'S({ph!r}, {T}, {P}) raises TypeError: Sfus is None (reference phase {self.c.phase_ref!r}); '
                          f'Hfus={self.c.Hfus}, Tm={self.c.Tm} are known, so the entropy of fusion Hfus/Tm is defined')
            else:
                self.fail(f'unexpected-TypeError:{kind}.{ph}', f'{kind}({ph!r}, {T}, {P}) raises TypeError: {e}')
            return None
        except Exception as e:
            self.fail(f'raises:{type(e).__name__}:{kind}.{ph}', f'{kind}({ph!r}, {T}, {P}) raises {type(e).__name__}: {str(e)[:200]}')
            return None
        if not isinstance(v, float) or not math.isfinite(v):
            self.fail(f'non-finite:{kind}.{ph}', f'{kind}({ph!r}, {T}, {P}) = {v!r}')
            return None
        return v

    def phases(self):
        return [self.c.locked_state] if self.c.locked_state else list('slgLS')

    # the alias labels 'L' (second liquid phase) and 'S' denote the liquid and the solid: H, S, Cn must agree
    def alias(self, T, P):
        c = self.c
        if c.locked_state: return
        for lab in 'LS':
            self.tags.append('label:' + lab)
            for kind in 'HS':
                a = self.val(kind, lab, T, P)
                b = self.val(kind, canon(lab), T, P)
                if a is None or b is None: continue
                if a != b:
                    self.fail(f'phase-alias:{kind}.{lab}', f'{kind}({lab!r}, {T}, {P}) = {a!r} but {kind}({canon(lab)!r}, {T}, {P}) = {b!r}: '
                              f'the label {lab!r} is the {"liquid" if lab == "L" else "solid"} (Cn({lab!r}) = Cn({canon(lab)!r}) = {c.Cn(lab, T)!r})')
            try:
                if c.Cn(lab, T) != c.Cn(canon(lab), T):
                    self.fail(f'phase-alias:Cn.{lab}', f'Cn({lab!r}, {T}) = {c.Cn(lab, T)!r} but Cn({canon(lab)!r}, {T}) = {c.Cn(canon(lab), T)!r}')
            except Exception as e:
                self.tags.append('oracle-skip:alias:' + type(e).__name__)

    # H(ref phase, T_ref, P_ref) = H_ref ; S(...) = S0
    def ref(self, ph=None):
        c = self.c
        if ph is None:
            for lab in 'LS':                     # the reference state through the alias label as well
                if canon(lab) == c.phase_ref and not c.locked_state: self.ref(lab)
            ph = c.phase_ref
        h = self.val('H', ph, c.T_ref, c.P_ref)
        if h is not None and not abs(h - c.H_ref) <= 1e-9 * max(1.0, abs(c.H_ref)):
            self.fail('ref-state:H', f'H({ph!r}, T_ref, P_ref) = {h!r}, expected H_ref = {c.H_ref!r}')
        s = self.val('S', ph, c.T_ref, c.P_ref)
        if s is not None and not abs(s - c.S0) <= 1e-9 * max(1.0, abs(c.S0)):
            self.fail('ref-state:S', f'S({ph!r}, T_ref, P_ref) = {s!r}, expected S0 = {c.S0!r}')

    # dH/dT = Cn, dS/dT = Cn/T
    def deriv(self, ph, T, P):
        c, s = self.c, self.s
        Cn = s.cns.get(canon(ph))
        if not Cn: return
        h = 2e-4 * T
        # the chemical's own heat capacity for that phase label, through the public handle
        cn = (lambda t: float(Cn(t))) if c.locked_state else (lambda t: float(c.Cn(ph, t)))
        try:
            first = cn(T)                       # the first call at this temperature in this op
        except Exception:
            return
        # Cn(phase, T) must be the value of the model that is selected NOW (the one H and S integrate): compare with the
        # dependency's uncached evaluation of the same object
        try:
            cur = float(Cn.T_dependent_property(T))
            self.count += 1
            if not rel_ok(first, cur, cur, 1e-12):
                self.fail(f'Cn:{ph}:not-the-current-model-value',
                          f'Cn({ph!r}, {T}) = {first!r} but the selected method {Cn.method} gives {cur!r} at that temperature '
                          f'(dH/dT there is {fd(lambda t: s.value("H", ph, t, P), T, h)!r})')
                return
        except Exception as e:
            self.tags.append('oracle-skip:cn-current:' + type(e).__name__)
        a = s.bounds()[0]
        for kind, intm, expect, law in (('H', Cn.T_dependent_property_integral, cn, 'I'),
                                       ('S', Cn.T_dependent_property_integral_over_T, lambda t: cn(t) / t, 'J')):
            if self.val(kind, ph, T, P) is None: continue
            try:
                # (1) thermosteam's part: differences of H (S) are the integral of the phase's own Cn
                T2 = T + 10.0
                d = s.value(kind, ph, T2, P) - s.value(kind, ph, T, P)
                i12 = float(intm(T, T2))
                scale = max(abs(s.value(kind, ph, T2, P)), abs(s.value(kind, ph, T, P)), abs(i12))
                # the functor's own lower bound is one of T_ref, Tm, Tb: H(T2) - H(T) must be I(a, T2) - I(a, T) for one of them
                # exactly (no allowance for the Cn object's additivity defect: that would mask errors of thermosteam's part)
                cand = [float(intm(x, T2)) - float(intm(x, T)) for x in s.bounds()]
                add = max(abs(float(intm(x, T)) + i12 - float(intm(x, T2))) for x in s.bounds())
                if add > 1e-9 * scale: self.tags.append(f'monitor:{law}-additivity-defect:' + str(Cn.method))
                if not any(abs(d - x) <= 1e-9 * scale for x in cand + [i12]):
                    self.fail(f'd{kind}/dT:{ph}:not-the-integral-of-Cn.{ph}',
                              f'{kind}({ph!r},{T2}) - {kind}({ph!r},{T}) = {d!r} but Cn.{ph} integrates to {i12!r}')
                    continue
                # (2) the derivative itself, by central differences
                ok, dobs, dexp = deriv_check(lambda t: s.value(kind, ph, t, P), expect, T, h, 5e-5)
                # (3) monitor of the HeatCap law on the Cn object itself
                lok, lobs, lexp = deriv_check(lambda t: float(intm(a, t)), expect, T, h, 5e-5)
                self.tags.append(f'monitor:{law}-law-' + ('ok' if lok else 'fails:' + str(Cn.method)))
                if not ok:
                    if not lok:
                        self.fail(f'd{kind}/dT:external-{law}-precision',
                                  f'd{kind}/dT({ph!r}, {T}) = {dobs!r} by central differences (h={h}) but Cn/T… = {dexp!r}; '
                                  f'the Cn.{ph} object itself (thermo method {Cn.method}) gives {lobs!r} for d/dT of its own '
                                  f'integral{"_over_T" if law == "J" else ""}: its value is computed with catastrophic cancellation')
                    else:
                        self.fail(f'd{kind}/dT:{ph}', f'd{kind}/dT({ph!r}, {T}) = {dobs!r} by central differences, expected {dexp!r}')
            except Exception as e:
                self.tags.append('oracle-skip:deriv:' + type(e).__name__)

    # gas entropy falls by R ln(P2/P1); everything else does not depend on P
    def press(self, T, P1, P2):
        for ph in self.phases():
            for kind in 'HS':
                v1 = self.val(kind, ph, T, P1)
                if v1 is None: continue
                v2 = self.val(kind, ph, T, P2)
                if v2 is None: continue
                exp = -R * math.log(P2 / P1) if (kind == 'S' and ph == 'g') else 0.0    # labels L, S are condensed phases
                if not abs((v2 - v1) - exp) <= 1e-9 * max(1.0, abs(v1), abs(v2)):
                    sig = 'gas-entropy:pressure-term' if (kind == 'S' and ph == 'g') else f'pressure-dependence:{kind}.{ph}'
                    self.fail(sig, f'{kind}({ph!r},{T},{P2}) - {kind}({ph!r},{T},{P1}) = {v2 - v1!r}, expected {exp!r}')

    def jump(self, which, P=None):
        c = self.c
        if c.locked_state: return
        if which == 'Tb':
            Tt, lo, hi = c.Tb, 'l', 'g'
            dH = hvap_at_tb(c)
            dS = None if not dH else dH / Tt
        else:
            Tt, lo, hi = c.Tm, 's', 'l'
            dH = c.Hfus
            dS = None if (dH is None or not Tt) else dH / Tt
        if not Tt or dH is None: return
        if P is None: P = c.P_ref
        elif which == 'Tb' and dS is not None: dS = dS - R * math.log(P / c.P_ref)      # gas entropy at another pressure
        a, b = self.val('H', hi, Tt, P), self.val('H', lo, Tt, P)
        if a is not None and b is not None:
            if not rel_ok(a - b, dH, max(abs(a), abs(b)), 1e-9):
                self.fail(f'jump:{which}:H', f'H({hi!r},{which}) - H({lo!r},{which}) = {a - b!r}, expected {dH!r}')
        a, b = self.val('S', hi, Tt, P), self.val('S', lo, Tt, P)
        if a is not None and b is not None:
            if not rel_ok(a - b, dS, max(abs(a), abs(b)), 1e-9):
                if which == 'Tm' and not self.s.sfus_auto and c.Sfus is not None \
                        and rel_ok(a - b, c.Sfus, max(abs(a), abs(b)), 1e-9):
                    # the user gave the chemical an Sfus of their own (Sfus setter; blank chemicals): the jump is that stored
                    # value by the user's choice.  Everything else — also after the Tm / Hfus setters — must give Hfus / Tm
                    self.tags.append('Sfus-not-Hfus/Tm:user-set-Sfus')
                else:
                    self.fail(f'jump:{which}:S', f'S({hi!r},{which}) - S({lo!r},{which}) = {a - b!r}, expected {dS!r}')


def describe(c):
    return (f'Chemical {c.ID} (phase_ref={c.phase_ref!r}, locked={c.locked_state!r}, Tm={c.Tm}, Tb={c.Tb}, Hfus={c.Hfus}, '
            f'Sfus={c.Sfus})')


# --------------------------------------------------------------------------
# mixtures
# --------------------------------------------------------------------------
def get_mix(ids):
    key = tuple(ids)
    if key not in _MIX:
        chems = []
        for x in ids:
            if ':' in x:
                ID, ph = x.split(':'); chems.append(get_chem(('lock', ID, ph)))
            else:
                chems.append(get_chem(('db', x, get_chem_default_ref(x))))
        chemicals = tmo.Chemicals(chems)
        thermo = tmo.Thermo(chemicals, cache=False)
        _MIX[key] = (list(chemicals), thermo)
    return _MIX[key]


def get_chem_default_ref(ID):
    if ID not in _DEFAULT_REF:
        c = tmo.Chemical(ID, cache=False)
        _DEFAULT_REF[ID] = c.phase_ref
        _CHEMS[('db', ID, c.phase_ref)] = c
    return _DEFAULT_REF[ID]


def pure_value(c, kind, ph, T, P):
    f = getattr(c, kind)
    if f is None: raise TypeError(f'{kind} is None')
    if kind == 'Cn':
        return f(T) if c.locked_state else f(ph, T)
    return f(T, P) if c.locked_state else f(ph, T, P)


def csv(xs):
    return ','.join(fbits(x) for x in xs)


def run_mix(t, emit, failures, tags, idx):
    import numpy as np
    ids = t[1].split(',')
    ph, T, P = t[2], float(t[3]), float(t[4])
    n = [float(x) for x in t[5].split(',')]
    m = [float(x) for x in t[6].split(',')]
    k = float(t[7])
    chems, thermo = get_mix(ids)
    mix = thermo.mixture
    count = 0

    def fail(sig, what):
        failures.append({'signature': sig, 'op_index': idx(),
                         'what': f'mixture of {t[1]} phase {ph!r} T={T} P={P} mol={n}: {what}'})
    pure = {}
    if ph in 'LS': tags.append('label:mix:' + ph)
    for kind in ('H', 'S', 'Cn'):
        try:
            # 'L' / 'S' are labels of the liquid / solid: the pure values are those of the phase they stand for
            pure[kind] = [float(pure_value(c, kind, canon(ph), T, P)) for c in chems]
        except TypeError:
            pure[kind] = None          # a pure value cannot be evaluated: nothing to mix
            tags.append('mix-skip:' + kind)
    call = {'H': lambda mol: mix.H(ph, np.array(mol), T, P), 'S': lambda mol: mix.S(ph, np.array(mol), T, P),
            'Cn': lambda mol: mix.Cn(ph, np.array(mol), T)}
    nm = [a + b for a, b in zip(n, m)]
    kn = [k * a for a in n]
    for kind in ('H', 'S', 'Cn'):
        vals = pure[kind]
        if vals is None: continue
        v = float(call[kind](n))
        emit(('mixS' if kind == 'S' else 'mix') + f' {csv(n)} {csv(vals)}', fbits(v))
        count += 1
        tot = sum(n)
        lin = math.fsum(a * b for a, b in zip(n, vals))
        scale = math.fsum(abs(a * b) for a, b in zip(n, vals)) + 1e-12
        if kind in ('H', 'Cn'):
            # mole-weighted sum, additive, extensive
            if not abs(v - lin) <= 1e-9 * scale:
                fail(f'mixture-{kind}:not-mole-weighted-sum', f'mixture.{kind} = {v!r}, sum n_i {kind}_i = {lin!r}')
            vm, vnm, vkn = float(call[kind](m)), float(call[kind](nm)), float(call[kind](kn))
            sc2 = scale + math.fsum(abs(a * b) for a, b in zip(m, vals))
            if not abs(vnm - (v + vm)) <= 1e-9 * sc2:
                fail(f'mixture-{kind}:not-additive', f'{kind}(n+m) = {vnm!r} but {kind}(n) + {kind}(m) = {v + vm!r} (m={m})')
            if not abs(vkn - k * v) <= 1e-9 * abs(k) * scale:
                fail(f'mixture-{kind}:not-extensive', f'{kind}({k} n) = {vkn!r} but {k} {kind}(n) = {k * v!r}')
        else:
            # S_mix − Σ n_i s_i = −R Σ n_i ln x_i  (≥ 0)
            if tot > 0:
                ideal = -R * math.fsum(a * math.log(a / tot) for a in n if a)
                code = math.fsum(a * math.log(a / tot) for a in n if a)       # what IdealEntropyModel adds today
                got = v - lin
                if not abs(got - ideal) <= 1e-9 * (scale + abs(ideal)):
                    if abs(got - code) <= 1e-9 * (scale + abs(code)):
                        fail('mixture-entropy:mixing-term-sign',
                             f'S_mix - sum n_i s_i = {got!r}; the ideal mixing term -R sum n_i ln x_i = {ideal!r} '
                             f'(the code adds +sum n_i ln x_i: wrong sign, no R)')
                    else:
                        fail('mixture-entropy:mixing-term-wrong',
                             f'S_mix - sum n_i s_i = {got!r}; the ideal mixing term -R sum n_i ln x_i = {ideal!r}')
            vkn = float(call['S'](kn))
            if not abs(vkn - k * v) <= 1e-9 * abs(k) * (scale + abs(v)):
                fail('mixture-S:not-extensive', f'S({k} n) = {vkn!r} but {k} S(n) = {k * v!r}')
    # multi-phase: xH, xS, xCn over a phase set (two or three phases; solid and the alias labels included)
    if pure['H'] is not None:
        phs = XPHASES[int(abs(k) * 7 + len(n)) % len(XPHASES)]
        mols = [n, m, nm][:len(phs)]
        tags.append('xphases:' + ''.join(phs))
        try:
            pm = [(q, np.array(v)) for q, v in zip(phs, mols)]
            pv = {q: {kd: [float(pure_value(c, kd, canon(q), T, P)) for c in chems] for kd in ('H', 'Cn')} for q in phs}
            for kd, fx, f1 in (('H', lambda: mix.xH(pm, T, P), lambda q, v: mix.H(q, np.array(v), T, P)),
                               ('S', lambda: mix.xS(pm, T, P), lambda q, v: mix.S(q, np.array(v), T, P)),
                               ('Cn', lambda: mix.xCn(pm, T), lambda q, v: mix.Cn(q, np.array(v), T))):
                parts = [float(f1(q, v)) for q, v in zip(phs, mols)]
                tot_x = float(fx())
                emit(f'xsum {csv(parts)}', fbits(tot_x))
                count += 1
                if kd == 'S':
                    # per phase: sum n_i s_i(phase) + the mixing term (the code's — known finding #20 — or the ideal one)
                    try:
                        ps = {q: [float(pure_value(c, 'S', canon(q), T, P)) for c in chems] for q in phs}
                    except TypeError:
                        continue
                    def sterm(v):
                        tt = sum(v)
                        return math.fsum(a * math.log(a / tt) for a in v if a) if tt > 0 else 0.0
                    lin_s = math.fsum(x * y for q, v in zip(phs, mols) for x, y in zip(v, ps[q]))
                    sc_s = math.fsum(abs(x * y) for q, v in zip(phs, mols) for x, y in zip(v, ps[q])) + 1e-12
                    tcode = math.fsum(sterm(v) for v in mols)
                    if not any(abs(tot_x - lin_s - x) <= 1e-9 * (sc_s + abs(x)) for x in (tcode, -R * tcode)):
                        fail('multiphase-xS:not-the-sum-over-phases',
                             f'xS over phases {phs} = {tot_x!r} but sum over phases of (sum n_i S_i + mixing term) = '
                             f'{lin_s + tcode!r} (code term) / {lin_s - R * tcode!r} (ideal term)')
                    continue
                # independent expectation: sum over phases and chemicals of n * pure value of that phase
                exp = math.fsum(x * y for q, v in zip(phs, mols) for x, y in zip(v, pv[q][kd]))
                sc = math.fsum(abs(x * y) for q, v in zip(phs, mols) for x, y in zip(v, pv[q][kd])) + 1e-12
                if not abs(tot_x - exp) <= 1e-9 * sc:
                    fail(f'multiphase-x{kd}:not-the-sum-over-phases',
                         f'x{kd} over phases {phs} = {tot_x!r} but sum over phases and chemicals of n_i {kd}_i(phase) = {exp!r}')
        except TypeError:
            tags.append('mix-skip:x')
    # real streams: mixing at equal T and P never lowers S
    if pure['S'] is not None and sum(n) > 0 and sum(m) > 0:
        a = tmo.Stream(None, T=T, P=P, phase=ph, thermo=thermo); a.imol.data[:] = n
        b = tmo.Stream(None, T=T, P=P, phase=ph, thermo=thermo); b.imol.data[:] = m
        o = tmo.Stream(None, T=T, P=P, phase=ph, thermo=thermo)
        o.mix_from([a, b], energy_balance=False)
        o.T = T; o.P = P
        Sa, Sb, So = a.S, b.S, o.S
        count += 1
        if pure['H'] is not None:
            linH = math.fsum(x * y for x, y in zip(n, pure['H']))
            scH = math.fsum(abs(x * y) for x, y in zip(n, pure['H'])) + 1e-12
            if not abs(a.H - linH) <= 1e-9 * scH:
                fail('stream-H:not-mole-weighted-sum', f'Stream(phase={ph!r}).H = {a.H!r} but sum n_i H_i({canon(ph)!r}, T, P) = {linH!r}')
        if So < Sa + Sb - 1e-9 * (abs(Sa) + abs(Sb) + 1.0):
            # proportional streams: mixing changes nothing, S must be exactly additive; otherwise it must not fall
            fail('mixture-entropy:mixing-term-sign' if mixing_sign_explains(n, m, So - Sa - Sb) else 'mixture-entropy:mixing-lowers-S',
                 f'streams a={n}, b={m} at equal T, P: S(mixed) - S(a) - S(b) = {So - Sa - Sb!r} < 0')
    return count


def run_mixx(t, emit, failures, tags, idx):
    """mixx <ID,..> <phase> <T> <P> <n,..> <m,..> <k> <0|1>: Mixture.H / S with include_excess_energies = flag.
    The per-chemical excess values H_excess_i, S_excess_i(phase, T, P) are parameters recorded from the real chemicals."""
    import numpy as np
    ids = t[1].split(',')
    ph, T, P = t[2], float(t[3]), float(t[4])
    n = [float(x) for x in t[5].split(',')]
    m = [float(x) for x in t[6].split(',')]
    k, flag = float(t[7]), t[8] == '1'
    key = ('x', flag) + tuple(ids)
    if key not in _MIX:
        chems, _ = get_mix(ids)
        chemicals = tmo.Chemicals(chems)
        mx = tmo.IdealMixture.from_chemicals(chemicals, include_excess_energies=flag)
        _MIX[key] = (list(chemicals), mx)
    chems, mix = _MIX[key]
    count = 0
    try:
        h = [float(pure_value(c, 'H', ph, T, P)) for c in chems]
        sv = [float(pure_value(c, 'S', ph, T, P)) for c in chems]
        hx = [float(pure_value(c, 'H_excess', ph, T, P)) for c in chems]
        sx = [float(pure_value(c, 'S_excess', ph, T, P)) for c in chems]
    except Exception as e:
        tags.append('mixx-skip:' + type(e).__name__); return 0
    if not all(math.isfinite(x) for x in h + sv + hx + sx):
        tags.append('mixx-skip:non-finite'); return 0
    H = lambda mol: float(mix.H(ph, np.array(mol), T, P))
    S = lambda mol: float(mix.S(ph, np.array(mol), T, P))
    f = '1' if flag else '0'
    v = H(n)
    emit(f'mixx {f} {csv(n)} {csv(h)} {csv(hx)}', fbits(v))
    emit(f'mixSx {f} {csv(n)} {csv(sv)} {csv(sx)}', fbits(S(n)))
    if any(hx): tags.append('mixx:nonzero-excess:' + f)
    eff = [a + (b if flag else 0.0) for a, b in zip(h, hx)]
    lin = math.fsum(a * b for a, b in zip(n, eff))
    scale = math.fsum(abs(a * b) for a, b in zip(n, h)) + math.fsum(abs(a * b) for a, b in zip(n, hx)) + 1e-12
    count += 1

    def fail(sig, what):
        failures.append({'signature': sig, 'op_index': idx(),
                         'what': f'mixture of {t[1]} (include_excess_energies={flag}) phase {ph!r} T={T} P={P} mol={n}: {what}'})
    if not abs(v - lin) <= 1e-9 * scale:
        fail('mixture-H:excess-flag:not-mole-weighted-sum', f'mixture.H = {v!r}, sum n_i (H_i + [flag] H_excess_i) = {lin!r}')
    # S with the flag: mole-weighted (s_i + [flag] sx_i) plus the mixing term (the code's +sum n ln x — known finding #20 —
    # or the ideal one; nothing else), extensive, additive at equal composition
    sval = S(n)
    effs = [a + (b if flag else 0.0) for a, b in zip(sv, sx)]
    lins = math.fsum(a * b for a, b in zip(n, effs))
    scs = math.fsum(abs(a * b) for a, b in zip(n, sv)) + math.fsum(abs(a * b) for a, b in zip(n, sx)) + 1e-12
    tot = sum(n)
    term = math.fsum(a * math.log(a / tot) for a in n if a) if tot > 0 else 0.0
    count += 1
    if not any(abs(sval - lins - x) <= 1e-9 * (scs + abs(x)) for x in (term, -R * term)):
        fail('mixture-S:excess-flag:wrong', f'mixture.S = {sval!r} but sum n_i (S_i + [flag] S_excess_i) = {lins!r} and the mixing term is '
             f'{term!r} (code) or {-R * term!r} (ideal)')
    skn, s3 = S([k * a for a in n]), S([3.0 * a for a in n])
    if not abs(skn - k * sval) <= 1e-9 * abs(k) * (scs + abs(sval)):
        fail('mixture-S:excess-flag:not-extensive', f'S({k} n) = {skn!r} but {k} S(n) = {k * sval!r}')
    if not abs(S([4.0 * a for a in n]) - (sval + s3)) <= 1e-9 * 4 * (scs + abs(sval)):
        fail('mixture-S:excess-flag:not-additive', f'S(n + 3n) = {S([4.0 * a for a in n])!r} but S(n) + S(3n) = {sval + s3!r}')
    vm, vnm, vkn = H(m), H([a + b for a, b in zip(n, m)]), H([k * a for a in n])
    sc2 = scale + math.fsum(abs(a * b) for a, b in zip(m, eff))
    if not abs(vnm - (v + vm)) <= 1e-9 * sc2:
        fail('mixture-H:excess-flag:not-additive', f'H(n+m) = {vnm!r} but H(n) + H(m) = {v + vm!r} (m={m})')
    if not abs(vkn - k * v) <= 1e-9 * abs(k) * scale:
        fail('mixture-H:excess-flag:not-extensive', f'H({k} n) = {vkn!r} but {k} H(n) = {k * v!r}')
    return count


def run_mixupd(t, emit, failures, tags, idx):
    """mixupd <ID,ID,..> <phase> <T> <P> <n,n,..> <kind> <member> <amount> <k>
    Evaluate the mixture at (phase, T, P); update ONE member chemical's data IN PLACE through the public API
    (kind: Hfus | Sfus | S0 setters, which patch the functor constants; Cn = `Cn.<phase>.add_method(amount)`;
    Tb | Tm | phase_ref setters and `reset` = add_method + reset_free_energies(), which rebuild the functors);
    evaluate again at EXACTLY the same (phase, T, P) on the same mixture object and compare with the mole-weighted
    sum of the CURRENT pure values.  Fresh chemicals and a fresh mixture per case (they are mutated)."""
    import numpy as np
    ids = t[1].split(',')
    ph, T, P = t[2], float(t[3]), float(t[4])
    n = [float(x) for x in t[5].split(',')]
    kind, j, amount, k = t[6], int(t[7]) % len(ids), float(t[8]), float(t[9])
    # a member written `ID:phase` is phase-locked (Chemical(ID, phase=…)): its H / S are single functors, not phase handles
    chems = [tmo.Chemical(ID.split(':')[0], phase=ID.split(':')[1], cache=False) if ':' in ID else tmo.Chemical(ID, cache=False)
             for ID in ids]
    chemicals = tmo.Chemicals(chems)
    thermo = tmo.Thermo(chemicals, cache=False)
    mix = thermo.mixture
    chems = list(chemicals)
    target = chems[j]
    count = 0

    def pure(kd):
        return [float(pure_value(c, kd, ph, T, P)) for c in chems]
    call = {'H': lambda mol: float(mix.H(ph, np.array(mol), T, P)), 'S': lambda mol: float(mix.S(ph, np.array(mol), T, P)),
            'Cn': lambda mol: float(mix.Cn(ph, np.array(mol), T))}

    def evaluate(stage, mol):
        nonlocal count
        for kd in ('H', 'S', 'Cn'):
            try:
                vals = pure(kd)
                v = call[kd](mol)
            except Exception as e:
                tags.append(f'mixupd-skip:{kd}:{type(e).__name__}'); continue
            emit(('mixS' if kd == 'S' else 'mix') + f' {csv(mol)} {csv(vals)}', fbits(v))
            count += 1
            lin = math.fsum(a * b for a, b in zip(mol, vals))
            scale = math.fsum(abs(a * b) for a, b in zip(mol, vals)) + 1e-12
            if kd == 'S':
                # the mixing term of S is the known finding (#20): accept the code's term or the ideal one, nothing else
                tot = sum(mol)
                term = math.fsum(a * math.log(a / tot) for a in mol if a) if tot > 0 else 0.0
                good = any(abs(v - lin - x) <= 1e-9 * (scale + abs(x)) for x in (term, -R * term))
            else:
                good = abs(v - lin) <= 1e-9 * scale
            if not good:
                sig = f'mixture-{kd}:not-mole-weighted-sum' if stage == 'before' else \
                    (f'mixture-{kd}:stale-after-free-energy-reset' if kind in RESET_KINDS else f'mixture-{kd}:stale-after-data-update')
                failures.append({'signature': sig, 'op_index': idx(),
                                 'what': f'mixture of {t[1]} phase {ph!r} T={T} P={P} mol={mol}, {stage} `{target.ID}.{kind}` '
                                         f'update: mixture.{kd} = {v!r} but sum n_i {kd}_i(phase,T,P) of the current pure '
                                         f'values = {lin!r}'})
    evaluate('before', n)
    # `kind` may be a '+'-joined HISTORY of edits (e.g. Tb+Tb+phase_ref): the mixture is re-evaluated after every one, so
    # that the second and later edits act on whatever the first one left behind (handle objects, functors, constants)
    history = kind.split('+')
    tags.append(f'mixupd:edits:{len(history)}')
    if target.locked_state: tags.append('mixupd:locked-member')
    any_reset = any(kd in RESET_KINDS for kd in history)
    for step, kind in enumerate(history):
        amt = amount * (1.0 - 0.45 * step) * (-1.0 if step % 2 else 1.0)
        before = {kd: _try(lambda kd=kd: pure(kd)) for kd in ('H', 'S', 'Cn')}
        if kind == 'Hfus': target.Hfus = (target.Hfus or 0.0) + amt
        elif kind == 'Sfus': target.Sfus = (target.Sfus or 0.0) + amt / 100.0
        elif kind == 'S0': target.S0 = (target.S0 or 0.0) + amt / 100.0
        elif kind == 'Cn': getattr(target.Cn, ph).add_method(20.0 + abs(amt) / 100.0 + step)
        # updates that go through Chemical.reset_free_energies (new functors; fix C07-4 keeps the handle objects)
        elif kind == 'Tb': target.Tb = min(target.Tb + amt / 100.0, 0.95 * (target.Tc or 1e9))
        elif kind == 'Tm': target.Tm = target.Tm + amt / 200.0
        elif kind == 'phase_ref': target.phase_ref = {'s': 'l', 'l': 'g', 'g': 's'}[target.phase_ref] if amt > 0 else \
            {'s': 'g', 'l': 's', 'g': 'l'}[target.phase_ref]
        elif kind == 'reset':
            getattr(target.Cn, ph).add_method(20.0 + abs(amt) / 100.0 + step); target.reset_free_energies()
        elif kind in ('method', 'methodR'):
            # another heat-capacity method through the `method` setter, right after the mixture evaluated Cn at this very T
            switch_cn_method(getattr(target.Cn, canon(ph)), int(abs(amt)) % 5, target, T)
            if kind == 'methodR': target.reset_free_energies()
            try:
                got, cur = float(target.Cn(ph, T)), float(getattr(target.Cn, canon(ph)).T_dependent_property(T))
                count += 1
                if not rel_ok(got, cur, cur, 1e-12):
                    failures.append({'signature': f'Cn:{ph}:not-the-current-model-value', 'op_index': idx(),
                                     'what': f'{target.ID} in a mixture of {t[1]}: after `Cn.{canon(ph)}.method = '
                                             f'{getattr(target.Cn, canon(ph)).method!r}` Cn({ph!r}, {T}) = {got!r} but the selected '
                                             f'method gives {cur!r} (mixture.Cn and dH/dT use different heat capacities)'})
            except Exception as e:
                tags.append('mixupd-skip:method:' + type(e).__name__)
        elif kind == 'cmf':
            # Chemical.copy_models_from with an explicit name list: the heat capacities of another chemical
            other = tmo.Chemical('Methanol' if target.ID != 'Methanol' else 'Ethanol', cache=False)
            try:
                target.copy_models_from(other, ['Cn'] if step % 2 == 0 else ['Cn', 'Hvap'])
            except TypeError:
                tags.append('mixupd-skip:cmf:thermo-cannot-integrate')      # raised by the dependency inside _init_energies
        else: raise ValueError('unknown update ' + kind)
        if kind == 'S0':
            # the edited member itself: S at its reference state is the S0 just set (also for a locked member, whose S is
            # a single functor)
            try:
                sref = float(pure_value(target, 'S', target.phase_ref, target.T_ref, target.P_ref))
                count += 1
                if not abs(sref - target.S0) <= 1e-9 * max(1.0, abs(target.S0)):
                    failures.append({'signature': 'ref-state:S', 'op_index': idx(),
                                     'what': f'{describe(target)} in a mixture of {t[1]}: after `S0 = {target.S0!r}` '
                                             f'S(phase_ref, T_ref, P_ref) = {sref!r}'})
            except Exception as e:
                tags.append('mixupd-skip:S0-ref:' + type(e).__name__)
        after = {kd: _try(lambda kd=kd: pure(kd)) for kd in ('H', 'S', 'Cn')}
        if any(before[kd] != after[kd] for kd in before): tags.append('mixupd:pure-values-changed:' + kind)
        else: tags.append('mixupd:no-effect:' + kind)
        if any_reset and kind not in RESET_KINDS: kind = 'reset'      # signature: a reset happened somewhere in the history
        if step < len(history) - 1: evaluate('after', n)
    if any_reset: kind = 'reset'
    evaluate('after', n)                      # same composition, same (phase, T, P)
    evaluate('after', [k * a for a in n])     # other composition, same (phase, T, P)
    # a brand-new stream on the same thermo object sees the current data
    try:
        s = tmo.Stream(None, T=T, P=P, phase=ph, thermo=thermo); s.imol.data[:] = n
        lin = math.fsum(a * b for a, b in zip(n, pure('H')))
        scale = math.fsum(abs(a * b) for a, b in zip(n, pure('H'))) + 1e-12
        count += 1
        if not abs(s.H - lin) <= 1e-9 * scale:
            failures.append({'signature': 'mixture-H:stale-after-free-energy-reset' if kind in RESET_KINDS else
                             'mixture-H:stale-after-data-update', 'op_index': idx(),
                             'what': f'new Stream of {t[1]} phase {ph!r} T={T} P={P} mol={n} after `{target.ID}.{kind}` update: '
                                     f'Stream.H = {s.H!r} but sum n_i H_i of the current pure values = {lin!r}'})
    except Exception as e:
        tags.append('mixupd-skip:stream:' + type(e).__name__)
    return count


def _try(f):
    try: return f()
    except Exception: return None


def mixing_sign_explains(n, m, dS):
    """is the entropy drop what `+Σ n ln x` (the known defect) predicts?"""
    def term(v):
        tot = sum(v)
        return math.fsum(a * math.log(a / tot) for a in v if a)
    nm = [a + b for a, b in zip(n, m)]
    pred = term(nm) - term(n) - term(m)
    return abs(dS - pred) <= 1e-6 * (abs(pred) + 1e-9) + 1e-7 * abs(dS)


# --------------------------------------------------------------------------
# the adapter
# --------------------------------------------------------------------------
def run_ops(ops):
    # a blank chemical may be built under other reference conditions: `… Tref=<x> Href=<y>` at the end of its spec sets the
    # class attributes Chemical.T_ref / H_ref for the duration of the case (they are read by _init_energies and by the oracle)
    over = {k: float(v) for k, _, v in (tok.partition('=') for tok in (ops[0].split(' ') if ops else [])) if k in ('Tref', 'Href')}
    if not over: return _run_ops(ops)
    old = (tmo.Chemical.T_ref, tmo.Chemical.H_ref)
    try:
        if 'Tref' in over: tmo.Chemical.T_ref = over['Tref']
        if 'Href' in over: tmo.Chemical.H_ref = over['Href']
        return _run_ops(ops)
    finally:
        tmo.Chemical.T_ref, tmo.Chemical.H_ref = old


def _run_ops(ops):
    model_in, outs, failures, tags = [], [], [], []
    def emit(line, ans):
        model_in.append(line); outs.append(ans)
    idx = lambda: max(0, len(model_in) - 1)
    sess = None
    oracle_evals = 0
    for line in ops:
        t = line.split(' ')
        op = t[0]
        if op == 'chem':
            sess = Session(get_chem(tuple(t[1:])), tuple(t[1:]))
            if any(tok.startswith('Tref=') for tok in t): tags.append('reference-conditions-varied')
            tags.append('chem:' + t[1] + ':' + (sess.c.locked_state and 'locked' or sess.c.phase_ref))
            if sess.c.Hfus is not None and t[1] == 'set' and any(x.startswith('Hfus=') for x in t) \
                    and get_chem(('db', t[2], get_chem_default_ref(t[2]))).Hfus == 0.0: tags.append('Hfus-setter-on-zero-Hfus-chemical')
            if t[1] == 'switch' or any(x.startswith('T0=') for x in t): tags.append('history:Cn(T0)-then-method-switch')
            if t[1] == 'cmf': tags.append('copy_models_from:' + t[5])
            if t[1] == 'copy': tags.append(f'copy-history:{t[4]}:{t[5]}')
            if t[1] == 'lock' and any(x.startswith('S0=') for x in t): tags.append('locked:S0-setter')
            if t[1] == 'lock':
                pos = [x for x in t if '=' not in x]
                tags.append('lock-route:' + (pos[4] if len(pos) > 4 else 'ctor') + ':' + pos[3])
            for l in sess.head(): emit(l, 'ok')
        elif op == 'wiring':
            for (s0, h0, t0, h1, t1, s1) in _EDITS.get(id(sess.c), (None, []))[1]:
                # the Tm / Hfus setters: Sfus after the edit from the stored values before and after it
                emit(f'sfusedit {ftok(s0)} {ftok(h0)} {ftok(t0)} {ftok(h1)} {ftok(t1)}', ftok(s1))
                tags.append('sfusedit:' + ('user-Sfus' if not sess.sfus_auto else 'derived'))
            for l in sess.tabs(): emit(l, 'ok')
            emit(sess.init_line(), sess.init_answer())
            for kind in 'HS':
                for ph in ([sess.c.locked_state] if sess.c.locked_state else 'slg'):
                    emit(f'wired {kind} {ph}', sess.show_inst(sess.functor(kind, ph)))
        elif op in ('H', 'S'):
            ph, T, P = t[1], float(t[2]), float(t[3])
            if sess.c.locked_state: ph = sess.c.locked_state
            if not sess.cns.get(canon(ph)): continue     # no heat-capacity model for that phase: thermo itself fails
            for l in sess.tabs([T]): emit(l, 'ok')
            if not any(l.startswith('init') for l in model_in): emit(sess.init_line(), sess.init_answer())
            emit(f'{op} {ph} {fbits(T)} {fbits(P)}', sess.value_tok(op, ph, T, P))
            if ph in 'LS': tags.append('label:' + ph)
        elif op.startswith('o:'):
            o = Oracle(sess, failures, tags, idx)
            if incomplete(sess.c):
                tags.append('oracle-skip:incomplete-data'); continue
            if op == 'o:ref': o.ref()
            elif op == 'o:deriv': o.deriv(sess.c.locked_state or t[1], float(t[2]), float(t[3]))
            elif op == 'o:press': o.press(float(t[1]), float(t[2]), float(t[3]))
            elif op == 'o:alias': o.alias(float(t[1]), float(t[2]))
            elif op == 'o:jumpTb': o.jump('Tb', float(t[1]) if len(t) > 1 else None)
            elif op == 'o:jumpTm': o.jump('Tm', float(t[1]) if len(t) > 1 else None)
            else: raise ValueError('unknown op ' + line)
            oracle_evals += o.count
        elif op == 'sfus':
            # _init_data: Sfus from the stored Hfus and Tm (constructor argument or database value)
            ID, h, tm = t[1], ptok(t[2]), ptok(t[3])
            kw = {}
            if h is not None: kw['Hfus'] = h
            if tm is not None: kw['Tm'] = tm
            c = tmo.Chemical(ID, cache=False, **kw)
            emit(f'sfus {ftok(c.Hfus)} {ftok(c.Tm)}', ftok(c.Sfus))
            oracle_evals += 1
            if c.Tm and c.Hfus is not None and not (c.Sfus is not None and rel_ok(c.Sfus, c.Hfus / c.Tm, c.Hfus / c.Tm, 1e-12)):
                failures.append({'signature': 'Sfus:not-Hfus/Tm', 'op_index': idx(),
                                 'what': f'{describe(c)} built with constructor arguments Hfus={h}, Tm={tm}: Sfus = {c.Sfus!r} '
                                         f'but Hfus / Tm = {c.Hfus / c.Tm!r}'})
        elif op == 'phaseref':
            # _set_phase_ref: default reference phase = phase at T_ref
            if t[1] == 'db':
                c = get_chem(('db', t[2], get_chem_default_ref(t[2])))
            else:
                kw = {}
                if t[2] != 'none': kw['Tm'] = float(t[2])
                if t[3] != 'none': kw['Tb'] = float(t[3])
                c = tmo.Chemical.blank('Blank', **kw)
            emit(f'env {fbits(R)} {fbits(c.T_ref)} {fbits(c.P_ref)} {fbits(c.H_ref)}', 'ok')
            emit(f'phaseref {ftok(c.Tm)} {ftok(c.Tb)}', c.phase_ref)
        elif op == 'fn':
            run_fn(t, emit, failures, tags)
        elif op == 'meta':
            run_meta(emit)
        elif op == 'mix':
            oracle_evals += run_mix(t, emit, failures, tags, idx)
        elif op == 'mixx':
            oracle_evals += run_mixx(t, emit, failures, tags, idx)
        elif op in ('Hforce', 'Sforce'):
            # chemical.H / .S with the class switch PhaseTPHandle.force_gas_critical_phase set for the call
            ph, T, P, force = t[1], float(t[2]), float(t[3]), t[4] == '1'
            c = sess.c
            if c.locked_state: ph = c.locked_state
            if not sess.cns.get(ph) or not sess.cns.get('g' if not c.locked_state else ph) or not c.Tc: continue
            for l in sess.tabs([T]): emit(l, 'ok')
            if not any(l.startswith('init') for l in model_in): emit(sess.init_line(), sess.init_answer())
            cls = tmo.base.PhaseTPHandle
            old_flag = cls.force_gas_critical_phase
            cls.force_gas_critical_phase = force
            try:
                ans = sess.value_tok(op[0], ph, T, P)
            finally:
                cls.force_gas_critical_phase = old_flag
            emit(f'{op} {int(force)} {fbits(c.Tc)} {ph} {fbits(T)} {fbits(P)}', ans)
            tags.append('force-gas:' + ('super' if T > c.Tc else 'sub') + 'critical:' + str(int(force)))
        elif op == 'mixupd':
            oracle_evals += run_mixupd(t, emit, failures, tags, idx)
        else:
            raise ValueError('unknown op ' + line)
    return model_in, outs, failures, tags, oracle_evals


def incomplete(c):
    """outside the property's quantifier: some of Cn / Tm / Tb / Hvap(Tb) / Hfus missing"""
    if c.H is None: return True
    if c.locked_state: return not bool(c.Cn)
    if not all(bool(getattr(c.Cn, p)) for p in 'slg'): return True
    return not (c.Tm and c.Tb and hvap_at_tb(c) and c.Hfus is not None)


def run_fn(t, emit, failures, tags):
    """fn <Functor> <T> <P> s=a0,a1,a2 l=… g=… par=value …   (Cn parameters: par=s|l|g)"""
    name, T, P = t[1], float(t[2]), float(t[3])
    cns, kv = {}, {}
    emit(f'env {fbits(R)} 298.15 101325.0 0.0', 'ok')
    for tok in t[4:7]:
        ph, co = tok.split('=')
        a = [float(x) for x in co.split(',')]
        cns[ph] = FakeCn(*a)
        emit(f'poly {ph} {fbits(a[0])} {fbits(a[1])} {fbits(a[2])}', 'ok')
    line = [f'fn {name} {fbits(T)} {fbits(P)}']
    for tok in t[7:]:
        k, v = tok.split('=')
        if v in cns: kv[k] = cns[v]; line.append(tok)
        elif v == 'none': kv[k] = None; line.append(tok)
        else: kv[k] = float(v); line.append(f'{k}={fbits(float(v))}')
    f = getattr(FE, name).functor(**kv)
    try:
        ans = fbits(f(T, P))
    except TypeError:
        ans = 'err:TypeError'
    emit(' '.join(line), ans)
    tags.append('fn:' + name)


def run_meta(emit):
    """signature and builder tables of the translator against the real classes"""
    from thermosteam.base.functor import TPFunctor
    from thermosteam.base.phase_handle import PhaseFunctorBuilder
    names = sorted(n for n, o in vars(FE).items() if hasattr(o, 'functor') and callable(o) and not n.startswith('Excess_')
                   and getattr(o, '__module__', '') == FE.__name__)
    for n in names:
        cls = getattr(FE, n).functor
        emit(f'sig {n}', ('TP ' if issubclass(cls, TPFunctor) else 'T ') + ','.join(cls.params) + ' var=' + (cls.var or ''))
    for n, b in sorted(vars(FE).items()):
        if isinstance(b, PhaseFunctorBuilder) and not n.startswith('Excess'):
            emit(f'builder {n}', f'{b.var} {b.s.__name__} {b.l.__name__} {b.g.__name__}')


def run_impl(case: Case) -> ImplResult:
    model_in, outs, failures, tags, oracle_evals = run_ops(case.ops)
    compared = sum(1 for l in model_in if not l.startswith(('env', 'tab', 'poly')))
    nontrivial = tuple(case.ops) if compared and (oracle_evals or case.ops[0].startswith(('fn', 'meta', 'sfus', 'phaseref', 'mixx'))) else None
    tags = sorted(set(tags)) + sorted({'op:' + l.split(' ')[0] for l in case.ops})
    return ImplResult(model_in=model_in, outs=outs, failures=failures, tags=tags, nontrivial=nontrivial)


def _num(tok):
    if tok.startswith('b') and tok[1:].isdigit(): return from_fbits(tok)
    return None


def compare(impl_line, model_line):
    if impl_line == model_line: return True
    a, b = impl_line.split(' '), model_line.split(' ')
    if len(a) != len(b): return False
    for x, y in zip(a, b):
        if x == y: continue
        kx, _, vx = x.rpartition('=')
        ky, _, vy = y.rpartition('=')
        if kx != ky: return False
        fx, fy = _num(vx), _num(vy)
        if fx is None or fy is None: return False
        if not close(fx, fy, rtol=1e-9, atol=1e-9): return False
    return True


def extra_evidence(executed, model_outs):
    import hashlib
    gen = core.LEAN / 'ThermoVerif' / 'Generated' / 'FreeEnergy.lean'
    src = core.REPO / 'thermosteam' / 'free_energy.py'
    mon = {}
    for _, res in executed:
        for t in res.tags:
            if t.startswith('monitor:'): mon[t] = mon.get(t, 0) + 1
    return {'universe_bundled_chemicals': list(UNIVERSE),
            'translated_source_sha256': hashlib.sha256(src.read_bytes()).hexdigest() if src.exists() else None,
            'generated_lean_sha256': hashlib.sha256(gen.read_bytes()).hexdigest() if gen.exists() else None,
            'heatcap_law_monitors_cases': dict(sorted(mon.items())),
            'comparison_mode': 'wiring lines: token-wise, numbers rtol 1e-9 (bit-identical in practice); values: rtol 1e-9 atol 1e-9'}


def protect_prefix(case):
    return 1 if case.ops and case.ops[0].startswith('chem') else 0


def disagree_signature(case, res, first):
    l = res.model_in[first] if first < len(res.model_in) else 'length'
    t = l.split(' ')
    if t[0] == 'wired': return f'disagree:wired:{t[1]}.{t[2]}'
    if t[0] in ('H', 'S'): return f'disagree:value:{t[0]}.{t[1]}'
    if t[0] in ('fn', 'sig', 'builder'): return f'disagree:{t[0]}:{t[1]}'
    return 'disagree:' + t[0]


def search(case, rng, budget_s):
    """near a disagreement on a chemical: run every oracle on that chemical"""
    if not case.ops or not case.ops[0].startswith('chem'): return None
    ops = [case.ops[0]] + oracle_ops(rng, get_chem(tuple(case.ops[0].split(' ')[1:])))
    res = run_impl(Case(ops))
    bad = [f for f in res.failures if f['signature'] != 'dS/dT:external-J-precision']
    return Case(ops, {'failures': [f['what'] for f in bad]}) if bad else None


# --------------------------------------------------------------------------
# generation
# --------------------------------------------------------------------------
def t_range(c, ph):
    """a temperature range inside the validity range of the phase's heat-capacity correlation"""
    Cn = cn_objects(c).get(canon(ph))
    lo, hi = 120.0, 900.0
    try:
        if Cn and Cn.Tmin is not None: lo = max(lo, float(Cn.Tmin) + 2.0)
        if Cn and Cn.Tmax is not None: hi = min(hi, float(Cn.Tmax) - 15.0)
    except Exception:
        pass
    if not lo < hi: lo, hi = 250.0, 400.0
    return lo, hi


def rnd_T(rng, c, ph):
    lo, hi = t_range(c, ph)
    r = rng.random()
    if r < 0.12 and c.Tb: return float(c.Tb)
    if r < 0.2 and c.Tm: return float(c.Tm)
    if r < 0.25: return float(c.T_ref)
    return round(rng.uniform(lo, hi), rng.choice([0, 1, 3]))


def rnd_P(rng):
    return rng.choice([101325.0, 101325.0, 5e4, 2e5, 1e6, round(rng.uniform(1e3, 5e6), 1)])


def oracle_ops(rng, c):
    ops = ['o:ref']
    phases = [c.locked_state] if c.locked_state else list('slg')
    for ph in phases:
        ops.append(f'o:deriv {ph} {rnd_T(rng, c, ph)} {rnd_P(rng)}')
    ops.append(f'o:press {rnd_T(rng, c, phases[-1])} {rnd_P(rng)} {rnd_P(rng)}')
    if not c.locked_state:
        ops += ['o:jumpTb', 'o:jumpTm']
        if rng.random() < 0.5: ops += [f'o:jumpTb {rnd_P(rng)}', f'o:jumpTm {rnd_P(rng)}']    # jumps at another pressure
        lab = rng.choice('LS')
        ops.append(f'o:deriv {lab} {rnd_T(rng, c, canon(lab))} {rnd_P(rng)}')
        ops.append(f'o:alias {rnd_T(rng, c, "l")} {rnd_P(rng)}')
    return ops


def coef(rng, none_ok=True):
    if none_ok and rng.random() < 0.06: return 'none'
    a0 = rng.choice([30.0, 75.5, 120.0, round(rng.uniform(20, 200), 2)])
    r = rng.random()
    if r < 0.35: return f'{a0},0.0,0.0'
    a1 = round(rng.uniform(-0.02, 0.2), 4)
    a2 = 0.0 if r < 0.7 else round(rng.uniform(0, 1e-4), 7)
    return f'{a0},{a1},{a2}'


def gen_chem_case(rng):
    r = rng.random()
    first_ops = []
    ID = rng.choice(UNIVERSE)
    ref = rng.choice('slg')
    if r < 0.34: spec = f'db {ID} {ref}'
    elif r < 0.54: spec = f'ctor {ID} {ref}'
    elif r < 0.62:
        base = get_chem(('db', ID, ref))
        Tm = round(base.Tm * rng.uniform(0.7, 1.4), 2)
        Tb = round(min(base.Tb * rng.uniform(0.75, 1.25), 0.93 * (base.Tc or 1e9)), 2)
        q = rng.random()
        spec = f'set {ID} {ref} {Tm if q < 0.7 else "-"} {Tb if q > 0.35 else "-"}'
        if rng.random() < 0.25: spec += f' Sfus={round(rng.uniform(5, 80), 3)}'
        if rng.random() < 0.35: spec += f' Hfus={round(base.Hfus * rng.uniform(0.5, 1.6) + 10.0, 1)}'
        if rng.random() < 0.3: spec += f' S0={round(rng.uniform(-40, 320), 2)}'
    elif r < 0.68:
        other = rng.choice([x for x in UNIVERSE if x != ID])
        names = rng.choice(['Cn', 'Hvap', 'Cn+Hvap', 'V+Cn', 'Hvap+Psat', 'V', 'auto', 'auto'])
        spec = f'cmf {ID} {ref} {other} {names}'
    elif r < 0.72:
        variant = rng.choice(['none', 'orig-reset', 'orig-reset', 'copy-reset', 'copy-noreset', 'copy-noreset'])
        subject = 'A' if variant == 'copy-reset' and rng.random() < 0.5 else 'B'
        sph = rng.choice('slg')
        spec = f'copy {ID} {ref} {variant} {subject} {sph} {rng.randrange(6)}'
        if variant != 'none' and rng.random() < 0.6:
            # Cn is evaluated at T0 right before the method switch, and examined at exactly T0 afterwards
            t0 = rnd_T(rng, get_chem(('db', ID, ref)), sph)
            spec += f' T0={t0}'
            first_ops = [f'o:deriv {sph} {t0} {rnd_P(rng)}']
    elif r < 0.745:
        sph = rng.choice('slg')
        t0 = rnd_T(rng, get_chem(('db', ID, ref)), sph)
        spec = f'switch {ID} {ref} {sph} {rng.randrange(6)} {t0} {rng.choice(["reset", "reset", "noreset"])}'
        first_ops = [f'o:deriv {sph} {t0} {rnd_P(rng)}']
    elif r < 0.78:
        route = rng.choice(LOCK_ROUTES)
        spec = f'lock {ID} {rng.choice("slg")} {route}'
        if route != 'ctor' and route != 'copyof' and rng.random() < 0.4: spec += ' ' + rng.choice('slg')
        if rng.random() < 0.6: spec += f' S0={rng.choice([0.0, 55.5, round(rng.uniform(-40, 320), 2)])}'     # setter on the locked chemical
    else:
        Tm = round(rng.uniform(80, 650), 2)
        Tb = round(Tm + rng.uniform(5, 400), 2) if rng.random() < 0.9 else round(rng.uniform(80, 650), 2)
        Hfus = rng.choice([0.0, 5000.0, round(rng.uniform(200, 40000), 1)])
        q = rng.random()
        Sfus = 'none' if q < 0.25 else (repr(Hfus / Tm) if q < 0.8 else repr(round(rng.uniform(1, 90), 3)))
        Hvap = 'none' if rng.random() < 0.05 else repr(rng.choice([20000.0, 40650.5, round(rng.uniform(5e3, 9e4), 1)]))
        S0 = rng.choice([0.0, 70.0, round(rng.uniform(-50, 300), 2)])
        tm = 'none' if rng.random() < 0.04 else repr(Tm)
        tb = 'none' if rng.random() < 0.04 else repr(Tb)
        spec = f'synth {ref} {tm} {tb} {Hfus!r} {Sfus} {Hvap} {S0!r} {coef(rng)} {coef(rng)} {coef(rng)}'
        if rng.random() < 0.3:
            spec += f' Tref={rng.choice([273.15, 300.0, round(rng.uniform(200, 400), 2)])} Href={rng.choice([0.0, 1000.0, -52000.5])}'
    ops = ['chem ' + spec]
    try:
        c = get_chem(tuple(spec.split(' ')))
        if spec.startswith('cmf ') and not complete(c): raise ValueError('incomplete')
    except Exception:
        # the dependency cannot integrate the borrowed heat capacity between this chemical's reference temperatures (thermo
        # raises inside _init_energies): such a pair is outside the universe of chemicals with complete data
        if not spec.startswith('cmf '): raise
        spec = f'db {ID} {ref}'
        ops = ['chem ' + spec]
        c = get_chem(tuple(spec.split(' ')))
    ops += first_ops            # must be the first evaluation of Cn at that temperature after the history of the spec
    ops.append('wiring')
    phases = [c.locked_state] if c.locked_state else list('slg')
    for _ in range(rng.randrange(2, 6)):
        ph = rng.choice(phases)
        if not c.locked_state and rng.random() < 0.15: ph = rng.choice('LS')      # alias labels of the handles
        ops.append(f'{rng.choice("HS")} {ph} {rnd_T(rng, c, ph)} {rnd_P(rng)}')
    if c.Tc and rng.random() < 0.3:
        for _ in range(2):
            ph = rng.choice(phases)
            T = round(c.Tc * rng.choice([0.8, 1.05, 1.3]), 1)
            ops.append(f'{rng.choice(["Hforce", "Sforce"])} {ph} {T} {rnd_P(rng)} {rng.choice("011")}')
    ops += oracle_ops(rng, c)
    if (spec.startswith('copy ') and ' copy-noreset ' in spec) or (spec.startswith('switch ') and spec.endswith(' noreset')):
        # the method was switched WITHOUT reset_free_energies: the constants wired between T_ref, Tm, Tb are (legitimately)
        # those of the old method, so only what must hold regardless is examined: derivatives, reference state, aliases
        ops = [ops[0]] + [o for o in ops if o.startswith(('o:ref', 'o:deriv', 'o:alias'))]
    return Case(ops, {})


def sig_of(name):
    cls = getattr(FE, name).functor
    return list(cls.params)


def gen_fn_case(rng, name=None):
    names = FN_NAMES()
    name = name or rng.choice(names)
    T = round(rng.uniform(100, 900), 2)
    P = rnd_P(rng)
    toks = [f'fn {name} {T} {P}'] + [f'{ph}={coef(rng, False)}' for ph in 'slg']
    for p in sig_of(name):
        if p.startswith('Cn'):
            toks.append(f'{p}={p[-1] if p[-1] in "slg" else rng.choice("slg")}')
        elif p in ('T_ref', 'Tm', 'Tb'):
            toks.append(f'{p}={round(rng.uniform(60, 700), 2)}')
        elif p == 'P_ref':
            toks.append(f'{p}={rng.choice([101325.0, 1e5])}')
        elif rng.random() < 0.04:
            toks.append(f'{p}=none')
        else:
            toks.append(f'{p}={round(rng.uniform(-5e4, 5e4), 3)}')
    return Case([' '.join(toks)], {})


_FN = []
def FN_NAMES():
    if not _FN:
        _FN[:] = sorted(n for n, o in vars(FE).items() if hasattr(o, 'functor') and callable(o)
                        and not n.startswith('Excess_') and getattr(o, '__module__', '') == FE.__name__)
    return _FN


def gen_mix_case(rng):
    k = rng.randrange(2, 7)
    pool = MIX_IDS
    ids = rng.sample(pool, min(k, len(pool)))
    if rng.random() < 0.3:
        extra = rng.choice(['Glucose:s', 'CO2:g', 'Argon:g'])
        if extra.split(':')[0] not in ids: ids.append(extra)
    ph = rng.choice('llggsLLS')
    T = round(rng.uniform(260, 480), 1)
    P = rnd_P(rng)
    def flows():
        v = [rng.choice([0.0, 0.0, 1.0, 2.0, 0.5, 3.25, 10.0, round(rng.uniform(0, 50), 3)]) for _ in ids]
        if not any(v): v[rng.randrange(len(v))] = 1.0
        return v
    n, m = flows(), flows()
    if rng.random() < 0.15: m = [2.0 * a for a in n]           # proportional: mixing changes nothing
    kk = rng.choice([2.0, 0.5, 3.0, 10.0, round(rng.uniform(0.1, 20), 2)])
    return Case([f'mix {",".join(ids)} {ph} {T} {P} {",".join(map(repr, n))} {",".join(map(repr, m))} {kk}'], {})


def gen_mixupd_case(rng):
    ids = rng.sample(MIX_IDS, rng.randrange(2, 5))
    kind = rng.choice(['Hfus', 'Hfus', 'Cn', 'Cn', 'S0', 'Sfus', 'Tb', 'Tb', 'Tm', 'Tm', 'phase_ref', 'phase_ref', 'reset'])
    ph = 's' if kind in ('Hfus', 'Sfus', 'Tm') and rng.random() < 0.8 else ('g' if kind == 'Tb' and rng.random() < 0.7 else rng.choice('slg'))
    T = round(rng.uniform(240, 460), 1)
    P = rnd_P(rng)
    n = [rng.choice([0.0, 1.0, 2.0, 0.5, 3.25, round(rng.uniform(0, 50), 3)]) for _ in ids]
    j = rng.randrange(len(ids))
    if not n[j]: n[j] = 1.5                        # the updated chemical is present
    if rng.random() < 0.5:
        # a history of two or three edits after the mixture exists (the same setter twice included)
        more = [rng.choice(['Tb', 'Tm', 'phase_ref', 'reset', 'cmf', 'Hfus', 'Cn', 'S0', 'method', 'methodR', kind]) for _ in range(rng.randrange(1, 3))]
        kind = '+'.join([kind] + more)
    elif rng.random() < 0.25: kind = rng.choice(['cmf', 'method', 'methodR'])
    if rng.random() < 0.2:
        # the edited member is phase-locked: the in-place setters must reach its single functors as well
        ids[j] = ids[j] + ':' + rng.choice('slg')
        kind = rng.choice(['S0', 'S0', 'S0+S0', 'S0+Hfus', 'Sfus+S0'])
    amount = rng.choice([500.0, -250.0, round(rng.uniform(100, 5000), 1)])
    k = rng.choice([2.0, 0.5, 3.5])
    return Case([f'mixupd {",".join(ids)} {ph} {T} {P} {",".join(map(repr, n))} {kind} {j} {amount} {k}'], {})


def gen_sfus_case(rng):
    ID = rng.choice(UNIVERSE)
    base = get_chem(('db', ID, get_chem_default_ref(ID)))
    q = rng.random()
    h = 'none' if q < 0.4 else repr(round(base.Hfus * rng.uniform(0.5, 1.5), 1) if rng.random() < 0.8 else 0.0)
    q = rng.random()
    tm = 'none' if q < 0.4 else repr(round(base.Tm * rng.uniform(0.7, 1.3), 2))
    return Case([f'sfus {ID} {h} {tm}'], {})


def generate(rng, tier, index, nworkers):
    n = max(1, budget(tier)['cases'] // nworkers)
    # grid first: every functor once, every bundled chemical × reference phase spread over the workers
    grid = []
    for name in FN_NAMES(): grid.append(('fn', name))
    for ID in UNIVERSE:
        for ref in 'slg': grid.append(('db', ID, ref))
    for ID in LOCK_GRID_IDS:
        if ID not in UNIVERSE: continue
        for ph in 'slg':
            for route in sorted(set(LOCK_ROUTES)): grid.append(('lock', ID, ph, route))
    for ID in UNIVERSE:
        # chemicals without a database heat of fusion: the user supplies one through the setter (then Tm is moved as well)
        base = get_chem(('db', ID, get_chem_default_ref(ID)))
        if base.Hfus == 0.0:
            for ref in 'slg':
                grid.append(('set', ID, ref, '-', '-', f'Hfus={round(1000.0 + 37.5 * len(grid), 1)}'))
                grid.append(('set', ID, ref, repr(round(base.Tm * 1.1, 2)), '-', f'Hfus={round(2500.0 + 11.0 * len(grid), 1)}'))
    for j, g in enumerate(grid):
        if j % nworkers != index: continue
        if g[0] == 'fn':
            yield gen_fn_case(rng, g[1])
        elif g[0] in ('lock', 'set'):
            c = get_chem(g)
            yield Case(['chem ' + ' '.join(g), 'wiring'] + oracle_ops(rng, c), {})
        else:
            c = get_chem(g)
            yield Case([f'chem db {g[1]} {g[2]}', 'wiring'] + oracle_ops(rng, c), {})
    for j, ID in enumerate(UNIVERSE):
        if j % nworkers == index: yield Case([f'phaseref db {ID}'], {})
    for _ in range(n):
        r = rng.random()
        if r < 0.03:
            tm = rng.choice(['none', '0.0', '298.15', repr(round(rng.uniform(100, 500), 2))])
            tb = rng.choice(['none', '0.0', '298.15', repr(round(rng.uniform(100, 500), 2))])
            yield Case([f'phaseref blank {tm} {tb}'], {})
        elif r < 0.06: yield gen_sfus_case(rng)
        elif r < 0.55: yield gen_chem_case(rng)
        elif r < 0.73: yield gen_fn_case(rng)
        elif r < 0.80: yield gen_mixupd_case(rng)
        elif r < 0.85:
            c = gen_mix_case(rng)
            yield Case(['mixx' + c.ops[0][3:] + ' ' + rng.choice('01')], {})
        else: yield gen_mix_case(rng)


def corpus():
    return [
        Case(['meta']),
        # _init_data: Sfus = Hfus / Tm on the stored values (fix 7c3427a; before: constructor arguments only)
        Case(['sfus Water none none', 'sfus Water 6010.0 273.15', 'sfus Water 6010.0 none', 'sfus Ethanol none 159.05']),
        # water in its three reference phases, with and without a constructor-given Sfus
        Case(['chem db Water l', 'wiring', 'H l 298.15 101325.0', 'S l 298.15 101325.0', 'H g 400.0 101325.0', 'S g 400.0 50000.0',
              'H s 250.0 101325.0', 'o:ref', 'o:deriv g 400.0 101325.0', 'o:press 350.0 101325.0 200000.0', 'o:jumpTb']),
        Case(['chem ctor Water g', 'wiring', 'H s 260.0 101325.0', 'S s 260.0 101325.0', 'S l 300.0 101325.0', 'o:ref', 'o:jumpTb', 'o:jumpTm']),
        Case(['chem ctor Water s', 'wiring', 'S g 380.0 200000.0', 'o:ref', 'o:jumpTb', 'o:jumpTm', 'o:press 300.0 101325.0 1000000.0']),
        Case(['chem lock N2 g', 'wiring', 'H g 298.15 101325.0', 'S g 350.0 200000.0', 'o:ref', 'o:press 300.0 101325.0 50000.0']),
        Case(['chem lock Water l', 'wiring', 'S l 298.15 101325.0', 'o:ref']),
        # locked through the other public routes, at a phase different from the natural reference phase (seeded change C07-3)
        Case(['chem lock Water g copy', 'wiring', 'H g 298.15 101325.0', 'S g 298.15 101325.0', 'o:ref', 'o:press 350.0 101325.0 200000.0']),
        Case(['chem lock Water g inplace', 'wiring', 'o:ref']),
        Case(['chem lock Ethanol s copy g', 'wiring', 'o:ref']),
        Case(['chem lock Water g copyof', 'wiring', 'o:ref']),
        Case(['chem synth g 200.0 250.0 5000.0 25.0 20000.0 100.0 30.0,0.0,0.0 60.0,0.1,0.0 40.0,0.0,0.0', 'wiring',
              'H s 300.0 101325.0', 'S s 300.0 200000.0', 'S l 300.0 200000.0', 'S g 300.0 200000.0', 'o:ref', 'o:jumpTb', 'o:jumpTm']),
        Case(['phaseref db Water', 'phaseref db CO2', 'phaseref blank 298.15 400.0', 'phaseref blank 200.0 298.15',
              'phaseref blank none none', 'phaseref blank 400.0 none', 'phaseref blank 0.0 250.0']),
        # Chemical.copy histories: another Cn method selected for the original / the copy (seeded change C07-5)
        Case(['chem copy Ethanol l orig-reset B l 0', 'wiring', 'H l 340.0 101325.0', 'S l 340.0 101325.0', 'o:ref',
              'o:deriv l 320.0 101325.0', 'o:jumpTb']),
        Case(['chem copy Ethanol l copy-noreset B l 1', 'o:ref', 'o:deriv l 320.0 101325.0']),
        Case(['chem copy Water g copy-reset A g 0', 'wiring', 'o:ref', 'o:deriv g 400.0 101325.0', 'o:jumpTb']),
        # a chemical without a database heat of fusion (Hfus = 0.0) given one through the setter (seeded change C07-16)
        Case(['chem set HMF s - - Hfus=15000.0', 'wiring', 'S l 320.0 101325.0', 'o:jumpTm', 'o:ref']),
        Case(['chem set Vanillin g 360.0 - Hfus=21000.0', 'wiring', 'o:jumpTm']),
        Case(['chem db TributylPhosphate l', 'wiring', 'o:jumpTm', 'o:ref']),
        # the S0 setter on a phase-locked chemical (single functors instead of phase handles; seeded change C07-13)
        Case(['chem lock N2 g ctor S0=150.25', 'wiring', 'S g 298.15 101325.0', 'o:ref', 'o:press 300.0 101325.0 50000.0']),
        Case(['chem lock Water l inplace S0=55.5', 'wiring', 'o:ref']),
        Case(['chem set Water l - - S0=81.0', 'wiring', 'o:ref']),
        Case(['mixupd Water,N2:g g 350.0 101325.0 2.0,3.0 S0+S0 1 500.0 2.0']),
        # Cn evaluated at T0, another method selected, examined at exactly T0 (seeded change C07-12)
        Case(['chem switch Ethanol l l 0 320.0 reset', 'o:deriv l 320.0 101325.0', 'wiring', 'o:ref', 'o:jumpTb']),
        Case(['chem switch Water l g 1 400.0 noreset', 'o:deriv g 400.0 101325.0', 'o:ref']),
        Case(['chem copy Ethanol l copy-reset B l 0 T0=330.0', 'o:deriv l 330.0 101325.0', 'wiring', 'o:jumpTb']),
        # Chemical.copy_models_from: explicit names and automatic mode (seeded change C07-10)
        Case(['chem cmf Water l Ethanol Cn', 'wiring', 'H l 340.0 101325.0', 'o:ref', 'o:deriv l 330.0 101325.0', 'o:deriv g 420.0 101325.0',
              'o:jumpTb', 'o:jumpTm']),
        Case(['chem cmf Ethanol g Water Cn+Hvap', 'wiring', 'o:ref', 'o:deriv l 330.0 101325.0', 'o:jumpTb']),
        Case(['chem cmf Water l Methanol Hvap', 'wiring', 'o:jumpTb']),
        Case(['chem cmf Water l Ethanol auto', 'wiring', 'H g 400.0 101325.0', 'o:ref', 'o:deriv l 330.0 101325.0', 'o:jumpTb', 'o:jumpTm']),
        # the alias phase labels 'L' (second liquid phase) and 'S' (seeded change C07-6)
        Case(['chem db Water l', 'wiring', 'H L 320.0 101325.0', 'S L 320.0 101325.0', 'H S 250.0 101325.0', 'o:ref',
              'o:deriv L 320.0 101325.0', 'o:alias 320.0 101325.0']),
        Case(['mix Water,Ethanol,Glycerol L 320.0 101325.0 10.0,1.0,10.0 1.0,0.0,2.0 2.0']),
        Case(['mix Water,Ethanol S 250.0 101325.0 2.0,3.0 1.0,1.0 0.5']),
        # Tm / Hfus setters keep a derived Sfus consistent; an Sfus of the user's own stays (C07-5)
        Case(['chem set Water l 300.0 - Hfus=7000.0', 'wiring', 'S s 280.0 101325.0', 'o:jumpTm', 'o:jumpTb']),
        Case(['chem set Water g 300.0 380.0 Sfus=25.0 Hfus=5000.0', 'wiring', 'o:jumpTm']),
        # include_excess_energies and force_gas_critical_phase
        Case(['mixx Water,Ethanol,Propane g 350.0 200000.0 1.0,2.0,0.5 0.5,0.0,3.0 2.0 1']),
        Case(['mixx Water,Ethanol,Propane l 350.0 200000.0 1.0,2.0,0.5 0.5,0.0,3.0 2.0 0']),
        Case(['chem db Water l', 'wiring', 'Hforce l 700.0 101325.0 1', 'Hforce l 600.0 101325.0 1', 'Sforce s 700.0 101325.0 1',
              'Hforce l 700.0 101325.0 0']),
        # in-place data updates between two evaluations at the same (phase, T, P) (seeded change C07-2)
        Case(['mixupd Water,Ethanol s 250.0 101325.0 2.0,3.0 Hfus 0 500.0 2.0']),
        Case(['mixupd Water,Ethanol l 320.0 101325.0 2.0,3.0 Cn 1 13000.0 3.5']),
        # updates that rebuild the functors (defect C07-4: the mixture kept the old handle objects)
        Case(['mixupd Water,Ethanol g 400.0 101325.0 2.0,3.0 Tb 0 687.5704152 2.0']),
        Case(['mixupd Water,Ethanol s 250.0 101325.0 2.0,3.0 Tm 0 -2630.0 2.0']),
        Case(['mixupd Water,Ethanol g 400.0 101325.0 2.0,3.0 phase_ref 0 500.0 0.5']),
        Case(['mixupd Water,Ethanol l 320.0 101325.0 2.0,3.0 reset 1 13000.0 3.5']),
        # histories of several edits after the mixture exists (seeded change C07-9), copy_models_from (C07-10)
        Case(['mixupd Water,Ethanol g 400.0 101325.0 2.0,3.0 Tb+Tb+phase_ref 0 687.5704152 2.0']),
        Case(['mixupd Water,Ethanol l 330.0 101325.0 2.0,3.0 Tm+Hfus+Tb 0 -2630.0 0.5']),
        Case(['mixupd Water,Ethanol l 330.0 101325.0 2.0,3.0 cmf+cmf 1 500.0 2.0']),
        Case(['mixupd Water,Ethanol l 330.0 101325.0 2.0,3.0 method 1 500.0 2.0']),
        Case(['mixupd Water,Ethanol g 400.0 101325.0 2.0,3.0 methodR+method 0 500.0 2.0']),
        # the doctest composition of IdealEntropyModel
        Case(['mix Water,Ethanol l 350.0 101325.0 0.0,1.0 1.0,0.0 2.0']),
    ]
