"""
C15 — liquid-liquid and solid-liquid splits meet their equilibrium and labelling rules.

Adapter: histories of `stream.lle(T, top_chemical=…, use_cache=…)` calls (with composition
changes, scalings and cache resets in between) on real streams, for every solver method; and
histories of `stream.sle(solute, T=…, solubility=…)` calls on real two-phase streams.  The
external numerics are recorded by wrapping at run time (no source edits): the Rachford–Rice root
(`lle.phase_fraction`), the equilibrium solver (`LLE.solve_lle_liquid_mol`), the final vector of
the pseudo-equilibrium iteration (`flx.aitken`), the activity-coefficient function inside one
inner-loop evaluation, and the solubility handed to `SLE._update_solubility`.  The Lean driver
recomputes from them the cache decision, the split, the top-chemical swap, `K`/`phi`, the
write-back and the SLE row update (lean/ThermoVerif/Model/LLESLE.lean).

Oracle (real objects only):
  LLE  cache-vs-nocache   the same history with the last call made with use_cache=False
       history-vs-fresh   a fresh stream with the same flows, use_cache=False
       activity-residual  x_i*gamma_i(x) in 'l' against 'L' through a fresh thermo.Gamma
       scale              k*feed gives k*flows
       top-label          mass fraction of the named chemical in 'L' >= in 'l'
       lle-raises         the call returns (no exception out of a cached or solver path)
  (two results that are both ONE liquid at the solvers' own resolution — a phase is empty, or the split lowers the
   Gibbs energy of mixing by less than the optimisers' f_tol 1e-6 per mole of feed: the trivial solution, a dust
   phase — are compared on their total only)
  SLE  only the solute row moves; solute conserved; 0 <= dissolved <= present; mole fraction of
       the solute in the liquid <= the solubility used (given or computed); pure solute all liquid
       above Tm / all solid below; the call returns.
"""
from __future__ import annotations
import math, os, random, warnings, sys, traceback
from harness.core import Case, ImplResult, fbits, from_fbits

PID = 'C15'
LEAN_MODULES = ['ThermoVerif.Props.C15']
RULE = ('LLE: 2–5 chemicals out of a 9-chemical package, always water plus ≥1 partially miscible partner '
        '(octane, hexane, butanol, octanol, ethyl acetate, toluene), T 285–355 K, all three solver methods, every '
        'choice of top chemical (present, absent, none), feed totals of ordinary size (10-100 kmol/hr) and tiny '
        '(1e-6..1e-4 kmol/hr, 30 % of the cases; scale replays up to 1e6 / down to 1e-6), histories of 0–4 earlier calls at the same / nearby (±5e-4 K) / '
        'lower / higher temperature, with composition changes (large, within tolerance, other chemical set), '
        'scalings 1e-3..1e3, update=False calls, cache resets and changes of the set of phases (ms.phases=…, touching '
        'ms.vle/.sle/.lle) between calls; SLE: solutes with Tm and Hfus (tetradecanol, naphthalene, '
        'phenol, benzoic acid, glucose) with 0–3 solvents, T 250–450 K, given and computed solubilities, Dortmund '
        'and ideal activity coefficients, 1–4 calls per stream with phase-set changes (ms.phases=…, ms.vle/.lle) between them.  non-trivial = an LLE history whose last call returned '
        'two non-empty phases after ≥1 earlier call, or an SLE call that left the solute in both phases; '
        'distinct = distinct op sequences')
ASSUMPTIONS = [
    'parameters recorded from the real run: phase_fraction (Rachford–Rice root), solve_lle_liquid_mol (solver answer), '
    'flx.aitken final vector, activity coefficients inside one inner-loop evaluation, solubility passed to _update_solubility',
    'float arithmetic of the model (Lean Float = binary64, List.sum right fold) is compared with NumPy at rtol 1e-9',
    'oracle tolerances: cache-vs-nocache / history-vs-fresh / scale: |a-b| <= 2e-2*max(a,b) + 1e-4*F per flow entry '
    '(x4 for shgo / differential evolution with >= 3 chemicals; solver tolerances: shgo f_tol 1e-6, differential '
    'evolution tol 1e-6, cache tolerances 1e-3 K and 1e-5 in z); '
    'activity residual <= 2e-2 relative on chemicals with mole fraction > 1e-12 in both phases',
    'equal activity is proved only at exact fixed points of the repaired pseudo-equilibrium map; for the real '
    'iterations and the global optimisers it is residual-monitored by the oracle',
    'which chemicals take part and their flows are decided by the adapter from the flows read through the public API '
    '(and compared with what LLE.get_liquid_mol_data selected: signature lle-selection:*); the tolerances on the '
    'protocol line are the documented defaults (1e-3 K, 1e-5), asserted on a new solver (default-cache-tolerance)',
    'SLE: the solubility x on the protocol line is what the real _solve_x handed to _update_solubility; _solve_x itself '
    '(eutectic formula, which activity coefficient it picks) is NOT checked — the property speaks of "the solubility '
    'it computed"',
    'known findings are matched quantitatively: a pseudo-equilibrium result counts as the documented frozen-K defect '
    'only if the adapter, from thermo.Gamma alone, finds y_i/x_i of the returned phases equal (1e-4) to the K of the '
    'initial guess (documented default guess or the remembered K); anything else gets a :K-is-not-the-frozen-initial-guess '
    'signature that is not listed',
    '"reuse gives the same split as forbidding it" for a query within the tolerances but not identical to the remembered '
    'one has no theorem (it needs continuity of the external solver): decided by correspondence + oracle at the stated '
    'tolerance; cached_path_reproduces covers the identical query',
]
TRUSTED = ['Lean 4.33 kernel', 'harness/props/c15.py + Driver/C15.lean', 'generator reach (see histogram)',
           'thermo.Gamma (UNIFAC Dortmund) as the activity model used by the oracle']

tmo = None
np = None
LMOD = None          # thermosteam.equilibrium.lle
LTH = None           # thermo for LLE cases
STH = []             # thermos for SLE cases
LNAMES = ['Water', 'Octane', 'Butanol', 'Hexane', 'EthylAcetate', 'Ethanol', 'Octanol', 'Toluene', 'Acetone']
PARTNERS = ['Octane', 'Butanol', 'Hexane', 'EthylAcetate', 'Octanol', 'Toluene']
SNAMES = ['Water', 'Ethanol', 'Methanol', 'Toluene', 'Tetradecanol', 'Naphthalene', 'Phenol', 'BenzoicAcid', 'Glucose']
SOLUTES = ['Tetradecanol', 'Naphthalene', 'Phenol', 'BenzoicAcid', 'Glucose']
SOLVENTS = ['Water', 'Ethanol', 'Methanol', 'Toluene']
METHODS = ['pseudo equilibrium', 'shgo', 'differential evolution']
MTAG = {'pseudo equilibrium': 'pseudo-equilibrium', 'shgo': 'shgo', 'differential evolution': 'differential-evolution'}
DEF_TOLT, DEF_TOLZ = 1e-3, 1e-5
SLE_X_TOL = 1e-3      # relative; see the measurement note at its use
# No magnitude caps on the listed optimiser-quality entries: the relative activity mismatch of a trace chemical saturates
# near 1 whatever the optimiser does (seen on the unchanged tree: shgo >=3 chemicals 0.757, differential evolution >=3
# chemicals above 0.45, shgo binary 0.22), so a cap is a false alarm waiting for its seed; the entries are bounded by their
# max_fraction in known_findings.jsonl (a degraded optimiser shows as a larger share: 0.97*x for shgo 0.114 vs ceiling
# 0.065; polish=False for differential evolution 0.062 vs 0.04, and a binary result above 2e-2, which is not listed)
RESIDUAL_CAP = {}

REC = {'on': False}
STATS = []         # raw oracle numbers of this process (development aid; bounded)


def _stat(*a):
    if len(STATS) < 100000: STATS.append(a)


def _rec_reset():
    REC.update(on=True, gl=None, pf=[], solve=None, insolve=0, final=None, x=[], sx=[])


class _FlxProxy:
    """stands in for the `flx` module inside thermosteam.equilibrium.lle: records the vector the outer
    pseudo-equilibrium iteration ends with"""
    def __init__(self, flx): self._flx = flx
    def __getattr__(self, name): return getattr(self._flx, name)
    def aitken(self, f, x, *a, **k):
        r = self._flx.aitken(f, x, *a, **k)
        if REC['on'] and getattr(f, '__name__', '') == 'pseudo_equilibrium_outer_loop':
            REC['final'] = (np.array(r, float), k.get('args', a[0] if a else None))
        return r


def setup():
    global tmo, np, LMOD, LTH
    import numpy as np_
    import thermosteam as tmo_
    import thermosteam.equilibrium.lle as lmod
    import thermosteam.equilibrium.sle as smod
    tmo, np, LMOD = tmo_, np_, lmod
    warnings.simplefilter('ignore')
    np.seterr(all='ignore')
    LTH = tmo.Thermo(tmo.Chemicals(LNAMES, cache=True), cache=False)
    sch = tmo.Chemicals(SNAMES, cache=True)
    STH[:] = [tmo.Thermo(sch, cache=False),
              tmo.Thermo(sch, Gamma=tmo.equilibrium.IdealActivityCoefficients, cache=False)]
    tmo.settings.set_thermo(LTH)
    LLE = lmod.LLE
    if not getattr(LLE.solve_lle_liquid_mol, '_verif', False):
        o_solve0 = LLE.solve_lle_liquid_mol
        def o_solve(self, mol, T, lle_chemicals, single_loop):
            try:
                return o_solve0(self, mol, T, lle_chemicals, single_loop)
            except ReferenceError:
                # numba could not write its on-disk cache index (see `warm` below); the kernel is compiled by now
                return o_solve0(self, mol, T, lle_chemicals, single_loop)
        def solve_lle_liquid_mol(self, mol, T, lle_chemicals, single_loop):
            if not REC['on']: return o_solve(self, mol, T, lle_chemicals, single_loop)
            REC['insolve'] += 1
            try:
                r = o_solve(self, mol, T, lle_chemicals, single_loop)
            finally:
                REC['insolve'] -= 1
            REC['solve'] = np.array(r, float)
            return r
        solve_lle_liquid_mol._verif = True
        LLE.solve_lle_liquid_mol = solve_lle_liquid_mol
        o_gl = LLE.get_liquid_mol_data
        def get_liquid_mol_data(self):
            r = o_gl(self)
            if REC['on']: REC['gl'] = (np.array(r[0], float), list(r[1]), list(r[2]))
            return r
        LLE.get_liquid_mol_data = get_liquid_mol_data
        o_pf = lmod.phase_fraction
        def phase_fraction(zs, Ks, guess=None, za=0., zb=0.):
            try:
                r = o_pf(zs, Ks, guess, za, zb)
            except Exception:
                if REC['on'] and not REC['insolve']: REC['pf'].append('err')
                raise
            if REC['on'] and not REC['insolve']: REC['pf'].append(float(r))
            return r
        lmod.phase_fraction = phase_fraction
        lmod.flx = _FlxProxy(lmod.flx)
        SLE = smod.SLE
        o_us = SLE._update_solubility
        def _update_solubility(self, x, *a, **k):
            if REC['on']: REC['x'].append(float(x))
            return o_us(self, x, *a, **k)
        SLE._update_solubility = _update_solubility
        o_sx = SLE._solve_x
        def _solve_x(self, T):
            r = o_sx(self, T)
            if REC['on']: REC['sx'].append(float(r))
            return r
        SLE._solve_x = _solve_x
    # compile the numba kernels once, in the parent, so that forked workers inherit them
    def warm(fn):
        # numba adds a freshly compiled overload to the dispatcher BEFORE it writes its on-disk cache index; a stale index
        # under <repo>/thermosteam/**/__pycache__ can make that write raise (ReferenceError: underlying object has
        # vanished) although the kernel is compiled — the second attempt then finds it in memory
        for attempt in range(4):
            try:
                return fn()
            except ReferenceError:
                if attempt == 3: raise
    for m in METHODS:
        for flows in (dict(Water=10, Octane=5, Ethanol=1), dict(Water=10, Butanol=5)):
            def one(m=m, flows=flows):
                s = tmo.Stream(None, thermo=LTH, **flows)
                s.lle.method = m
                s.lle(300.)
            warm(one)
    g = LTH.Gamma([LTH.chemicals.Water, LTH.chemicals.Octane])
    try:
        lmod.psuedo_equilibrium_inner_loop.py_func(np.zeros(4) + 1., np.array([.5, .5]), 300., 2, g.f, g.args, 0.5)
    except Exception:
        pass
    def one_sle():
        m = tmo.MultiStream(None, l=[('Water', 10), ('Phenol', 2)], phases=('s', 'l'), thermo=STH[0])
        m.sle('Phenol', T=290.)
    warm(one_sle)


def budget(tier):
    return {'quick': dict(seconds=45, lle=18, sle=24, shrink_s=20, search_s=10),
            'thorough': dict(seconds=420, lle=160, sle=250, shrink_s=60, search_s=30)}[tier]


# --------------------------------------------------------------------------
# helpers
# --------------------------------------------------------------------------
def fl(xs): return ','.join(fbits(float(x)) for x in xs)
def nl(xs): return ','.join(str(int(x)) for x in xs)


def parse_flows(tok):
    """`i:v,i:v` → dict"""
    d = {}
    if tok and tok != '-':
        for p in tok.split(','):
            i, v = p.split(':')
            d[int(i)] = float(v)
    return d


def kvs(tokens):
    return dict(t.split('=', 1) for t in tokens if '=' in t)


KINDS = ('vle', 'lle', 'sle')


def access(s, kind, emit=None):
    """`s.vle` / `s.lle` / `s.sle` on a multi-phase stream, observed: the accessor may enlarge the set of phases
    (then the caches must be new ones) and hands out a solver, which must be bound to the stream's current
    material indexer (`solver.imol is s.imol`)"""
    old_ph = tuple(s.phases)
    cache = getattr(s, f'_{kind}_cache')
    was = bool(cache.value)
    solver = getattr(s, kind)
    if emit is not None:
        changed = tuple(s.phases) != old_ph
        fresh = getattr(s, f'_{kind}_cache') is not cache
        if changed: emit('phases changed=1', 'caches=' + ('fresh' if fresh else 'kept'))
        emit(f'retrieve kind={kind}',
             f'bound={int(solver.imol is s.imol)} loaded={"old" if (was and not fresh) else "new"}')
    return solver


def set_phases(s, letters, emit=None):
    """`s.phases = …` observed: did the set change, and were the equilibrium caches replaced"""
    old_ph = tuple(s.phases)
    caches = [getattr(s, f'_{k}_cache') for k in KINDS]
    s.phases = tuple(letters)
    if emit is not None:
        changed = tuple(s.phases) != old_ph
        fresh = all(getattr(s, f'_{k}_cache') is not c for k, c in zip(KINDS, caches))
        emit(f'phases changed={int(changed)}', 'caches=' + ('fresh' if fresh else 'kept'))


def new_lle_stream(flows, method, tolT, tolZ, emit=None):
    s = tmo.Stream(None, thermo=LTH)
    for i, v in flows.items(): s.imol.data[i] = v
    s.phases = ('L', 'l')  # what Stream.lle does: the stream becomes a liquid-LIQUID MultiStream (unloaded caches)
    lle = access(s, 'lle', emit)
    lle.method = method
    if tolT is not None: lle.temperature_cache_tolerance = tolT
    if tolZ is not None: lle.composition_cache_tolerance = tolZ
    return s


def set_flows(s, flows):
    s.imol['l'] = 0
    arr = np.zeros(len(LNAMES))
    for i, v in flows.items(): arr[i] = v
    s.imol['L'] = arr


def total_flows(s):
    return np.asarray(s.imol['l'].to_array() if hasattr(s.imol['l'], 'to_array') else s.imol['l'], float) + \
           np.asarray(s.imol['L'].to_array() if hasattr(s.imol['L'], 'to_array') else s.imol['L'], float)


def rows(s, a='l', b='L'):
    f = lambda r: np.asarray(r.to_array() if hasattr(r, 'to_array') else r, float).copy()
    return f(s.imol[a]), f(s.imol[b])


def apply_lle_op(s, t, record=False, force_nocache=False, emit=None):
    """run one history op on a real stream; returns the stream (reset ops may rebuild nothing)"""
    op = t[1]
    kv = kvs(t[2:])
    if op == 'call':
        top = None if kv['top'] == '-' else kv['top']
        uc = kv['uc'] == '1' and not force_nocache
        s.lle(float(kv['T']), top_chemical=top, use_cache=uc, update=kv.get('upd', '1') != '0')
    elif op == 'set':
        set_flows(s, parse_flows(kv['flows']))
    elif op == 'scale':
        s.scale(float(kv['k']))
    elif op in ('resetcache', 'phases', 'touch'):
        # the solver settings of the case travel with the stream (a new solver object starts from the defaults)
        m, tT, tZ = s.lle.method, s.lle.temperature_cache_tolerance, s.lle.composition_cache_tolerance
        if op == 'resetcache':
            s.reset_cache()
            if emit is not None: emit('lle-reset', 'ok')
        elif op == 'phases':
            set_phases(s, kv['set'], emit)
        else:
            access(s, kv['kind'], emit)
        lle = access(s, 'lle', emit)
        lle.method = m; lle.temperature_cache_tolerance = tT; lle.composition_cache_tolerance = tZ
    else:
        raise ValueError('unknown lle op ' + ' '.join(t))
    return s


def sig6(a):
    """six significant digits (flows of tiny streams stay readable)"""
    return [float(f'{float(x):.6g}') for x in a]


def mismatch(a, b, F, rtol=2e-2, afrac=1e-4):
    """largest violation ratio of |a-b| <= rtol*max + afrac*F over the entries"""
    a = np.asarray(a, float); b = np.asarray(b, float)
    if a.shape != b.shape: return float('inf')
    tol = rtol * np.maximum(np.abs(a), np.abs(b)) + afrac * F
    with np.errstate(all='ignore'):
        r = np.abs(a - b) / tol
    r = np.where(np.isnan(r), np.inf, r)
    return float(r.max()) if r.size else 0.


F_TOL = 1e-6        # the resolution the Gibbs-energy minimisers are run at (shgo f_tol, differential evolution tol)


def single_test(idx, T):
    """returns es(l, L): is this result one liquid at the solver's own resolution?  Yes if a phase is empty, or if
    dividing the feed into (l, L) lowers the Gibbs energy of mixing — the objective shgo and differential evolution
    minimise, per mole of feed, evaluated through thermo.Gamma — by less than F_TOL compared with leaving it as one
    liquid.  That covers the trivial solution (two 'phases' of one composition: how much goes under each label is
    arbitrary) and a dust phase (1e-10 of the feed).  Measured: such results gain 1e-16..1e-9, genuine two-liquid
    splits 3e-2..0.8."""
    chems = [LTH.chemicals.tuple[i] for i in idx]
    gam = LTH.Gamma(chems)
    def G(m):
        tot = m.sum()
        if tot <= 0: return 0.
        x = m / tot
        with np.errstate(all='ignore'):
            a = x * gam(x, T)
            a = np.where((a <= 0) | ~np.isfinite(a), 1., a)
            return float((m * np.log(a)).sum())
    def es(l, L):
        l = np.asarray(l, float)[idx]; L = np.asarray(L, float)[idx]
        if l.sum() <= 0 or L.sum() <= 0: return True
        f = l + L
        gain = (G(l) + G(L) - G(f)) / f.sum()
        return bool(gain > -F_TOL)
    def gibbs(l, L):
        """Gibbs energy of mixing of the result (l, L) per mole of feed"""
        l = np.asarray(l, float)[idx]; L = np.asarray(L, float)[idx]
        return (G(l) + G(L)) / (l.sum() + L.sum())
    es.gibbs = gibbs
    return es


def raw_call(stream, T, top):
    """stream.lle(T, top, use_cache=False) with the solver's own return value recorded (per unit feed)"""
    saved = dict(REC)
    _rec_reset()
    try:
        stream.lle(T, top_chemical=top, use_cache=False)
        raw = None if REC['solve'] is None else np.array(REC['solve'], float)
    finally:
        REC.clear(); REC.update(saved)
    return raw


def is_solver_answer(l, L, raw, idx, F):
    """are the flows of the stream what its solver returned (solver's mol_L x F, the rest in the other label)?"""
    if raw is None: return False
    l = np.asarray(l, float)[idx]; L = np.asarray(L, float)[idx]
    z = (l + L) / F
    a, b = (z - raw) * F, raw * F
    ok = lambda u, v: bool(np.all(np.abs(u - v) <= 1e-9 * F))
    return (ok(l, a) and ok(L, b)) or (ok(l, b) and ok(L, a))


def optimiser_disagreement(es, A, B):
    """Two answers of a Gibbs-energy minimiser to the same normalised problem (inputs equal up to rounding) that differ
    beyond the tolerance: 'flat' if their Gibbs energies agree within the solver's own f_tol (two equally good minima at
    its resolution), else the difference (one of them is not the minimum it was asked for)."""
    gA, gB = es.gibbs(*A), es.gibbs(*B)
    return ('flat', abs(gA - gB)) if abs(gA - gB) <= F_TOL else ('not-at-minimum', abs(gA - gB))


def split_mismatch(l1, L1, l2, L2, F, upto_swap, es, **k):
    if es(l1, L1) and es(l2, L2):
        return mismatch(np.asarray(l1) + np.asarray(L1), np.asarray(l2) + np.asarray(L2), F, **k)
    m = max(mismatch(l1, l2, F, **k), mismatch(L1, L2, F, **k))
    if upto_swap:
        m = min(m, max(mismatch(l1, L2, F, **k), mismatch(L1, l2, F, **k)))
    return m


def default_guess_K(z, idx, T):
    """the partition coefficients of the documented default initial guess of solve_lle_liquid_mol (0.99 / 1e-3 of the
    two chemicals with the largest mass in the feed), recomputed here through thermo.Gamma — NOT read from the solver"""
    chems = [LTH.chemicals.tuple[i] for i in idx]
    g = LTH.Gamma(chems)
    MW = np.array([c.MW for c in chems])
    order = np.argsort(z * MW)
    a, b = order[-1], order[-2]
    x = z.copy(); y = z.copy()
    x[a] = 0.99; y[a] = 1e-3; x[b] = 1e-3; y[b] = 0.99
    x /= x.sum(); y /= y.sum()
    return g(y, T) / g(x, T)


def is_frozen_K_split(z, K0, molL):
    """Is `molL` (what solve_lle_liquid_mol returned for the normalised feed z) the Rachford-Rice split at the
    partition coefficients K0 the iteration STARTED from?  That is the documented, doctest-pinned defect of the
    pseudo-equilibrium method (K never updated, fixes_proposed/C15-3.md): the returned phases have y_i/x_i = K0_i
    exactly; a single liquid is its prediction only when the Rachford-Rice function at K0 has no root inside (0, 1)."""
    z = np.asarray(z, float); K0 = np.asarray(K0, float)
    molL = np.asarray(molL, float); moll = z - molL
    FL, Fl = molL.sum(), moll.sum()
    with np.errstate(all='ignore'):
        if FL <= 1e-12 or Fl <= 1e-12:
            f0 = float((z * (K0 - 1.)).sum()); f1 = float((z * (K0 - 1.) / K0).sum())
            return not (f0 > 0. > f1)
        x, y = molL / FL, moll / Fl
        ok = (x > 0) & (y > 0)
        if not ok.any(): return False
        return bool(np.all(np.abs(y[ok] / x[ok] - K0[ok]) <= 1e-4 * np.abs(K0[ok])))


def activity_residual(s, idx, T):
    chems = [LTH.chemicals.tuple[i] for i in idx]
    l, L = rows(s)
    l, L = l[idx], L[idx]
    if l.sum() <= 0 or L.sum() <= 0: return None
    x, y = l / l.sum(), L / L.sum()
    g = LTH.Gamma(chems)
    ax, ay = x * g(x, T), y * g(y, T)
    ok = (x > 1e-12) & (y > 1e-12)
    if not ok.any(): return None
    with np.errstate(all='ignore'):
        r = np.abs(ax - ay) / np.maximum(np.abs(ax), np.abs(ay))
    r = np.where(ok, r, 0.)
    return float(np.nanmax(r)), ax, ay


# --------------------------------------------------------------------------
# LLE adapter
# --------------------------------------------------------------------------
def run_lle(case, model_in, outs, failures, tags):
    ops = [o.split(' ') for o in case.ops]
    kv0 = kvs(ops[0][2:])
    method = METHODS[int(kv0['method'])]
    tolT = None if kv0.get('tolT', '-') == '-' else float(kv0['tolT'])
    tolZ = None if kv0.get('tolZ', '-') == '-' else float(kv0['tolZ'])
    flows0 = parse_flows(kv0['flows'])
    def emit(line, ans):
        model_in.append(line); outs.append(ans)
    emit('lle-reset', 'ok')
    # the tolerances a new solver starts with bound how far "the same temperature / composition" reaches
    probe = tmo.Stream(None, Water=1., Octane=1., thermo=LTH).lle
    if probe.temperature_cache_tolerance != DEF_TOLT or probe.composition_cache_tolerance != DEF_TOLZ:
        failures.append({'signature': 'default-cache-tolerance', 'op_index': 0,
                         'what': f'a new LLE solver reuses remembered coefficients within {probe.temperature_cache_tolerance} K '
                                 f'and {probe.composition_cache_tolerance} in mole fraction; the documented defaults are '
                                 f'{DEF_TOLT} K and {DEF_TOLZ}'})
    s = new_lle_stream(flows0, method, tolT, tolZ, emit)
    tags.append('lle:' + MTAG[method])
    eff_tolT = DEF_TOLT if tolT is None else tolT
    eff_tolZ = DEF_TOLZ if tolZ is None else tolZ
    prev = None            # (T, z, idx) of the previous effective call
    probed, probe_after = False, None
    frozen_chain = True    # pseudo equilibrium: every K this stream remembers is an initial guess that never moved
    ncalls = 0
    two_phase_after_history = False
    for k in range(1, len(ops)):
        t = ops[k]
        if t[1] != 'call':
            n0 = len(outs)
            apply_lle_op(s, t, emit=emit)
            if t[1] == 'resetcache' or 'caches=fresh' in outs[n0:]:
                prev = None         # a new solver object: nothing is remembered
                frozen_chain = True
            if t[1] in ('phases', 'touch'):
                tags.append(f'phase-set:{t[1]}:' + ('changed' if any(o.startswith('caches=') and l.endswith('=1')
                                                                    for l, o in zip(model_in[n0:], outs[n0:])) else 'same'))
            continue
        kv = kvs(t[2:])
        T = float(kv['T']); top = None if kv['top'] == '-' else kv['top']; uc = kv['uc'] == '1'
        upd = kv.get('upd', '1') != '0'
        feed = total_flows(s)
        F_feed = feed.sum()
        if 0 < F_feed < 1e-3: tags.append('feed:tiny(<1e-3 kmol/hr)')
        # which chemicals take part and with which flows: decided HERE from the flows read through the public API
        # (every chemical of the package is an LLE chemical), not taken from the code's own selection
        idx_own = [i for i in range(len(feed)) if feed[i] != 0]
        mol_own = feed[idx_own]
        lle = access(s, 'lle', emit)
        phi_before = lle._phi          # remembered phase fraction: the solver takes the remembered K as its
        guess_is_remembered = lle._K is not None and phi_before is not None and 0 < phi_before < 1   # guess only then
        K_before = None if lle._K is None else np.array(lle._K, float)
        chems_before = None if lle._lle_chemicals is None else [c.ID for c in lle._lle_chemicals]
        _rec_reset()
        raised = None
        try:
            ret = lle(T, top_chemical=top, use_cache=uc, update=upd)
        except Exception as e:
            raised = e
        finally:
            REC['on'] = False
        if REC['gl'] is None and raised is not None:
            failures.append({'signature': f'lle-raises:{type(raised).__name__}:before-selection', 'op_index': len(model_in),
                             'what': f'lle(T={T}, top_chemical={top!r}, use_cache={uc}) raises {type(raised).__name__}: {raised} '
                                     f'before the liquids were even read (method={method})'})
            tags.append('lle:raised')
            break
        if REC['gl'] is not None:
            g_mol, g_idx, g_chems = REC['gl']
            if list(g_idx) != idx_own or g_mol.shape != mol_own.shape or \
                    not np.all(np.abs(g_mol - mol_own) <= 1e-12 * np.abs(mol_own)):
                failures.append({'signature': 'lle-selection:chemicals-or-flows', 'op_index': len(model_in),
                                 'what': f'the liquids hold {sig6(mol_own)} of {[LNAMES[i] for i in idx_own]}, the calculation '
                                         f'worked on {sig6(g_mol)} of {[c.ID for c in g_chems]}'})
        mol, idx = mol_own, idx_own
        chems = [LTH.chemicals.tuple[i] for i in idx]
        ids = [c.ID for c in chems]
        F = mol.sum()
        l_after, L_after = rows(s)
        topi = ids.index(top) if (top is not None and top in ids) else None
        if not (F and len(idx) > 1):
            model_in.append(f'lle-call uc={int(uc)} upd={int(upd)} chems={nl(idx)} T={fbits(T)} mol={fl(mol)} '
                            f'MW={fl(lle.chemicals.MW[idx])} top={"-" if topi is None else topi} '
                            f'tolT={fbits(eff_tolT)} tolZ={fbits(eff_tolZ)} phi=- sol=-')
            outs.append('path=none' if upd else f'path=none K={fl(ret[1])} phi={fbits(ret[2])}')
            tags.append('path:none' + ('' if upd else ':update=False'))
            continue
        if raised is None and REC['solve'] is None and not REC['pf']:
            # the code did nothing although the liquids hold >= 2 chemicals and a non-zero total (neither the solver nor
            # the Rachford-Rice routine ran): whether a feed is split must not depend on its absolute size
            model_in.append(f'lle-call uc={int(uc)} upd={int(upd)} chems={nl(idx)} T={fbits(T)} mol={fl(mol)} '
                            f'MW={fl(lle.chemicals.MW[idx])} top={"-" if topi is None else topi} '
                            f'tolT={fbits(eff_tolT)} tolZ={fbits(eff_tolZ)} phi=- sol=-')
            outs.append('path=none'); tags.append('path:none:non-empty-feed')
            kk = 100. / F_feed
            big = new_lle_stream({i: feed[i] * kk for i in range(len(feed)) if feed[i]}, method, tolT, tolZ)
            big.lle(T, top_chemical=top, use_cache=False)
            bl, bL = rows(big)
            if not single_test(list(idx), T)(bl, bL):
                failures.append({'signature': f'scale:{MTAG[method]}', 'op_index': len(model_in) - 1,
                                 'what': f'a feed of {F_feed:.6g} kmol/hr in total ({sig6(mol)} of {ids}) is not split at all, '
                                         f'{kk:.6g} x the same feed gives l={sig6(bl[idx])} L={sig6(bL[idx])} (T={T}, method={method})'})
            prev = None
            continue
        ncalls += 1
        path = 'solve' if REC['solve'] is not None else 'cache'
        tags.append('path:' + path)
        z = mol / F
        if method == 'pseudo equilibrium' and path == 'solve' and raised is None:
            # does this answer carry the fingerprint of the documented defect (K frozen at the initial guess)?
            remembered = guess_is_remembered and chems_before == ids and K_before is not None and len(K_before) == len(idx)
            K0 = K_before if remembered else default_guess_K(z, idx, T)
            frozen_chain = (frozen_chain or not remembered) and is_frozen_K_split(z, K0, REC['solve'])
            tags.append('pseudo-equilibrium:answer-is-the-split-at-the-' + ('remembered' if remembered else 'default')
                        + '-guess-K:' + ('yes' if frozen_chain else 'NO'))
        main_raw = None if REC['solve'] is None else np.array(REC['solve'], float)
        rr_raised = 'err' in REC['pf']
        if rr_raised: tags.append('rachford-rice-raised')
        if raised is not None:
            # the call did not return: nothing to compare afterwards, the case ends here
            where = 'cached-path' if (rr_raised and REC['solve'] is None) else 'solver'
            model_in.append(f'lle-call uc={int(uc)} upd={int(upd)} chems={nl(idx)} T={fbits(T)} mol={fl(mol)} '
                            f'MW={fl(lle.chemicals.MW[idx])} top={"-" if topi is None else topi} '
                            f'tolT={fbits(eff_tolT)} tolZ={fbits(eff_tolZ)} phi={"err" if rr_raised else "-"} sol=-')
            outs.append(f'path={"cache" if where == "cached-path" else "solve"} raised={type(raised).__name__}')
            failures.append({'signature': f'lle-raises:{type(raised).__name__}:{where}', 'op_index': len(model_in) - 1,
                             'what': f'lle(T={T}, top_chemical={top!r}, use_cache={uc}) raises {type(raised).__name__}: {raised} '
                                     f'({where}; chemicals {ids}, z={np.round(z, 6).tolist()}, method={method}, '
                                     f'remembered K={None if lle._K is None else np.asarray(lle._K).tolist()})'})
            tags.append('lle:raised')
            break
        # --- correspondence lines
        if path == 'solve' and method == 'pseudo equilibrium' and REC['final'] is not None:
            v, args = REC['final']
            n = len(idx)
            model_in.append(f'peq-final z={fl(z)} v={fl(v)}')
            outs.append(f'molL={fl(REC["solve"])}')
            # one evaluation of the real inner loop at the final iterate, activity coefficients recorded
            try:
                g = LTH.Gamma(chems)
                seen = []
                def recf(x, T_, *a):
                    r = g.f(x, T_, *a)
                    seen.append((np.array(x, float), np.array(r, float)))
                    return r
                phi = float(v[-1])
                out = LMOD.psuedo_equilibrium_inner_loop.py_func(v[:-1].copy(), z.copy(), T, n, recf, g.args, phi)
                if len(seen) == 2 and np.isfinite(out).all():
                    model_in.append(f'inner phi={fbits(phi)} z={fl(z)} v={fl(v[:-1])} gx={fl(seen[0][1])} gy={fl(seen[1][1])}')
                    outs.append(f'x={fl(seen[0][0])} y={fl(seen[1][0])} out={fl(out)}')
                    tags.append('inner-loop-evaluated')
            except Exception:
                tags.append('inner-loop-not-evaluated')
        phi_rec = 'err' if rr_raised else (fbits(REC['pf'][-1]) if (path == 'cache' and REC['pf']) else '-')
        sol_rec = fl(REC['solve']) if path == 'solve' else '-'
        model_in.append(f'lle-call uc={int(uc)} upd={int(upd)} chems={nl(idx)} T={fbits(T)} mol={fl(mol)} '
                        f'MW={fl(lle.chemicals.MW[idx])} '
                        f'top={"-" if topi is None else topi} tolT={fbits(eff_tolT)} tolZ={fbits(eff_tolZ)} '
                        f'phi={phi_rec} sol={sol_rec}')
        op_index = len(model_in) - 1
        if not upd:
            # update=False: nothing is written (the liquids stay merged); the call returns (chemicals, K, phi)
            outs.append(f'path={path} K={fl(ret[1])} phi={fbits(ret[2])}')
            tags.append('update=False')
            probe_after = prev          # (T, z, idx) of the call before this probe
            probed = True
            if [c.ID for c in ret[0]] != ids:
                failures.append({'signature': 'update-false:wrong-chemicals-returned', 'op_index': op_index,
                                 'what': f'update=False returned chemicals {[c.ID for c in ret[0]]}, the liquids hold {ids}'})
            prev = (T, z.copy(), list(idx))
            continue
        outs.append(f'path={path} l={fl(l_after[idx])} L={fl(L_after[idx])} K={fl(lle._K)} phi={fbits(lle._phi)}')
        # --- oracle on the real objects
        upto_swap = topi is None
        es = single_test(list(idx), T)
        two = not es(l_after, L_after)
        tags.append('result:two-phases' if two else 'result:one-phase')
        if two and ncalls > 1: two_phase_after_history = True
        # what the history looked like (public inputs only)
        rel = 'first'
        if prev is not None:
            pT, pz, pidx = prev
            if pidx != list(idx): rel = 'other-chemicals'
            elif abs(T - pT) < eff_tolT and np.all(np.abs(pz - z) < eff_tolZ): rel = 'within-tolerance'
            elif T <= pT - eff_tolT and np.all(np.abs(pz - z) < eff_tolZ): rel = 'lower-T'
            elif T >= pT + eff_tolT and np.all(np.abs(pz - z) < eff_tolZ): rel = 'higher-T'
            elif abs(T - pT) < eff_tolT: rel = 'other-composition'
            else: rel = 'other-T-and-composition'
        tags.append('history:' + rel)
        if probed and probe_after is not None and probe_after[2] == list(idx) and probe_after[0] == T \
                and np.all(np.abs(probe_after[1] - z) <= 1e-15) and rel != 'within-tolerance' and uc:
            tags.append('history:back-at-the-remembered-point-after-an-update=False-probe-elsewhere')
        probed = False
        if rel == 'other-chemicals' and len(prev[2]) == len(idx): tags.append('history:other-chemicals:same-count')
        if prev is not None and rel in ('lower-T', 'higher-T') and abs(T - prev[0]) <= 1000.5 * eff_tolT:
            tags.append('history:just-outside-the-temperature-tolerance(1.1..1000 x)')
        if prev is not None and rel == 'other-composition' and np.max(np.abs(prev[1] - z)) <= 10.5 * eff_tolZ:
            tags.append('history:just-outside-the-composition-tolerance(1.1..10 x)')
        custom_hit = (rel == 'within-tolerance') and (eff_tolT > DEF_TOLT or eff_tolZ > DEF_TOLZ)
        # 1. top label
        if topi is not None:
            MW = lle.chemicals.MW[idx]
            mL, ml = L_after[idx] * MW, l_after[idx] * MW
            if mL.sum() > 0 and ml.sum() > 0:
                cL, cl = mL[topi] / mL.sum(), ml[topi] / ml.sum()
                if cL < cl * (1 - 1e-12):
                    failures.append({'signature': 'top-label:lower-mass-fraction-in-L', 'op_index': op_index,
                                     'what': f"top chemical {top}: mass fraction {cL:.6g} in 'L' < {cl:.6g} in 'l' "
                                             f'(T={T}, method={method}, path={path})'})
            elif ml.sum() > 0 and mL.sum() == 0:
                failures.append({'signature': 'top-label:single-liquid-labelled-l', 'op_index': op_index,
                                 'what': f"top chemical {top} named, one liquid found, but it is labelled 'l' (T={T}, method={method})"})
        # 2. equal activities
        if two:
            ar = activity_residual(s, idx, T)
            if ar is not None:
                size = 'binary' if len(idx) == 2 else 'multicomponent'
                tags.append(f'activity-residual:{MTAG[method]}:{size}' + (':<=2e-2' if ar[0] <= 2e-2 else ':>2e-2'))
                _stat('act', method, len(idx), path, rel, ar[0])
                if ar[0] > 2e-2 and not custom_hit:
                    sig = f'activity-residual:{MTAG[method]}:{size}'
                    # the listed optimiser limits have a size: a residual beyond it is another finding
                    cap = RESIDUAL_CAP.get((method, size))
                    if cap is not None and ar[0] > cap: sig += f':residual-above-{cap}'
                    if method == 'pseudo equilibrium' and not frozen_chain:
                        sig += ':K-is-not-the-frozen-initial-guess'     # not the documented defect
                    if path == 'cache' and rel in ('lower-T', 'other-composition'): sig += ':cache-of-' + rel
                    failures.append({'signature': sig, 'op_index': op_index,
                                     'what': f'activities differ between the two liquids by {ar[0]:.3g} (relative): '
                                             f"x*gamma in 'l' {np.round(ar[1], 6).tolist()} vs 'L' {np.round(ar[2], 6).tolist()} "
                                             f'(chemicals {ids}, T={T}, method={method}, path={path}, history {rel})'})
        # the optimisers stop well short of equilibrium with >= 3 chemicals (their own activity residual reaches
        # 0.15-0.55), so two of their answers to inputs that differ in the last digits differ more there
        thr = 1. if (len(idx) == 2 or method == 'pseudo equilibrium') else 4.
        # 3. same history, last call with use_cache=False
        if uc and not custom_hit:
            tw = new_lle_stream(flows0, method, tolT, tolZ)
            try:
                for j in range(1, k): apply_lle_op(tw, ops[j])
                apply_lle_op(tw, t, force_nocache=True)
                tl, tL = rows(tw)
                mm = split_mismatch(l_after, L_after, tl, tL, F_feed, upto_swap, es)
            except Exception as e:
                failures.append({'signature': f'lle-raises:{type(e).__name__}:use_cache=False', 'op_index': op_index,
                                 'what': f'the same history with the last call made with use_cache=False raises '
                                         f'{type(e).__name__}: {e} (chemicals {ids}, T={T}, method={method})'})
                tl, tL, mm = l_after, L_after, 0.
            _stat('twin', method, len(idx), path, rel, mm)
            if mm > thr:
                sig = f'cache-vs-nocache:{rel}'
                if method == 'pseudo equilibrium' and not guess_is_remembered and frozen_chain:
                    # the remembered result was a single liquid, so the no-cache solve starts from the default guess
                    # instead of the remembered K; with K frozen (C15-3) the answer is whatever guess was taken
                    sig = 'history-vs-fresh:pseudo-equilibrium'
                failures.append({'signature': sig, 'op_index': op_index,
                                 'what': f"with use_cache=True l={sig6(l_after[idx])} L={sig6(L_after[idx])}, "
                                         f"the same history with use_cache=False gives l={sig6(tl[idx])} "
                                         f"L={sig6(tL[idx])} (chemicals {ids}, T={T}, previous call "
                                         f'{"none" if prev is None else prev[0]} K, method={method}, history {rel})'})
        # 4. fresh stream
        if not custom_hit:
            fr = new_lle_stream({i: feed[i] for i in range(len(feed)) if feed[i]}, method, tolT, tolZ)
            try:
                fr_raw = raw_call(fr, T, top)
            except Exception as e:
                failures.append({'signature': f'lle-raises:{type(e).__name__}:fresh-stream', 'op_index': op_index,
                                 'what': f'a fresh stream with the same flows raises {type(e).__name__}: {e} '
                                         f'(chemicals {ids}, T={T}, method={method})'})
                prev = (T, z.copy(), list(idx))
                continue
            fl_, fL_ = rows(fr)
            mm = split_mismatch(l_after, L_after, fl_, fL_, F_feed, upto_swap, es)
            _stat('fresh', method, len(idx), path, rel, mm)
            if mm > thr:
                if method == 'pseudo equilibrium':
                    # the documented defect only while every K this stream has remembered is a frozen initial guess (the
                    # fresh stream's own answer is checked the same way when it is a main call of another case)
                    sig = 'history-vs-fresh:pseudo-equilibrium' if frozen_chain else \
                        'history-vs-fresh:pseudo-equilibrium:K-is-not-the-frozen-initial-guess'
                else:
                    sig = f'history-vs-fresh:{MTAG[method]}:{rel}'
                    # both flows are what a solve of this very composition returned (the stream's own, and the fresh
                    # stream's): then the history is not involved — the minimiser answers the same problem twice differently
                    if path == 'solve' and is_solver_answer(l_after, L_after, main_raw, idx, F_feed) \
                            and is_solver_answer(fl_, fL_, fr_raw, idx, F_feed):
                        kind_, dG = optimiser_disagreement(es, (l_after, L_after), (fl_, fL_))
                        tags.append('optimiser:two-solves-of-one-problem-differ:' + kind_)
                        sig = None if kind_ == 'flat' else \
                            f'optimiser-not-at-minimum:{MTAG[method]}:' + ('binary' if len(idx) == 2 else 'multicomponent')
                if sig is not None: failures.append({'signature': sig, 'op_index': op_index,
                                 'what': f"after the history l={sig6(l_after[idx])} L={sig6(L_after[idx])}, "
                                         f"a fresh stream gives l={sig6(fl_[idx])} L={sig6(fL_[idx])} "
                                         f'(chemicals {ids}, T={T}, previous call {"none" if prev is None else prev[0]} K, '
                                         f'method={method}, path={path})'})
            # 5. scaling (fresh against fresh)
            kscale = float(kv.get('k', '1'))
            if kscale != 1:
                sc = new_lle_stream({i: feed[i] * kscale for i in range(len(feed)) if feed[i]}, method, tolT, tolZ)
                try:
                    sc_raw = raw_call(sc, T, top)
                except Exception as e:
                    failures.append({'signature': f'lle-raises:{type(e).__name__}:scaled-fresh-stream', 'op_index': op_index,
                                     'what': f'a fresh stream with {kscale} x the flows raises {type(e).__name__}: {e} '
                                             f'(chemicals {ids}, T={T}, method={method})'})
                    prev = (T, z.copy(), list(idx))
                    continue
                sl, sL = rows(sc)
                mm = split_mismatch(fl_ * kscale, fL_ * kscale, sl, sL, F_feed * kscale, upto_swap, es)
                tags.append('scale-checked')
                _stat('scale', method, len(idx), path, rel, mm)
                sig = f'scale:{MTAG[method]}'
                if mm > thr and method != 'pseudo equilibrium' and is_solver_answer(fl_, fL_, fr_raw, idx, F_feed) \
                        and is_solver_answer(sl, sL, sc_raw, idx, F_feed * kscale):
                    kind_, dG = optimiser_disagreement(es, (fl_, fL_), (sl, sL))
                    tags.append('optimiser:two-solves-of-one-problem-differ:' + kind_)
                    sig = None if kind_ == 'flat' else \
                        f'optimiser-not-at-minimum:{MTAG[method]}:' + ('binary' if len(idx) == 2 else 'multicomponent')
                if mm > thr and sig is not None:
                    failures.append({'signature': sig, 'op_index': op_index,
                                     'what': f'feed scaled by {kscale}: flows {sig6(sl[idx])} / {sig6(sL[idx])} '
                                             f'are not {kscale} x {sig6(fl_[idx])} / {sig6(fL_[idx])} '
                                             f'(chemicals {ids}, T={T}, method={method})'})
        prev = (T, z.copy(), list(idx))
    return two_phase_after_history


# --------------------------------------------------------------------------
# SLE adapter
# --------------------------------------------------------------------------
def new_sle_stream(th, liq, sol):
    m = tmo.MultiStream(None, phases=('s', 'l'), thermo=STH[th])
    for i, v in liq.items(): m.imol['l', SNAMES[i]] = v
    for i, v in sol.items(): m.imol['s', SNAMES[i]] = v
    return m


def would_crash(fn):
    """run fn in a forked child; True if the child died from a signal"""
    sys.stdout.flush(); sys.stderr.flush()
    pid = os.fork()
    if pid == 0:
        try:
            fn()
            os._exit(0)
        except BaseException:
            os._exit(3)
    _, status = os.waitpid(pid, 0)
    return os.WIFSIGNALED(status)


def run_sle(case, model_in, outs, failures, tags):
    ops = [o.split(' ') for o in case.ops]
    kv0 = kvs(ops[0][2:])
    th = int(kv0['thermo'])
    m = new_sle_stream(th, parse_flows(kv0['liq']), parse_flows(kv0['sol']))
    chemicals = STH[th].chemicals
    def emit(line, ans):
        model_in.append(line); outs.append(ans)
    emit('sle-reset', 'ok')
    tags.append('sle:' + ('dortmund' if th == 0 else 'ideal'))
    partial = False
    pure_seen = False
    last_computed = None   # (solute, chemicals present), other liquid flows at the last computed-solubility call
    prev_kind = None
    for k in range(1, len(ops)):
        t = ops[k]; kv = kvs(t[2:])
        if t[1] == 'set':
            for i, v in parse_flows(kv.get('liq', '-')).items(): m.imol['l', SNAMES[i]] = v
            for i, v in parse_flows(kv.get('sol', '-')).items(): m.imol['s', SNAMES[i]] = v
            continue
        if t[1] == 'resetcache':
            m.reset_cache(); model_in.append('sle-reset'); outs.append('ok'); prev_kind = None
            continue
        if t[1] in ('phases', 'touch'):
            n0 = len(outs)
            if t[1] == 'phases': set_phases(m, kv['set'], emit)
            else: access(m, kv['kind'], emit)
            ch = any(o.startswith('caches=') and l.endswith('=1') for l, o in zip(model_in[n0:], outs[n0:]))
            if 'caches=fresh' in outs[n0:]: prev_kind = None
            tags.append(f'phase-set:{t[1]}:' + ('changed' if ch else 'same'))
            continue
        solute = kv['solute']; T = float(kv['T'])
        given = None if kv['given'] == '-' else float(kv['given'])
        si = chemicals.index(solute)
        Tm = chemicals.tuple[si].Tm
        s0, l0 = rows(m, 's', 'l')
        present = l0[si] + s0[si]
        nzs = [i for i in range(len(l0)) if (l0[i] + s0[i]) != 0]
        idx = list(chemicals.get_lle_indices(nzs))
        kind = 'given' if given is not None else 'computed'
        tags.append('sle-call:' + kind)
        sle = access(m, 'sle', emit)
        line = (f'sle-call s={si} T={fbits(T)} Tm={fbits(Tm)} given={"-" if given is None else fbits(given)} '
                f'x=%s liq={fl(l0)} sol={fl(s0)} nz={nl(nzs)} idx={nl(idx)}')
        call = lambda: sle(solute, T=T, solubility=given)
        # a computed call after a given-solubility call on the same set of chemicals walks into the
        # activity-coefficient kernel with an index left at slice(None): try it in a child process first
        risky = (given is None and present and getattr(sle, '_index', None) == slice(None)
                 and getattr(sle, '_nonzero', None) == frozenset(nzs))
        err = None
        if risky:
            # never made in this process: the kernel reads past the end of its parameter arrays
            err = 'crash' if would_crash(call) else 'out-of-bounds-read'
        else:
            _rec_reset()
            try:
                call()
            except Exception as e:
                err = type(e).__name__
                if isinstance(e, RuntimeError) and 'no solute' in str(e): err = 'no-solute'
            finally:
                REC['on'] = False
        if err == 'no-solute':
            model_in.append(line % '-'); outs.append('err=no-solute'); tags.append('sle:no-solute')
            continue
        if err is not None:
            ctx = f'{kind}-after-{prev_kind}' if prev_kind else f'{kind}-on-fresh-object'
            failures.append({'signature': f'sle-raises:{err}:{ctx}', 'op_index': len(model_in),
                             'what': f'sle({solute!r}, T={T}, solubility={given}) '
                                     + ('kills the interpreter (segmentation fault in a child process)' if err == 'crash'
                                        else 'calls the activity-coefficient kernel of the chemicals present with the mole fractions '
                                             'of ALL chemicals of the package (sle._index is slice(None)): out-of-bounds read, '
                                             'tried in a child process only' if err == 'out-of-bounds-read'
                                        else f'raises {err}') + f' ({ctx}; chemicals present {[chemicals.IDs[i] for i in nzs]})'})
            tags.append('sle:raised')
            break               # the object is in an undefined state (or the call cannot be made): the case ends
        xs = REC['x']
        sxs = REC['sx']
        # the solubility "it computed" is what _solve_x RETURNED (T given: called once); what reaches _update_solubility
        # must be that number
        x_used = given if given is not None else (sxs[-1] if sxs else (xs[-1] if xs else None))
        s1, l1 = rows(m, 's', 'l')
        is_pure = (given is None and not xs)
        if given is None and not is_pure:
            if not sxs or xs[-1] != sxs[-1]:
                failures.append({'signature': 'sle:solubility-used-is-not-the-one-computed', 'op_index': len(model_in),
                                 'what': f'solute {solute}, T={T}: _solve_x returned {sxs[-1] if sxs else None}, the rows were '
                                         f'updated with {xs[-1]}'})
            if th == 1 and sxs:
                from chemicals import solubility_eutectic
                c_ = chemicals.tuple[si]
                ref = solubility_eutectic(T, c_.Tm, c_.Hfus, c_.Cn.l(T), c_.Cn.s(T), 1.)
                tags.append('sle:ideal-solubility-recomputed')
                if abs(ref - sxs[-1]) > 1e-9 * abs(ref):
                    failures.append({'signature': 'sle:computed-solubility-is-not-the-eutectic-one', 'op_index': len(model_in),
                                     'what': f'ideal package, solute {solute}, T={T}: _solve_x returned {sxs[-1]}, '
                                             f'chemicals.solubility_eutectic with gamma=1 gives {ref}'})
            if th == 0 and sxs and len(idx) > 1 and si in idx and 0 < l1[si] < present:
                # non-ideal package: the solubility it computed must be the eutectic solubility at the activity coefficient
                # OF THE NAMED SOLUTE in the liquid the call leaves behind (the fixed point _solve_x iterates to), recomputed
                # here through a fresh thermo.Gamma
                from chemicals import solubility_eutectic
                c_ = chemicals.tuple[si]
                xl_ = l1[idx] / l1[idx].sum()
                gam_ = float(STH[0].Gamma([chemicals.tuple[i] for i in idx])(xl_, T)[idx.index(si)])
                ref = solubility_eutectic(T, c_.Tm, c_.Hfus, c_.Cn.l(T), c_.Cn.s(T), gam_)
                dev = abs(ref - sxs[-1]) / max(abs(ref), abs(sxs[-1]), 1e-300)
                _stat('sledev', solute, T, dev, ref, sxs[-1])
                # did the iteration (flx.aitken, 100 steps at most, an external solver) reach a fixed point of the map the
                # CODE iterates?  one more evaluation of the real _x_iter at the returned x (it re-applies the same update)
                try:
                    own = float(sle._x_iter(sxs[-1], T, c_.Tm, c_.Hfus, c_.Cn.l(T), c_.Cn.s(T)))
                    own_dev = abs(own - sxs[-1]) / max(abs(own), abs(sxs[-1]), 1e-300)
                except Exception:
                    own_dev = 0.
                if own_dev > SLE_X_TOL:
                    tags.append('sle:solubility-iteration-not-converged(skipped)')     # e.g. glucose in toluene near 390 K
                    dev = 0.
                else:
                    tags.append('sle:dortmund-solubility-recomputed')
                if dev > SLE_X_TOL:
                    failures.append({'signature': 'sle:computed-solubility-is-not-the-eutectic-one', 'op_index': len(model_in),
                                     'what': f'solute {solute}, T={T}, chemicals {[chemicals.IDs[i] for i in nzs]}: _solve_x returned '
                                             f'{sxs[-1]}; the eutectic solubility with the activity coefficient of {solute} '
                                             f'({gam_:.6g}) in the liquid the call left is {ref}'})
        model_in.append(line % ('-' if (given is not None or x_used is None) else fbits(x_used)))
        outs.append(f'pure={int(is_pure)} liq={fl(l1)} sol={fl(s1)}')
        op_index = len(model_in) - 1
        prev_kind = kind
        tags.append('sle-branch:' + ('pure' if is_pure else 'solubility'))
        if given is None and not is_pure and last_computed is not None and last_computed[0] == (solute, tuple(nzs)) \
                and last_computed[1] != tuple(np.delete(l0, si)):
            tags.append('sle:computed-again-on-the-same-chemicals-after-a-solvent-edit'
                        + (':partly-dissolved' if 0 < l1[si] < present else ''))
        if given is None and not is_pure and last_computed is not None and last_computed[0][1] == tuple(nzs) \
                and last_computed[0][0] != solute and prev_kind == 'computed':
            tags.append('sle:computed-for-another-solute-on-the-same-chemicals'
                        + (':partly-dissolved' if 0 < l1[si] < present else ''))
        if given is None and not is_pure: last_computed = ((solute, tuple(nzs)), tuple(np.delete(l0, si)))
        # --- oracle
        others = [i for i in range(len(l0)) if i != si]
        if any(l1[i] != l0[i] or s1[i] != s0[i] for i in others):
            failures.append({'signature': 'sle:other-chemical-moved', 'op_index': op_index,
                             'what': f'a chemical other than the solute {solute} changed: liquid {l0.tolist()} -> {l1.tolist()}, '
                                     f'solid {s0.tolist()} -> {s1.tolist()}'})
        d = l1[si]
        if abs((l1[si] + s1[si]) - present) > 1e-9 * max(present, 1e-300):
            failures.append({'signature': 'sle:solute-not-conserved', 'op_index': op_index,
                             'what': f'solute {solute}: {present} before, {l1[si]} + {s1[si]} after'})
        if d < 0 or s1[si] < -1e-12 * present or d > present * (1 + 1e-12):
            failures.append({'signature': 'sle:dissolved-outside-0-present', 'op_index': op_index,
                             'what': f'solute {solute}: dissolved {d}, present {present}, solid {s1[si]}'})
        only_solute = (nzs == [si])
        if pure_seen and not only_solute and given is None: tags.append('sle:mixture-call-after-a-pure-solute-call')
        if is_pure and not only_solute:
            failures.append({'signature': 'sle:pure-solute-branch-on-a-mixture', 'op_index': op_index,
                             'what': f'{[chemicals.IDs[i] for i in nzs]} are present, yet sle({solute!r}, T={T}) used the melting-point '
                                     f'rule of a pure solute (no solubility computed): liquid {d}, solid {s1[si]}, Tm of {solute} '
                                     f'{Tm} (an earlier call on this stream was made on a pure solute)'})
        if is_pure: pure_seen = True
        if x_used is not None and not is_pure:
            Fl = l1.sum()
            xl = d / Fl if Fl else 0.
            if x_used < 0: bound = 0.
            else: bound = x_used
            if xl > bound * (1 + 1e-9) + 1e-15 and not (only_solute and x_used >= 1):
                failures.append({'signature': 'sle:dissolved-above-solubility', 'op_index': op_index,
                                 'what': f'solute {solute}: mole fraction {xl} in the liquid exceeds the solubility '
                                         f'{x_used} ({"given" if given is not None else "computed"}), T={T}'})
            if 0 < d < present: partial = True
        if only_solute and given is None and T != Tm:
            good = (d == present and s1[si] == 0) if T > Tm else (d == 0 and s1[si] == present)
            if not good:
                failures.append({'signature': 'sle:pure-solute-rule', 'op_index': op_index,
                                 'what': f'pure {solute} (Tm={Tm}) at T={T}: liquid {d}, solid {s1[si]}'})
            tags.append('sle:pure-solute-' + ('above' if T > Tm else 'below'))
        # report-only: does the history matter?
        if given is None:
            fr = new_sle_stream(th, {i: l0[i] for i in range(len(l0)) if l0[i]}, {i: s0[i] for i in range(len(s0)) if s0[i]})
            try:
                fr.sle(solute, T=T)
                fs, fli = rows(fr, 's', 'l')
                if abs(fli[si] - d) > 1e-6 * present: tags.append('sle:history-changes-result(report-only)')
            except Exception:
                pass
    return partial


# --------------------------------------------------------------------------
def run_impl(case: Case) -> ImplResult:
    model_in, outs, failures, tags = [], [], [], []
    kind = case.ops[0].split(' ')[0]
    if kind == 'lle':
        nt = run_lle(case, model_in, outs, failures, tags)
    elif kind == 'sle':
        nt = run_sle(case, model_in, outs, failures, tags)
    else:
        raise ValueError('unknown case kind ' + kind)
    return ImplResult(model_in=model_in, outs=outs, failures=failures, tags=sorted(set(tags)),
                      nontrivial=tuple(case.ops) if nt else None)


def _vals(tok):
    if tok == '' or tok == '-': return []
    return [from_fbits(x) if x.startswith('b') else x for x in tok.split(',')]


def compare(impl_line, model_line):
    """tolerance mode: every key the implementation reports must be reported by the model with the same
    value (floats at rtol 1e-9 / atol 1e-300); model-only keys (swap, os) are tags"""
    if impl_line == model_line: return True
    a = impl_line.split(' '); b = model_line.split(' ')
    da, db = kvs(a), kvs(b)
    if [t for t in a if '=' not in t] != [t for t in b if '=' not in t]: return False
    for k, va in da.items():
        if k not in db: return False
        xa, xb = _vals(va), _vals(db[k])
        if len(xa) != len(xb): return False
        for p, q in zip(xa, xb):
            if isinstance(p, float) and isinstance(q, float):
                if p != p or q != q:
                    if not (p != p and q != q): return False
                elif p != q and abs(p - q) > 1e-9 * max(abs(p), abs(q)) + 1e-300:
                    return False
            elif p != q:
                return False
    return True


def model_tags(line):
    out = []
    for t in line.split(' '):
        if t in ('swap=1', 'os=1', 'par-missing') or t.startswith('path=') or t.startswith('pure='): out.append(t)
    return out


def disagree_signature(case, res, first):
    line = res.model_in[first] if first < len(res.model_in) else 'length'
    return 'disagree:' + line.split(' ')[0]


def protect_prefix(case):
    return 1


# --------------------------------------------------------------------------
# generation
# --------------------------------------------------------------------------
def rflow(rng):
    return round(rng.choice([0.2, 0.5, 1, 2, 3, 5, 8, 10, 15, 20]) * rng.uniform(0.7, 1.3), 4)


def gen_lle(rng, method_i):
    n = rng.choice([2, 2, 3, 3, 3, 4, 4, 5])
    partner = rng.choice(PARTNERS)
    names = ['Water', partner]
    rest = [x for x in LNAMES if x not in names]
    rng.shuffle(rest)
    names += rest[:n - 2]
    flows = {LNAMES.index(x): rflow(rng) for x in names}
    # water and the partner dominate so that two liquids are likely
    flows[0] = round(flows[0] + rng.choice([3, 6, 10]), 4)
    flows[LNAMES.index(partner)] = round(flows[LNAMES.index(partner)] + rng.choice([2, 4, 8]), 4)
    # absolute size of the feed: ordinary (tens of kmol/hr) or tiny (total 1e-6 .. 1e-4 kmol/hr); the cache test,
    # the split and every oracle tolerance are relative to the feed total, so nothing may depend on it
    tiny = rng.random() < 0.3
    lvl = (rng.choice([1e-6, 1e-5, 1e-4]) * rng.uniform(0.5, 1.0) / sum(flows.values())) if tiny else 1.0
    ftok = lambda d: ','.join(f'{i}:{v * lvl!r}' for i, v in sorted(d.items()))
    tolT = '-' if rng.random() < 0.9 else rng.choice(['0.5', '2.0'])
    tolZ = '-' if rng.random() < 0.92 else rng.choice(['0.0001', '0.001'])
    ops = [f'lle new method={method_i} tolT={tolT} tolZ={tolZ} flows={ftok(flows)}']
    tops = ['-'] + names + [x for x in LNAMES if x not in names][:1]
    top = rng.choice(tops)
    T = round(rng.uniform(285, 355), 2)
    if tolT != '-': T = round(T * 4) / 4        # quarter kelvins: a step of exactly tolT is then exact in binary64
    tZ = DEF_TOLZ if tolZ == '-' else float(tolZ)
    h = rng.choice([0, 1, 1, 2, 2, 3, 4])
    for c in range(h + 1):
        last = c == h
        probe = False
        if c > 0:
            tT = DEF_TOLT if tolT == '-' else float(tolT)
            def near_T():
                return T if rng.random() < 0.5 else T + rng.choice([-1, 1]) * rng.choice([0.2, 0.5, 0.9]) * tT
            def nudge_z(f):
                # change one flow so that the largest change of a mole fraction is f x the composition tolerance
                i = rng.choice(sorted(flows)); tot = sum(flows.values()); zi = flows[i] / tot
                step = f * tZ / (zi * (1 - zi))
                sign = rng.choice([-1, 1])
                if step >= 0.9: sign = 1          # a chemical present in traces: only upwards (a flow stays positive)
                flows[i] = flows[i] * (1 + sign * step)
            sc = rng.random()
            probe = rng.random() < 0.14
            if probe:
                # an update=False probe in between (it returns (chemicals, K, phi) and writes no flows, but it is a call
                # like any other for what the solver remembers), at another temperature or another composition; then back
                # to EXACTLY the temperature and composition of the call before it
                sc = 2.0
                if rng.random() < 0.65:
                    Tp = round(min(355., max(285., T + rng.choice([-1, 1]) * rng.uniform(15, 60))), 2)
                    if abs(Tp - T) < 10: Tp = round(T + (25 if T < 320 else -25), 2)
                    ops.append(f'lle call T={Tp!r} top={top} uc={rng.choice([0, 1, 1])} k=1 upd=0')
                else:
                    back = dict(flows)
                    i = rng.choice(sorted(flows)); flows[i] = round(flows[i] * rng.choice([0.3, 0.5, 2, 3]), 4)
                    ops.append(f'lle set flows={ftok(flows)}')
                    ops.append(f'lle call T={T!r} top={top} uc={rng.choice([0, 1, 1])} k=1 upd=0')
                    flows = back
                    ops.append(f'lle set flows={ftok(flows)}')
            if sc < 0.18:                                   # a legitimate cache hit: T and z within the tolerances
                T = near_T()
                r = rng.random()
                if r < 0.35:
                    nudge_z(rng.choice([0.2, 0.5, 0.9]))
                    ops.append(f'lle set flows={ftok(flows)}')
                elif r < 0.6:
                    kk = rng.choice([0.5, 2]) if tiny else rng.choice([1e-3, 0.01, 0.5, 2, 10, 1e3])
                    flows = {i: v * kk for i, v in flows.items()}
                    ops.append(f'lle scale k={kk!r}')
            elif sc < 0.30:                                 # just outside the temperature tolerance, same composition
                T = T + rng.choice([-1, 1]) * rng.choice([1.1, 3, 10, 100, 1000] + ([1.0, 1.0] if tolT != '-' else [])) * tT
                T = min(355., max(285., T))
            elif sc < 0.46:                                 # colder, same composition
                T = max(285., round(T - rng.uniform(8, 60), 2))
            elif sc < 0.58:                                 # warmer, same composition
                T = min(355., round(T + rng.uniform(8, 60), 2))
            elif sc < 0.78:                                 # same temperature, other composition
                T = near_T()
                i = rng.choice(sorted(flows))
                r = rng.random()
                if r < 0.3:                                 # just outside the composition tolerance
                    nudge_z(rng.choice([1.1, 3, 10]))
                elif r < 0.55 and len(flows) >= 3:
                    # move material from one chemical to another, total unchanged (as a reaction would):
                    # the mole fractions of the bystanders stay exactly where they were
                    j = rng.choice([x for x in sorted(flows) if x != i])
                    d = round(flows[i] * rng.choice([0.3, 0.5, 0.8]), 4)
                    flows[i] = flows[i] - d; flows[j] = flows[j] + d
                elif r < 0.8: flows[i] = round(flows[i] * rng.choice([0.3, 0.5, 2, 3]), 4)
                else: flows[i] = flows[i] * (1 + rng.choice([-1, 1]) * rng.choice([3e-4, 1e-3, 1e-2]))
                ops.append(f'lle set flows={ftok(flows)}')
            elif sc < 0.88:                                 # other chemical set
                if rng.random() < 0.5: T = near_T()
                else: T = round(rng.uniform(285, 355), 2)
                cand = [x for x in LNAMES if LNAMES.index(x) not in flows]
                drop = [i for i in flows if LNAMES[i] not in ('Water', partner)]
                if cand and drop and rng.random() < 0.35:
                    # one chemical is replaced by another: the same number of chemicals, another set
                    j = rng.choice(drop); v = flows.pop(j)
                    flows[LNAMES.index(rng.choice(cand))] = v if rng.random() < 0.5 else rflow(rng)
                elif cand and len(flows) < 5 and rng.random() < 0.6:
                    flows[LNAMES.index(rng.choice(cand))] = rflow(rng)
                else:
                    drop = [i for i in flows if LNAMES[i] not in ('Water', partner)]
                    if drop: del flows[rng.choice(drop)]
                ops.append(f'lle set flows={ftok(flows)}')
            elif sc < 0.93:
                ops.append('lle resetcache')
            elif sc < 1.5:                                  # anything
                T = round(rng.uniform(285, 355), 2)
                i = rng.choice(sorted(flows)); flows[i] = round(flows[i] * rng.choice([0.3, 0.5, 2, 3]), 4)
                ops.append(f'lle set flows={ftok(flows)}')
            if rng.random() < 0.25: top = rng.choice(tops)
            if not probe and rng.random() < 0.22:
                # the set of phases of the stream changes between two calls: explicitly, or because another kind of
                # solver is asked for (ms.vle adds 'g', ms.sle adds 's'); 'Ll' re-assigns the minimal set (no change, or
                # a shrink after an earlier enlargement)
                ops.append(rng.choice(['lle phases set=gLl', 'lle phases set=Lls', 'lle phases set=Ll', 'lle phases set=gLls',
                                       'lle touch kind=vle', 'lle touch kind=sle', 'lle touch kind=lle']))
        back_from_probe = c > 0 and probe
        uc = 1 if (back_from_probe or rng.random() < 0.88) else 0
        k = rng.choice([1e-3, 1e-2, 0.1, 10, 100, 1e3] + ([1e5, 1e6] if tiny else [1e-5, 1e-6])) \
            if (last or rng.random() < 0.3) else 1
        upd = 0 if (not last and not back_from_probe and rng.random() < 0.12) else 1
        ops.append(f'lle call T={T!r} top={top} uc={uc} k={k!r}' + ('' if upd else ' upd=0'))
    return Case(ops, {'kind': 'lle'})


def gen_sle(rng):
    th = 0 if rng.random() < 0.75 else 1
    solute = rng.choice(SOLUTES)
    nsolv = rng.choice([0, 1, 1, 2, 2, 3])
    solv = rng.sample(SOLVENTS, nsolv)
    ix = SNAMES.index
    liq, sol = {}, {}
    for x in solv: liq[ix(x)] = rflow(rng)
    where = rng.random()
    amt = rflow(rng)
    if where < 0.4: liq[ix(solute)] = amt
    elif where < 0.8: sol[ix(solute)] = amt
    else: liq[ix(solute)] = amt; sol[ix(solute)] = rflow(rng)
    if rng.random() < 0.4:
        other = rng.choice([x for x in SOLUTES if x != solute])
        (sol if rng.random() < 0.6 else liq)[ix(other)] = rflow(rng)
    ftok = lambda d: ','.join(f'{i}:{v!r}' for i, v in sorted(d.items())) or '-'
    ops = [f'sle new thermo={th} liq={ftok(liq)} sol={ftok(sol)}']
    ncall = rng.choice([1, 1, 2, 3, 4])
    def Tm_of(name):
        return STH[0].chemicals[name].Tm
    for c in range(ncall):
        keep = False         # this call continues the previous one: same solute, solubility computed again
        if c > 0:
            present_solv = [x for x in SOLVENTS if liq.get(ix(x), 0) > 0]
            sc = rng.random()
            present_solutes = [x for x in SOLUTES if liq.get(ix(x), 0) > 0 or sol.get(ix(x), 0) > 0]
            if len(present_solutes) >= 2 and rng.random() < 0.3:
                # the next call names ANOTHER solute that is present; nothing on the stream changes, so the solver keeps
                # the set-up of the previous call
                solute = rng.choice([x for x in present_solutes if x != solute])
                keep = True
                sc = 2.0
            if sc < 0.30 and present_solv:
                # the amount of a solvent that is already there is edited (less or more of it), nothing else changes:
                # the set of chemicals stays the one the solver was set up for
                x = rng.choice(present_solv)
                liq[ix(x)] = round(liq[ix(x)] * rng.choice([0.1, 0.25, 0.5, 2, 4]), 4)
                ops.append(f'sle set liq={ix(x)}:{liq[ix(x)]!r}')
                keep = True
            elif sc < 1.5:
                r = rng.random()
                if r < 0.25:
                    x = rng.choice(SOLVENTS); liq[ix(x)] = rflow(rng); ops.append(f'sle set liq={ix(x)}:{liq[ix(x)]!r}')
                elif r < 0.35 and present_solv:
                    x = rng.choice(present_solv); liq[ix(x)] = 0.0; ops.append(f'sle set liq={ix(x)}:0.0')
                elif r < 0.42:
                    ops.append('sle resetcache')
                if rng.random() < 0.25:
                    ops.append(rng.choice(['sle phases set=gls', 'sle phases set=sLl', 'sle phases set=ls', 'sle phases set=gLls',
                                           'sle touch kind=vle', 'sle touch kind=lle', 'sle touch kind=sle']))
                if rng.random() < 0.22:
                    # another solute joins the stream (as a solid or dissolved) and may become the one asked for
                    o2 = rng.choice([x for x in SOLUTES if x != solute])
                    which = 'sol' if rng.random() < 0.6 else 'liq'
                    ops.append(f'sle set {which}={ix(o2)}:{rflow(rng)!r}')
                    (sol if which == 'sol' else liq)[ix(o2)] = 1.
                if rng.random() < 0.3:
                    others = [SNAMES[i] for i in list(liq) + list(sol) if SNAMES[i] in SOLUTES]
                    if others: solute = rng.choice(others)
        # half of the calls below the melting point of the solute (where only part of it dissolves)
        if keep or rng.random() < 0.5:
            tm = Tm_of(solute)
            T = round(rng.uniform(max(250., tm - 90.), max(252., min(450., tm - 2.))), 2)
        else:
            T = round(rng.uniform(250, 450), 2)
        r = rng.random()
        if r < (0.8 if keep else 0.55): given = '-'
        else: given = repr(rng.choice([1e-4, 1e-3, 0.01, 0.05, 0.0833, 0.2, 0.5, 0.9, 0.999, 1.0, 1.5, -0.1, 0.0]))
        ops.append(f'sle call solute={solute} T={T!r} given={given}')
    return Case(ops, {'kind': 'sle'})


def generate(rng, tier, index, nworkers):
    b = budget(tier)
    # grid part: every method on every worker; random part on top
    n_lle, n_sle = b['lle'], b['sle']
    for i in range(max(n_lle, n_sle)):
        if i < n_sle: yield gen_sle(rng)
        if i < n_lle: yield gen_lle(rng, (i + index) % 3)


def corpus():
    W, O, E, B = 0, 1, 5, 2
    return [
        # DESIGN.md §8 #19: a call at a lower temperature than the previous one
        Case(['lle new method=1 tolT=- tolZ=- flows=0:10.0,1:5.0,5:1.0', 'lle call T=350.0 top=Octane uc=1 k=1',
              'lle call T=300.0 top=Octane uc=1 k=1'], {'kind': 'lle'}),
        Case(['lle new method=2 tolT=- tolZ=- flows=0:10.0,2:5.0', 'lle call T=340.0 top=- uc=1 k=1',
              'lle call T=340.0 top=Butanol uc=1 k=10.0', 'lle scale k=0.5', 'lle call T=340.0005 top=Butanol uc=1 k=1'], {'kind': 'lle'}),
        Case(['lle new method=0 tolT=- tolZ=- flows=0:10.0,1:5.0,5:1.0', 'lle call T=300.0 top=Octane uc=1 k=1',
              'lle call T=300.0 top=Water uc=1 k=1'], {'kind': 'lle'}),
        # same temperature, material moved from water to ethanol (total unchanged): octane's mole fraction is
        # exactly where it was, the other two are not
        Case(['lle new method=1 tolT=- tolZ=- flows=0:10.0,1:5.0,5:1.0', 'lle call T=320.0 top=Octane uc=1 k=1',
              'lle set flows=0:7.0,1:5.0,5:4.0', 'lle call T=320.0 top=Octane uc=1 k=1'], {'kind': 'lle'}),
        # one liquid chemical: nothing to split
        Case(['lle new method=0 tolT=- tolZ=- flows=0:10.0', 'lle call T=300.0 top=Water uc=1 k=1'], {'kind': 'lle'}),
        Case(['lle new method=0 tolT=- tolZ=- flows=0:10.0', 'lle call T=300.0 top=Water uc=1 k=1 upd=0',
              'lle call T=300.0 top=- uc=1 k=1 upd=0'], {'kind': 'lle'}),
        Case(['lle new method=2 tolT=- tolZ=- flows=0:10.0,2:5.0', 'lle call T=320.0 top=Butanol uc=1 k=1 upd=0',
              'lle call T=320.0 top=Butanol uc=1 k=1'], {'kind': 'lle'}),
        # a tiny stream (2e-5 kmol/hr): same temperature, composition changed eight-fold in relative terms but by less
        # than 1e-5 kmol/hr in absolute terms — the reuse test must look at mole fractions, not at flows
        Case(['lle new method=1 tolT=- tolZ=- flows=0:9e-06,1:9e-06,5:1e-06', 'lle call T=310.0 top=Octane uc=1 k=1',
              'lle set flows=0:2e-06,1:1.5e-05,5:8e-06', 'lle call T=310.0 top=Octane uc=1 k=100000.0'], {'kind': 'lle'}),
        Case(['lle new method=2 tolT=- tolZ=- flows=0:9e-06,1:9e-06,5:1e-06', 'lle call T=310.0 top=Octane uc=1 k=1',
              'lle set flows=0:2e-06,1:1.5e-05,5:8e-06', 'lle call T=310.0 top=Octane uc=1 k=100000.0'], {'kind': 'lle'}),
        # a single-phase binary: the optimiser returns two identical liquids (K = 1 ± 1e-8); reusing that K made
        # compute_phase_fraction_2N divide by zero (fixes_proposed/C15-4.md)
        Case(['lle new method=2 tolT=- tolZ=- flows=0:6.596,2:28.4414', 'lle call T=310.24 top=- uc=1 k=1',
              'lle set flows=0:6.596,2:28.4411724688', 'lle call T=310.24 top=- uc=1 k=1'], {'kind': 'lle'}),
        # the set of phases changes between two calls of the same kind of solver (the solver handed out afterwards
        # must act on the stream's new material data)
        Case(['lle new method=2 tolT=- tolZ=- flows=0:12.0,3:6.0,5:2.0', 'lle call T=295.0 top=Hexane uc=1 k=1',
              'lle phases set=gLl', 'lle call T=345.0 top=Hexane uc=1 k=1', 'lle touch kind=sle',
              'lle call T=300.0 top=Hexane uc=1 k=1'], {'kind': 'lle'}),
        Case(['sle new thermo=0 liq=5:12.0 sol=-', 'sle call solute=Naphthalene T=330.0 given=-', 'sle phases set=gls',
              'sle call solute=Naphthalene T=370.0 given=-'], {'kind': 'sle'}),
        Case(['sle new thermo=0 liq=0:8.0,6:3.0 sol=-', 'sle call solute=Phenol T=300.0 given=0.2', 'sle touch kind=vle',
              'sle call solute=Phenol T=280.0 given=0.01', 'sle touch kind=lle', 'sle call solute=Phenol T=290.0 given=-'],
             {'kind': 'sle'}),
        # a pure-solute call, then a second solute joins and is asked for (the pure-solute mode must be left)
        Case(['sle new thermo=0 liq=7:4.0 sol=-', 'sle call solute=BenzoicAcid T=320.0 given=-', 'sle set sol=4:2.5',
              'sle call solute=Tetradecanol T=290.0 given=-', 'sle set liq=1:6.0', 'sle call solute=BenzoicAcid T=340.0 given=-'],
             {'kind': 'sle'}),
        # less solvent between two computed-solubility calls on the same chemicals (the bound is judged on the stream as it
        # is after the call)
        Case(['sle new thermo=0 liq=1:12.0,5:9.0 sol=-', 'sle call solute=Naphthalene T=300.0 given=-', 'sle set liq=1:3.0',
              'sle call solute=Naphthalene T=310.0 given=-', 'sle set liq=1:24.0', 'sle call solute=Naphthalene T=295.0 given=-'],
             {'kind': 'sle'}),
        # an update=False probe at another temperature between two calls at one temperature: what is remembered afterwards
        # is the probe (its K AND its T, z), so the third call may not reuse anything
        Case(['lle new method=2 tolT=- tolZ=- flows=0:9.0,4:7.0,5:1.5', 'lle call T=298.0 top=EthylAcetate uc=1 k=1',
              'lle call T=345.0 top=EthylAcetate uc=1 k=1 upd=0', 'lle call T=298.0 top=EthylAcetate uc=1 k=1'], {'kind': 'lle'}),
        Case(['lle new method=1 tolT=- tolZ=- flows=0:14.0,7:6.0,8:2.0', 'lle call T=310.0 top=Toluene uc=1 k=1',
              'lle set flows=0:14.0,7:6.0,8:8.0', 'lle call T=310.0 top=Toluene uc=1 k=1 upd=0',
              'lle set flows=0:14.0,7:6.0,8:2.0', 'lle call T=310.0 top=Toluene uc=1 k=1'], {'kind': 'lle'}),
        # two solutes on one stream, asked for one after the other (the activity coefficient must be the named solute's)
        Case(['sle new thermo=0 liq=1:9.0,0:1.5 sol=7:5.0,5:4.0', 'sle call solute=BenzoicAcid T=300.0 given=-',
              'sle call solute=Naphthalene T=300.0 given=-', 'sle call solute=BenzoicAcid T=310.0 given=-'], {'kind': 'sle'}),
        # SLE: docstring cases
        Case(['sle new thermo=0 liq=2:10.0,4:30.0 sol=-', 'sle call solute=Tetradecanol T=300.0 given=-',
              'sle call solute=Tetradecanol T=300.0 given=0.5'], {'kind': 'sle'}),
        Case(['sle new thermo=0 liq=4:30.0 sol=-', 'sle call solute=Tetradecanol T=300.0 given=-',
              'sle call solute=Tetradecanol T=320.0 given=-'], {'kind': 'sle'}),
        # given solubility on a fresh object; computed after given on the same chemicals
        Case(['sle new thermo=0 liq=0:10.0,6:2.0 sol=-', 'sle call solute=Phenol T=290.0 given=0.05'], {'kind': 'sle'}),
        Case(['sle new thermo=0 liq=2:10.0,4:30.0 sol=-', 'sle call solute=Tetradecanol T=300.0 given=-',
              'sle call solute=Tetradecanol T=300.0 given=0.5', 'sle call solute=Tetradecanol T=300.0 given=-'], {'kind': 'sle'}),
    ]
