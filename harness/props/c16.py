"""
C16 — activity-coefficient models are normalised, consistent and side-effect free.

Adapter for thermosteam/equilibrium/activity_coefficients.py (UNIFAC, Dortmund and NIST
modified UNIFAC, ideal), equilibrium/ideal.py, IdealFugacityCoefficients and
MockPoyintingCorrectionFactors.  The real model objects are driven through their public
API (`Gamma(chemicals)(x, T)`, `Gamma(chemicals).f(x, T, *Gamma(chemicals).args)`); the arrays
that `GroupActivityCoefficients.__new__` built for the chemical tuple are dumped and handed
to the Lean model (lean/ThermoVerif/Model/Unifac.lean, Driver/C16.lean) as parameters.

Case language (case.ops):
  obj <U|D|N|I> <chem,chem,...>        make the model object for that tuple (→ driver `tab …`); `Name~` is a second Chemical
                                       object with the same ID and no group data
  set <id> <csv>                       the caller overwrites its own array in place (→ driver `set`)
  regroup <chem> clear|bump|restore    edit the chemical's group data after model objects exist (drop all groups / raise one count)
  new <csv>                            caller's float ndarray                → id
  newt <i8|i4|f4|f8s|f8ro> <csv>       caller's ndarray in another representation (int64, int32, float32, strided float64
                                       view, read-only float64) holding these values → id   (driver: `newo` / `new`)
  call nd <id> <T> | call seq <csv> <T>   Gamma(x, T)
  f <id> <T>                           Gamma.f(x, T, *Gamma.args)
                                       (call / f take an optional last token Ti | Tn | T4: T passed as int, np.float64, np.float32)
  gd <csv x> <T> <csv d> <h>           Gibbs–Duhem probe: Gamma at x±h·d (two `call seq` lines for the model)
  ac <csv x_sub> <T>                   Gamma.activity_coefficients(x_sub, T): the kernels without gather/scatter
  gdac <csv x_sub> <T> <csv d> <h>     Gibbs–Duhem probe through activity_coefficients (two `ac` lines for the model)
  phi <csv y> <T> <P> | pcf <T> <P> | idealf
Floats travel as `b<bits>`.
"""
from __future__ import annotations
import os, sys, json, hashlib, itertools, subprocess, warnings, math, time
from pathlib import Path
from harness import core
from harness.core import Case, ImplResult, fbits, from_fbits

PID = 'C16'
LEAN_MODULES = ['ThermoVerif.Props.C16']
RULE = ('a case = one set of 2-6 chemicals (0-2 of them without functional groups; pool of 24 with / 8 without) and one '
        'model class (UNIFAC, Dortmund, NIST, ideal), evaluated through the real objects at every simplex vertex, at '
        'near-vertices (1-x_i in 1e-12..1e-6), trace compositions, random interior points, T in [250, 450] K, as float '
        'ndarray (same array reused over several calls), as list, as integer-typed (vertices), float32, strided and read-only '
        'ndarrays, through .f(x, T, *args), and for permuted chemical tuples '
        '(all permutations up to 4 chemicals in the thorough tier, sampled otherwise) at the correspondingly permuted '
        'compositions; further model objects over the same members-with-groups in the same relative order with the members '
        'without groups dropped / added / in front / in between / behind (each case starts from empty instance caches, so the '
        'history of constructions is the one written in the case; a quarter of the cases begin with the constructions of the previous case); '
        'caller arrays rewritten in place between evaluations (new, call, set, call / f); group data edited after a model exists (clear / '
        'one count raised / restored); pcf(T, P, Psats) with saturation pressures below and above P; '
        'a second model class built for the same tuple before / between constructions of the first; the tuple with one member replaced '
        'by a same-ID chemical object without group data; T as int / NumPy scalar; positive multiples of simplex points (correspondence only); Gibbs-Duhem probes by central differences along random simplex directions at interior points. '
        'non-trivial = the case evaluated a group-contribution object (not the ideal fallback); distinct = distinct op lists')
ASSUMPTIONS = [
    'group tables (counts, Q, R, interaction parameters) are parameters: the real arrays built by '
    'GroupActivityCoefficients.__new__ are passed to the model; the driver checks (wf=1) that they are the ones the model of '
    '__new__ derives from (counts, Q, R) and that Q,R >= 0, q_i, r_i > 0, index strictly increasing',
    'model-vs-code comparison of gamma is relative 1e-9 (numba/BLAS summation order, libm exp/log/pow); argument arrays, '
    'freshness and exact-one clauses are compared exactly',
    'Gibbs-Duhem for the concrete UNIFAC / modified-UNIFAC expressions is proved for the model (gibbs_duhem_concrete, '
    'gibbs_duhem_unifac_all: ln gamma is the gradient of a degree-one homogeneous excess function, arbitrary tables); on the real '
    'code it is additionally watched by a finite-difference search oracle: |sum x_i dln(gamma_i)/ds| <= 2e-6*(1 + sum x_i |dln(gamma_i)/ds|), '
    'central differences with h = 1e-5*min(x_i over varied chemicals), points with all varied x_i >= 1e-3',
    'the model is written to the REPAIRED behaviour of gamma_UNIFAC / loggammacs_UNIFAC / the xsum==0 branch '
    '(fixes_proposed/C16-1..3.md)',
    'compositions with negative or NaN entries and wrong-length arrays are not generated; non-normalised compositions only as positive '
    'multiples of simplex points passed as lists (the wrappers renormalise), compared with the model, no limit / Gibbs-Duhem clause applied',
    'the interaction-parameter array is a parameter of the model; the adapter checks that the real `_interactions` equals the table lookup '
    'a(i -> j) for the main groups of the object\'s columns (orientation as in the code; that the numbers are UNIFAC\'s is not a clause of C16)',
    'ideal_one, the ndarray half of f_form_eq_object_form and args_pure are true by construction of the model (it defines the ideal '
    'models as 1 and has no primitive that writes a caller array); on the real code these clauses are decided by the protocol fields '
    'g= / x= / fresh= and the oracle (x-modified, result-aliases-*, result-shared-between-calls, args-modified, history), not by proof',
    'group data edited after a model object exists is generated by default (repair 3b3fd7f keys the instance cache on the group data); '
    'VERIF_C16_GROUP_EDITS=0 switches those histories off',
    'which object serves as the all-ones fallback when at most one member has groups is not judged (values are); a model class must return '
    'its own class when two or more members have groups',
]
TRUSTED = ['Lean 4.33 kernel', 'correspondence harness harness/props/c16.py + Driver/C16.lean',
           'IEEE double vs real-number gap (theorems are over the reals; the driver runs the same definitions in Float)',
           'generator reach (see histogram)']
EXHAUSTIVE = {'quick': False, 'thorough': False}

# numba kernels are compiled on first use: keep the compiled code in a directory of ours
def _cache_dir():
    """a writable directory for the numba cache and the crash-probe result (the tree may be read-only)"""
    import tempfile
    for d in (core.ROOT / '.cache', Path(tempfile.gettempdir()) / f'verif-c16-cache-{os.getuid()}'):
        try:
            d.mkdir(parents=True, exist_ok=True)
            t = d / f'.w{os.getpid()}'; t.write_text('x'); t.unlink()
            return d
        except Exception:
            continue
    return Path(tempfile.mkdtemp(prefix='verif-c16-'))


_CACHE = _cache_dir()
_KEY = hashlib.sha1(str(core.REPO.resolve()).encode()).hexdigest()[:10]
os.environ.setdefault('NUMBA_CACHE_DIR', str(_CACHE / f'numba-c16-{_KEY}'))

np = tmo = eq = ac = unifac = None
POOL = {}
GROUPED = ['Water', 'Ethanol', 'Methanol', 'Octane', 'Hexane', 'Acetone', 'AceticAcid', 'Benzene', 'Toluene',
           'Glycerol', 'Butanol', 'EthylAcetate', 'Furfural', 'Phenol', 'Chloroform', 'DiethylEther', 'Cyclohexane',
           'Propanol', 'LacticAcid', 'Octanol', 'Decane', 'Acetaldehyde', 'MTBE', 'Propane']
NOGROUP = ['O2', 'N2', 'CO2', 'Argon', 'CH4', 'Ammonia', 'NaCl', 'H2SO4']
NIST_GROUPS = {
    'Water': {'H2O': 1}, 'Ethanol': {'CH3': 1, 'CH2': 1, 'OH prim': 1}, 'Methanol': {'CH3OH': 1},
    'Octane': {'CH3': 2, 'CH2': 6}, 'Hexane': {'CH3': 2, 'CH2': 4}, 'Acetone': {'CH3': 1, 'CH3CO': 1},
    'AceticAcid': {'CH3': 1, 'COOH': 1}, 'Benzene': {'ACH': 6}, 'Toluene': {'ACH': 5, 'ACCH3': 1},
    'Glycerol': {'CH2': 2, 'CH': 1, 'OH prim': 2, 'OH sec': 1}, 'Butanol': {'CH3': 1, 'CH2': 3, 'OH prim': 1},
    'EthylAcetate': {'CH3': 1, 'CH2': 1, 'CH3COO': 1}, 'Furfural': {'Furfural': 1}, 'Phenol': {'ACH': 5, 'ACOH': 1},
    'Chloroform': {'CHCl3': 1}, 'DiethylEther': {'CH3': 2, 'CH2': 1, 'CH2O': 1}, 'Cyclohexane': {'c-CH2': 6},
    'Propanol': {'CH3': 1, 'CH2': 2, 'OH prim': 1}, 'LacticAcid': {'CH3': 1, 'CH': 1, 'COOH': 1, 'OH sec': 1},
    'Octanol': {'CH3': 1, 'CH2': 7, 'OH prim': 1}, 'Decane': {'CH3': 2, 'CH2': 8}, 'Acetaldehyde': {'CH3': 1, 'CHO': 1},
    'MTBE': {'CH3': 3, 'C': 1, 'CH3O': 1}, 'Propane': {'CH3': 2, 'CH2': 1},
}
CLASSES = {}
TWINS = ['Water', 'Ethanol', 'Acetone', 'Hexane', 'Toluene', 'Butanol']
# histories that edit a chemical's group data after a model object exists (clean since repair 3b3fd7f;
# VERIF_C16_GROUP_EDITS=0 switches them off)
GROUP_EDITS = os.environ.get('VERIF_C16_GROUP_EDITS', '1') == '1'     # repair 3b3fd7f (C16-4) is committed


def setup():
    global np, tmo, eq, ac, unifac
    if tmo is not None: return
    try:
        Path(os.environ['NUMBA_CACHE_DIR']).mkdir(parents=True, exist_ok=True)
    except Exception:
        os.environ['NUMBA_CACHE_DIR'] = str(_CACHE / f'numba-c16-{_KEY}')
        Path(os.environ['NUMBA_CACHE_DIR']).mkdir(parents=True, exist_ok=True)
    warnings.simplefilter('ignore')
    import numpy as np_
    import thermosteam as tmo_
    from thermosteam import equilibrium as eq_
    from thermosteam.equilibrium import activity_coefficients as ac_, unifac as unifac_
    np, tmo, eq, ac, unifac = np_, tmo_, eq_, ac_, unifac_
    for n in GROUPED + NOGROUP:
        POOL[n] = tmo.Chemical(n, cache=True)
    for n, g in NIST_GROUPS.items():
        POOL[n].NIST.set_group_counts_by_name(dict(g))
    # twins: a second Chemical object with the SAME ID but no group data (the instance caches of the classes are
    # keyed on chemical objects; a cache keyed on IDs would hand back the model of the chemical with groups)
    for n in TWINS:
        c = POOL[n].copy(n)
        for field in ('UNIFAC', 'Dortmund', 'NIST', 'PSRK'):
            getattr(c, field).clear()
        POOL[n + '~'] = c
    CLASSES.update(U=eq.UNIFACActivityCoefficients, D=eq.DortmundActivityCoefficients,
                   N=eq.NISTActivityCoefficients, I=eq.IdealActivityCoefficients)
    # warm-up (compiles or loads the numba kernels)
    chems = tuple(POOL[n] for n in ('Water', 'Ethanol', 'O2'))
    for k in 'UDN':
        G = CLASSES[k](chems)
        G([0.5, 0.25, 0.25], 300.)
        for Tr in (300, np.float64(300.), np.float32(300.)):
            try: G([0.5, 0.25, 0.25], Tr); G.f(np.array([0.5, 0.25, 0.25]), Tr, *G.args)
            except Exception: pass
        for code in ('i8', 'i4', 'f4', 'f8s', 'f8ro'):
            a = make_typed(code, [1, 0, 0] if code[0] == 'i' else [0.5, 0.25, 0.25])
            try: G.f(a, 300., *G.args)
            except Exception: pass
    eq.IdealActivityCoefficients(chems).f()


def budget(tier):
    return {'quick': dict(seconds=70, cases=600, shrink_s=20, search_s=10),
            'thorough': dict(seconds=480, cases=8000, shrink_s=40, search_s=30)}[tier]


# --------------------------------------------------------------------------
# crash probe: with every chemical-with-groups at x = 0 the kernels as found read an unassigned
# variable (numba: segmentation fault).  Probe once, in a subprocess, whether this tree does that.
# --------------------------------------------------------------------------
_PROBE = None

_PROBE_SRC = r'''
import sys, os, warnings
warnings.simplefilter('ignore')
sys.path.insert(0, sys.argv[1])
import numpy as np, thermosteam as tmo
from thermosteam import equilibrium as eq
ch = tuple(tmo.Chemical(n, cache=True) for n in ('Water', 'Ethanol', 'O2'))
cls = {'U': eq.UNIFACActivityCoefficients, 'M': eq.DortmundActivityCoefficients}[sys.argv[2]]
g = cls(ch)(np.array([0., 0., 1.]), 300.)
print('RESULT', ','.join(repr(float(v)) for v in g))
'''


def xsum0_safe(kind):
    """Does the real kernel survive a composition whose group-bearing part sums to zero?"""
    global _PROBE
    if _PROBE is None:
        src = core.REPO / 'thermosteam' / 'equilibrium' / 'activity_coefficients.py'
        st = src.stat()
        f = _CACHE / f'c16-probe-{_KEY}-{st.st_mtime_ns}-{st.st_size}.json'
        if f.exists():
            try: _PROBE = json.loads(f.read_text())
            except Exception: _PROBE = None
        if _PROBE is None:
            _PROBE = {}
            for k in 'UM':
                r = subprocess.run([sys.executable, '-W', 'ignore', '-c', _PROBE_SRC, str(core.REPO), k],
                                   stdout=subprocess.PIPE, stderr=subprocess.PIPE, text=True, timeout=600,
                                   env=dict(os.environ))
                _PROBE[k] = (r.returncode == 0 and 'RESULT' in r.stdout)
            try:
                _CACHE.mkdir(exist_ok=True)
                tmp = f.with_suffix(f'.{os.getpid()}.tmp'); tmp.write_text(json.dumps(_PROBE)); tmp.replace(f)
            except Exception:
                pass
    return _PROBE[kind]


# --------------------------------------------------------------------------
# helpers
# --------------------------------------------------------------------------

OTHER_DTYPES = {'i8': 'int64', 'i4': 'int32', 'f4': 'float32'}       # np.asarray(x, float) copies these


def make_typed(code, vals):
    if code in OTHER_DTYPES:
        return np.array(vals, dtype=OTHER_DTYPES[code])
    if code == 'f8s':                      # float64, non-contiguous view (same object through np.asarray)
        base = np.zeros(2 * len(vals)); base[::2] = vals
        return base[::2]
    if code == 'f8ro':                     # float64, read-only
        a = np.array(vals, float); a.setflags(write=False)
        return a
    raise ValueError(code)


def fl(tok):  # csv of fbits → list of floats
    return [] if tok == '-' else [from_fbits(t) for t in tok.split(',')]


def csv(xs):
    xs = list(xs)
    return ','.join(fbits(float(v)) for v in xs) if xs else '-'


ARG_SLOTS = ('_interactions', '_group_mask', '_qs', '_rs', '_Qs', '_chemgroups', '_chem_Qfractions', '_index')


def grouped_positions(kind, chems):
    """positions of the chemicals that have group data for this model — from the chemicals themselves,
    never from the model object"""
    if kind == 'I': return ()
    field = CLASSES[kind].group_name
    return tuple(j for j, c in enumerate(chems) if bool(getattr(c, field)))


def validate_object(kind, G, cls, chems, grouped):
    """Compare the real model object with what the chemical tuple demands.
    Returns (problems [(tag, text)], usable): `usable` = its arrays are mutually consistent and every
    index is inside the tuple, so the numba kernels can be run on it in this process."""
    problems = []
    n = len(chems)
    expect_group = kind != 'I' and len(grouped) > 1
    is_group = isinstance(G, ac.GroupActivityCoefficients)
    # a model class must hand back its own kind of object when at least two members have groups; WHICH object serves as the
    # all-ones fallback (at most one member with groups) is not a clause: there only the values are judged
    if (expect_group and type(G) is not cls) or (not expect_group and not is_group and type(G) is not eq.IdealActivityCoefficients
                                                   and not callable(G)):
        problems.append(('type', f'{cls.__name__}{tuple(c.ID for c in chems)} returned a {type(G).__name__} '
                                 f'({len(grouped)} members have {kind} groups)'))
    try:
        got = tuple(G.chemicals)
        if len(got) != n or any(x is not y for x, y in zip(got, chems)):
            problems.append(('chemicals', f'the object handed back for {tuple(c.ID for c in chems)} says its chemicals are '
                                          f'{tuple(getattr(c, "ID", c) for c in got)}'))
    except Exception as e:
        problems.append(('attributes', f'.chemicals raised {type(e).__name__}: {e}'))
    if not is_group:
        return problems, True
    usable = True
    try:
        arrs = {k: np.asarray(getattr(G, k)) for k in ARG_SLOTS + ('_group_psis',)}
        idx = arrs['_index']
        if idx.ndim != 1 or idx.dtype.kind not in 'iu':
            problems.append(('index', f'_index is {idx!r}')); usable = False
        else:
            if tuple(int(j) for j in idx) != tuple(grouped):
                problems.append(('index', f'the object for {tuple(c.ID for c in chems)} indexes positions {idx.tolist()} as the '
                                          f'members with {kind} groups; from the chemicals\' group data they are {list(grouped)}'))
            if len(idx) and (idx.min() < 0 or idx.max() >= n): usable = False
        nC = len(idx) if idx.ndim == 1 else -1
        cgs = arrs['_chemgroups']
        nG = cgs.shape[1] if cgs.ndim == 2 else -1
        depth_ok = arrs['_interactions'].shape in ((nG, nG), (nG, nG, 3))
        shapes_ok = (cgs.ndim == 2 and cgs.shape[0] == nC and arrs['_Qs'].shape == (nG,) and arrs['_qs'].shape == (nC,)
                     and arrs['_rs'].shape == (nC,) and arrs['_chem_Qfractions'].shape == (nC, nG)
                     and arrs['_group_mask'].shape == (nG, nG) and arrs['_group_psis'].shape == (nG, nG) and depth_ok)
        if not shapes_ok:
            problems.append(('tables', 'the arrays of Gamma.args have mutually inconsistent shapes: '
                             + ', '.join(f'{k}{arrs[k].shape}' for k in arrs)))
            usable = False
        elif nC != len(grouped):
            if not any(t == 'index' for t, _ in problems):
                problems.append(('tables', f'{nC} rows of group counts for {len(grouped)} members with groups'))
    except Exception as e:
        problems.append(('attributes', f'reading the arrays of the object raised {type(e).__name__}: {e}'))
        usable = False
    return problems, usable


def subgroup_columns(G, cls, chems, grouped):
    """the subgroup id of every column of the real `_chemgroups` (the column order is an implementation
    detail: found by matching counts and Q, not assumed).  None if the columns do not describe these chemicals."""
    field = cls.group_name
    counts = [dict(getattr(chems[j], field)) for j in grouped]
    all_groups = set()
    for c in counts: all_groups.update(c)
    cgs, Qs = np.asarray(G._chemgroups, float), np.asarray(G._Qs, float)
    if cgs.shape != (len(grouped), len(all_groups)): return None
    cands = []
    for k in range(cgs.shape[1]):
        hit = [g for g in sorted(all_groups) if cls.all_subgroups[g].Q == Qs[k]
               and all(float(counts[i].get(g, 0)) == cgs[i, k] for i in range(len(counts)))]
        if not hit: return None
        cands.append(hit)
    rs = np.asarray(G._rs, float)
    best = None
    # columns with the same (Q, counts) are told apart by R: take the assignment that reproduces `_rs`
    for cols in itertools.islice(itertools.product(*cands), 512):
        if len(set(cols)) != len(cols): continue
        if best is None: best = list(cols)
        R = np.array([cls.all_subgroups[g].R for g in cols], float)
        if rs.shape == (cgs.shape[0],) and np.allclose(cgs @ R, rs, rtol=1e-12, atol=0.0):
            return list(cols)
    return best


def expected_interactions(cls, cols):
    """`_interactions` recomputed from the interaction table and the main groups of the columns
    (row = the column's own main group j, entry [j][i] = a(i -> j), no entry or i == j -> the class's zero)"""
    mg = [cls.all_subgroups[g].main_group_id for g in cols]
    zero = cls._no_interaction
    def look(i, j):
        if i == j: return zero
        try: return cls.all_interactions[i][j]
        except Exception: return zero
    return np.array([[look(i, j) for i in mg] for j in mg], float)


def dump_tables(kind, G, cls, chems, grouped):
    """the `tab` line for a real GroupActivityCoefficients object; the index handed to the model is the
    one the chemicals' group data demand.  None if the object's tables do not describe these chemicals."""
    cols = subgroup_columns(G, cls, chems, grouped)
    if cols is None: return None
    try:
        exp = expected_interactions(cls, cols)
        got = np.asarray(G._interactions, float)
        if exp.shape != got.shape or not np.array_equal(exp, got):
            return 'interactions'
    except Exception:
        return 'interactions'
    Rs = np.array([cls.all_subgroups[g].R for g in cols], float)
    nC, nG = G._chemgroups.shape
    mk = 'U' if kind == 'U' else 'M'
    inter = np.asarray(G._interactions, float)
    return ' '.join(['tab', mk, str(nC), str(nG), ','.join(str(int(i)) for i in grouped),
                     csv(G._chemgroups.ravel()), csv(G._Qs), csv(Rs), csv(G._qs), csv(G._rs),
                     csv(G._chem_Qfractions.ravel()), ','.join('1' if b else '0' for b in G._group_mask.ravel()),
                     csv(inter.ravel())])


def snapshot_args(G):
    try:
        return [np.array(getattr(G, k), copy=True) for k in ARG_SLOTS]
    except Exception:
        return None


def args_changed(G, snap):
    if snap is None: return False
    try:
        now = [np.asarray(getattr(G, k)) for k in ARG_SLOTS]
    except Exception:
        return True
    return any(a.shape != b.shape or not np.array_equal(a, b) for a, b in zip(now, snap))


# every array the real code has returned in this process (kept alive, so addresses are never reused):
# a later result that shares memory with one of them is not a fresh array
import collections
_RESULTS = collections.deque(maxlen=96)       # (array object, contents it must still have)


def same_bits(a, b):
    a = np.asarray(a, float); b = np.asarray(b, float)
    return a.shape == b.shape and a.tobytes() == b.tobytes()


class Session:
    """real objects of one case + the oracle"""
    def __init__(self):
        self.G = None; self.kind = None; self.names = (); self.snap = None
        self.group_state = {}     # name -> edits applied since the last restore
        self.group_backup = {}    # (name, field) -> group counts before a `regroup … clear`
        self.siblings = {}        # (kind, names) -> object of the class for the reversed tuple
        self.grouped = ()         # positions with group data, from the chemicals (never from the object)
        self.is_group = False     # the object is a group-contribution object
        self.usable = True        # its arrays are consistent enough to run the kernels in this process
        self.arrays = []          # caller's ndarrays
        self.byname = {}          # (kind, frozenset((name, x)), T) -> {name: gamma}
        self.failures = []
        self.model_in = []; self.outs = []
        self.group_evals = 0
        self.tags = set()

    def fail(self, sig, what, i):
        if not any(f['signature'] == sig for f in self.failures):
            self.failures.append({'signature': sig, 'op_index': i, 'what': what})

    def emit(self, line, out):
        self.model_in.append(line); self.outs.append(out)

    def temperature(self, tok, rep):
        """T as the caller writes it: a Python float, or (rep) an int, a NumPy float64 / float32 scalar"""
        T = from_fbits(tok)
        if rep is None: return T
        self.tags.add('T:' + rep)
        if rep == 'Ti' and T == int(T): return int(T)
        if rep == 'Tn': return np.float64(T)
        if rep == 'T4' and float(np.float32(T)) == T: return np.float32(T)
        return T

    def restore_groups(self):
        for (name, field), old in list(self.group_backup.items()):
            gc = getattr(POOL[name], field); gc.clear(); gc.update(old)
        self.group_backup.clear(); self.group_state.clear()

    def guarded(self, i, label, what, fn):
        """run a call into the real code; an exception is a finding about the real object, not a harness crash"""
        try:
            return True, fn()
        except Exception as e:
            self.fail(f'raises:{label}:{type(e).__name__}',
                      f'{type(self.G).__name__}{self.names}: {what} raised {type(e).__name__}: {str(e)[:200]}', i)
            return False, None

    # -- results are fresh arrays: evaluate - mutate the result in place - evaluate again ------------------
    def check_fresh(self, i, label, res, what):
        """`res` was just returned by the real code: it must not be (part of) an array returned earlier, the
        caller's arrays, or the object's own tables; nothing returned earlier may have changed meanwhile."""
        if not isinstance(res, np.ndarray): return
        for old, snap in _RESULTS:
            if old is res or np.may_share_memory(old, res):
                self.fail(f'result-shared-between-calls:{label}',
                          f'{type(self.G).__name__}{self.names}: the array returned by {what} is (shares memory with) an array '
                          f'returned by an earlier evaluation; after the caller changed that one in place it reads {np.asarray(res).tolist()}', i)
                break
        for a in self.arrays:
            if a is res or np.may_share_memory(a, res):
                self.fail(f'result-aliases-x:{label}', 'the returned array shares memory with one of the caller\'s arrays', i)
        if self.is_group and self.usable:
            for k in ARG_SLOTS + ('_group_psis',):
                a = getattr(self.G, k, None)
                if isinstance(a, np.ndarray) and np.may_share_memory(a, res):
                    self.fail(f'result-aliases-args:{label}', f'the returned array shares memory with Gamma.{k}', i)

    def earlier_results_intact(self, i, label, what):
        for old, snap in _RESULTS:
            if not np.array_equal(old, snap):
                self.fail(f'result-shared-between-calls:{label}',
                          f'{type(self.G).__name__}{self.names}: an array returned by an earlier evaluation changed from {snap.tolist()} to '
                          f'{old.tolist()} during {what}', i)
                snap[...] = old

    def scribble(self, i, label, res):
        """what a caller may do with its own result (`gamma *= x`): change it in place.  Nothing that existed
        before may change."""
        if not isinstance(res, np.ndarray) or not res.flags.writeable or any(o is res for o, _ in _RESULTS):
            if isinstance(res, np.ndarray) and res.flags.writeable and res.size:
                res *= 0.75; res += 0.125
                for o, snap in _RESULTS:
                    if o is res: snap[...] = res
            return
        callers = [a.copy() for a in self.arrays]
        try:
            res *= 0.75; res += 0.125
        except Exception:
            return
        for a, c in zip(self.arrays, callers):
            if not same_bits(a, c):
                self.fail(f'result-aliases-x:{label}', 'changing the returned array in place changed one of the caller\'s arrays', i)
        for o, snap in _RESULTS:
            if not np.array_equal(o, snap):
                self.fail(f'result-shared-between-calls:{label}',
                          'changing the returned array in place changed an array returned by an earlier evaluation', i)
                snap[...] = o
        if self.is_group and self.usable and args_changed(self.G, self.snap):
            self.fail(f'result-aliases-args:{label}', 'changing the returned array in place changed an array of Gamma.args', i)
            self.snap = snapshot_args(self.G)
        _RESULTS.append((res, res.copy()))

    def after_scribble(self, i, label, g, before, T):
        """the caller has modified the arrays it got back; the next evaluations -- of this object, of the ideal
        model and of another object of the same class, same size -- must not notice"""
        G = self.G
        ok, again = self.guarded(i, label, 'Gamma(x, T) after the caller modified an earlier result', lambda: G(before.tolist(), T))
        if ok:
            self.check_fresh(i, label, again, 'the next Gamma(x, T)')
            if not same_bits(np.asarray(again, float) * np.ones(len(g)), g):
                self.fail(f'result-shared-between-calls:{label}',
                          f'{type(G).__name__}{self.names}: after the caller modified the returned array in place, the same (x, T) '
                          f'gives {np.asarray(again).tolist()} instead of {g.tolist()}', i)
            self.scribble(i, label, again)
        chems = tuple(POOL[n] for n in self.names)
        ok, I = self.guarded(i, 'I(ideal)', 'IdealActivityCoefficients(chemicals)', lambda: eq.IdealActivityCoefficients(chems))
        if ok:
            ok, r = self.guarded(i, 'I(ideal)', 'an ideal model of the same size', lambda: I(before.tolist(), T))
            if ok:
                self.check_fresh(i, 'I(ideal)', r, 'an ideal model of the same size')
                if not np.all(np.asarray(r, float) == 1.0) or np.size(r) != len(g):
                    self.fail('result-shared-between-calls:I(ideal)',
                              f'IdealActivityCoefficients{self.names}(x, T) gives {np.asarray(r).tolist()} after the caller modified in '
                              f'place an array returned by an earlier evaluation', i)
                self.scribble(i, 'I(ideal)', r)
        if len(self.names) > 1 and self.usable and self.kind != 'I':
            rev = tuple(reversed(chems))
            sk = (self.kind, self.names, tuple(sorted(self.group_state.items())))
            if sk not in self.siblings:
                with warnings.catch_warnings():
                    warnings.simplefilter('ignore')
                    ok, S = self.guarded(i, label, 'a second object of the class (reversed tuple)', lambda: CLASSES[self.kind](rev))
                self.siblings[sk] = (S,) + validate_object(self.kind, S, CLASSES[self.kind], rev, grouped_positions(self.kind, rev)) if ok else None
            ent = self.siblings[sk]
            ok = ent is not None
            if ok:
                S, problems, usable = ent
                x = before[::-1].tolist()
                safe = usable and not problems and not (float(before[list(self.grouped)].sum()) == 0.0 if self.grouped else False)
                if safe:
                    ok, r = self.guarded(i, label, 'a second object of the class (reversed tuple)', lambda: S(x, T))
                    if ok:
                        self.check_fresh(i, label, r, 'another object of the class')
                        r1 = np.asarray(r, float).ravel()
                        if len(r1) != len(g) or not all(core.close(a, b, rtol=1e-9, atol=0.0) for a, b in zip(r1[::-1], g)):
                            self.fail(f'sibling-object:{label}',
                                      f'{type(G).__name__}: the object for the reversed tuple gives {r1[::-1].tolist()} (by name) where '
                                      f'{self.names} gives {g.tolist()}, x={before.tolist()} T={T}', i)
                        self.scribble(i, label, r)

    def rewrite_probe(self, i, label, arg, g, T):
        """the caller reuses its composition buffer: evaluate, overwrite the SAME array in place, evaluate again.
        The second answer must be the one for the new contents (no memo keyed on the array object survives a write)."""
        G = self.G
        if not (isinstance(arg, np.ndarray) and arg.dtype == np.float64 and arg.flags.writeable and len(arg) > 1): return
        keep = arg.copy()
        new = np.roll(keep, 1)
        if same_bits(new, keep): new = keep[::-1].copy()
        if same_bits(new, keep): return
        if self.is_group and self.grouped and float(new[list(self.grouped)].sum()) == 0.0 \
                and not xsum0_safe('U' if self.kind == 'U' else 'M'):
            return
        self.tags.add('caller-rewrite-probe')
        try:
            ok, _ = self.guarded(i, label, 'Gamma(x, T)', lambda: G(arg, T))          # the object has just seen this array …
            if not ok: return
            arg[...] = new                                                            # … the caller rewrites it …
            ok, r1 = self.guarded(i, label, 'Gamma(x, T) after x was rewritten in place', lambda: G(arg, T))
            ok2, ref = self.guarded(i, label, 'Gamma(list, T)', lambda: G(new.tolist(), T))
            ok3, r3 = self.guarded(i, label, 'Gamma.f(x, T, *args) after x was rewritten in place', lambda: G.f(arg, T, *G.args))
            if ok and ok2:
                ref1 = np.asarray(ref, float) * np.ones(len(new))
                for what, r in (('Gamma(x, T)', r1),) + ((('Gamma.f(x, T, *args)', r3),) if ok3 else ()):
                    if not same_bits(np.asarray(r, float) * np.ones(len(new)), ref1):
                        self.fail(f'stale-after-caller-write:{label}',
                                  f'{type(G).__name__}{self.names}: the caller evaluated x={keep.tolist()}, overwrote the same array with '
                                  f'{new.tolist()} and called {what} again: got {np.asarray(r).tolist()}, a fresh evaluation of the new '
                                  f'contents gives {np.asarray(ref).tolist()} (T={T})', i)
        finally:
            arg[...] = keep
        ok, r2 = self.guarded(i, label, 'Gamma(x, T) after x was restored', lambda: G(arg, T))
        if ok and not same_bits(np.asarray(r2, float) * np.ones(len(g)), g):
            self.fail(f'stale-after-caller-write:{label}',
                      f'{type(G).__name__}{self.names}: after the caller restored x={keep.tolist()} in place, Gamma(x, T) gives '
                      f'{np.asarray(r2).tolist()} instead of {g.tolist()}', i)

    # -- one evaluation through the real object ---------------------------------
    def evaluate(self, i, form, arg, T, line, record=True):
        """form: 'call' (object form) or 'f'; arg: ndarray (by reference) or list.  Returns gamma or None."""
        G, kind = self.G, self.kind
        is_group = self.is_group
        before = np.array(arg, float, copy=True)
        label = f'{kind}{"" if is_group else "(ideal)"}'
        if not self.usable or len(before) != len(self.names):
            # the object cannot be run safely (reported when it was made): nothing is executed, nothing is compared
            return None
        if is_group:
            sums = [float(before[list(self.grouped)].sum())] if self.grouped else []
            try: sums.append(float(before[np.asarray(G._index)].sum()))
            except Exception: pass
            if any(v == 0.0 for v in sums):
                self.tags.add('xsum0')
                if not xsum0_safe('U' if kind == 'U' else 'M'):
                    self.fail(f'crash-xsum0:{label}',
                              f'{type(G).__name__}{self.names}: a composition that is zero on every chemical with groups '
                              f'(x={before.tolist()}) crashes the interpreter: the scatter loop of the kernel reads `gamma_sub`, '
                              f'which is only assigned when xsum != 0 (verified in a subprocess; not executed here)', i)
                    if record: self.emit(line, 'crash')
                    return None
        ok, res = self.guarded(i, label, 'Gamma(x, T)' if form == 'call' else 'Gamma.f(x, T, *Gamma.args)',
                               (lambda: G(arg, T)) if form == 'call' else (lambda: G.f(arg, T, *G.args)))
        if not ok:
            if record: self.emit(line, 'raised')
            return None
        after = np.array(arg, float, copy=True)
        # ---- oracle on this evaluation
        self.check_fresh(i, label, res, 'Gamma(x, T)' if form == 'call' else 'Gamma.f(x, T, *args)')
        self.earlier_results_intact(i, label, 'an evaluation')
        if not same_bits(before, after):
            self.fail(f'x-modified:{label}/{form}/{"nd" if isinstance(arg, np.ndarray) else "seq"}',
                      f'{type(G).__name__}{self.names}: the caller\'s composition was {before.tolist()} before the call and '
                      f'{after.tolist()} after it', i)
        scalar = not isinstance(res, np.ndarray)
        if not scalar and res.dtype != np.float64:
            self.fail(f'result-dtype:{label}/{form}',
                      f'{type(G).__name__}{self.names}: called with a {getattr(arg, "dtype", type(arg).__name__)} composition '
                      f'{before.tolist()} the {"object" if form == "call" else "functional"} form returns a {res.dtype} array {res.tolist()}', i)
        try:
            g = np.full(len(before), float(res)) if scalar else np.array(res, float, copy=True).ravel()
        except Exception:
            g = np.array([])
        fresh = scalar or not (res is arg or (isinstance(arg, np.ndarray) and np.shares_memory(res, arg)))
        if not fresh:
            self.fail(f'result-aliases-x:{label}', 'the returned array shares memory with the caller\'s composition', i)
        if len(g) != len(before):
            self.fail(f'bad-shape:{label}', f'{type(G).__name__}{self.names} x={before.tolist()}: the result is {res!r}', i)
            if record: self.emit(line, f'g={csv(g)} fresh={1 if fresh else 0} x={csv(after)}')
            return None
        if not np.all(np.isfinite(g)) or not np.all(g > 0):
            self.fail(f'nonfinite:{label}', f'{type(G).__name__}{self.names} x={before.tolist()} T={T}: gamma={g.tolist()}', i)
        idx = set(self.grouped) if (kind != 'I' and len(self.grouped) > 1) else set()
        for j in range(len(g)):
            if j not in idx and g[j] != 1.0:
                self.fail(f'nogroup-not-one:{label}',
                          f'{type(G).__name__}{self.names}: {self.names[j]} has no {kind} groups (or fewer than two members have, '
                          f'or the model is ideal) but gamma={g[j]!r} at x={before.tolist()}', i)
        if is_group:
            self.group_evals += 1
            for j in idx:
                xj = before[j]
                if xj == 1.0 and before.sum() == 1.0 and np.count_nonzero(before) == 1:
                    self.tags.add('vertex')
                    if not abs(g[j] - 1.0) <= 1e-12:
                        self.fail(f'pure-limit:{label}',
                                  f'{type(G).__name__}{self.names}: at the vertex x={before.tolist()} gamma[{self.names[j]}]={g[j]!r} (must be 1)', i)
                elif 1.0 - xj <= 1e-6 and xj < 1.0 and abs(before.sum() - 1.0) < 1e-12:
                    self.tags.add('near-vertex')
                    if not abs(g[j] - 1.0) <= 1e-6:
                        self.fail(f'pure-limit-trend:{label}',
                                  f'{type(G).__name__}{self.names}: x[{self.names[j]}]={xj!r} but gamma={g[j]!r}', i)
            # the functional form and the object form are the same function
            twin = np.array(arg, copy=True) if isinstance(arg, np.ndarray) else np.array(before)   # same dtype as the argument
            ok, other = self.guarded(i, label, 'the other calling form',
                                     (lambda: G.f(twin, T, *G.args)) if form == 'call' else (lambda: G(twin, T)))
            if ok: self.check_fresh(i, label, other, 'the other calling form')
            if ok and not same_bits(other, g):
                self.fail(f'f-form:{label}',
                          f'{type(G).__name__}{self.names} x={before.tolist()} T={T}: Gamma(x,T)={g.tolist() if form == "call" else np.asarray(other).tolist()} '
                          f'but Gamma.f(x,T,*args)={np.asarray(other).tolist() if form == "call" else g.tolist()}', i)
            # same input, same answer (no hidden state), and the object's tables are not written
            ok, again = self.guarded(i, label, 'a repeated Gamma(x, T)', lambda: G(before.tolist(), T))
            if ok: self.check_fresh(i, label, again, 'a repeated Gamma(x, T)')
            if ok and not same_bits(again, g):
                self.fail(f'history:{label}',
                          f'{type(G).__name__}{self.names}: the same (x, T) evaluated again gives {np.asarray(again).tolist()} after {g.tolist()}', i)
            if args_changed(G, self.snap):
                self.fail(f'args-modified:{label}', f'{type(G).__name__}{self.names}: an array of Gamma.args (other than group_psis) was written by a call', i)
                self.snap = snapshot_args(G)
        else:
            ok, other = self.guarded(i, label, 'the other calling form',
                                     (lambda: G.f(np.array(before), T, *G.args)) if form == 'call' else (lambda: G(np.array(before), T)))
            if ok: self.check_fresh(i, label, other, 'the other calling form')
            if ok and not np.all(np.asarray(other, float) == g):
                self.fail(f'f-form:{label}', f'ideal object: f gives {other!r}, call gives {g.tolist()}', i)
            again = None
        # position independence: same named composition, same named coefficients
        key = (kind, frozenset(zip(self.names, before.tolist())), T, tuple(sorted(self.group_state.items())))
        named = dict(zip(self.names, g.tolist()))
        if len(set(self.names)) == len(self.names):
            old = self.byname.get(key)
            if old is None:
                self.byname[key] = (named, self.names)
            else:
                for n, v in named.items():
                    if not core.close(v, old[0][n], rtol=1e-9, atol=0.0):
                        self.fail(f'perm:{label}',
                                  f'{type(G).__name__}: gamma[{n}]={v!r} with the chemicals ordered {self.names} but {old[0][n]!r} '
                                  f'ordered {old[1]} (same composition by name, T={T})', i)
        # the caller now changes, in place, every array it was handed; later evaluations must not notice
        for r in (res, other, again):
            if isinstance(r, np.ndarray): self.scribble(i, label, r)
        self.after_scribble(i, label, g, before, T)
        self.rewrite_probe(i, label, arg, g, T)
        if record:
            shown = g if not scalar else [float(res)]
            self.emit(line, f'g={csv(shown)} fresh={1 if fresh else 0} x={csv(after)}')
        return g

    def eval_ac(self, i, xs, T, line):
        """`Gamma.activity_coefficients(x, T)` (public method of the group-contribution classes)"""
        G = self.G
        if not (self.is_group and self.usable) or len(xs) != len(self.grouped): return None
        x = np.array(xs, float); before = x.copy()
        label = f'{self.kind}/activity_coefficients'
        ok, res = self.guarded(i, label, 'Gamma.activity_coefficients(x, T)', lambda: G.activity_coefficients(x, T))
        if not ok:
            self.emit(line, 'raised'); return None
        self.check_fresh(i, label, res, 'Gamma.activity_coefficients(x, T)')
        g = np.array(res, float, copy=True).ravel()
        if not same_bits(before, x):
            self.fail(f'x-modified:{label}', f'{type(G).__name__}{self.names}.activity_coefficients changed x from {before.tolist()} to {x.tolist()}', i)
        if len(g) != len(before) or not np.all(np.isfinite(g)) or not np.all(g > 0):
            self.fail(f'nonfinite:{label}', f'{type(G).__name__}{self.names}.activity_coefficients x={before.tolist()} T={T}: {g.tolist()}', i)
        elif np.count_nonzero(before) == 1 and before.max() == 1.0:
            j = int(before.argmax())
            if not abs(g[j] - 1.0) <= 1e-12:
                self.fail(f'pure-limit:{label}', f'{type(G).__name__}{self.names}.activity_coefficients at x={before.tolist()}: gamma={g[j]!r} (must be 1)', i)
        if args_changed(G, self.snap):
            self.fail(f'args-modified:{label}', f'{type(G).__name__}{self.names}: an array of Gamma.args (other than group_psis) was written', i)
            self.snap = snapshot_args(G)
        self.group_evals += 1
        self.scribble(i, label, res)
        ok, again = self.guarded(i, label, 'activity_coefficients after the caller modified an earlier result',
                                 lambda: G.activity_coefficients(before.copy(), T))
        if ok:
            self.check_fresh(i, label, again, 'the next activity_coefficients(x, T)')
            if not same_bits(again, g):
                self.fail(f'result-shared-between-calls:{label}',
                          f'{type(G).__name__}{self.names}.activity_coefficients: after the caller modified the returned array in place, '
                          f'the same (x, T) gives {np.asarray(again).tolist()} instead of {g.tolist()}', i)
            self.scribble(i, label, again)
        self.emit(line, f'g={csv(g)} fresh=1 x={csv(x)}')
        return g

    # -- ops -----------------------------------------------------------------------
    def apply(self, i, op):
        t = op.split(' ')
        k = t[0]
        if k == 'obj':
            kind, names = t[1], tuple(t[2].split(','))
            chems = tuple(POOL[n] for n in names)
            cls = CLASSES[kind]
            self.G, self.kind, self.names = None, kind, names
            seen = self.__dict__.setdefault('built', {})
            if any(k2 != kind for k2 in seen.get(names, ())): self.tags.add('two-classes-one-tuple')
            seen.setdefault(names, set()).add(kind)
            if any(m.endswith('~') for m in names): self.tags.add('same-ID-twin-without-groups')
            self.grouped = grouped_positions(kind, chems)
            self.is_group, self.usable, self.snap = False, False, None
            with warnings.catch_warnings():
                warnings.simplefilter('ignore')
                ok, G = self.guarded(i, kind, f'{cls.__name__}{names}', lambda: cls(chems))
            if not ok: return
            self.G = G
            problems, self.usable = validate_object(kind, G, cls, chems, self.grouped)
            for tag, text in problems:
                self.fail(f'model-object-inconsistent:{tag}',
                          f'{cls.__name__}{names} (after the model constructions earlier in this case): {text}', i)
            self.is_group = isinstance(G, ac.GroupActivityCoefficients)
            self.tags.add('obj:' + kind + ('' if self.is_group else '->ideal'))
            if not self.usable: return
            if self.is_group:
                line = dump_tables(kind, G, cls, chems, self.grouped)
                if line == 'interactions':
                    self.fail('model-object-inconsistent:interactions',
                              f'{cls.__name__}{names}: `_interactions` is not the table lookup a(i -> j) for the main groups of the '
                              f'object\'s subgroup columns', i)
                    self.usable = False
                    return
                if line is None:
                    self.fail('model-object-inconsistent:tables',
                              f'{cls.__name__}{names}: the group-count / Q columns of the object do not describe the group data of '
                              f'these chemicals', i)
                    self.usable = False
                    return
                self.snap = snapshot_args(G)
                self.emit(line, 'ok wf=1')
                self.tags.add(f'nogroup-members:{len(names) - len(self.grouped)}')
                if any(q == 0 for q in G._Qs): self.tags.add('group-with-Q=0')
            else:
                self.emit('tab I', 'ok wf=1')
        elif k == 'new':
            a = np.array(fl(t[1]), float)
            self.arrays.append(a)
            self.emit(op, f'id={len(self.arrays) - 1}')
        elif k == 'newt':
            # the caller's array in another representation: integer / float32 dtype, strided view, read-only
            vals = fl(t[2])
            a = make_typed(t[1], vals)
            if not np.array_equal(np.asarray(a, float), np.array(vals, float)):
                raise ValueError(f'values {vals} are not representable as {t[1]}')
            self.arrays.append(a)
            self.tags.add('dtype:' + t[1])
            self.emit(('newo ' if t[1] in OTHER_DTYPES else 'new ') + t[2], f'id={len(self.arrays) - 1}')
        elif k == 'call':
            T = self.temperature(t[3], t[4] if len(t) > 4 else None)
            arg = self.arrays[int(t[2])] if t[1] == 'nd' else fl(t[2])
            self.tags.add('call-' + t[1])
            if t[1] == 'seq' and abs(sum(arg) - 1.0) > 1e-9: self.tags.add('unnormalised')
            self.evaluate(i, 'call', arg, T, ' '.join(t[:4]))
        elif k == 'f':
            self.tags.add('f-form')
            self.evaluate(i, 'f', self.arrays[int(t[1])], self.temperature(t[2], t[3] if len(t) > 3 else None), ' '.join(t[:3]))
        elif k == 'set':
            # the caller overwrites its own composition array in place (a solver reusing its x buffer)
            a = self.arrays[int(t[1])]
            vals = fl(t[2])
            if a.flags.writeable and len(vals) == len(a) and np.array_equal(np.array(vals, float).astype(a.dtype).astype(float), np.array(vals, float)):
                a[...] = vals
                self.tags.add('caller-rewrites-x')
                self.emit(op, 'ok')
        elif k == 'keepcache':
            pass            # (older replays; histories are now written out in the case itself)
        elif k == 'regroup':
            # the user edits a chemical's group data (all group fields) after model objects may exist
            c = POOL[t[1]]
            for field in ('UNIFAC', 'Dortmund', 'NIST', 'PSRK'):
                gc = getattr(c, field)
                if t[2] == 'clear':
                    self.group_backup.setdefault((t[1], field), dict(gc)); gc.clear()
                elif t[2] == 'bump':
                    # same group ids, another count (a cache keyed on ids without counts would not notice)
                    self.group_backup.setdefault((t[1], field), dict(gc))
                    for g in sorted(gc)[:1]: gc[g] += 1
                else:
                    old = self.group_backup.pop((t[1], field), None)
                    if old is not None:
                        gc.clear(); gc.update(old)
            if t[2] == 'restore': self.group_state.pop(t[1], None)
            else: self.group_state[t[1]] = self.group_state.get(t[1], '') + t[2][0]
            self.tags.add('group-edit:' + t[2])
        elif k == 'gd':
            x = np.array(fl(t[1])); T = from_fbits(t[2]); d = np.array(fl(t[3])); h = from_fbits(t[4])
            xp, xm = (x + h * d).tolist(), (x - h * d).tolist()
            gp = self.evaluate(i, 'call', xp, T, f'call seq {csv(xp)} {t[2]}')
            gm = self.evaluate(i, 'call', xm, T, f'call seq {csv(xm)} {t[2]}')
            self.tags.add('gibbs-duhem-probe')
            if gp is not None and gm is not None and np.all(gp > 0) and np.all(gm > 0):
                dl = (np.log(gp) - np.log(gm)) / (2 * h)
                r = float((x * dl).sum()); s = float((x * np.abs(dl)).sum())
                if not abs(r) <= 2e-6 * (1.0 + s):
                    label = f'{self.kind}{"" if self.is_group else "(ideal)"}'
                    self.fail(f'gibbs-duhem:{label}',
                              f'{type(self.G).__name__}{self.names} x={x.tolist()} T={T} direction={d.tolist()} h={h}: '
                              f'sum x_i dln(gamma_i)/ds = {r:.3e} (scale {s:.3e}); central differences', i)
        elif k == 'ac':
            self.tags.add('activity_coefficients')
            self.eval_ac(i, fl(t[1]), from_fbits(t[2]), op)
        elif k == 'gdac':
            x = np.array(fl(t[1])); T = from_fbits(t[2]); d = np.array(fl(t[3])); h = from_fbits(t[4])
            xp, xm = (x + h * d).tolist(), (x - h * d).tolist()
            gp = self.eval_ac(i, xp, T, f'ac {csv(xp)} {t[2]}')
            gm = self.eval_ac(i, xm, T, f'ac {csv(xm)} {t[2]}')
            self.tags.add('gibbs-duhem-probe-ac')
            if gp is not None and gm is not None and np.all(gp > 0) and np.all(gm > 0):
                dl = (np.log(gp) - np.log(gm)) / (2 * h)
                r = float((x * dl).sum()); s = float((x * np.abs(dl)).sum())
                if not abs(r) <= 2e-6 * (1.0 + s):
                    self.fail(f'gibbs-duhem:{self.kind}/activity_coefficients',
                              f'{type(self.G).__name__}{self.names}.activity_coefficients x={x.tolist()} T={T} '
                              f'direction={d.tolist()} h={h}: sum x_i dln(gamma_i)/ds = {r:.3e} (scale {s:.3e}); central differences', i)
        elif k == 'phi':
            y = np.array(fl(t[1])); T = from_fbits(t[2]); P = from_fbits(t[3])
            chems = tuple(POOL[n] for n in GROUPED[:len(y)])
            before = y.copy()
            self.tags.add('phi')
            ok, M = self.guarded(i, 'phi', 'IdealFugacityCoefficients(chemicals)', lambda: eq.IdealFugacityCoefficients(chems))
            ok1, a = self.guarded(i, 'phi', 'IdealFugacityCoefficients(...)(y, T, P)', lambda: M(y, T, P)) if ok else (False, None)
            ok2, b = self.guarded(i, 'phi', 'IdealFugacityCoefficients(...).f(y, T, P, *args) (the form the flash solvers call)',
                                  lambda: M.f(y, T, P, *M.args)) if ok else (False, None)
            if ok1 and ok2 and (not (np.all(np.asarray(a) == 1.0) and np.all(np.asarray(b) == 1.0)) or not same_bits(before, y)):
                self.fail('ideal-phi', f'IdealFugacityCoefficients: call gives {a!r}, f gives {b!r}, y after {y.tolist()}', i)
            self.emit('phi', 'g=' + csv(np.atleast_1d(np.asarray(a, float))[:1]) if ok1 else 'raised')
        elif k == 'pcf':
            T = from_fbits(t[1]); P = from_fbits(t[2])
            self.tags.add('pcf')
            ok, M = self.guarded(i, 'pcf', 'MockPoyintingCorrectionFactors(chemicals)',
                                 lambda: eq.MockPoyintingCorrectionFactors(tuple(POOL[n] for n in GROUPED[:3])))
            ok1, a = self.guarded(i, 'pcf', 'MockPoyintingCorrectionFactors(...)(T, P)', lambda: M(T, P)) if ok else (False, None)
            if ok1 and not np.all(np.asarray(a) == 1.0):
                self.fail('ideal-pcf', f'MockPoyintingCorrectionFactors(T, P) gives {a!r}', i)
            if ok:
                # the way every solver calls it: pcf(T, P, Psats) with the array of saturation pressures, below and above P
                for Psats in (np.array(fl(t[3])) if len(t) > 3 else np.array([0.5 * P, P, 2.0 * P]),):
                    keep = Psats.copy()
                    okp, c = self.guarded(i, 'pcf', 'MockPoyintingCorrectionFactors(...)(T, P, Psats)', lambda: M(T, P, Psats))
                    self.tags.add('pcf-with-Psats')
                    if okp and (not np.all(np.asarray(c) == 1.0) or not same_bits(keep, Psats)):
                        self.fail('ideal-pcf', f'MockPoyintingCorrectionFactors(T={T}, P={P}, Psats={keep.tolist()}) gives {c!r}; '
                                               f'Psats afterwards {Psats.tolist()}', i)
                    if okp and isinstance(c, np.ndarray): self.check_fresh(i, 'pcf', c, 'MockPoyintingCorrectionFactors(T, P, Psats)')
            for Mi in (eq.IdealActivityCoefficients, eq.IdealFugacityCoefficients):
                okd, obj = self.guarded(i, 'ideal-decorator', Mi.__name__, lambda: Mi(tuple(POOL[n] for n in GROUPED[:3])))
                if okd and not (callable(getattr(obj, 'f', None)) and getattr(obj, 'args', None) == ()):
                    self.fail('ideal-decorator', f'{Mi.__name__}: the @ideal decorator no longer provides f and args == ()', i)
                elif okd:
                    okf, v = self.guarded(i, 'ideal-decorator', Mi.__name__ + '.f()', lambda: obj.f())
                    if okf and v != 1.0: self.fail('ideal-decorator', f'{Mi.__name__}.f() = {v!r}', i)
            self.emit('pcf', 'g=' + csv(np.atleast_1d(np.asarray(a, float))[:1]) if ok1 else 'raised')
        elif k == 'idealf':
            self.tags.add('idealf')
            ok, a = self.guarded(i, 'ideal-f', '_ideal_coefficient()', lambda: ac.ideal.__globals__['_ideal_coefficient']())
            if ok and a != 1.0: self.fail('ideal-f', f'_ideal_coefficient() = {a!r}', i)
            self.emit('idealf', 'g=' + csv([a]) if ok else 'raised')
        else:
            raise ValueError('unknown op ' + op)


def run_impl(case: Case) -> ImplResult:
    setup()
    # a case is a self-contained history of model constructions: start from empty instance caches
    for c in set(CLASSES.values()) | {ac.GroupActivityCoefficients}:
        d = getattr(c, '_cached', None)
        if isinstance(d, dict): d.clear()
    S = Session()
    try:
        for i, op in enumerate(case.ops):
            if S.G is None and op.split(' ')[0] in ('new', 'newt', 'set', 'call', 'f', 'gd', 'ac', 'gdac'):
                if op.startswith('new') or op.startswith('set'):
                    S.apply(i, op)
                continue        # (shrinking may drop the obj line: evaluations without an object are skipped)
            S.apply(i, op)
    finally:
        S.restore_groups()
    return ImplResult(model_in=S.model_in, outs=S.outs, failures=S.failures, tags=sorted(S.tags),
                      nontrivial=(tuple(case.ops) if S.group_evals else None))


def _parse(line):
    d = {}
    for tok in line.split(' '):
        if '=' in tok:
            k, v = tok.split('=', 1); d[k] = v
    return d


def compare(impl_line, model_line):
    if impl_line == model_line: return True
    a, b = _parse(impl_line), _parse(model_line)
    if not a or a.keys() != b.keys() or 'g' not in a: return False
    for k in a:
        if k == 'g': continue
        if a[k] != b[k]: return False
    ga, gb = a['g'].split(','), b['g'].split(',')
    if len(ga) != len(gb): return False
    try:
        return all(core.close(from_fbits(x), from_fbits(y), rtol=1e-9, atol=0.0) for x, y in zip(ga, gb))
    except Exception:
        return False


def disagree_signature(case, res, first):
    kind = '?'
    for l in res.model_in[:first + 1]:
        if l.startswith('tab '): kind = l.split(' ')[1]
    return f'disagree:{res.model_in[first].split(" ")[0]}:{kind}'


# --------------------------------------------------------------------------
# generation
# --------------------------------------------------------------------------

def rand_T(rng):
    r = rng.random()
    if r < 0.1: return rng.choice([250.0, 450.0, 298.15, 350.0])
    return round(rng.uniform(250.0, 450.0), rng.choice([0, 1, 3]))


def simplex_point(rng, n, style):
    if style == 'uniform':
        w = [rng.expovariate(1.0) for _ in range(n)]
    elif style == 'trace':
        w = [rng.choice([1.0, 1.0, 10 ** rng.uniform(-14, -3), 0.0]) * rng.uniform(0.2, 1) for _ in range(n)]
        if sum(w) == 0: w[rng.randrange(n)] = 1.0
    elif style == 'near-vertex':
        i = rng.randrange(n)
        eps = 10 ** rng.uniform(-12, -6.1)
        rest = [rng.random() for _ in range(n)]
        rest[i] = 0.0
        s = sum(rest) or 1.0
        w = [eps * r / s for r in rest]
        w[i] = 1.0 - sum(w)
        return w
    else:  # 'sparse': some exact zeros
        w = [rng.choice([0.0, rng.random()]) for _ in range(n)]
        if sum(w) == 0: w[rng.randrange(n)] = 1.0
    s = sum(w)
    return [v / s for v in w]


def gd_op(rng, n, T):
    """interior point, simplex direction, step"""
    w = [0.02 + rng.expovariate(1.0) for _ in range(n)]
    s = sum(w); x = [v / s for v in w]
    m = rng.randrange(2, n + 1)
    sel = rng.sample(range(n), m)
    d = [0.0] * n
    for j in sel: d[j] = rng.uniform(-1, 1)
    mean = sum(d[j] for j in sel) / m
    for j in sel: d[j] -= mean
    mx = max(abs(v) for v in d) or 1.0
    d = [v / mx for v in d]
    d[sel[0]] -= sum(d)                        # exact zero sum up to rounding
    h = 1e-5 * min(x[j] for j in sel)
    return f'gd {csv(x)} {fbits(T)} {csv(d)} {fbits(h)}'


def pick_names(rng):
    n = rng.choice([2, 2, 3, 3, 3, 4, 4, 5, 6])
    r = rng.random()
    k_nog = 0 if r < 0.45 else (1 if r < 0.8 else 2)
    k_nog = min(k_nog, n)
    if rng.random() < 0.06: k_nog = max(n - 1, 0)        # at most one member with groups: ideal fallback
    names = rng.sample(GROUPED, n - k_nog) + rng.sample(NOGROUP, k_nog)
    rng.shuffle(names)
    return names


def variant_ops(rng, kind, gnames, base, drop):
    """one more model object over the same members-with-groups, in the same relative order, with the members
    without groups at other positions (or dropped); evaluated at the same composition by name"""
    xs, T, extra = base
    tup = list(gnames)
    if not drop:
        for m in extra:
            tup.insert(rng.randrange(len(tup) + 1), m)
    x = [xs[m] for m in tup]
    tot = sum(x)
    if drop: x = [v / tot for v in x]
    i0 = tup.index(rng.choice(gnames))
    return [f'obj {kind} {",".join(tup)}', f'call seq {csv(x)} {fbits(T)}',
            f'call seq {csv([1.0 if j == i0 else 0.0 for j in range(len(tup))])} {fbits(T)}']


_PREV_OBJ = []          # the `obj` lines of the case generated before (same worker)


def gen_case(rng, tier, kind=None, names=None):
    kind = kind or rng.choice('UUUDDDNNI')
    names = names or pick_names(rng)
    n = len(names)
    nid = 0
    T = rand_T(rng)
    ops = []
    # warm instance caches, written out: the constructions of the previous case of this worker come first
    if rng.random() < 0.25 and _PREV_OBJ:
        ops += list(_PREV_OBJ)
    # a second model class over the same tuple (the instance caches are per class)
    kind2 = rng.choice([k for k in 'UDN' if k != kind]) if kind != 'I' else None
    x0 = simplex_point(rng, n, 'uniform'); T0 = rand_T(rng)
    if kind2 and rng.random() < 0.3:
        ops += [f'obj {kind2} {",".join(names)}', f'call seq {csv(x0)} {fbits(T0)}']
    # history of model constructions: the same members-with-groups (same relative order) with members without
    # groups dropped, added, in front, in between, behind -- the instance cache of the classes is keyed on the tuple
    gnames = [m for m in names if m in GROUPED]
    base = None
    if kind != 'I' and len(gnames) >= 2:
        extra = [m for m in names if m in NOGROUP] or [rng.choice(NOGROUP)]
        union = gnames + extra
        w = simplex_point(rng, len(union), 'uniform')
        base = (dict(zip(union, w)), rand_T(rng), extra)
        if rng.random() < 0.5:
            ops += variant_ops(rng, kind, gnames, base, drop=True)
    ops.append(f'obj {kind} {",".join(names)}')
    # every vertex, as ndarray and as list
    verts = list(range(n))
    if tier == 'quick' and n > 3: verts = rng.sample(verts, 3)
    for i in verts:
        e = [1.0 if j == i else 0.0 for j in range(n)]
        r = rng.random()
        if r < 0.3:
            ops.append(f'new {csv(e)}'); ops.append(f'call nd {nid} {fbits(T)}'); nid += 1
        elif r < 0.55:
            ops.append(f'call seq {csv(e)} {fbits(T)}')
        else:
            # a vertex written with whole numbers (integer dtype), or another array representation
            code = rng.choice(['i8', 'i8', 'i4', 'f4', 'f8s', 'f8ro'])
            ops.append(f'newt {code} {csv(e)}')
            forms = rng.choice([['f'], ['call'], ['f', 'call'], ['call', 'f']])
            for fm in forms:
                ops.append(f'f {nid} {fbits(T)}' if fm == 'f' else f'call nd {nid} {fbits(T)}')
            nid += 1
    points = []
    for _ in range(rng.randrange(2, 5)):
        x = simplex_point(rng, n, rng.choice(['uniform', 'uniform', 'trace', 'near-vertex', 'sparse']))
        Tx = rand_T(rng)
        points.append((x, Tx))
        r = rng.random()
        if r < 0.45:
            ops.append(f'new {csv(x)}'); ops.append(f'call nd {nid} {fbits(Tx)}')
            if rng.random() < 0.6: ops.append(f'call nd {nid} {fbits(rand_T(rng) if rng.random() < 0.5 else Tx)}')
            if rng.random() < 0.5: ops.append(f'f {nid} {fbits(Tx)}')
            nid += 1
        elif r < 0.75:
            ops.append(f'call seq {csv(x)} {fbits(Tx)}')
        else:
            ops.append(f'new {csv(x)}'); ops.append(f'f {nid} {fbits(Tx)}'); ops.append(f'call nd {nid} {fbits(Tx)}'); nid += 1
    # interior points in other array representations (float32 needs values it can hold: dyadic fractions)
    for _ in range(rng.randrange(0, 3)):
        code = rng.choice(['f4', 'f8s', 'f8ro'])
        if code == 'f4':
            cuts = sorted(rng.randrange(0, 65) for _ in range(n - 1))
            x = [(b - a) / 64.0 for a, b in zip([0] + cuts, cuts + [64])]
        else:
            x = simplex_point(rng, n, rng.choice(['uniform', 'trace', 'sparse']))
        Tx = rand_T(rng)
        ops.append(f'newt {code} {csv(x)}')
        for fm in rng.choice([['f'], ['call'], ['f', 'call'], ['call', 'f']]):
            ops.append(f'f {nid} {fbits(Tx)}' if fm == 'f' else f'call nd {nid} {fbits(Tx)}')
        nid += 1
    for _ in range(rng.randrange(1, 3)):
        ops.append(gd_op(rng, n, rand_T(rng)))
    ng = sum(1 for m in names if m in GROUPED)        # members with groups (for every class of the pool)
    if kind != 'I' and ng >= 2:
        i0 = rng.randrange(ng)
        ops.append(f'ac {csv([1.0 if j == i0 else 0.0 for j in range(ng)])} {fbits(T)}')
        ops.append(f'ac {csv(simplex_point(rng, ng, rng.choice(["uniform", "trace", "sparse"])))} {fbits(rand_T(rng))}')
        ops.append('gdac ' + gd_op(rng, ng, rand_T(rng))[3:])
    # permuted tuples at the permuted compositions
    perms = list(itertools.permutations(range(n))) if n <= 4 else None
    if perms is not None and tier == 'thorough' and rng.random() < 0.3:
        chosen = perms[1:]
    else:
        chosen = []
        for _ in range(2 if tier == 'quick' else 3):
            p = list(range(n)); rng.shuffle(p)
            if p != list(range(n)): chosen.append(tuple(p))
    for p in chosen:
        ops.append(f'obj {kind} {",".join(names[j] for j in p)}')
        for (x, Tx) in points[:2] + [([1.0 if j == 0 else 0.0 for j in range(n)], T)]:
            xp = [x[j] for j in p]
            if rng.random() < 0.5:
                ops.append(f'call seq {csv(xp)} {fbits(Tx)}')
            else:
                ops.append(f'new {csv(xp)}'); ops.append(f'call nd {nid} {fbits(Tx)}'); nid += 1
    if kind2 and rng.random() < 0.5:
        # class A, class B, class A again over one tuple, same composition
        ops += [f'obj {kind} {",".join(names)}', f'call seq {csv(x0)} {fbits(T0)}',
                f'obj {kind2} {",".join(names)}', f'call seq {csv(x0)} {fbits(T0)}',
                f'obj {kind} {",".join(names)}', f'call seq {csv(x0)} {fbits(T0)}']
    tw = [j for j, m in enumerate(names) if m in TWINS]
    if kind != 'I' and tw and rng.random() < 0.4:
        # the same tuple with one member replaced by its twin: same ID, no group data
        j = rng.choice(tw)
        alt = list(names); alt[j] = names[j] + '~'
        ops += [f'obj {kind} {",".join(names)}', f'call seq {csv(x0)} {fbits(T0)}',
                f'obj {kind} {",".join(alt)}', f'call seq {csv(x0)} {fbits(T0)}',
                f'call seq {csv([1.0 if i == j else 0.0 for i in range(n)])} {fbits(T0)}',
                f'obj {kind} {",".join(names)}', f'call seq {csv(x0)} {fbits(T0)}']
    if GROUP_EDITS and kind != 'I' and gnames and rng.random() < 0.4:
        m = rng.choice(gnames)
        ops += [f'obj {kind} {",".join(names)}', f'call seq {csv(x0)} {fbits(T0)}', f'regroup {m} {rng.choice(["clear", "bump"])}',
                f'obj {kind} {",".join(names)}', f'call seq {csv(x0)} {fbits(T0)}', f'regroup {m} restore',
                f'obj {kind} {",".join(names)}', f'call seq {csv(x0)} {fbits(T0)}']
    if base is not None:
        for _ in range(2 if tier == 'quick' else rng.randrange(2, 5)):
            ops += variant_ops(rng, kind, gnames, base, drop=(rng.random() < 0.25))
    if rng.random() < 0.15:
        ops.append(f'phi {csv(simplex_point(rng, rng.randrange(1, 5), "uniform"))} {fbits(rand_T(rng))} {fbits(rng.choice([101325.0, 5e5, 1e4]))}')
        ops.append(f'pcf {fbits(rand_T(rng))} {fbits(101325.0)}')
        ops.append('idealf')
    # the temperature as an int / NumPy scalar, compositions that are a positive multiple of a simplex point
    out = []
    for op in ops:
        t = op.split(' ')
        if t[0] in ('call', 'f') and rng.random() < 0.12:
            Tv = from_fbits(t[3] if t[0] == 'call' else t[2])
            if Tv == int(Tv): op += ' ' + rng.choice(['Ti', 'Tn', 'T4'])
            else: op += ' Tn'
        if t[0] == 'call' and t[1] == 'seq' and len(t) == 4 and rng.random() < 0.06:
            k = rng.choice([2.0, 0.5, 37.5, 1e-3])
            op = f'call seq {csv([v * k for v in fl(t[2])])} {t[3]}'
        out.append(op)
    # the caller rewrites its own array between evaluations (new -> call -> set -> call / f)
    final, contents = [], {}
    nn = 0
    for op in out:
        final.append(op)
        t = op.split(' ')
        if t[0] == 'new' or (t[0] == 'newt' and t[1] in ('f8s',)):
            contents[nn] = len(fl(t[-1])); nn += 1
        elif t[0] == 'newt':
            nn += 1
        elif t[0] in ('call', 'f') and (t[1] == 'nd' or t[0] == 'f') and rng.random() < 0.35:
            aid = int(t[2] if t[0] == 'call' else t[1])
            if aid in contents:
                x2 = simplex_point(rng, contents[aid], rng.choice(['uniform', 'uniform', 'trace', 'sparse']))
                Tt = t[3] if t[0] == 'call' else t[2]
                final.append(f'set {aid} {csv(x2)}')
                for fm in rng.choice([['call'], ['f'], ['call', 'f'], ['f', 'call']]):
                    final.append(f'call nd {aid} {Tt}' if fm == 'call' else f'f {aid} {Tt}')
    _PREV_OBJ[:] = [op for op in final if op.startswith('obj ')][:12]
    return Case(final, {})


def generate(rng, tier, index, nworkers):
    setup()
    b = budget(tier)
    n = max(1, b['cases'] // nworkers)
    for j in range(n):
        yield gen_case(rng, tier)


def corpus():
    one, half, zero = fbits(1.0), fbits(0.5), fbits(0.0)
    T = fbits(350.0)
    cs = []
    for k in 'UDN':
        # documented points, a vertex on the member without groups (xsum == 0), reuse of the caller's array
        cs.append(Case([f'obj {k} Water,Ethanol,O2', f'new {half},{half},{zero}', f'call nd 0 {T}', f'call nd 0 {T}', f'f 0 {T}',
                        f'call seq {zero},{zero},{one} {T}', f'call seq {one},{zero},{zero} {T}',
                        f'new {zero},{one},{zero}', f'call nd 1 {T}',
                        f'obj {k} O2,Ethanol,Water', f'call seq {zero},{half},{half} {T}']))
        # a subgroup with Q = 0 (quaternary carbon of MTBE)
        cs.append(Case([f'obj {k} MTBE,Water,Hexane', f'call seq {csv([0.25, 0.5, 0.25])} {T}', f'call seq {one},{zero},{zero} {T}',
                        f'gd {csv([0.25, 0.5, 0.25])} {T} {csv([1.0, -0.5, -0.5])} {fbits(1e-6)}']))
        # only one member with groups: the class hands back the ideal model
        cs.append(Case([f'obj {k} Water,O2,N2', f'call seq {csv([0.25, 0.5, 0.25])} {T}', f'new {csv([0.25, 0.5, 0.25])}', f'f 0 {T}']))
    x3 = {'Water': 0.3, 'Ethanol': 0.5, 'O2': 0.2}
    for k in 'UDN':
        # histories of constructions over the same two members with groups (the instance cache of the classes)
        for first, rest in ((('Water', 'Ethanol'), [('Water', 'O2', 'Ethanol'), ('O2', 'Water', 'Ethanol'), ('Water', 'Ethanol', 'O2')]),
                            (('O2', 'Water', 'Ethanol'), [('Water', 'Ethanol'), ('Water', 'Ethanol', 'O2'), ('Water', 'O2', 'Ethanol')])):
            ops = []
            for tup in [first] + rest:
                x = [x3[m] for m in tup]
                if len(tup) == 2: x = [v / 0.8 for v in x]
                ops += [f'obj {k} {",".join(tup)}', f'call seq {csv(x)} {fbits(330.0)}']
            cs.append(Case(ops))
    for k in 'UDNI':
        cs.append(Case([f'obj {k} Water,Ethanol,Acetone,Hexane', f'newt i8 {csv([1, 0, 0, 0])}', f'f 0 {fbits(250.0)}', f'call nd 0 {fbits(250.0)}',
                        f'newt i4 {csv([0, 0, 1, 0])}', f'call nd 1 {T}', f'f 1 {T}',
                        f'newt f4 {csv([0.25, 0.5, 0.125, 0.125])}', f'f 2 {T}', f'call nd 2 {T}',
                        f'newt f8s {csv([0.25, 0.5, 0.125, 0.125])}', f'f 3 {T}', f'newt f8ro {csv([0.1, 0.2, 0.3, 0.4])}', f'call nd 4 {T}', f'f 4 {T}']))
    xb = csv([0.5, 0.5]); Tb = fbits(350.0)
    for a, b in (('D', 'U'), ('U', 'N'), ('N', 'D')):
        cs.append(Case([f'obj {a} Water,Ethanol', f'call seq {xb} {Tb}', f'obj {b} Water,Ethanol', f'call seq {xb} {Tb} Ti',
                        f'obj {a} Water,Ethanol', f'call seq {xb} {Tb} Tn', f'obj {b} Water,Ethanol', f'call seq {xb} {Tb}']))
    for k in 'UDN':
        cs.append(Case([f'obj {k} Water,Ethanol,Acetone', f'call seq {csv([0.25, 0.5, 0.25])} {Tb}',
                        f'obj {k} Water,Ethanol~,Acetone', f'call seq {csv([0.25, 0.5, 0.25])} {Tb}', f'call seq {csv([0.0, 1.0, 0.0])} {Tb}',
                        f'obj {k} Water,Ethanol~', f'call seq {xb} {Tb}',
                        f'obj {k} Water,Ethanol,Acetone', f'call seq {csv([0.25, 0.5, 0.25])} {Tb}']))
    for k in 'UDNI':
        cs.append(Case([f'obj {k} Water,Ethanol,Acetone', f'new {csv([0.25, 0.5, 0.25])}', f'call nd 0 {Tb}', f'set 0 {csv([0.5, 0.25, 0.25])}',
                        f'call nd 0 {Tb}', f'f 0 {Tb}', f'set 0 {csv([0.0, 0.0, 1.0])}', f'f 0 {Tb}', f'call nd 0 {Tb}',
                        f'pcf {Tb} {fbits(101325.0)} {csv([5e4, 101325.0, 3e5])}', f'phi {csv([0.5, 0.5])} {Tb} {fbits(101325.0)}']))
    cs.append(Case(['obj I Water,Ethanol', f'call seq {half},{half} {T}', f'new {half},{half}', f'call nd 0 {T}', f'f 0 {T}',
                    f'phi {half},{half} {T} {fbits(101325.0)}', f'pcf {T} {fbits(101325.0)}', 'idealf']))
    return cs


def search(case, rng, budget_s):
    """near a model/code disagreement, look for a failure of the property itself on the real code"""
    setup()
    head = next((l for l in case.ops if l.startswith('obj ')), None)
    if head is None: return None
    _, kind, names = head.split(' ')
    t0 = time.time()
    while time.time() - t0 < budget_s:
        c = gen_case(rng, 'thorough', kind=kind, names=names.split(','))
        try:
            res = run_impl(c)
        except Exception:
            continue
        if res.failures: return c
    return None
